(* Insertion sort and the slices.BinarySearchFunc loop, over an abstract three-way comparator. *)
From Coq Require Import List Arith Lia Permutation Bool PeanoNat.
Import ListNotations.

Section Sort.
  Context {A : Type}.
  Variable cmp : A -> A -> comparison.

  Definition leb (a b : A) : bool := match cmp a b with Gt => false | _ => true end.
  Definition ltb (a b : A) : bool := match cmp a b with Lt => true | _ => false end.

  Fixpoint insert (x : A) (l : list A) : list A :=
    match l with
    | [] => [x]
    | y :: l' => if leb x y then x :: l else y :: insert x l'
    end.

  Fixpoint isort (l : list A) : list A :=
    match l with
    | [] => []
    | x :: l' => insert x (isort l')
    end.

  Lemma insert_perm x l : Permutation (x :: l) (insert x l).
  Proof.
    induction l as [|y l IH]; simpl; [reflexivity|].
    destruct (leb x y); [reflexivity|].
    rewrite perm_swap. constructor. exact IH.
  Qed.

  Lemma isort_perm l : Permutation l (isort l).
  Proof.
    induction l as [|x l IH]; simpl; [constructor|].
    rewrite <- insert_perm. constructor. exact IH.
  Qed.

  Lemma isort_length l : length (isort l) = length l.
  Proof. symmetry. apply Permutation_length, isort_perm. Qed.

  Fixpoint all_gt (x : A) (l : list A) : bool :=
    match l with [] => true | y :: l' => ltb x y && all_gt x l' end.

  (* strictly increasing w.r.t. cmp *)
  Fixpoint ssorted (l : list A) : bool :=
    match l with [] => true | x :: l' => all_gt x l' && ssorted l' end.

  Lemma all_gt_In x l : all_gt x l = true <-> (forall y, In y l -> ltb x y = true).
  Proof.
    induction l as [|z l IH]; simpl.
    - split; [intros _ y []|reflexivity].
    - rewrite andb_true_iff, IH. split.
      + intros [H1 H2] y [<-|Hy]; auto.
      + intros H; split; [apply H; left; reflexivity|intros y Hy; apply H; right; exact Hy].
  Qed.

  Hypothesis cmp_antisym : forall a b, cmp b a = CompOpp (cmp a b).
  Hypothesis cmp_lt_trans : forall a b c, cmp a b = Lt -> cmp b c = Lt -> cmp a c = Lt.

  Lemma ltb_trans a b c : ltb a b = true -> ltb b c = true -> ltb a c = true.
  Proof.
    unfold ltb. destruct (cmp a b) eqn:E1; try discriminate.
    destruct (cmp b c) eqn:E2; try discriminate. intros _ _.
    rewrite (cmp_lt_trans _ _ _ E1 E2). reflexivity.
  Qed.

  Lemma ltb_asym a b : ltb a b = true -> ltb b a = false.
  Proof. unfold ltb. rewrite (cmp_antisym a b). destruct (cmp a b); simpl; intros; congruence. Qed.

  Lemma cmp_refl_eq a : cmp a a = Eq.
  Proof. generalize (cmp_antisym a a). destruct (cmp a a); simpl; intros; congruence. Qed.

  Lemma ssorted_In_cases l : ssorted l = true ->
    forall x y, In x l -> In y l -> x = y \/ ltb x y = true \/ ltb y x = true.
  Proof.
    induction l as [|z l IH]; intros HS x y Hx Hy; [destruct Hx|].
    simpl in HS. apply andb_true_iff in HS as [G S]. rewrite all_gt_In in G.
    destruct Hx as [->|Hx], Hy as [->|Hy]; auto.
  Qed.

  Lemma ssorted_NoDup l : ssorted l = true -> NoDup l.
  Proof.
    induction l as [|z l IH]; intros HS; [constructor|].
    simpl in HS. apply andb_true_iff in HS as [G S]. rewrite all_gt_In in G.
    constructor; [|auto]. intros Hz. specialize (G _ Hz). unfold ltb in G.
    rewrite cmp_refl_eq in G. discriminate.
  Qed.

  (* a strictly sorted list is determined by its elements *)
  Lemma ssorted_perm_unique l1 : forall l2,
    ssorted l1 = true -> ssorted l2 = true -> Permutation l1 l2 -> l1 = l2.
  Proof.
    induction l1 as [|x l1 IH]; intros l2 H1 H2 HP.
    - apply Permutation_nil in HP. subst. reflexivity.
    - destruct l2 as [|y l2]; [apply Permutation_sym, Permutation_nil in HP; discriminate|].
      simpl in H1, H2. apply andb_true_iff in H1 as [G1 S1]. apply andb_true_iff in H2 as [G2 S2].
      rewrite all_gt_In in G1, G2.
      assert (x = y) as ->.
      { assert (Hx : In x (y :: l2)) by (eapply Permutation_in; [exact HP|left; reflexivity]).
        assert (Hy : In y (x :: l1)) by (eapply Permutation_in; [apply Permutation_sym; exact HP|left; reflexivity]).
        destruct Hx as [->|Hx]; [reflexivity|]. destruct Hy as [->|Hy]; [reflexivity|].
        specialize (G1 _ Hy). specialize (G2 _ Hx). apply ltb_asym in G1. congruence. }
      f_equal. apply IH; auto. eapply Permutation_cons_inv; exact HP.
  Qed.

  Lemma insert_ssorted x l :
    ssorted l = true -> (forall y, In y l -> cmp x y <> Eq) -> ssorted (insert x l) = true.
  Proof.
    induction l as [|y l IH]; intros HS Hd; simpl; [reflexivity|].
    simpl in HS. apply andb_true_iff in HS as [G S].
    assert (Hxy := Hd y (or_introl eq_refl)).
    unfold leb. destruct (cmp x y) eqn:E; [congruence| |].
    - simpl. rewrite G, S, !andb_true_r. unfold ltb at 1. rewrite E. simpl.
      apply all_gt_In. intros z Hz. rewrite all_gt_In in G.
      apply ltb_trans with y; [unfold ltb; rewrite E; reflexivity|apply G; exact Hz].
    - simpl. rewrite IH; [|exact S|intros z Hz; apply Hd; right; exact Hz].
      rewrite andb_true_r. apply all_gt_In. intros z Hz.
      apply (Permutation_in _ (Permutation_sym (insert_perm x l))) in Hz.
      destruct Hz as [<-|Hz].
      + unfold ltb. rewrite (cmp_antisym x y), E. reflexivity.
      + rewrite all_gt_In in G. apply G. exact Hz.
  Qed.

  Lemma isort_ssorted l :
    NoDup l -> (forall x y, In x l -> In y l -> cmp x y = Eq -> x = y) ->
    ssorted (isort l) = true.
  Proof.
    induction l as [|x l IH]; intros HN Hinj; simpl; [reflexivity|].
    inversion HN as [|? ? Hnot HN']; subst.
    apply insert_ssorted.
    - apply IH; [exact HN'|]. intros a b Ha Hb. apply Hinj; right; assumption.
    - intros y Hy E. apply (Permutation_in _ (Permutation_sym (isort_perm l))) in Hy.
      assert (x = y) by (apply Hinj; [left; reflexivity|right; exact Hy|exact E]).
      subst. contradiction.
  Qed.

  (* "the events, once ordered": any strictly sorted permutation of l is what isort computes *)
  Theorem isort_unique l s :
    Permutation s l -> ssorted s = true -> isort l = s.
  Proof.
    intros HP HS. symmetry. apply ssorted_perm_unique; [exact HS| |].
    - apply isort_ssorted.
      + eapply Permutation_NoDup; [exact HP|apply ssorted_NoDup; exact HS].
      + intros x y Hx Hy E.
        apply (Permutation_in _ (Permutation_sym HP)) in Hx.
        apply (Permutation_in _ (Permutation_sym HP)) in Hy.
        destruct (ssorted_In_cases s HS x y Hx Hy) as [H|[H|H]]; [exact H| |].
        * unfold ltb in H. rewrite E in H. discriminate.
        * unfold ltb in H. rewrite (cmp_antisym x y), E in H. discriminate.
    - rewrite HP. apply isort_perm.
  Qed.
End Sort.

(* slices.BinarySearchFunc:  i, j := 0, n; for i < j { h := (i+j)/2; if cmp(x[h],t) < 0 { i = h+1 } else { j = h } } *)
Section BSearch.
  Context {A : Type}.
  Variable below : A -> bool.          (* cmp(x[h], target) < 0 *)
  Variable d : A.

  Fixpoint bs_loop (fuel i j : nat) (x : list A) : nat :=
    match fuel with
    | 0 => i
    | S f =>
        if i <? j then
          let h := (i + j) / 2 in
          if below (nth h x d) then bs_loop f (h + 1) j x else bs_loop f i h x
        else i
    end.

  Definition bsearch_idx (x : list A) : nat := bs_loop (length x) 0 (length x) x.

  Lemma bs_loop_spec a b : forallb below a = true -> forallb (fun e => negb (below e)) b = true ->
    forall fuel i j, i <= length a <= j -> j <= length (a ++ b) -> j - i <= fuel ->
    bs_loop fuel i j (a ++ b) = length a.
  Proof.
    intros Ha Hb. induction fuel as [|f IH]; intros i j Hij Hj Hf; cbn [bs_loop].
    - lia.
    - destruct (Nat.ltb_spec i j) as [Hlt|Hge]; [|lia].
      assert (Hh : i <= (i + j) / 2 < j).
      { split; [apply Nat.div_le_lower_bound; lia|apply Nat.div_lt_upper_bound; lia]. }
      set (h := (i + j) / 2) in *.
      destruct (below (nth h (a ++ b) d)) eqn:E.
      + assert (h < length a).
        { destruct (Nat.lt_ge_cases h (length a)) as [|Hge]; [assumption|exfalso].
          rewrite app_nth2 in E by lia.
          rewrite forallb_forall in Hb.
          assert (Hin : In (nth (h - length a) b d) b).
          { apply nth_In. rewrite app_length in Hj. lia. }
          specialize (Hb _ Hin). rewrite E in Hb. discriminate. }
        apply IH; lia.
      + assert (length a <= h).
        { destruct (Nat.lt_ge_cases h (length a)) as [Hl|]; [exfalso|assumption].
          rewrite app_nth1 in E by lia.
          rewrite forallb_forall in Ha.
          specialize (Ha _ (nth_In a d Hl)). congruence. }
        apply IH; lia.
  Qed.

  Theorem bsearch_idx_spec a b :
    forallb below a = true -> forallb (fun e => negb (below e)) b = true ->
    bsearch_idx (a ++ b) = length a.
  Proof.
    intros Ha Hb. unfold bsearch_idx. apply bs_loop_spec; auto; rewrite ?app_length; lia.
  Qed.
End BSearch.

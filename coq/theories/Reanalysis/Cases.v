(* C12 - case records of the correspondence / oracle run and the declarative checks ("spec")
   that are evaluated on the implementation's own outputs. No proofs here. *)
From Coq Require Import List ZArith NArith Bool.
From Scalibr Require Import Lib.SortSearch Reanalysis.Patch.
Import ListNotations.
Open Scope N_scope.

(* ------------------------------------------------------------------ equality of observables *)
Fixpoint list_eqb {A} (e : A -> A -> bool) (a b : list A) : bool :=
  match a, b with
  | [], [] => true
  | x :: a', y :: b' => e x y && list_eqb e a' b'
  | _, _ => false
  end.
Definition pkg_eqb (a b : pkg) : bool := N.eqb (fst a) (fst b) && N.eqb (snd a) (snd b).
Definition vuln_eqb (a b : vuln) : bool := N.eqb (v_id a) (v_id b) && list_eqb pkg_eqb (v_pkgs a) (v_pkgs b).
Definition update_eqb (a b : update) : bool :=
  N.eqb (u_name a) (u_name b) && N.eqb (u_from a) (u_from b) && N.eqb (u_to a) (u_to b) &&
  rtype_eqb (u_type a) (u_type b) && Bool.eqb (u_transitive a) (u_transitive b).
Definition patch_eqb (a b : patch) : bool :=
  list_eqb update_eqb (p_updates a) (p_updates b) && list_eqb vuln_eqb (p_fixed a) (p_fixed b) &&
  list_eqb vuln_eqb (p_introduced a) (p_introduced b).
Definition rvuln_eqb (a b : rvuln) : bool :=
  N.eqb (o_id a) (o_id b) && list_eqb pkg_eqb (o_pkgs a) (o_pkgs b) && Bool.eqb (o_unactionable a) (o_unactionable b).

Definition ids (l : list vuln) : list N := map v_id l.
Fixpoint nodupN (l : list N) : bool := match l with [] => true | x :: l' => negb (memN x l') && nodupN l' end.
Fixpoint strictly_increasing (l : list N) : bool :=
  match l with
  | [] => true
  | x :: l' => match l' with [] => true | y :: _ => N.ltb x y && strictly_increasing l' end
  end.

(* ------------------------------------------------------------------ ConstructPatches: declarative check *)
(* every update is justified by a requirement of the new manifest, and every new or changed
   requirement has its update; the list is strictly sorted *)
Definition update_justified (mgmt : rtype) (old new : list req) (u : update) : bool :=
  existsb (fun r =>
    N.eqb (r_name r) (u_name u) && N.eqb (r_ver r) (u_to u) &&
    match find_last (key r) old with
    | None => N.eqb (u_from u) 0 && rtype_eqb (u_type u) mgmt && u_transitive u
    | Some o => N.eqb (u_from u) (r_ver o) && negb (N.eqb (r_ver r) (r_ver o)) && rtype_eqb (u_type u) (r_type o) &&
                Bool.eqb (u_transitive u) (negb (is_direct old (r_name r)))
    end) new.
Definition req_covered (mgmt : rtype) (old : list req) (ups : list update) (r : req) : bool :=
  match find_last (key r) old with
  | None => existsb (fun u => N.eqb (u_name u) (r_name r) && N.eqb (u_to u) (r_ver r) && N.eqb (u_from u) 0) ups
  | Some o => N.eqb (r_ver r) (r_ver o) ||
              existsb (fun u => N.eqb (u_name u) (r_name r) && N.eqb (u_to u) (r_ver r) && N.eqb (u_from u) (r_ver o)) ups
  end.
Fixpoint strictly_sorted {A} (c : A -> A -> comparison) (l : list A) : bool :=
  match l with
  | [] => true
  | x :: l' => match l' with [] => true | y :: _ => (match c x y with Lt => true | _ => false end) && strictly_sorted c l' end
  end.

Definition construct_spec (mgmt : rtype) (old new : resolved) (p : patch) : bool :=
  let o := ids (m_vulns old) in
  let n := ids (m_vulns new) in
  let fx := ids (p_fixed p) in
  let it := ids (p_introduced p) in
  (* fixed = old without new, introduced = new without old, both sorted by ID without repetition *)
  strictly_increasing fx && strictly_increasing it &&
  seteqN fx (diffN o n) &&
  (negb (nodupN n) || seteqN it (diffN n o)) &&
  (* packages reported for a vulnerability are the ones listed with it *)
  forallb (fun v => existsb (fun w => vuln_eqb v w) (m_vulns old)) (p_fixed p) &&
  forallb (fun v => existsb (fun w => vuln_eqb v w) (m_vulns new)) (p_introduced p) &&
  forallb (update_justified mgmt (m_reqs old) (m_reqs new)) (p_updates p) &&
  forallb (req_covered mgmt (m_reqs old) (p_updates p)) (m_reqs new) &&
  strictly_sorted update_cmp (p_updates p) &&
  (* the property's algebra and the round trip, on the implementation's own output *)
  (negb (nodupN n) ||
     (seteqN n (expected_after o fx it) && subsetN fx o && disjointN it o)) &&
  (negb (roundtrip_domain mgmt (m_reqs old) (m_reqs new)) ||
     req_equivb (apply_updates (p_updates p) (m_reqs old)) (m_reqs new)).

Record ccase := { cc_mgmt : rtype; cc_old : resolved; cc_new : resolved; cc_obs : patch }.
Definition ccase_model_ok (c : ccase) : bool :=
  patch_eqb (construct_patches (cc_mgmt c) (cc_old c) (cc_new c)) (cc_obs c).
Definition ccase_spec_ok (c : ccase) : bool := construct_spec (cc_mgmt c) (cc_old c) (cc_new c) (cc_obs c).

(* ------------------------------------------------------------------ choosePatches: declarative check *)
(* the chosen list is obtained by walking the candidates in order: a candidate is taken iff it
   conflicts with nothing taken before it (and is allowed), until the maximum is reached *)
Definition conflicts (p q : patch) : bool :=
  existsb (fun c => mem_pkg c (changes q)) (changes p) || existsb (fun i => memN i (fixed_ids q)) (fixed_ids p).
Fixpoint choose_spec (all obs taken : list patch) (max : Z) (ni : bool) : bool :=
  match all with
  | [] => match obs with [] => true | _ => false end
  | p :: rest =>
      if (0 <? max)%Z && (Z.of_nat (length taken) =? max)%Z then match obs with [] => true | _ => false end
      else
        let ok := negb (existsb (conflicts p) taken) && negb (ni && nonempty (p_introduced p)) in
        match obs with
        | q :: obs' => if ok then patch_eqb p q && choose_spec rest obs' (taken ++ [p]) max ni
                       else choose_spec rest obs taken max ni
        | [] => negb ok && choose_spec rest [] taken max ni
        end
  end.
Record hcase := { hc_all : list patch; hc_max : Z; hc_ni : bool; hc_obs : list patch }.
Definition hcase_model_ok (c : hcase) : bool :=
  list_eqb patch_eqb (choose_patches (hc_all c) (hc_max c) (hc_ni c)) (hc_obs c).
Definition hcase_spec_ok (c : hcase) : bool :=
  choose_spec (hc_all c) (hc_obs c) [] (hc_max c) (hc_ni c) &&
  ((hc_max c <=? 0)%Z || (Z.of_nat (length (hc_obs c)) <=? hc_max c)%Z) &&
  (negb (hc_ni c) || forallb (fun p => negb (nonempty (p_introduced p))) (hc_obs c)).

(* ------------------------------------------------------------------ computeVulnsResult: declarative check *)
Definition vulns_result_spec (vulns : list vuln) (all : list patch) (obs : list rvuln) : bool :=
  Nat.eqb (length obs) (length vulns) &&
  (negb (nodupN (ids vulns)) ||
    (strictly_increasing (map o_id obs) &&
     forallb (fun v => existsb (fun e =>
         N.eqb (o_id e) (v_id v) &&
         Bool.eqb (o_unactionable e) (negb (existsb (fun p => memN (v_id v) (fixed_ids p)) all)) &&
         strictly_sorted pkg_cmp (o_pkgs e) &&
         forallb (fun q => existsb (pkg_eqb q) (v_pkgs v)) (o_pkgs e) &&
         forallb (fun q => existsb (pkg_eqb q) (o_pkgs e)) (v_pkgs v)) obs) vulns)).
Record vcase := { vc_vulns : list vuln; vc_all : list patch; vc_obs : list rvuln }.
Definition vcase_model_ok (c : vcase) : bool :=
  list_eqb rvuln_eqb (compute_vulns_result (vc_vulns c) (vc_all c)) (vc_obs c).
Definition vcase_spec_ok (c : vcase) : bool := vulns_result_spec (vc_vulns c) (vc_all c) (vc_obs c).

(* ------------------------------------------------------------------ ResolveGraphVulns / MatchVuln *)
(* the sentence in the options' documentation: IgnoreVulns = "IDs to ignore" (IDs and aliases both
   count), ExplicitVulns = "if set, only consider these IDs and ignore all others" *)
Definition filter_spec (o : ropts) (v : fvuln) : bool :=
  negb (memN (f_id v) (o_ignore o)) && forallb (fun a => negb (memN a (o_ignore o))) (f_aliases v) &&
  (match o_explicit o with [] => true | _ => false end || memN (f_id v) (o_explicit o)) &&
  (o_dev_deps o || negb (f_dev_only v)) && f_sev_ok v && f_depth_ok v.
Record fcase := { fc_opts : ropts; fc_all : list fvuln; fc_ignore_after : list N; fc_kept : list N }.
Definition fcase_model_ok (c : fcase) : bool :=
  let (o', kept) := resolve_graph_vulns (fc_opts c) (fc_all c) in
  list_eqb N.eqb (o_ignore o') (fc_ignore_after c) && list_eqb N.eqb (map f_id kept) (fc_kept c).
Definition fcase_spec_ok (c : fcase) : bool :=
  list_eqb N.eqb (map f_id (filter (filter_spec (fc_opts c)) (fc_all c))) (fc_kept c).

(* ------------------------------------------------------------------ depth and severity filters *)
(* declarative side, evaluated the other way round: walk DOWN from the root along child edges *)
Definition children (edges : list edge) (n : N) : list N :=
  map snd (filter (fun e => N.eqb (fst e) n && negb (N.eqb (fst e) (snd e))) edges).
Fixpoint down (k : nat) (edges : list edge) (n : N) : list N :=
  match k with
  | O => [n]
  | S k' => let l := down k' edges n in add_new l (flat_map (children edges) l)
  end.
(* "some affected node is within MaxDepth of the root" - or is not below the root at all, in which
   case the implementation reads distance 0 *)
Definition depth_spec (maxd : Z) (numnodes : nat) (edges : list edge) (nodes : list N) : bool :=
  (maxd <=? 0)%Z ||
  existsb (fun n => memN n (down (Z.to_nat maxd) edges 0) || negb (memN n (down numnodes edges 0))) nodes.
Definition severity_spec (thr : Z) (top aff : list score) : bool :=
  let sel := match top with [] => aff | _ => top end in
  forallb (fun s => match s with None => true | Some _ => false end) sel ||
  existsb (fun s => match s with Some x => (thr <=? x)%Z | None => false end) sel.

Record gobs := { go_sev_ok : bool; go_depth_ok : bool; go_matched : bool; go_dists : list Z }.
Record gcase := { gc_opts : ropts; gc_th : thresholds; gc_numnodes : nat; gc_edges : list edge;
                  gc_vulns : list (gvuln * gobs) }.
Definition gcase_model_ok (c : gcase) : bool :=
  forallb (fun go : gvuln * gobs => let (g, ob) := go in
     Bool.eqb (match_severity (th_sev (gc_th c)) (g_top g) (g_aff g)) (go_sev_ok ob) &&
     Bool.eqb (match_depth (th_depth (gc_th c)) (gc_numnodes c) (gc_edges c) (g_nodes g)) (go_depth_ok ob) &&
     list_eqb Z.eqb (map (root_dist (gc_numnodes c) (gc_edges c)) (g_nodes g)) (go_dists ob) &&
     Bool.eqb (match_vuln_full (gc_opts c) (gc_th c) (gc_numnodes c) (gc_edges c) g) (go_matched ob)) (gc_vulns c).
Definition gcase_spec_ok (c : gcase) : bool :=
  forallb (fun go : gvuln * gobs => let (g, ob) := go in
     Bool.eqb (severity_spec (th_sev (gc_th c)) (g_top g) (g_aff g)) (go_sev_ok ob) &&
     Bool.eqb (depth_spec (th_depth (gc_th c)) (gc_numnodes c) (gc_edges c) (g_nodes g)) (go_depth_ok ob)) (gc_vulns c).

(* ------------------------------------------------------------------ the two-run case *)
Record cand := { cd_reqs : list req; cd_all : list fvuln; cd_obs : patch }.
Record tcase := {
  tc_opts : ropts; tc_max : Z; tc_ni : bool; tc_mgmt : rtype;
  tc_ok : bool;                      (* all three runs returned without error *)
  tc_reqs0 : list req; tc_all0 : list fvuln;       (* first analysis (trace) *)
  tc_all_patches : list patch;                     (* the strategy's candidate patches (trace) *)
  tc_cands : list cand;                            (* per candidate: patched requirements, its vulnerabilities, ConstructPatches output *)
  tc_res_vulns : list rvuln; tc_res_patches : list patch;   (* run 1: what FixVulns reported *)
  tc_reqs2 : list req; tc_all2 : list fvuln;       (* run 2: fresh analysis of the written file *)
  tc_ids2 : list N;                                (* ... and the IDs it reports *)
  tc_ids2b : list N }.                             (* IDs in Result.Vulnerabilities of a literal second FixVulns *)

Definition tcase_model_ok (c : tcase) : bool :=
  negb (tc_ok c) ||
  (let (o1, kept0) := resolve_graph_vulns (tc_opts c) (tc_all0 c) in
   let orig := {| m_reqs := tc_reqs0 c; m_vulns := map to_vuln kept0 |} in
   list_eqb rvuln_eqb (compute_vulns_result (m_vulns orig) (tc_all_patches c)) (tc_res_vulns c) &&
   list_eqb patch_eqb (choose_patches (tc_all_patches c) (tc_max c) (tc_ni c)) (tc_res_patches c) &&
   forallb (fun d => patch_eqb
              (construct_patches (tc_mgmt c) orig
                 {| m_reqs := cd_reqs d; m_vulns := map to_vuln (filter_vulns o1 (cd_all d)) |})
              (cd_obs d)) (tc_cands c) &&
   (* the model's prediction of the fresh analysis *)
   list_eqb N.eqb (map f_id (snd (resolve_graph_vulns (tc_opts c) (tc_all2 c)))) (tc_ids2 c) &&
   list_eqb N.eqb (tc_ids2 c) (tc_ids2b c)).

Definition find_rvuln (i : N) (l : list rvuln) : option rvuln := find (fun e => N.eqb (o_id e) i) l.

(* the property sentence, on what the implementation reported and wrote *)
Definition single_patch_ok (c : tcase) : bool :=
  match tc_res_patches c with
  | [p] => seteqN (tc_ids2 c) (expected_after (map o_id (tc_res_vulns c)) (fixed_ids p) (ids (p_introduced p)))
  | _ => true
  end.
Definition no_patch_ok (c : tcase) : bool :=
  match tc_res_patches c with
  | [] => req_equivb (tc_reqs0 c) (tc_reqs2 c)
  | _ => true
  end.
Definition unactionable_ok (c : tcase) : bool :=
  forallb (fun p => forallb (fun i => match find_rvuln i (tc_res_vulns c) with
                                       | Some e => negb (o_unactionable e)
                                       | None => false end) (fixed_ids p)) (tc_res_patches c).
(* each candidate re-applied in memory reproduces itself (round trip at the implementation level) *)
(* packages of a vulnerability are compared as sorted lists: their listed order follows the node
   numbering of the resolved graph, which may depend on the order requirements were patched in *)
Definition vuln_sim (a b : vuln) : bool :=
  N.eqb (v_id a) (v_id b) && list_eqb pkg_eqb (isort pkg_cmp (v_pkgs a)) (isort pkg_cmp (v_pkgs b)).
Definition patch_sim (a b : patch) : bool :=
  list_eqb update_eqb (p_updates a) (p_updates b) && list_eqb vuln_sim (p_fixed a) (p_fixed b) &&
  list_eqb vuln_sim (p_introduced a) (p_introduced b).
Definition cands_reproduce (c : tcase) : bool :=
  Nat.leb (length (tc_cands c)) (length (tc_all_patches c)) &&
  forallb (fun dp => negb (roundtrip_domain (tc_mgmt c) (tc_reqs0 c) (cd_reqs (fst dp))) ||
                     patch_sim (cd_obs (fst dp)) (snd dp))
          (combine (tc_cands c) (tc_all_patches c)).

Definition tcase_spec_ok (c : tcase) : bool :=
  negb (tc_ok c) ||
  (no_patch_ok c && unactionable_ok c && cands_reproduce c && single_patch_ok c).

(* C12 - a reported fix is a real fix.
   Model of  remediation.ConstructPatches (remediation.go), remediation.ResolveGraphVulns (the
   vulnerability filtering step, including its append to IgnoreVulns), remediation.MatchVuln
   (match.go), guidedremediation.choosePatches / computeVulnsResult (guidedremediation.go), the
   two Manifest.PatchRequirement implementations, and the analyse-fix-write-analyse pipeline of
   doStrategy.  Executable Gallina only; proofs are in Proofs.v.

   Strings (vulnerability IDs, package names, versions) are numbers: the harness numbers the
   strings of one case by their rank under Go string comparison, "" always being 0, so that
   cmp.Compare / strings.Compare on strings is N.compare on numbers and == is N.eqb. *)
From Coq Require Import List ZArith NArith Bool.
From Scalibr Require Import Lib.SortSearch.
Import ListNotations.
Open Scope N_scope.

(* ------------------------------------------------------------------ data *)
(* dep.Type of a requirement: its rank under dep.Type.Compare, the part of it that enters the
   requirement key (npm: KnownAs; Maven: ArtifactType + Classifier), and its MavenDependencyOrigin
   attribute (0 absent, 1 "management", 2 anything else). *)
Record rtype := { t_rank : N; t_tk : N; t_origin : N }.
Record req := { r_name : N; r_ver : N; r_type : rtype }.
Definition rkey := (N * N)%type.
Definition key (r : req) : rkey := (r_name r, t_tk (r_type r)).      (* resolution.MakeRequirementKey *)

Definition pkg := (N * N)%type.                                       (* result.Package *)
(* a vulnerability as ConstructPatches / computeVulnsResult see it: its ID and, per subgraph, the
   (name, version) of the node the subgraph ends in *)
Record vuln := { v_id : N; v_pkgs : list pkg }.

Record update := { u_name : N; u_from : N; u_to : N; u_type : rtype; u_transitive : bool }.
Record patch := { p_updates : list update; p_fixed : list vuln; p_introduced : list vuln }.

Record resolved := { m_reqs : list req; m_vulns : list vuln }.        (* remediation.ResolvedManifest *)

Definition memN (x : N) (l : list N) : bool := existsb (N.eqb x) l.
Definition key_eqb (a b : rkey) : bool := N.eqb (fst a) (fst b) && N.eqb (snd a) (snd b).
Definition mem_key (k : rkey) (l : list rkey) : bool := existsb (key_eqb k) l.
Definition rtype_eqb (a b : rtype) : bool :=
  N.eqb (t_rank a) (t_rank b) && N.eqb (t_tk a) (t_tk b) && N.eqb (t_origin a) (t_origin b).

(* ------------------------------------------------------------------ ConstructPatches *)
(* Go map written in a loop: a later entry with the same ID replaces the earlier one *)
Fixpoint upsert (v : vuln) (m : list vuln) : list vuln :=
  match m with
  | [] => [v]
  | w :: m' => if N.eqb (v_id w) (v_id v) then v :: m' else w :: upsert v m'
  end.
Definition has_id (i : N) (m : list vuln) : bool := existsb (fun w => N.eqb (v_id w) i) m.
Definition del_id (i : N) (m : list vuln) : list vuln := filter (fun w => negb (N.eqb (v_id w) i)) m.

(* for _, v := range newRes.Vulns { if _, ok := fixed[id]; !ok { introduced[id] = v } else { delete(fixed, id) } } *)
Definition diff_step (st : list vuln * list vuln) (v : vuln) : list vuln * list vuln :=
  let (fx, intro) := st in
  if has_id (v_id v) fx then (del_id (v_id v) fx, intro) else (fx, upsert v intro).

Definition vuln_cmp (a b : vuln) : comparison := N.compare (v_id a) (v_id b).

Definition vuln_diff (old_vulns new_vulns : list vuln) : list vuln * list vuln :=
  let fixed0 := fold_left (fun m v => upsert v m) old_vulns [] in
  let (fx, intro) := fold_left diff_step new_vulns (fixed0, []) in
  (isort vuln_cmp fx, isort vuln_cmp intro).

(* oldReqs[key] after the loop that fills the map: the last requirement with that key *)
Fixpoint find_last (k : rkey) (l : list req) : option req :=
  match l with
  | [] => None
  | r :: l' => match find_last k l' with
               | Some x => Some x
               | None => if key_eqb (key r) k then Some r else None
               end
  end.

(* slices.ContainsFunc(oldRes.Manifest.Requirements(), same name and origin != management) *)
Definition is_direct (old : list req) (name : N) : bool :=
  existsb (fun r => N.eqb (r_name r) name && negb (N.eqb (t_origin (r_type r)) 1)) old.

Definition req_update (mgmt : rtype) (old : list req) (r : req) : list update :=
  match find_last (key r) old with
  | None => [ {| u_name := r_name r; u_from := 0; u_to := r_ver r; u_type := mgmt; u_transitive := true |} ]
  | Some o =>
      if N.eqb (r_ver r) (r_ver o) then []
      else [ {| u_name := r_name r; u_from := r_ver o; u_to := r_ver r; u_type := r_type o;
                u_transitive := negb (is_direct old (r_name r)) |} ]
  end.

Definition lex (c1 c2 : comparison) : comparison := match c1 with Eq => c2 | _ => c1 end.
(* dep.Type.Compare is the rank; the two projections are compared as well so that the comparator
   is total on the record (they are functions of the rank in every harness case) *)
Definition rtype_cmp (a b : rtype) : comparison :=
  lex (N.compare (t_rank a) (t_rank b)) (lex (N.compare (t_tk a) (t_tk b)) (N.compare (t_origin a) (t_origin b))).
Definition update_cmp (a b : update) : comparison :=
  lex (N.compare (u_name a) (u_name b))
   (lex (N.compare (u_from a) (u_from b))
     (lex (N.compare (u_to a) (u_to b)) (rtype_cmp (u_type a) (u_type b)))).

(* slices.CompactFunc: s[0] is kept, s[k] is kept iff not eq(s[k], s[k-1]) *)
Fixpoint compact_from {A} (eqf : A -> A -> bool) (prev : A) (l : list A) : list A :=
  match l with
  | [] => []
  | y :: l' => if eqf y prev then compact_from eqf y l' else y :: compact_from eqf y l'
  end.
Definition compact {A} (eqf : A -> A -> bool) (l : list A) : list A :=
  match l with [] => [] | x :: l' => x :: compact_from eqf x l' end.
Definition cmp_eqb {A} (c : A -> A -> comparison) (a b : A) : bool :=
  match c a b with Eq => true | _ => false end.

Definition req_updates (mgmt : rtype) (old new : list req) : list update :=
  compact (cmp_eqb update_cmp) (isort update_cmp (flat_map (req_update mgmt old) new)).

Definition construct_patches (mgmt : rtype) (old new : resolved) : patch :=
  let (fx, intro) := vuln_diff (m_vulns old) (m_vulns new) in
  {| p_updates := req_updates mgmt (m_reqs old) (m_reqs new); p_fixed := fx; p_introduced := intro |}.

(* ------------------------------------------------------------------ applying updates (specification side) *)
Definition ukey (u : update) : rkey := (u_name u, t_tk (u_type u)).
Definition has_key (k : rkey) (l : list req) : bool := existsb (fun r => key_eqb (key r) k) l.
Definition set_ver (k : rkey) (v : N) (l : list req) : list req :=
  map (fun r => if key_eqb (key r) k then {| r_name := r_name r; r_ver := v; r_type := r_type r |} else r) l.
(* what "applying an update to a requirement list" means: the requirement under the update's key
   gets the new version; an update for a key that is not there adds the requirement *)
Definition apply_update (l : list req) (u : update) : list req :=
  if has_key (ukey u) l then set_ver (ukey u) (u_to u) l
  else l ++ [ {| r_name := u_name u; r_ver := u_to u; r_type := u_type u |} ].
Definition apply_updates (ups : list update) (l : list req) : list req := fold_left apply_update ups l.

Fixpoint lookup (k : rkey) (l : list req) : option N :=
  match l with
  | [] => None
  | r :: l' => if key_eqb (key r) k then Some (r_ver r) else lookup k l'
  end.
Definition keys (l : list req) : list rkey := map key l.
Fixpoint nodup_keys (l : list rkey) : bool :=
  match l with [] => true | k :: l' => negb (mem_key k l') && nodup_keys l' end.
Definition unique_keys (l : list req) : bool := nodup_keys (keys l).
(* two requirement lists are the same requirement map *)
Definition req_equivb (a b : list req) : bool :=
  forallb (fun k => match lookup k a, lookup k b with
                    | Some x, Some y => N.eqb x y | None, None => true | _, _ => false end)
          (keys a ++ keys b).

(* ------------------------------------------------------------------ Manifest.PatchRequirement *)
(* npm: the requirement with the same key is replaced by the new one; error if absent *)
Fixpoint npm_patch (nr : req) (l : list req) : option (list req) :=
  match l with
  | [] => None
  | r :: l' => if key_eqb (key r) (key nr) then Some (nr :: l')
               else match npm_patch nr l' with Some x => Some (r :: x) | None => None end
  end.
(* Maven: every requirement of that package without origin or with origin management gets the
   version, requirements of that package with another origin are dropped, and if none was found a
   management requirement is appended *)
Definition maven_patch (mgmt : rtype) (name ver : N) (l : list req) : list req :=
  let touched := fun r => N.eqb (r_name r) name in
  let plain := fun r => N.eqb (t_origin (r_type r)) 0 || N.eqb (t_origin (r_type r)) 1 in
  let l' := flat_map (fun r => if touched r then
                                 if plain r then [ {| r_name := r_name r; r_ver := ver; r_type := r_type r |} ] else []
                               else [r]) l in
  if existsb (fun r => touched r && plain r) l then l'
  else l' ++ [ {| r_name := name; r_ver := ver; r_type := mgmt |} ].

(* ------------------------------------------------------------------ MatchVuln / ResolveGraphVulns *)
(* a found vulnerability with what the filters look at; the severity and depth filters are oracles
   (their answers for the thresholds in force are recorded by the harness) *)
Record fvuln := { f_id : N; f_aliases : list N; f_dev_only : bool; f_sev_ok : bool; f_depth_ok : bool;
                  f_pkgs : list pkg }.
Record ropts := { o_ignore : list N; o_explicit : list N; o_dev_deps : bool }.

Definition match_id (v : fvuln) (ids : list N) : bool :=
  memN (f_id v) ids || existsb (fun a => memN a ids) (f_aliases v).
(* ExplicitVulns: "if set, only consider these vulnerability IDs & ignore all others" - the ID
   itself must be listed (aliases do not count) *)
Definition explicit_ok (o : ropts) (v : fvuln) : bool :=
  match o_explicit o with [] => true | e => memN (f_id v) e end.
Definition match_vuln (o : ropts) (v : fvuln) : bool :=
  if match_id v (o_ignore o) then false
  else if negb (explicit_ok o v) then false
  else if negb (o_dev_deps o) && f_dev_only v then false
  else f_sev_ok v && f_depth_ok v.

(* ResolveGraphVulns: FindVulnerabilities, then the MatchVuln filter. The options are only read
   (since fix ad14cb22 nothing is appended to IgnoreVulns); they are returned so that the
   correspondence can check that they are what they were. *)
Definition resolve_graph_vulns (o : ropts) (all : list fvuln) : ropts * list fvuln :=
  (o, filter (match_vuln o) all).

(* the filtering the strategies do after re-resolving a patched manifest: MatchVuln with the same options *)
Definition filter_vulns (o : ropts) (all : list fvuln) : list fvuln := filter (match_vuln o) all.

Definition to_vuln (v : fvuln) : vuln := {| v_id := f_id v; v_pkgs := f_pkgs v |}.

(* ------------------------------------------------------------------ the depth and severity filters of MatchVuln *)
(* matchDepth: MaxDepth <= 0 switches the filter off; otherwise some subgraph of the vulnerability
   must have its root (node 0) at Distance <= MaxDepth. ComputeSubgraphs walks the parent edges
   breadth first from the vulnerable node (self edges skipped) and gives every node the level at
   which it is first reached; a root that is never reached has no entry in the node map, and the
   zero value read back has Distance 0. Modelled as cumulative levels: up k = the nodes from which
   the vulnerable node is reached in at most k steps. *)
Definition edge := (N * N)%type.                                   (* (From, To) *)
Definition parents (edges : list edge) (n : N) : list N :=
  map fst (filter (fun e => N.eqb (snd e) n && negb (N.eqb (fst e) (snd e))) edges).
Definition add_new (seen xs : list N) : list N :=
  fold_left (fun acc x => if memN x acc then acc else acc ++ [x]) xs seen.
Fixpoint up (k : nat) (edges : list edge) (n : N) : list N :=
  match k with
  | O => [n]
  | S k' => let l := up k' edges n in add_new l (flat_map (parents edges) l)
  end.
Fixpoint first_level (fuel k : nat) (edges : list edge) (n t : N) : option nat :=
  match fuel with
  | O => None
  | S f => if memN t (up k edges n) then Some k else first_level f (S k) edges n t
  end.
(* sg.Nodes[0].Distance *)
Definition root_dist (numnodes : nat) (edges : list edge) (n : N) : Z :=
  match first_level (S numnodes) 0 edges n 0 with Some d => Z.of_nat d | None => 0%Z end.
Definition match_depth (maxd : Z) (numnodes : nat) (edges : list edge) (nodes : list N) : bool :=
  (maxd <=? 0)%Z || existsb (fun n => (root_dist numnodes edges n <=? maxd)%Z) nodes.

(* matchSeverity: the top-level severities if there are any, else the per-affected ones of the
   affected entries that apply (chosen by IsAffected: recorded); the maximum of the scores that
   parse; "round(10*max) >= round(10*min) or no score". A score is its tenths (round(10*score),
   computed by the harness with math.Round), None = CalculateScore returned an error. *)
Definition score := option Z.
Definition max_score (l : list score) : option Z :=
  fold_left (fun m s => match s, m with
                        | Some x, Some y => Some (Z.max x y)
                        | Some x, None => Some x
                        | None, _ => m
                        end) l None.
Definition selected_scores (top aff : list score) : list score := match top with [] => aff | _ => top end.
Definition match_severity (thr : Z) (top aff : list score) : bool :=
  match max_score (selected_scores top aff) with None => true | Some s => (thr <=? s)%Z end.

(* a found vulnerability with the ingredients instead of the answers *)
Record gvuln := { g_id : N; g_aliases : list N; g_dev_only : bool; g_top : list score; g_aff : list score;
                  g_nodes : list N; g_pkgs : list pkg }.
Record thresholds := { th_sev : Z; th_depth : Z }.    (* round(10*MinSeverity), MaxDepth *)
Definition to_fvuln (th : thresholds) (numnodes : nat) (edges : list edge) (g : gvuln) : fvuln :=
  {| f_id := g_id g; f_aliases := g_aliases g; f_dev_only := g_dev_only g;
     f_sev_ok := match_severity (th_sev th) (g_top g) (g_aff g);
     f_depth_ok := match_depth (th_depth th) numnodes edges (g_nodes g);
     f_pkgs := g_pkgs g |}.
(* remediation.MatchVuln with nothing left to an oracle but CVSS parsing and IsAffected *)
Definition match_vuln_full (o : ropts) (th : thresholds) (numnodes : nat) (edges : list edge) (g : gvuln) : bool :=
  match_vuln o (to_fvuln th numnodes edges g).

(* ------------------------------------------------------------------ choosePatches *)
Definition mem_pkg (p : pkg) (l : list pkg) : bool := existsb (key_eqb p) l.
Definition changes (p : patch) : list pkg := map (fun u => (u_name u, u_from u)) (p_updates p).
Definition fixed_ids (p : patch) : list N := map v_id (p_fixed p).
Definition nonempty {A} (l : list A) : bool := match l with [] => false | _ => true end.

Definition incompatible (p : patch) (pk : list pkg) (fx : list N) (no_introduce : bool) : bool :=
  existsb (fun c => mem_pkg c pk) (changes p) ||
  existsb (fun i => memN i fx) (fixed_ids p) ||
  (no_introduce && nonempty (p_introduced p)).

Fixpoint choose_loop (all : list patch) (max : Z) (ni : bool) (pk : list pkg) (fx : list N) : list patch :=
  match all with
  | [] => []
  | p :: rest =>
      if incompatible p pk fx ni then choose_loop rest max ni pk fx
      else p :: (if Z.eqb (max - 1) 0 then []
                 else choose_loop rest (max - 1) ni (pk ++ changes p) (fx ++ fixed_ids p))
  end.
Definition choose_patches (all : list patch) (max : Z) (ni : bool) : list patch := choose_loop all max ni [] [].

(* ------------------------------------------------------------------ computeVulnsResult *)
Record rvuln := { o_id : N; o_pkgs : list pkg; o_unactionable : bool }.   (* result.Vuln *)
Definition pkg_cmp (a b : pkg) : comparison := lex (N.compare (fst a) (fst b)) (N.compare (snd a) (snd b)).
Definition rvuln_cmp (a b : rvuln) : comparison := N.compare (o_id a) (o_id b).
Definition fixable (all : list patch) (i : N) : bool := existsb (fun p => memN i (fixed_ids p)) all.
Definition compute_vulns_result (vulns : list vuln) (all : list patch) : list rvuln :=
  isort rvuln_cmp
    (map (fun v => {| o_id := v_id v;
                      o_pkgs := compact (cmp_eqb pkg_cmp) (isort pkg_cmp (v_pkgs v));
                      o_unactionable := negb (fixable all (v_id v)) |}) vulns).

(* ------------------------------------------------------------------ the pipeline of doStrategy and a fresh analysis *)
Section Pipeline.
  Variable File : Type.
  Variable read : File -> list req.                      (* ReadWriter.Read, projected to the requirements *)
  Variable write : File -> list update -> File.          (* ReadWriter.Write with the updates of the chosen patches *)
  Variable analyse : list req -> list fvuln.             (* resolution.Resolve + FindVulnerabilities (+ oracle answers) *)
  Variable mgmt : rtype.

  (* what a strategy returns for one attempt: the requirements of its patched manifest clone;
     the strategies filter the re-resolved vulnerabilities with the options the first analysis
     returned (the user's options) *)
  Definition patch_of (o1 : ropts) (orig : resolved) (cand : list req) : patch :=
    construct_patches mgmt orig {| m_reqs := cand; m_vulns := map to_vuln (filter_vulns o1 (analyse cand)) |}.

  Record report := { rep_vulns : list rvuln; rep_patches : list patch; rep_file : File }.

  Definition fix_vulns (o : ropts) (f : File) (cands : list (list req)) (max : Z) (ni : bool) : report :=
    let m := read f in
    let (o1, kept) := resolve_graph_vulns o (analyse m) in
    let orig := {| m_reqs := m; m_vulns := map to_vuln kept |} in
    let all := map (patch_of o1 orig) cands in
    let chosen := choose_patches all max ni in
    {| rep_vulns := compute_vulns_result (m_vulns orig) all;
       rep_patches := chosen;
       rep_file := write f (flat_map p_updates chosen) |}.

  (* a fresh analysis of a manifest file with the options the user gave *)
  Definition fresh_ids (o : ropts) (f : File) : list N :=
    map f_id (snd (resolve_graph_vulns o (analyse (read f)))).
End Pipeline.
Arguments rep_vulns {File} _.
Arguments rep_patches {File} _.
Arguments rep_file {File} _.

(* ------------------------------------------------------------------ domain of the round trip *)
Definition subset_keys (a b : list req) : bool := forallb (fun k => mem_key k (keys b)) (keys a).
(* a requirement under a key the old manifest does not have carries the plain management type *)
Definition additions_plain (mgmt : rtype) (old new : list req) : bool :=
  forallb (fun r => mem_key (key r) (keys old) || N.eqb (t_tk (r_type r)) (t_tk mgmt)) new.
Definition roundtrip_domain (mgmt : rtype) (old new : list req) : bool :=
  unique_keys old && unique_keys new && subset_keys old new && additions_plain mgmt old new.

(* ------------------------------------------------------------------ set helpers used by specs and oracle *)
Definition subsetN (a b : list N) : bool := forallb (fun x => memN x b) a.
Definition seteqN (a b : list N) : bool := subsetN a b && subsetN b a.
Definition diffN (a b : list N) : list N := filter (fun x => negb (memN x b)) a.
Definition disjointN (a b : list N) : bool := forallb (fun x => negb (memN x b)) a.
(* "the original vulnerabilities minus the fixed ones plus the introduced ones" *)
Definition expected_after (orig fixed introduced : list N) : list N := diffN orig fixed ++ introduced.

Fixpoint bad_indices {A} (f : A -> bool) (l : list A) (i : nat) : list nat :=
  match l with
  | [] => []
  | x :: l' => if f x then bad_indices f l' (S i) else i :: bad_indices f l' (S i)
  end.

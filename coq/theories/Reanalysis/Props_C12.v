(* C12 - a reported fix is a real fix: re-analysis matches the report.
   Only statements here; proofs are in Proofs.v. *)
From Coq Require Import List ZArith NArith Bool.
From Scalibr Require Import Lib.SortSearch Reanalysis.Patch Reanalysis.Proofs.
Import ListNotations.
Open Scope N_scope.

(* ---- ConstructPatches: the updates of a patch, applied to the old requirements, give the new
   requirement map. Domain: both manifests have one requirement per key, nothing was removed, and
   a requirement under a new key has the plain management type (roundtrip_domain, a boolean). *)
Theorem diff_apply_roundtrip : forall mgmt (o n : resolved),
  roundtrip_domain mgmt (m_reqs o) (m_reqs n) = true ->
  forall k, lookup k (apply_updates (p_updates (construct_patches mgmt o n)) (m_reqs o)) = lookup k (m_reqs n).
Proof. exact diff_apply_roundtrip_stmt. Qed.
Print Assumptions diff_apply_roundtrip.

(* ... and that domain is where the strategies live: the new manifest is a clone of the old one
   changed only through Manifest.PatchRequirement. With unique keys alone: *)
Theorem diff_apply_roundtrip_npm : forall mgmt (o n : resolved),
  unique_keys (m_reqs o) = true -> npm_reach (m_reqs o) (m_reqs n) ->
  forall k, lookup k (apply_updates (p_updates (construct_patches mgmt o n)) (m_reqs o)) = lookup k (m_reqs n).
Proof. exact diff_apply_roundtrip_npm_stmt. Qed.
Print Assumptions diff_apply_roundtrip_npm.

Theorem diff_apply_roundtrip_maven : forall mgmt (o n : resolved),
  t_origin mgmt = 1 -> unique_keys (m_reqs o) = true -> (forall r, In r (m_reqs o) -> plain_origin r) ->
  maven_reach mgmt (m_reqs o) (m_reqs n) ->
  forall k, lookup k (apply_updates (p_updates (construct_patches mgmt o n)) (m_reqs o)) = lookup k (m_reqs n).
Proof. exact diff_apply_roundtrip_maven_stmt. Qed.
Print Assumptions diff_apply_roundtrip_maven.

(* outside the domain the statement is false: ConstructPatches never reports a removed requirement *)
Definition ex_t0 : rtype := w_t0.
Definition ex_mgmt : rtype := w_mgmt.
Theorem diff_ignores_removed_refuted : exists mgmt (o n : resolved) k,
  unique_keys (m_reqs o) = true /\ unique_keys (m_reqs n) = true /\
  lookup k (apply_updates (p_updates (construct_patches mgmt o n)) (m_reqs o)) <> lookup k (m_reqs n).
Proof. exact diff_ignores_removed_refuted_lemma. Qed.
Print Assumptions diff_ignores_removed_refuted.

(* ---- vulns new = (vulns old \ fixed) U introduced, fixed <= old, introduced disjoint from old *)
Theorem fixed_introduced_algebra : forall mgmt (o n : resolved),
  NoDup (idsv (m_vulns n)) ->
  let p := construct_patches mgmt o n in
  (forall i, In i (idsv (m_vulns n)) <->
             (In i (idsv (m_vulns o)) /\ ~ In i (fixed_ids p)) \/ In i (idsv (p_introduced p))) /\
  (forall i, In i (fixed_ids p) -> In i (idsv (m_vulns o))) /\
  (forall i, In i (idsv (p_introduced p)) -> ~ In i (idsv (m_vulns o))).
Proof. exact fixed_introduced_algebra_stmt. Qed.
Print Assumptions fixed_introduced_algebra.

(* ---- the property sentence. Section variables of Proofs.v appear as arguments: read/write are
   the manifest ReadWriter, analyse is resolution + vulnerability matching. Premises: analyse is
   a function of the requirement map and lists no ID twice; the writer wrote exactly the updates
   of the chosen patch (C13: write_read_exact); candidates are patched clones (roundtrip_domain).
   Any ignore list, any explicit list (since fix ad14cb22 ExplicitVulns is a filter inside MatchVuln
   and the options are no longer changed by the first analysis; before it the statement was false
   for explicit lists, see KNOWN_FINDINGS.d/C12.json, status fixed). *)
Theorem reanalysis_matches_report :
  forall (File : Type) (read : File -> list req) (write : File -> list update -> File)
         (analyse : list req -> list fvuln) (mgmt : rtype),
  (forall a b, same_map a b -> forall v, In v (analyse a) <-> In v (analyse b)) ->
  (forall a, NoDup (map f_id (analyse a))) ->
  forall o f cands max ni p,
  let rep := fix_vulns File read write analyse mgmt o f cands max ni in
  rep_patches rep = [p] ->
  same_map (read (write f (p_updates p))) (apply_updates (p_updates p) (read f)) ->
  (forall c, In c cands -> roundtrip_domain mgmt (read f) c = true) ->
  forall i, In i (fresh_ids File read analyse o (rep_file rep)) <->
            (In i (map o_id (rep_vulns rep)) /\ ~ In i (fixed_ids p)) \/ In i (idsv (p_introduced p)).
Proof. exact reanalysis_lemma. Qed.
Print Assumptions reanalysis_matches_report.

(* ---- no patch: the requirements of the written manifest are the requirements that were read *)
Theorem no_patch_no_change :
  forall (File : Type) (read : File -> list req) (write : File -> list update -> File)
         (analyse : list req -> list fvuln) (mgmt : rtype) o f cands max ni,
  let rep := fix_vulns File read write analyse mgmt o f cands max ni in
  rep_patches rep = [] ->
  same_map (read (write f [])) (apply_updates [] (read f)) ->
  same_map (read (rep_file rep)) (read f).
Proof. exact no_patch_no_change_lemma. Qed.
Print Assumptions no_patch_no_change.

(* ---- no vulnerability fixed by an applied patch is marked unactionable *)
Theorem applied_fix_not_unactionable : forall vulns all max ni p i e,
  In p (choose_patches all max ni) -> In i (fixed_ids p) ->
  In e (compute_vulns_result vulns all) -> o_id e = i -> o_unactionable e = false.
Proof. exact applied_fix_not_unactionable_lemma. Qed.
Print Assumptions applied_fix_not_unactionable.

(* ... and it is listed: in the report of the pipeline every vulnerability fixed by a chosen patch
   has an entry, and that entry is actionable *)
Theorem reported_fix_listed_and_actionable :
  forall (File : Type) (read : File -> list req) (write : File -> list update -> File)
         (analyse : list req -> list fvuln) (mgmt : rtype),
  (forall a, NoDup (map f_id (analyse a))) ->
  forall o f cands max ni p i,
  let rep := fix_vulns File read write analyse mgmt o f cands max ni in
  In p (rep_patches rep) -> In i (fixed_ids p) ->
  exists e, In e (rep_vulns rep) /\ o_id e = i /\ o_unactionable e = false.
Proof. exact pipeline_fix_not_unactionable_lemma. Qed.
Print Assumptions reported_fix_listed_and_actionable.

(* ---- choosePatches *)
Theorem choose_at_most_max : forall all max ni, (0 < max)%Z ->
  (Z.of_nat (length (choose_patches all max ni)) <= max)%Z.
Proof. exact choose_at_most_max_stmt. Qed.
Print Assumptions choose_at_most_max.

Theorem choose_no_introduce : forall all max p, In p (choose_patches all max true) -> p_introduced p = [].
Proof. exact choose_no_introduce_stmt. Qed.
Print Assumptions choose_no_introduce.

Theorem choose_from_candidates : forall all max ni p, In p (choose_patches all max ni) -> In p all.
Proof. exact choose_subset_stmt. Qed.
Print Assumptions choose_from_candidates.

(* two chosen patches never change the same (package, version) nor fix the same vulnerability *)
Theorem choose_pairwise_compatible : forall all max ni l1 p l2 q,
  choose_patches all max ni = l1 ++ p :: l2 -> In q l2 ->
  (forall c, In c (changes q) -> ~ In c (changes p)) /\ (forall i, In i (fixed_ids q) -> ~ In i (fixed_ids p)).
Proof. exact choose_pairwise_stmt. Qed.
Print Assumptions choose_pairwise_compatible.

(* ---- MatchVuln with the depth and severity filters modelled (only CVSS parsing and the choice of
   the applicable affected[] entry stay recorded answers) *)
(* the walk over parent edges finds exactly the nodes with a path of at most k proper edges *)
Theorem up_iff_path : forall edges n k m, In m (up k edges n) <-> upto edges k m n.
Proof. exact up_iff_path_lemma. Qed.
Print Assumptions up_iff_path.

(* matchDepth: off for MaxDepth <= 0; otherwise some affected node has the root within MaxDepth
   proper edges - or has no path from the root at all (the zero-value distance 0 is then compared) *)
Theorem match_depth_iff : forall maxd numnodes edges nodes,
  (Z.to_nat maxd <= numnodes)%nat ->
  (match_depth maxd numnodes edges nodes = true <->
   (maxd <= 0)%Z \/
   exists n, In n nodes /\ (upto edges (Z.to_nat maxd) 0 n \/ (forall k, (k <= numnodes)%nat -> ~ upto edges k 0 n))).
Proof. exact match_depth_iff_lemma. Qed.
Print Assumptions match_depth_iff.

(* matchSeverity: no selected severity parses, or one reaches the threshold (tenths) *)
Theorem match_severity_iff : forall thr top aff,
  match_severity thr top aff = true <->
  (forall s, In s (selected_scores top aff) -> s = None) \/
  (exists x, In (Some x) (selected_scores top aff) /\ (thr <= x)%Z).
Proof. exact match_severity_iff_lemma. Qed.
Print Assumptions match_severity_iff.

Theorem match_vuln_characterised : forall o th numnodes edges g,
  (Z.to_nat (th_depth th) <= numnodes)%nat ->
  (match_vuln_full o th numnodes edges g = true <->
   (~ In (g_id g) (o_ignore o) /\ (forall a, In a (g_aliases g) -> ~ In a (o_ignore o))) /\
   (o_explicit o = [] \/ In (g_id g) (o_explicit o)) /\
   (o_dev_deps o = true \/ g_dev_only g = false) /\
   ((forall s, In s (selected_scores (g_top g) (g_aff g)) -> s = None) \/
    (exists x, In (Some x) (selected_scores (g_top g) (g_aff g)) /\ (th_sev th <= x)%Z)) /\
   ((th_depth th <= 0)%Z \/
    exists n, In n (g_nodes g) /\
      (upto edges (Z.to_nat (th_depth th)) 0 n \/ (forall k, (k <= numnodes)%nat -> ~ upto edges k 0 n)))).
Proof. exact match_vuln_full_iff_lemma. Qed.
Print Assumptions match_vuln_characterised.

(* ------------------------------------------------------------------ non-vacuity *)
(* the concrete world of Proofs.v (package 1 at version 1 has vulnerability 10, version 2 has
   vulnerability 20; one candidate: version 2) meets every premise of reanalysis_matches_report
   with an empty explicit list, one patch is chosen, it fixes 10 and introduces 20, and the fresh
   analysis of the written file reports exactly 20 *)
Example reanalysis_nonvacuous :
  let rep := fix_vulns (list req) w_read w_write w_analyse w_mgmt (w_opts []) w_file w_cands 1 false in
  (map fixed_ids (rep_patches rep), map (fun p => idsv (p_introduced p)) (rep_patches rep),
   map o_id (rep_vulns rep), map o_unactionable (rep_vulns rep),
   fresh_ids (list req) w_read w_analyse (w_opts []) (rep_file rep),
   forallb (roundtrip_domain w_mgmt (w_read w_file)) w_cands)
  = ([[10]], [[20]], [10], [false], [20], true).
Proof. vm_compute. reflexivity. Qed.

(* the same world with the explicit list [10] (the former counterexample): vulnerability 20 is not
   on the list, so it is neither reported as introduced nor found by the fresh analysis *)
Example explicit_list_world :
  let rep := fix_vulns (list req) w_read w_write w_analyse w_mgmt (w_opts [10]) w_file w_cands 1 false in
  (map fixed_ids (rep_patches rep), map (fun p => idsv (p_introduced p)) (rep_patches rep),
   map o_id (rep_vulns rep), fresh_ids (list req) w_read w_analyse (w_opts [10]) (rep_file rep))
  = ([[10]], [[]], [10], []).
Proof. vm_compute. reflexivity. Qed.

(* ... and with the explicit list [10; 20] it is both *)
Example explicit_list_world_both :
  let rep := fix_vulns (list req) w_read w_write w_analyse w_mgmt (w_opts [10; 20]) w_file w_cands 1 false in
  (map fixed_ids (rep_patches rep), map (fun p => idsv (p_introduced p)) (rep_patches rep),
   fresh_ids (list req) w_read w_analyse (w_opts [10; 20]) (rep_file rep))
  = ([[10]], [[20]], [20]).
Proof. vm_compute. reflexivity. Qed.

(* ConstructPatches on a manifest with a changed requirement, an unchanged one and an added
   management requirement; old vulnerabilities 5 and 7, new 7 and 9 *)
Definition ex_old : resolved :=
  {| m_reqs := [ {| r_name := 1; r_ver := 10; r_type := ex_t0 |}; {| r_name := 2; r_ver := 20; r_type := ex_t0 |} ];
     m_vulns := [ {| v_id := 7; v_pkgs := [(1, 10)] |}; {| v_id := 5; v_pkgs := [(2, 20); (1, 10)] |} ] |}.
Definition ex_new : resolved :=
  {| m_reqs := [ {| r_name := 1; r_ver := 11; r_type := ex_t0 |}; {| r_name := 2; r_ver := 20; r_type := ex_t0 |};
                 {| r_name := 3; r_ver := 30; r_type := ex_mgmt |} ];
     m_vulns := [ {| v_id := 9; v_pkgs := [(3, 30)] |}; {| v_id := 7; v_pkgs := [(1, 11)] |} ] |}.
Example construct_example :
  let p := construct_patches ex_mgmt ex_old ex_new in
  (map (fun u => (u_name u, u_from u, u_to u, u_transitive u)) (p_updates p), fixed_ids p, idsv (p_introduced p),
   roundtrip_domain ex_mgmt (m_reqs ex_old) (m_reqs ex_new),
   req_equivb (apply_updates (p_updates p) (m_reqs ex_old)) (m_reqs ex_new))
  = ([(1, 10, 11, false); (3, 0, 30, true)], [5], [9], true, true).
Proof. vm_compute. reflexivity. Qed.

(* choosePatches: the second candidate re-changes package 1@10, the third fixes 5 again, the
   fourth introduces a vulnerability; maximum 0 = as many as possible *)
Definition ex_patch (name from to : N) (fixed introduced : list N) : patch :=
  {| p_updates := [ {| u_name := name; u_from := from; u_to := to; u_type := ex_t0; u_transitive := false |} ];
     p_fixed := map (fun i => {| v_id := i; v_pkgs := [] |}) fixed;
     p_introduced := map (fun i => {| v_id := i; v_pkgs := [] |}) introduced |}.
Definition ex_all : list patch :=
  [ ex_patch 1 10 11 [5] []; ex_patch 1 10 12 [7] []; ex_patch 2 20 21 [5; 8] []; ex_patch 4 40 41 [6] [9]; ex_patch 3 30 31 [7] [] ].
Example choose_example :
  (map fixed_ids (choose_patches ex_all 0 false), map fixed_ids (choose_patches ex_all 0 true),
   map fixed_ids (choose_patches ex_all 1 false), map fixed_ids (choose_patches ex_all 2 true))
  = ([[5]; [6]; [7]], [[5]; [7]], [[5]], [[5]; [7]]).
Proof. vm_compute. reflexivity. Qed.

Example unactionable_example :
  map (fun e => (o_id e, o_unactionable e)) (compute_vulns_result (m_vulns ex_old) ex_all)
  = [(5, false); (7, false)] /\
  map (fun e => (o_id e, o_unactionable e)) (compute_vulns_result (m_vulns ex_old) [ex_patch 1 10 11 [5] []])
  = [(5, false); (7, true)].
Proof. vm_compute. split; reflexivity. Qed.

(* depth and severity filters on a diamond 0 -> 1 -> 3, 0 -> 2 -> 3, 3 -> 4, with a self edge on 4 and
   an unreachable node 5: distances 2, 3 and (unreachable) 0; thresholds in tenths *)
Definition ex_edges : list edge := [(0, 1); (0, 2); (1, 3); (2, 3); (3, 4); (4, 4); (6, 5)].
Example depth_example :
  (map (root_dist 7 ex_edges) [1; 3; 4; 5],
   map (fun d => match_depth d 7 ex_edges [4]) [0; 1; 2; 3; 4]%Z, match_depth 1 7 ex_edges [4; 1], match_depth 1 7 ex_edges [5])
  = ([1; 2; 3; 0]%Z, [true; false; false; true; true], true, true).
Proof. vm_compute. reflexivity. Qed.
Example severity_example :
  (match_severity 50 [Some 98; None]%Z [], match_severity 99 [Some 98; Some 46]%Z [], match_severity 98 [] [None; Some 98]%Z,
   match_severity 99 [None] [Some 100]%Z, match_severity 10 [] [])
  = (true, false, true, true, true).
Proof. vm_compute. reflexivity. Qed.

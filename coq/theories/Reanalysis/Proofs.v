(* C12 - proofs about the model in Patch.v. *)
From Coq Require Import List ZArith NArith Bool Lia Permutation.
From Scalibr Require Import Lib.SortSearch Reanalysis.Patch.
Import ListNotations.
Open Scope N_scope.

(* ------------------------------------------------------------------ basic reflection *)
Lemma key_eqb_eq (a b : rkey) : key_eqb a b = true <-> a = b.
Proof.
  destruct a as [a1 a2], b as [b1 b2]. unfold key_eqb. cbn [fst snd].
  rewrite andb_true_iff, !N.eqb_eq. split; [intros [-> ->]; reflexivity|intros H; inversion H; auto].
Qed.
Lemma key_eqb_refl a : key_eqb a a = true.
Proof. apply key_eqb_eq. reflexivity. Qed.
Lemma key_eqb_neq (a b : rkey) : key_eqb a b = false <-> a <> b.
Proof.
  split.
  - intros H E. apply key_eqb_eq in E. congruence.
  - intros H. destruct (key_eqb a b) eqn:E; [apply key_eqb_eq in E; contradiction|reflexivity].
Qed.
Lemma key_eqb_sym a b : key_eqb a b = key_eqb b a.
Proof.
  destruct (key_eqb a b) eqn:E.
  - apply key_eqb_eq in E. subst. symmetry. apply key_eqb_refl.
  - symmetry. apply key_eqb_neq. apply key_eqb_neq in E. congruence.
Qed.

Lemma memN_In x l : memN x l = true <-> In x l.
Proof.
  unfold memN. rewrite existsb_exists. split.
  - intros [y [Hy E]]. apply N.eqb_eq in E. subst. exact Hy.
  - intros H. exists x. split; [exact H|apply N.eqb_refl].
Qed.
Lemma memN_false x l : memN x l = false <-> ~ In x l.
Proof.
  split.
  - intros H HI. apply memN_In in HI. congruence.
  - intros H. destruct (memN x l) eqn:E; [apply memN_In in E; contradiction|reflexivity].
Qed.
Lemma mem_key_In k l : mem_key k l = true <-> In k l.
Proof.
  unfold mem_key. rewrite existsb_exists. split.
  - intros [y [Hy E]]. apply key_eqb_eq in E. subst. exact Hy.
  - intros H. exists k. split; [exact H|apply key_eqb_refl].
Qed.
Lemma nodup_keys_NoDup l : nodup_keys l = true <-> NoDup l.
Proof.
  induction l as [|k l IH]; cbn [nodup_keys].
  - split; [constructor|reflexivity].
  - rewrite andb_true_iff, negb_true_iff, IH. split.
    + intros [H1 H2]. constructor; [|exact H2]. intros HI. apply mem_key_In in HI. congruence.
    + intros H. inversion H; subst. split; [|assumption].
      destruct (mem_key k l) eqn:E; [apply mem_key_In in E; contradiction|reflexivity].
Qed.

(* ------------------------------------------------------------------ lookup *)
Lemma has_key_In k l : has_key k l = true <-> In k (keys l).
Proof.
  unfold has_key, keys. rewrite existsb_exists, in_map_iff. split.
  - intros [r [Hr E]]. apply key_eqb_eq in E. exists r. auto.
  - intros [r [E Hr]]. exists r. split; [exact Hr|apply key_eqb_eq; exact E].
Qed.
Lemma lookup_None k l : lookup k l = None <-> ~ In k (keys l).
Proof.
  induction l as [|r l IH]; cbn [lookup keys map].
  - split; auto.
  - destruct (key_eqb (key r) k) eqn:E.
    + apply key_eqb_eq in E. split; [discriminate|]. intros H. exfalso. apply H. left. exact E.
    + apply key_eqb_neq in E. rewrite IH. unfold keys. split.
      * intros H [H1|H1]; auto.
      * intros H H1. apply H. right. exact H1.
Qed.
Lemma lookup_app k a b :
  lookup k (a ++ b) = match lookup k a with Some x => Some x | None => lookup k b end.
Proof.
  induction a as [|r a IH]; cbn [lookup app]; [reflexivity|].
  destruct (key_eqb (key r) k); [reflexivity|exact IH].
Qed.
Lemma lookup_In_unique l : NoDup (keys l) -> forall r, In r l -> lookup (key r) l = Some (r_ver r).
Proof.
  induction l as [|x l IH]; intros ND r Hr; [contradiction|].
  cbn [keys map] in ND. inversion ND as [|? ? Hn ND']; subst.
  cbn [lookup]. destruct Hr as [->|Hr].
  - rewrite key_eqb_refl. reflexivity.
  - destruct (key_eqb (key x) (key r)) eqn:E.
    + apply key_eqb_eq in E. exfalso. apply Hn. rewrite E. unfold keys. apply in_map. exact Hr.
    + apply IH; assumption.
Qed.
Lemma find_last_key k l o : find_last k l = Some o -> key o = k /\ In o l.
Proof.
  induction l as [|r l IH]; cbn [find_last]; [discriminate|].
  destruct (find_last k l) as [x|] eqn:E.
  - intros H. inversion H; subst. destruct (IH eq_refl) as [H1 H2]. split; [exact H1|right; exact H2].
  - destruct (key_eqb (key r) k) eqn:E2; [|discriminate].
    intros H. inversion H; subst. apply key_eqb_eq in E2. split; [exact E2|left; reflexivity].
Qed.
Lemma find_last_None k l : find_last k l = None <-> ~ In k (keys l).
Proof.
  induction l as [|r l IH]; cbn [find_last keys map].
  - split; auto.
  - destruct (find_last k l) as [x|] eqn:E.
    + split; [discriminate|]. intros H. exfalso.
      destruct (find_last_key _ _ _ E) as [H1 H2]. apply H. right. subst k. apply in_map. exact H2.
    + destruct (key_eqb (key r) k) eqn:E2.
      * apply key_eqb_eq in E2. split; [discriminate|]. intros H. exfalso. apply H. left. exact E2.
      * apply key_eqb_neq in E2. destruct IH as [IH1 _]. specialize (IH1 eq_refl).
        split; [|reflexivity]. intros _ [H|H]; auto.
Qed.
Lemma find_last_lookup k l o : NoDup (keys l) -> find_last k l = Some o -> lookup k l = Some (r_ver o).
Proof.
  intros ND H. destruct (find_last_key _ _ _ H) as [H1 H2]. subst k. apply lookup_In_unique; assumption.
Qed.

Lemma set_ver_keys k v l : keys (set_ver k v l) = keys l.
Proof.
  unfold keys, set_ver. rewrite map_map. apply map_ext. intros r.
  destruct (key_eqb (key r) k); reflexivity.
Qed.
Lemma lookup_set_ver k k' v l :
  lookup k' (set_ver k v l) =
  if key_eqb k k' then (if has_key k l then Some v else None) else lookup k' l.
Proof.
  induction l as [|r l IH].
  - cbn. destruct (key_eqb k k'); reflexivity.
  - change (set_ver k v (r :: l)) with
      ((if key_eqb (key r) k then {| r_name := r_name r; r_ver := v; r_type := r_type r |} else r) :: set_ver k v l).
    change (has_key k (r :: l)) with (key_eqb (key r) k || has_key k l)%bool.
    destruct (key_eqb (key r) k) eqn:E1.
    + apply key_eqb_eq in E1. cbn [lookup orb].
      change (key {| r_name := r_name r; r_ver := v; r_type := r_type r |}) with (key r).
      rewrite E1, IH. destruct (key_eqb k k'); reflexivity.
    + cbn [lookup orb]. rewrite IH. destruct (key_eqb (key r) k') eqn:E3; [|reflexivity].
      apply key_eqb_eq in E3. destruct (key_eqb k k') eqn:E2; [|reflexivity].
      apply key_eqb_eq in E2. apply key_eqb_neq in E1. congruence.
Qed.

Lemma lookup_apply_update k l u :
  lookup k (apply_update l u) = if key_eqb (ukey u) k then Some (u_to u) else lookup k l.
Proof.
  unfold apply_update. destruct (has_key (ukey u) l) eqn:H.
  - rewrite lookup_set_ver, H. reflexivity.
  - rewrite lookup_app. cbn [lookup]. unfold key at 1. cbn [r_name r_type]. fold (ukey u).
    destruct (key_eqb (ukey u) k) eqn:E.
    + apply key_eqb_eq in E. subst k.
      assert (HN : lookup (ukey u) l = None).
      { apply lookup_None. intros HI. apply has_key_In in HI. congruence. }
      rewrite HN. reflexivity.
    + destruct (lookup k l); reflexivity.
Qed.

Fixpoint last_to (k : rkey) (U : list update) : option N :=
  match U with
  | [] => None
  | u :: U' => match last_to k U' with
               | Some v => Some v
               | None => if key_eqb (ukey u) k then Some (u_to u) else None
               end
  end.
Lemma lookup_apply_updates k U : forall l,
  lookup k (apply_updates U l) = match last_to k U with Some v => Some v | None => lookup k l end.
Proof.
  induction U as [|u U IH]; intros l; cbn [apply_updates fold_left last_to]; [reflexivity|].
  fold (apply_updates U (apply_update l u)). rewrite IH, lookup_apply_update.
  destruct (last_to k U); [reflexivity|]. destruct (key_eqb (ukey u) k); reflexivity.
Qed.
Lemma last_to_None k U : last_to k U = None <-> (forall u, In u U -> ukey u <> k).
Proof.
  induction U as [|u U IH]; cbn [last_to].
  - split; [intros _ u []|reflexivity].
  - destruct (last_to k U) eqn:E.
    + split; [discriminate|]. intros H. exfalso.
      assert (HN : None = Some n).
      { destruct IH as [_ IH2]. rewrite <- IH2; [reflexivity|]. intros u' Hu'. apply H. right. exact Hu'. }
      discriminate.
    + destruct IH as [IH1 _]. specialize (IH1 eq_refl).
      destruct (key_eqb (ukey u) k) eqn:E2.
      * apply key_eqb_eq in E2. split; [discriminate|]. intros H. exfalso. apply (H u); [left; reflexivity|exact E2].
      * apply key_eqb_neq in E2. split; [|reflexivity]. intros _ u' [<-|Hu']; auto.
Qed.
Lemma last_to_Some_unique k U u :
  NoDup (map ukey U) -> In u U -> ukey u = k -> last_to k U = Some (u_to u).
Proof.
  induction U as [|x U IH]; intros ND Hu Hk; [contradiction|].
  cbn [map] in ND. inversion ND as [|? ? Hn ND']; subst. cbn [last_to].
  destruct Hu as [->|Hu].
  - assert (HN : last_to (ukey u) U = None).
    { apply last_to_None. intros u' Hu' E. apply Hn. rewrite <- E. apply in_map. exact Hu'. }
    rewrite HN, key_eqb_refl. reflexivity.
  - rewrite (IH ND' Hu eq_refl). reflexivity.
Qed.

(* ------------------------------------------------------------------ compact / isort membership *)
Definition ueq (a b : update) : Prop :=
  u_name a = u_name b /\ u_from a = u_from b /\ u_to a = u_to b /\ u_type a = u_type b.

Lemma lex_Eq c1 c2 : lex c1 c2 = Eq <-> c1 = Eq /\ c2 = Eq.
Proof.
  destruct c1; cbn.
  - split; [intros H; split; [reflexivity|exact H]|intros [_ H]; exact H].
  - split; [discriminate|intros [H _]; discriminate].
  - split; [discriminate|intros [H _]; discriminate].
Qed.
Lemma rtype_cmp_Eq a b : rtype_cmp a b = Eq <-> a = b.
Proof.
  unfold rtype_cmp. rewrite !lex_Eq, !N.compare_eq_iff. destruct a, b; cbn. split.
  - intros [-> [-> ->]]. reflexivity.
  - intros H. inversion H. auto.
Qed.
Lemma update_cmp_Eq a b : cmp_eqb update_cmp a b = true <-> ueq a b.
Proof.
  unfold cmp_eqb, ueq. destruct (update_cmp a b) eqn:E.
  - unfold update_cmp in E. rewrite !lex_Eq, !N.compare_eq_iff, rtype_cmp_Eq in E. tauto.
  - split; [discriminate|]. intros H. exfalso.
    assert (update_cmp a b = Eq); [|congruence].
    unfold update_cmp. rewrite !lex_Eq, !N.compare_eq_iff, rtype_cmp_Eq. tauto.
  - split; [discriminate|]. intros H. exfalso.
    assert (update_cmp a b = Eq); [|congruence].
    unfold update_cmp. rewrite !lex_Eq, !N.compare_eq_iff, rtype_cmp_Eq. tauto.
Qed.
Lemma ueq_refl a : ueq a a.
Proof. unfold ueq. auto. Qed.
Lemma ueq_trans a b c : ueq a b -> ueq b c -> ueq a c.
Proof. unfold ueq. intuition congruence. Qed.
Lemma ueq_sym a b : ueq a b -> ueq b a.
Proof. unfold ueq. intuition congruence. Qed.
Lemma ueq_ukey a b : ueq a b -> ukey a = ukey b /\ u_to a = u_to b.
Proof. unfold ueq, ukey. intros [H1 [H2 [H3 H4]]]. rewrite H1, H4. auto. Qed.

Section Compact.
  Context {A : Type}.
  Variable e : A -> A -> bool.
  Lemma compact_from_In prev l x : In x (compact_from e prev l) -> In x l.
  Proof.
    revert prev. induction l as [|y l IH]; intros prev; cbn [compact_from]; [auto|].
    destruct (e y prev).
    - intros H. right. exact (IH _ H).
    - intros [H|H]; [left; exact H|right; exact (IH _ H)].
  Qed.
  Lemma compact_In l x : In x (compact e l) -> In x l.
  Proof.
    destruct l as [|y l]; cbn [compact]; [auto|].
    intros [H|H]; [left; exact H|right; exact (compact_from_In _ _ _ H)].
  Qed.
  Lemma compact_from_NoDup {B} (f : A -> B) prev l :
    NoDup (map f l) -> NoDup (map f (compact_from e prev l)).
  Proof.
    revert prev. induction l as [|y l IH]; intros prev ND; cbn [compact_from]; [constructor|].
    cbn [map] in ND. inversion ND as [|? ? Hn ND']; subst.
    destruct (e y prev); [apply IH; exact ND'|].
    cbn [map]. constructor; [|apply IH; exact ND'].
    intros HI. apply Hn. apply in_map_iff in HI. destruct HI as [z [Hz1 Hz2]].
    apply in_map_iff. exists z. split; [exact Hz1|exact (compact_from_In _ _ _ Hz2)].
  Qed.
  Lemma compact_NoDup {B} (f : A -> B) l : NoDup (map f l) -> NoDup (map f (compact e l)).
  Proof.
    destruct l as [|y l]; cbn [compact]; [auto|]. intros ND.
    cbn [map] in *. inversion ND as [|? ? Hn ND']; subst. constructor; [|apply compact_from_NoDup; exact ND'].
    intros HI. apply Hn. apply in_map_iff in HI. destruct HI as [z [Hz1 Hz2]].
    apply in_map_iff. exists z. split; [exact Hz1|exact (compact_from_In _ _ _ Hz2)].
  Qed.
  (* nothing is lost up to the equivalence the comparator decides *)
  Variable R : A -> A -> Prop.
  Hypothesis R_refl : forall a, R a a.
  Hypothesis R_trans : forall a b c, R a b -> R b c -> R a c.
  Hypothesis e_R : forall a b, e a b = true -> R a b.
  Lemma compact_from_complete prev l x :
    In x l -> (exists y, In y (compact_from e prev l) /\ R x y) \/ R x prev.
  Proof.
    revert prev. induction l as [|y l IH]; intros prev Hx; [contradiction|].
    cbn [compact_from]. destruct Hx as [->|Hx].
    - destruct (e x prev) eqn:E; [right; apply e_R; exact E|].
      left. exists x. split; [left; reflexivity|apply R_refl].
    - destruct (IH y Hx) as [[z [Hz1 Hz2]]|Hr].
      + left. exists z. split; [|exact Hz2]. destruct (e y prev); [exact Hz1|right; exact Hz1].
      + destruct (e y prev) eqn:E.
        * right. apply (R_trans _ y); [exact Hr|apply e_R; exact E].
        * left. exists y. split; [left; reflexivity|exact Hr].
  Qed.
  Lemma compact_complete l x : In x l -> exists y, In y (compact e l) /\ R x y.
  Proof.
    destruct l as [|y l]; [contradiction|]. cbn [compact]. intros [->|Hx].
    - exists x. split; [left; reflexivity|apply R_refl].
    - destruct (compact_from_complete y l x Hx) as [[z [Hz1 Hz2]]|Hr].
      + exists z. split; [right; exact Hz1|exact Hz2].
      + exists y. split; [left; reflexivity|exact Hr].
  Qed.
End Compact.

Lemma isort_In {A} (c : A -> A -> comparison) l x : In x (isort c l) <-> In x l.
Proof.
  split; intros H.
  - apply (Permutation_in x (Permutation_sym (isort_perm c l))). exact H.
  - apply (Permutation_in x (isort_perm c l)). exact H.
Qed.

(* ------------------------------------------------------------------ diff_apply_roundtrip *)
Definition additions_plain_P (mgmt : rtype) (old new : list req) : Prop :=
  forall r, In r new -> ~ In (key r) (keys old) -> t_tk (r_type r) = t_tk mgmt.

Lemma req_update_ukey mgmt old r u :
  (~ In (key r) (keys old) -> t_tk (r_type r) = t_tk mgmt) ->
  In u (req_update mgmt old r) -> ukey u = key r.
Proof.
  intros Hp. unfold req_update. destruct (find_last (key r) old) as [o|] eqn:E.
  - destruct (find_last_key _ _ _ E) as [Hk _].
    destruct (N.eqb (r_ver r) (r_ver o)); [intros []|]. intros [<-|[]].
    unfold ukey. cbn [u_name u_type]. unfold key in Hk |- *. inversion Hk as [[H1 H2]]. reflexivity.
  - apply find_last_None in E. intros [<-|[]]. unfold ukey, key. cbn [u_name u_type]. rewrite (Hp E). reflexivity.
Qed.

Lemma raw_updates_NoDup mgmt old new :
  NoDup (keys new) -> additions_plain_P mgmt old new ->
  NoDup (map ukey (flat_map (req_update mgmt old) new)).
Proof.
  induction new as [|r new IH]; intros ND Hp; cbn [flat_map]; [constructor|].
  cbn [keys map] in ND. inversion ND as [|? ? Hn ND']; subst.
  assert (Hp' : additions_plain_P mgmt old new) by (intros x Hx; apply Hp; right; exact Hx).
  specialize (IH ND' Hp'). rewrite map_app.
  assert (Hr : forall u, In u (req_update mgmt old r) -> ukey u = key r).
  { intros u. apply req_update_ukey. apply Hp. left. reflexivity. }
  assert (Hrest : forall k, In k (map ukey (flat_map (req_update mgmt old) new)) -> In k (keys new)).
  { intros k Hk. apply in_map_iff in Hk. destruct Hk as [u [<- Hu]]. apply in_flat_map in Hu.
    destruct Hu as [x [Hx Hu]]. rewrite (req_update_ukey mgmt old x u); [apply in_map; exact Hx| |exact Hu].
    apply Hp'. exact Hx. }
  unfold req_update in *. destruct (find_last (key r) old) as [o|].
  - destruct (N.eqb (r_ver r) (r_ver o)); cbn [map app]; [exact IH|].
    constructor; [|exact IH]. intros HI. apply Hn. apply Hrest.
    rewrite <- (Hr _ (or_introl eq_refl)). exact HI.
  - cbn [map app]. constructor; [|exact IH]. intros HI. apply Hn. apply Hrest.
    rewrite <- (Hr _ (or_introl eq_refl)). exact HI.
Qed.

Lemma NoDup_keys_inj l r r' : NoDup (keys l) -> In r l -> In r' l -> key r = key r' -> r = r'.
Proof.
  induction l as [|x l IH]; intros ND H1 H2 E; [contradiction|].
  cbn [keys map] in ND. inversion ND as [|? ? Hn ND']; subst.
  destruct H1 as [->|H1], H2 as [->|H2]; [reflexivity| | |apply IH; assumption].
  - exfalso. apply Hn. rewrite E. apply in_map. exact H2.
  - exfalso. apply Hn. rewrite <- E. apply in_map. exact H1.
Qed.

Theorem diff_apply_roundtrip_lemma mgmt old new :
  NoDup (keys old) -> NoDup (keys new) ->
  (forall k, In k (keys old) -> In k (keys new)) ->
  additions_plain_P mgmt old new ->
  forall k, lookup k (apply_updates (req_updates mgmt old new) old) = lookup k new.
Proof.
  intros NDo NDn Hsub Hp k.
  set (raw := flat_map (req_update mgmt old) new).
  assert (NDraw : NoDup (map ukey raw)) by (apply raw_updates_NoDup; assumption).
  assert (NDU : NoDup (map ukey (req_updates mgmt old new))).
  { unfold req_updates. apply compact_NoDup.
    apply (Permutation_NoDup (Permutation_map ukey (isort_perm update_cmp raw))). exact NDraw. }
  assert (Hsound : forall u, In u (req_updates mgmt old new) -> In u raw).
  { intros u Hu. unfold req_updates in Hu. apply compact_In in Hu. apply isort_In in Hu. exact Hu. }
  assert (Hcompl : forall u, In u raw -> exists u', In u' (req_updates mgmt old new) /\ ueq u u').
  { intros u Hu. unfold req_updates.
    apply (compact_complete (cmp_eqb update_cmp) ueq ueq_refl ueq_trans).
    - intros a b H. apply update_cmp_Eq. exact H.
    - apply isort_In. exact Hu. }
  assert (Hraw_key : forall u, In u raw -> exists r, In r new /\ In u (req_update mgmt old r) /\ ukey u = key r).
  { intros u Hu. apply in_flat_map in Hu. destruct Hu as [r [Hr Hu]]. exists r. split; [exact Hr|]. split; [exact Hu|].
    apply (req_update_ukey mgmt old r u); [|exact Hu]. apply Hp. exact Hr. }
  rewrite lookup_apply_updates.
  (* an update in raw reaches the final list with its key and target *)
  assert (Hhit : forall u, In u raw -> last_to (ukey u) (req_updates mgmt old new) = Some (u_to u)).
  { intros u Hu. destruct (Hcompl u Hu) as [u' [Hu' He]]. destruct (ueq_ukey _ _ He) as [Hk Ht].
    rewrite Hk, Ht. apply last_to_Some_unique; [exact NDU|exact Hu'|reflexivity]. }
  destruct (in_dec (fun a b : rkey => match key_eqb a b as x return key_eqb a b = x -> {a = b} + {a <> b} with
                                      | true => fun E => left (proj1 (key_eqb_eq a b) E)
                                      | false => fun E => right (proj1 (key_eqb_neq a b) E) end eq_refl)
                   k (keys new)) as [Hin|Hnin].
  - apply in_map_iff in Hin. destruct Hin as [r [Hk Hr]]. subst k.
    rewrite (lookup_In_unique new NDn r Hr).
    destruct (find_last (key r) old) as [o|] eqn:E.
    + destruct (N.eqb (r_ver r) (r_ver o)) eqn:Ev.
      * (* unchanged: no update under this key *)
        apply N.eqb_eq in Ev.
        assert (HN : last_to (key r) (req_updates mgmt old new) = None).
        { apply last_to_None. intros u Hu Hk. destruct (Hraw_key u (Hsound u Hu)) as [r' [Hr' [Hu' Hk']]].
          assert (r' = r) by (apply (NoDup_keys_inj new); [assumption..|congruence]). subst r'.
          unfold req_update in Hu'. rewrite E in Hu'. rewrite (proj2 (N.eqb_eq _ _) Ev) in Hu'. exact Hu'. }
        rewrite HN, (find_last_lookup _ _ _ NDo E), Ev. reflexivity.
      * set (u0 := {| u_name := r_name r; u_from := r_ver o; u_to := r_ver r; u_type := r_type o;
                      u_transitive := negb (is_direct old (r_name r)) |}).
        assert (Hu0 : In u0 raw).
        { apply in_flat_map. exists r. split; [exact Hr|]. unfold req_update. rewrite E, Ev. left. reflexivity. }
        assert (Hk0 : ukey u0 = key r).
        { apply (req_update_ukey mgmt old r); [apply Hp; exact Hr|]. unfold req_update. rewrite E, Ev. left. reflexivity. }
        rewrite <- Hk0, (Hhit u0 Hu0). reflexivity.
    + set (u0 := {| u_name := r_name r; u_from := 0; u_to := r_ver r; u_type := mgmt; u_transitive := true |}).
      assert (Hu0 : In u0 raw).
      { apply in_flat_map. exists r. split; [exact Hr|]. unfold req_update. rewrite E. left. reflexivity. }
      assert (Hk0 : ukey u0 = key r).
      { apply (req_update_ukey mgmt old r); [apply Hp; exact Hr|]. unfold req_update. rewrite E. left. reflexivity. }
      rewrite <- Hk0, (Hhit u0 Hu0). reflexivity.
  - assert (HN : last_to k (req_updates mgmt old new) = None).
    { apply last_to_None. intros u Hu Hk. destruct (Hraw_key u (Hsound u Hu)) as [r' [Hr' [_ Hk']]].
      apply Hnin. rewrite <- Hk, Hk'. apply in_map. exact Hr'. }
    rewrite HN. rewrite (proj2 (lookup_None k new) Hnin). apply lookup_None.
    intros HI. apply Hnin. apply Hsub. exact HI.
Qed.

(* ------------------------------------------------------------------ fixed / introduced algebra *)
Definition idsv (l : list vuln) : list N := map v_id l.

Lemma upsert_ids v m i : In i (idsv (upsert v m)) <-> i = v_id v \/ In i (idsv m).
Proof.
  induction m as [|w m IH]; cbn [upsert].
  - cbn. intuition congruence.
  - destruct (N.eqb (v_id w) (v_id v)) eqn:E.
    + apply N.eqb_eq in E. cbn [idsv map In]. rewrite E. intuition congruence.
    + cbn [idsv map In]. fold (idsv (upsert v m)) (idsv m). rewrite IH. intuition congruence.
Qed.
Lemma fold_upsert_ids l : forall m0 i,
  In i (idsv (fold_left (fun m v => upsert v m) l m0)) <-> In i (idsv l) \/ In i (idsv m0).
Proof.
  induction l as [|v l IH]; intros m0 i; cbn [fold_left].
  - cbn. tauto.
  - rewrite IH, upsert_ids. cbn [idsv map In]. fold (idsv l). intuition congruence.
Qed.
Lemma has_id_In i m : has_id i m = true <-> In i (idsv m).
Proof.
  unfold has_id, idsv. rewrite existsb_exists, in_map_iff. split.
  - intros [w [Hw E]]. apply N.eqb_eq in E. exists w. auto.
  - intros [w [E Hw]]. exists w. split; [exact Hw|apply N.eqb_eq; exact E].
Qed.
Lemma del_id_In i m j : In j (idsv (del_id i m)) <-> In j (idsv m) /\ j <> i.
Proof.
  unfold del_id, idsv. rewrite !in_map_iff. split.
  - intros [w [E Hw]]. apply filter_In in Hw. destruct Hw as [Hw Hn]. apply negb_true_iff, N.eqb_neq in Hn.
    split; [exists w; auto|congruence].
  - intros [[w [E Hw]] Hn]. exists w. split; [exact E|]. apply filter_In. split; [exact Hw|].
    apply negb_true_iff, N.eqb_neq. congruence.
Qed.

Lemma diff_fold_fixed nw : forall fx intro i,
  In i (idsv (fst (fold_left diff_step nw (fx, intro)))) <-> In i (idsv fx) /\ ~ In i (idsv nw).
Proof.
  induction nw as [|v nw IH]; intros fx intro i; cbn [fold_left idsv map In fst].
  - tauto.
  - fold (idsv nw). unfold diff_step at 2. destruct (has_id (v_id v) fx) eqn:E.
    + rewrite IH, del_id_In. intuition.
    + rewrite IH. assert (~ In (v_id v) (idsv fx)).
      { intros HI. apply has_id_In in HI. congruence. }
      split; [intros [H1 H2]; split; [exact H1|]; intros [H3|H3]; [subst; contradiction|contradiction]
             |intros [H1 H2]; split; [exact H1|]; intros H3; apply H2; right; exact H3].
Qed.
Lemma diff_fold_intro nw : forall fx intro i, NoDup (idsv nw) ->
  (In i (idsv (snd (fold_left diff_step nw (fx, intro)))) <->
   In i (idsv intro) \/ (In i (idsv nw) /\ ~ In i (idsv fx))).
Proof.
  induction nw as [|v nw IH]; intros fx intro i ND; cbn [fold_left idsv map In snd].
  - tauto.
  - fold (idsv nw). cbn [idsv map] in ND. inversion ND as [|? ? Hn ND']; subst. fold (idsv nw) in Hn, ND'.
    unfold diff_step at 2. destruct (has_id (v_id v) fx) eqn:E.
    + apply has_id_In in E. rewrite (IH _ _ _ ND'), del_id_In. split.
      * intros [H|[H1 H2]]; [left; exact H|]. right. split; [right; exact H1|].
        intros H3. apply H2. split; [exact H3|]. intros ->. contradiction.
      * intros [H|[[H1|H1] H2]]; [left; exact H|subst; contradiction|].
        right. split; [exact H1|]. intros [H3 _]. contradiction.
    + assert (Hnf : ~ In (v_id v) (idsv fx)) by (intros HI; apply has_id_In in HI; congruence).
      rewrite (IH _ _ _ ND'), upsert_ids. split.
      * intros [[H|H]|[H1 H2]]; [right; split; [left; auto|subst; exact Hnf]|left; exact H|right; split; [right; exact H1|exact H2]].
      * intros [H|[[H1|H1] H2]]; [left; right; exact H|left; left; auto|right; split; assumption].
Qed.

Theorem fixed_introduced_algebra_lemma old_vulns new_vulns :
  NoDup (idsv new_vulns) ->
  let (fx, intro) := vuln_diff old_vulns new_vulns in
  (forall i, In i (idsv new_vulns) <-> (In i (idsv old_vulns) /\ ~ In i (idsv fx)) \/ In i (idsv intro)) /\
  (forall i, In i (idsv fx) -> In i (idsv old_vulns)) /\
  (forall i, In i (idsv intro) -> ~ In i (idsv old_vulns)).
Proof.
  intros ND. unfold vuln_diff.
  set (fixed0 := fold_left (fun m v => upsert v m) old_vulns []).
  destruct (fold_left diff_step new_vulns (fixed0, [])) as [fx intro] eqn:E.
  assert (H0 : forall i, In i (idsv fixed0) <-> In i (idsv old_vulns)).
  { intros i. unfold fixed0. rewrite fold_upsert_ids. cbn. tauto. }
  assert (Hf : forall i, In i (idsv (isort vuln_cmp fx)) <-> In i (idsv old_vulns) /\ ~ In i (idsv new_vulns)).
  { intros i. unfold idsv at 1. rewrite in_map_iff.
    pose proof (diff_fold_fixed new_vulns fixed0 [] i) as H. rewrite E in H. cbn [fst] in H. rewrite H0 in H.
    rewrite <- H. unfold idsv. rewrite in_map_iff. split; intros [w [Hw1 Hw2]]; exists w; (split; [exact Hw1|]); apply isort_In in Hw2 || apply isort_In; exact Hw2. }
  assert (Hi : forall i, In i (idsv (isort vuln_cmp intro)) <-> In i (idsv new_vulns) /\ ~ In i (idsv old_vulns)).
  { intros i. unfold idsv at 1. rewrite in_map_iff.
    pose proof (diff_fold_intro new_vulns fixed0 [] i ND) as H. rewrite E in H. cbn [snd] in H. rewrite H0 in H.
    cbn [idsv map In] in H. transitivity (In i (idsv intro)).
    - unfold idsv. rewrite in_map_iff. split; intros [w [Hw1 Hw2]]; exists w; (split; [exact Hw1|]); apply isort_In in Hw2 || apply isort_In; exact Hw2.
    - rewrite H. tauto. }
  split; [|split].
  - intros i. rewrite Hf, Hi.
    destruct (in_dec N.eq_dec i (idsv old_vulns)); destruct (in_dec N.eq_dec i (idsv new_vulns)); tauto.
  - intros i H. apply Hf in H. tauto.
  - intros i H. apply Hi in H. tauto.
Qed.

(* ------------------------------------------------------------------ choosePatches *)
Lemma choose_loop_subset all : forall max ni pk fx p, In p (choose_loop all max ni pk fx) -> In p all.
Proof.
  induction all as [|q all IH]; intros max ni pk fx p; cbn [choose_loop]; [auto|].
  destruct (incompatible q pk fx ni).
  - intros H. right. exact (IH _ _ _ _ _ H).
  - intros [H|H]; [left; exact H|]. destruct (Z.eqb (max - 1) 0); [contradiction|]. right. exact (IH _ _ _ _ _ H).
Qed.
Lemma choose_loop_at_most all : forall max ni pk fx, (0 < max)%Z ->
  (Z.of_nat (length (choose_loop all max ni pk fx)) <= max)%Z.
Proof.
  induction all as [|q all IH]; intros max ni pk fx Hm; cbn [choose_loop length]; [lia|].
  destruct (incompatible q pk fx ni); [apply IH; exact Hm|].
  cbn [length]. destruct (Z.eqb_spec (max - 1) 0) as [E|E]; [cbn [length]; lia|].
  assert (0 < max - 1)%Z by lia. specialize (IH (max - 1)%Z ni (pk ++ changes q) (fx ++ fixed_ids q) H). lia.
Qed.
Lemma choose_loop_no_introduce all : forall max pk fx p,
  In p (choose_loop all max true pk fx) -> p_introduced p = [].
Proof.
  induction all as [|q all IH]; intros max pk fx p; cbn [choose_loop]; [contradiction|].
  destruct (incompatible q pk fx true) eqn:E; [apply IH|].
  intros [<-|H].
  - unfold incompatible in E. apply orb_false_iff in E. destruct E as [_ E]. cbn [andb] in E.
    destruct (p_introduced q); [reflexivity|discriminate].
  - destruct (Z.eqb (max - 1) 0); [contradiction|]. exact (IH _ _ _ _ H).
Qed.
(* what has been taken is remembered: a later patch touching the same (package, version) or fixing
   an already fixed vulnerability is never taken *)
Lemma choose_loop_compatible all : forall max ni pk fx p,
  In p (choose_loop all max ni pk fx) ->
  (forall c, In c (changes p) -> mem_pkg c pk = false) /\ (forall i, In i (fixed_ids p) -> memN i fx = false).
Proof.
  induction all as [|q all IH]; intros max ni pk fx p; cbn [choose_loop]; [contradiction|].
  destruct (incompatible q pk fx ni) eqn:E; [apply IH|].
  intros [<-|H].
  - unfold incompatible in E. apply orb_false_iff in E. destruct E as [E _]. apply orb_false_iff in E. destruct E as [E1 E2].
    split.
    + intros c Hc. destruct (mem_pkg c pk) eqn:Em; [|reflexivity].
      assert (existsb (fun c0 => mem_pkg c0 pk) (changes q) = true) by (apply existsb_exists; exists c; auto). congruence.
    + intros i Hi. destruct (memN i fx) eqn:Em; [|reflexivity].
      assert (existsb (fun i0 => memN i0 fx) (fixed_ids q) = true) by (apply existsb_exists; exists i; auto). congruence.
  - destruct (Z.eqb (max - 1) 0); [contradiction|]. destruct (IH _ _ _ _ _ H) as [H1 H2]. split.
    + intros c Hc. specialize (H1 c Hc). unfold mem_pkg in *. rewrite existsb_app in H1. apply orb_false_iff in H1. tauto.
    + intros i Hi. specialize (H2 i Hi). unfold memN in *. rewrite existsb_app in H2. apply orb_false_iff in H2. tauto.
Qed.

(* ------------------------------------------------------------------ computeVulnsResult *)
Lemma fixable_true all p i : In p all -> In i (fixed_ids p) -> fixable all i = true.
Proof.
  intros Hp Hi. unfold fixable. apply existsb_exists. exists p. split; [exact Hp|apply memN_In; exact Hi].
Qed.
Lemma compute_vulns_result_In vulns all e :
  In e (compute_vulns_result vulns all) <->
  exists v, In v vulns /\ e = {| o_id := v_id v; o_pkgs := compact (cmp_eqb pkg_cmp) (isort pkg_cmp (v_pkgs v));
                                  o_unactionable := negb (fixable all (v_id v)) |}.
Proof.
  unfold compute_vulns_result. rewrite isort_In, in_map_iff. split; intros [v [H1 H2]]; exists v; auto.
Qed.
Lemma compute_vulns_result_ids vulns all i :
  In i (map o_id (compute_vulns_result vulns all)) <-> In i (idsv vulns).
Proof.
  rewrite in_map_iff. unfold idsv. rewrite in_map_iff. split.
  - intros [e [E He]]. apply compute_vulns_result_In in He. destruct He as [v [Hv ->]]. exists v. auto.
  - intros [v [E Hv]]. eexists. split; [|apply compute_vulns_result_In; exists v; split; [exact Hv|reflexivity]]. exact E.
Qed.

Theorem applied_fix_not_unactionable_lemma vulns all max ni p i e :
  In p (choose_patches all max ni) -> In i (fixed_ids p) ->
  In e (compute_vulns_result vulns all) -> o_id e = i -> o_unactionable e = false.
Proof.
  intros Hp Hi He Hid. apply compute_vulns_result_In in He. destruct He as [v [Hv ->]].
  cbn [o_id o_unactionable] in *. subst i.
  rewrite (fixable_true all p (v_id v)); [reflexivity| |exact Hi].
  unfold choose_patches in Hp. exact (choose_loop_subset _ _ _ _ _ _ Hp).
Qed.

(* ------------------------------------------------------------------ the boolean domains *)
Lemma roundtrip_domain_sound mgmt old new : roundtrip_domain mgmt old new = true ->
  NoDup (keys old) /\ NoDup (keys new) /\ (forall k, In k (keys old) -> In k (keys new)) /\
  additions_plain_P mgmt old new.
Proof.
  unfold roundtrip_domain, unique_keys, subset_keys, additions_plain. rewrite !andb_true_iff.
  intros [[[H1 H2] H3] H4]. apply nodup_keys_NoDup in H1, H2.
  split; [exact H1|]. split; [exact H2|]. split.
  - intros k Hk. rewrite forallb_forall in H3. apply mem_key_In. apply H3. exact Hk.
  - intros r Hr Hn. rewrite forallb_forall in H4. specialize (H4 r Hr). apply orb_true_iff in H4.
    destruct H4 as [H4|H4]; [apply mem_key_In in H4; contradiction|apply N.eqb_eq; exact H4].
Qed.

Lemma rgv_snd o all : snd (resolve_graph_vulns o all) = filter (match_vuln (fst (resolve_graph_vulns o all))) all.
Proof. reflexivity. Qed.
Lemma rgv_fst o all : fst (resolve_graph_vulns o all) = o.
Proof. reflexivity. Qed.

Lemma NoDup_map_filter {A B} (f : A -> B) (g : A -> bool) l : NoDup (map f l) -> NoDup (map f (filter g l)).
Proof.
  induction l as [|x l IH]; cbn [map filter]; [auto|]. intros ND. inversion ND as [|? ? Hn ND']; subst.
  destruct (g x); [|apply IH; exact ND']. cbn [map]. constructor; [|apply IH; exact ND'].
  intros HI. apply Hn. apply in_map_iff in HI. destruct HI as [y [E Hy]]. apply filter_In in Hy.
  apply in_map_iff. exists y. tauto.
Qed.

(* ------------------------------------------------------------------ the pipeline *)
Section PipelineProofs.
  Variable File : Type.
  Variable read : File -> list req.
  Variable write : File -> list update -> File.
  Variable analyse : list req -> list fvuln.
  Variable mgmt : rtype.

  Definition same_map (a b : list req) : Prop := forall k, lookup k a = lookup k b.

  (* resolution + vulnerability matching is a function of the requirement map and never lists an
     ID twice (FindVulnerabilities collects into a map keyed by ID) *)
  Hypothesis analyse_ext : forall a b, same_map a b -> forall v, In v (analyse a) <-> In v (analyse b).
  Hypothesis analyse_nodup : forall a, NoDup (map f_id (analyse a)).

  Lemma patch_of_parts o1 orig c :
    let nv := map to_vuln (filter_vulns o1 (analyse c)) in
    p_updates (patch_of analyse mgmt o1 orig c) = req_updates mgmt (m_reqs orig) c /\
    p_fixed (patch_of analyse mgmt o1 orig c) = fst (vuln_diff (m_vulns orig) nv) /\
    p_introduced (patch_of analyse mgmt o1 orig c) = snd (vuln_diff (m_vulns orig) nv).
  Proof.
    cbn zeta. unfold patch_of, construct_patches. cbn [m_reqs m_vulns].
    destruct (vuln_diff (m_vulns orig) (map to_vuln (filter_vulns o1 (analyse c)))). cbn. auto.
  Qed.

  Lemma idsv_to_vuln l : idsv (map to_vuln l) = map f_id l.
  Proof. unfold idsv. rewrite map_map. reflexivity. Qed.

  Theorem reanalysis_lemma o f cands max ni p :
    let rep := fix_vulns File read write analyse mgmt o f cands max ni in
    rep_patches rep = [p] ->
    same_map (read (write f (p_updates p))) (apply_updates (p_updates p) (read f)) ->
    (forall c, In c cands -> roundtrip_domain mgmt (read f) c = true) ->
    forall i, In i (fresh_ids File read analyse o (rep_file rep)) <->
              (In i (map o_id (rep_vulns rep)) /\ ~ In i (fixed_ids p)) \/ In i (idsv (p_introduced p)).
  Proof.
    cbn zeta. unfold fix_vulns.
    destruct (resolve_graph_vulns o (analyse (read f))) as [o1 kept] eqn:E0.
    cbn [rep_patches rep_vulns rep_file].
    set (m := read f). set (orig := {| m_reqs := m; m_vulns := map to_vuln kept |}).
    set (all := map (patch_of analyse mgmt o1 orig) cands).
    intros Hch Hwr Hdom i.
    assert (Hp : In p all).
    { apply (choose_loop_subset all max ni [] []). fold (choose_patches all max ni). rewrite Hch. left. reflexivity. }
    unfold all in Hp. apply in_map_iff in Hp. destruct Hp as [c [Hpc Hc]].
    rewrite Hch in *. cbn [flat_map] in *. rewrite app_nil_r in *.
    destruct (patch_of_parts o1 orig c) as [Hu [Hf Hi]]. rewrite Hpc in Hu, Hf, Hi.
    set (nv := map to_vuln (filter_vulns o1 (analyse c))) in *.
    (* the written file read back is the candidate's requirement map *)
    destruct (roundtrip_domain_sound _ _ _ (Hdom c Hc)) as [D1 [D2 [D3 D4]]].
    assert (Hsame : same_map (read (write f (p_updates p))) c).
    { intros k. rewrite Hwr, Hu. cbn [m_reqs]. apply diff_apply_roundtrip_lemma; assumption. }
    set (A2 := analyse (read (write f (p_updates p)))) in *.
    assert (HA : forall v, In v A2 <-> In v (analyse c)) by (apply analyse_ext; exact Hsame).
    (* the first analysis leaves the options as they are, so the strategies and the fresh analysis filter alike *)
    assert (Ho1 : o1 = o).
    { pose proof (rgv_fst o (analyse (read f))) as H. rewrite E0 in H. exact H. }
    subst o1.
    assert (Hfresh : In i (fresh_ids File read analyse o (write f (p_updates p))) <-> In i (idsv nv)).
    { unfold fresh_ids. fold A2. rewrite rgv_snd, rgv_fst. unfold nv. rewrite idsv_to_vuln. unfold filter_vulns.
      rewrite !in_map_iff. split; intros [v [E Hv]]; exists v; (split; [exact E|]); apply filter_In in Hv; apply filter_In; destruct Hv as [Hv1 Hv2].
      - split; [apply HA; exact Hv1|exact Hv2].
      - split; [apply HA; exact Hv1|exact Hv2]. }
    rewrite Hfresh.
    assert (ND : NoDup (idsv nv)).
    { unfold nv. rewrite idsv_to_vuln. apply NoDup_map_filter. apply analyse_nodup. }
    pose proof (fixed_introduced_algebra_lemma (m_vulns orig) nv ND) as Halg.
    destruct (vuln_diff (m_vulns orig) nv) as [fx intro] eqn:Ed. cbn [fst snd] in Hf, Hi.
    destruct Halg as [H1 _]. rewrite H1.
    unfold fixed_ids. rewrite Hf, Hi. fold (idsv fx).
    rewrite compute_vulns_result_ids. reflexivity.
  Qed.

  Theorem no_patch_no_change_lemma o f cands max ni :
    let rep := fix_vulns File read write analyse mgmt o f cands max ni in
    rep_patches rep = [] ->
    same_map (read (write f [])) (apply_updates [] (read f)) ->
    same_map (read (rep_file rep)) (read f).
  Proof.
    cbn zeta. unfold fix_vulns. destruct (resolve_graph_vulns o (analyse (read f))) as [o1 kept].
    cbn [rep_patches rep_file]. intros Hch Hwr. rewrite Hch. cbn [flat_map]. exact Hwr.
  Qed.

  Theorem pipeline_fix_not_unactionable_lemma o f cands max ni p i :
    let rep := fix_vulns File read write analyse mgmt o f cands max ni in
    In p (rep_patches rep) -> In i (fixed_ids p) ->
    exists e, In e (rep_vulns rep) /\ o_id e = i /\ o_unactionable e = false.
  Proof.
    cbn zeta. unfold fix_vulns. destruct (resolve_graph_vulns o (analyse (read f))) as [o1 kept].
    cbn [rep_patches rep_vulns].
    set (orig := {| m_reqs := read f; m_vulns := map to_vuln kept |}).
    set (all := map (patch_of analyse mgmt o1 orig) cands). intros Hp Hi.
    assert (Hpa : In p all) by (apply (choose_loop_subset all max ni [] []); exact Hp).
    unfold all in Hpa. apply in_map_iff in Hpa. destruct Hpa as [c [Hpc Hc]].
    destruct (patch_of_parts o1 orig c) as [_ [Hf _]]. rewrite Hpc in Hf.
    set (nv := map to_vuln (filter_vulns o1 (analyse c))) in *.
    assert (ND : NoDup (idsv nv)).
    { unfold nv. rewrite idsv_to_vuln. apply NoDup_map_filter. apply analyse_nodup. }
    pose proof (fixed_introduced_algebra_lemma (m_vulns orig) nv ND) as Halg.
    destruct (vuln_diff (m_vulns orig) nv) as [fx intro]. cbn [fst] in Hf.
    destruct Halg as [_ [H2 _]]. unfold fixed_ids in Hi. rewrite Hf in Hi. specialize (H2 i Hi).
    apply compute_vulns_result_ids with (all := all) in H2. apply in_map_iff in H2. destruct H2 as [e [He1 He2]].
    exists e. split; [exact He2|]. split; [exact He1|].
    apply (applied_fix_not_unactionable_lemma (m_vulns orig) all max ni p i e); try assumption.
    unfold fixed_ids. rewrite Hf. exact Hi.
  Qed.
End PipelineProofs.

(* ------------------------------------------------------------------ candidates are clones patched with PatchRequirement *)
Inductive npm_reach : list req -> list req -> Prop :=
| npm_reach_refl l : npm_reach l l
| npm_reach_step l l1 nr l2 : npm_reach l l1 -> npm_patch nr l1 = Some l2 -> npm_reach l l2.
Inductive maven_reach (mgmt : rtype) : list req -> list req -> Prop :=
| maven_reach_refl l : maven_reach mgmt l l
| maven_reach_step l l1 name ver : maven_reach mgmt l l1 -> maven_reach mgmt l (maven_patch mgmt name ver l1).

Lemma npm_patch_keys nr l : forall l', npm_patch nr l = Some l' -> keys l' = keys l.
Proof.
  induction l as [|r l IH]; intros l'; cbn [npm_patch]; [discriminate|].
  destruct (key_eqb (key r) (key nr)) eqn:E.
  - intros H. inversion H; subst. apply key_eqb_eq in E. cbn [keys map]. rewrite E. reflexivity.
  - destruct (npm_patch nr l) as [x|]; [|discriminate]. intros H. inversion H; subst.
    cbn [keys map]. f_equal. apply IH. reflexivity.
Qed.
Lemma npm_reach_keys old new : npm_reach old new -> keys new = keys old.
Proof.
  induction 1 as [|l l1 nr l2 _ IH Hp]; [reflexivity|]. rewrite (npm_patch_keys _ _ _ Hp). exact IH.
Qed.

Theorem roundtrip_npm_patched_lemma mgmt old new :
  NoDup (keys old) -> npm_reach old new ->
  forall k, lookup k (apply_updates (req_updates mgmt old new) old) = lookup k new.
Proof.
  intros ND Hr. pose proof (npm_reach_keys _ _ Hr) as Hk.
  apply diff_apply_roundtrip_lemma; [exact ND|rewrite Hk; exact ND|intros k; rewrite Hk; auto|].
  intros r Hrn Hn. exfalso. apply Hn. rewrite <- Hk. apply in_map. exact Hrn.
Qed.

Definition plain_origin (r : req) : Prop := t_origin (r_type r) = 0 \/ t_origin (r_type r) = 1.
Definition set_name_ver (name ver : N) (r : req) : req :=
  if N.eqb (r_name r) name then {| r_name := r_name r; r_ver := ver; r_type := r_type r |} else r.

Lemma maven_patch_plain mgmt name ver l : (forall r, In r l -> plain_origin r) ->
  maven_patch mgmt name ver l =
  if existsb (fun r => N.eqb (r_name r) name) l then map (set_name_ver name ver) l
  else map (set_name_ver name ver) l ++ [ {| r_name := name; r_ver := ver; r_type := mgmt |} ].
Proof.
  intros Hp. unfold maven_patch.
  assert (Hpl : forall r, In r l -> (N.eqb (t_origin (r_type r)) 0 || N.eqb (t_origin (r_type r)) 1)%bool = true).
  { intros r Hr. destruct (Hp r Hr) as [H|H]; rewrite H; reflexivity. }
  assert (H1 : flat_map (fun r => if N.eqb (r_name r) name then
                 if (N.eqb (t_origin (r_type r)) 0 || N.eqb (t_origin (r_type r)) 1)%bool
                 then [ {| r_name := r_name r; r_ver := ver; r_type := r_type r |} ] else [] else [r]) l
               = map (set_name_ver name ver) l).
  { clear Hp. induction l as [|r l IH]; [reflexivity|]. cbn [flat_map map]. rewrite IH by (intros x Hx; apply Hpl; right; exact Hx).
    unfold set_name_ver at 2. destruct (N.eqb (r_name r) name); [|reflexivity].
    rewrite (Hpl r (or_introl eq_refl)). reflexivity. }
  assert (H2 : existsb (fun r => (N.eqb (r_name r) name && (N.eqb (t_origin (r_type r)) 0 || N.eqb (t_origin (r_type r)) 1))%bool) l
               = existsb (fun r => N.eqb (r_name r) name) l).
  { clear Hp H1. induction l as [|r l IH]; [reflexivity|]. cbn [existsb]. rewrite IH by (intros x Hx; apply Hpl; right; exact Hx).
    rewrite (Hpl r (or_introl eq_refl)), andb_true_r. reflexivity. }
  rewrite H1, H2. reflexivity.
Qed.
Lemma set_name_ver_keys name ver l : keys (map (set_name_ver name ver) l) = keys l.
Proof.
  unfold keys. rewrite map_map. apply map_ext. intros r. unfold set_name_ver.
  destruct (N.eqb (r_name r) name); reflexivity.
Qed.

Lemma maven_reach_inv mgmt old new :
  t_origin mgmt = 1 -> NoDup (keys old) -> (forall r, In r old -> plain_origin r) -> maven_reach mgmt old new ->
  NoDup (keys new) /\ (forall r, In r new -> plain_origin r) /\
  (forall k, In k (keys old) -> In k (keys new)) /\ additions_plain_P mgmt old new.
Proof.
  intros Hm ND Hpl Hr. induction Hr as [|l l1 name ver _ IH].
  - split; [exact ND|]. split; [exact Hpl|]. split; [auto|].
    intros r Hrn Hn. exfalso. apply Hn. apply in_map. exact Hrn.
  - specialize (IH ND Hpl). destruct IH as [I1 [I2 [I3 I4]]].
    rewrite (maven_patch_plain mgmt name ver l1 I2).
    assert (Hmap_plain : forall r, In r (map (set_name_ver name ver) l1) -> plain_origin r).
    { intros r Hrn. apply in_map_iff in Hrn. destruct Hrn as [x [<- Hx]]. specialize (I2 x Hx).
      unfold set_name_ver. destruct (N.eqb (r_name x) name); exact I2. }
    assert (Hmap_add : forall r, In r (map (set_name_ver name ver) l1) -> ~ In (key r) (keys l) -> t_tk (r_type r) = t_tk mgmt).
    { intros r Hrn Hn. apply in_map_iff in Hrn. destruct Hrn as [x [<- Hx]].
      assert (Hkx : key (set_name_ver name ver x) = key x) by (unfold set_name_ver; destruct (N.eqb (r_name x) name); reflexivity).
      rewrite Hkx in Hn. specialize (I4 x Hx Hn). unfold set_name_ver. destruct (N.eqb (r_name x) name); exact I4. }
    destruct (existsb (fun r => N.eqb (r_name r) name) l1) eqn:E.
    + rewrite set_name_ver_keys. split; [exact I1|]. split; [exact Hmap_plain|]. split; [exact I3|exact Hmap_add].
    + assert (Hfresh : ~ In (name, t_tk mgmt) (keys l1)).
      { intros HI. apply in_map_iff in HI. destruct HI as [x [Hk Hx]].
        assert (existsb (fun r => N.eqb (r_name r) name) l1 = true); [|congruence].
        apply existsb_exists. exists x. split; [exact Hx|]. unfold key in Hk. inversion Hk. apply N.eqb_refl. }
      split; [|split; [|split]].
      * unfold keys. rewrite map_app. fold (keys (map (set_name_ver name ver) l1)). rewrite set_name_ver_keys.
        cbn [map]. apply (Permutation_NoDup (Permutation_cons_append (keys l1) (name, t_tk mgmt))). constructor; [exact Hfresh|exact I1].
      * intros r Hrn. apply in_app_or in Hrn. destruct Hrn as [Hrn|[<-|[]]]; [exact (Hmap_plain r Hrn)|].
        right. exact Hm.
      * intros k Hk. unfold keys. rewrite map_app. apply in_or_app. left.
        fold (keys (map (set_name_ver name ver) l1)). rewrite set_name_ver_keys. exact (I3 k Hk).
      * intros r Hrn Hn. apply in_app_or in Hrn. destruct Hrn as [Hrn|[<-|[]]]; [exact (Hmap_add r Hrn Hn)|reflexivity].
Qed.

Theorem roundtrip_maven_patched_lemma mgmt old new :
  t_origin mgmt = 1 -> NoDup (keys old) -> (forall r, In r old -> plain_origin r) -> maven_reach mgmt old new ->
  forall k, lookup k (apply_updates (req_updates mgmt old new) old) = lookup k new.
Proof.
  intros Hm ND Hpl Hr. destruct (maven_reach_inv mgmt old new Hm ND Hpl Hr) as [I1 [_ [I3 I4]]].
  apply diff_apply_roundtrip_lemma; assumption.
Qed.

(* ------------------------------------------------------------------ a concrete world: witness and non-vacuity *)
Definition w_t0 : rtype := {| t_rank := 0; t_tk := 0; t_origin := 0 |}.
Definition w_mgmt : rtype := {| t_rank := 1; t_tk := 0; t_origin := 1 |}.
(* package 1 required at version 1; the file is the requirement list itself, the writer applies the updates *)
Definition w_file : list req := [ {| r_name := 1; r_ver := 1; r_type := w_t0 |} ].
Definition w_read (f : list req) : list req := f.
Definition w_write (f : list req) (ups : list update) : list req := apply_updates ups f.
Definition w_vuln (id ver : N) : fvuln :=
  {| f_id := id; f_aliases := []; f_dev_only := false; f_sev_ok := true; f_depth_ok := true; f_pkgs := [(1, ver)] |}.
(* vulnerability 10 affects version 1 of package 1, vulnerability 20 affects version 2 *)
Definition w_analyse (reqs : list req) : list fvuln :=
  match lookup (1, 0) reqs with
  | Some 1 => [w_vuln 10 1]
  | Some 2 => [w_vuln 20 2]
  | _ => []
  end.
Definition w_cands : list (list req) := [ [ {| r_name := 1; r_ver := 2; r_type := w_t0 |} ] ].
Definition w_opts (explicit : list N) : ropts := {| o_ignore := []; o_explicit := explicit; o_dev_deps := true |}.

Lemma w_analyse_ext a b : same_map a b -> forall v, In v (w_analyse a) <-> In v (w_analyse b).
Proof. intros H v. unfold w_analyse. rewrite (H (1, 0)). reflexivity. Qed.
Lemma w_analyse_nodup a : NoDup (map f_id (w_analyse a)).
Proof.
  assert (H : w_analyse a = [w_vuln 10 1] \/ w_analyse a = [w_vuln 20 2] \/ w_analyse a = []).
  { unfold w_analyse. destruct (lookup (1, 0) a) as [[|[p|[p|p|]|]]|]; auto. }
  destruct H as [-> |[-> | ->]]; cbn; repeat constructor; intros [].
Qed.
Lemma w_write_read f ups : same_map (w_read (w_write f ups)) (apply_updates ups (w_read f)).
Proof. intros k. reflexivity. Qed.

(* ------------------------------------------------------------------ statements as exported by Props_C12.v *)
Lemma construct_patches_parts mgmt o n :
  p_updates (construct_patches mgmt o n) = req_updates mgmt (m_reqs o) (m_reqs n) /\
  p_fixed (construct_patches mgmt o n) = fst (vuln_diff (m_vulns o) (m_vulns n)) /\
  p_introduced (construct_patches mgmt o n) = snd (vuln_diff (m_vulns o) (m_vulns n)).
Proof. unfold construct_patches. destruct (vuln_diff (m_vulns o) (m_vulns n)). cbn. auto. Qed.

Lemma diff_apply_roundtrip_stmt mgmt (o n : resolved) :
  roundtrip_domain mgmt (m_reqs o) (m_reqs n) = true ->
  forall k, lookup k (apply_updates (p_updates (construct_patches mgmt o n)) (m_reqs o)) = lookup k (m_reqs n).
Proof.
  intros HD. destruct (roundtrip_domain_sound _ _ _ HD) as [D1 [D2 [D3 D4]]].
  destruct (construct_patches_parts mgmt o n) as [-> _]. apply diff_apply_roundtrip_lemma; assumption.
Qed.
Lemma diff_apply_roundtrip_npm_stmt mgmt (o n : resolved) :
  unique_keys (m_reqs o) = true -> npm_reach (m_reqs o) (m_reqs n) ->
  forall k, lookup k (apply_updates (p_updates (construct_patches mgmt o n)) (m_reqs o)) = lookup k (m_reqs n).
Proof.
  intros HU HR. destruct (construct_patches_parts mgmt o n) as [-> _].
  apply roundtrip_npm_patched_lemma; [apply nodup_keys_NoDup; exact HU|exact HR].
Qed.
Lemma diff_apply_roundtrip_maven_stmt mgmt (o n : resolved) :
  t_origin mgmt = 1 -> unique_keys (m_reqs o) = true -> (forall r, In r (m_reqs o) -> plain_origin r) ->
  maven_reach mgmt (m_reqs o) (m_reqs n) ->
  forall k, lookup k (apply_updates (p_updates (construct_patches mgmt o n)) (m_reqs o)) = lookup k (m_reqs n).
Proof.
  intros Hm HU HP HR. destruct (construct_patches_parts mgmt o n) as [-> _].
  apply roundtrip_maven_patched_lemma; [exact Hm|apply nodup_keys_NoDup; exact HU|exact HP|exact HR].
Qed.

Lemma fixed_introduced_algebra_stmt mgmt (o n : resolved) :
  NoDup (idsv (m_vulns n)) ->
  let p := construct_patches mgmt o n in
  (forall i, In i (idsv (m_vulns n)) <->
             (In i (idsv (m_vulns o)) /\ ~ In i (fixed_ids p)) \/ In i (idsv (p_introduced p))) /\
  (forall i, In i (fixed_ids p) -> In i (idsv (m_vulns o))) /\
  (forall i, In i (idsv (p_introduced p)) -> ~ In i (idsv (m_vulns o))).
Proof.
  intros ND. cbn zeta. destruct (construct_patches_parts mgmt o n) as [_ [Hf Hi]].
  unfold fixed_ids. rewrite Hf, Hi.
  pose proof (fixed_introduced_algebra_lemma (m_vulns o) (m_vulns n) ND) as H.
  destruct (vuln_diff (m_vulns o) (m_vulns n)). exact H.
Qed.

Lemma choose_at_most_max_stmt all max ni : (0 < max)%Z ->
  (Z.of_nat (length (choose_patches all max ni)) <= max)%Z.
Proof. apply choose_loop_at_most. Qed.
Lemma choose_no_introduce_stmt all max p : In p (choose_patches all max true) -> p_introduced p = [].
Proof. apply choose_loop_no_introduce. Qed.
Lemma choose_subset_stmt all max ni p : In p (choose_patches all max ni) -> In p all.
Proof. apply choose_loop_subset. Qed.

Lemma mem_pkg_In c l : mem_pkg c l = true <-> In c l.
Proof. exact (mem_key_In c l). Qed.

Lemma choose_loop_pairwise all : forall max ni pk fx l1 p l2,
  choose_loop all max ni pk fx = l1 ++ p :: l2 ->
  forall q, In q l2 ->
    (forall c, In c (changes q) -> ~ In c (changes p)) /\ (forall i, In i (fixed_ids q) -> ~ In i (fixed_ids p)).
Proof.
  induction all as [|h all IH]; intros max ni pk fx l1 p l2; cbn [choose_loop].
  - destruct l1; discriminate.
  - destruct (incompatible h pk fx ni); [apply IH|].
    destruct l1 as [|x l1]; cbn [app]; intros H; inversion H as [[H1 H2]]; subst.
    + intros q Hq. destruct (Z.eqb (max - 1) 0); [contradiction|].
      destruct (choose_loop_compatible _ _ _ _ _ _ Hq) as [C1 C2]. split.
      * intros c Hc HI. specialize (C1 c Hc). unfold mem_pkg in C1. rewrite existsb_app in C1.
        apply orb_false_iff in C1. destruct C1 as [_ C1].
        assert (Hm : mem_pkg c (changes p) = true) by (apply mem_pkg_In; exact HI). unfold mem_pkg in Hm. exact (eq_true_false_abs _ Hm C1).
      * intros i Hi HI. specialize (C2 i Hi). unfold memN in C2. rewrite existsb_app in C2.
        apply orb_false_iff in C2. destruct C2 as [_ C2].
        assert (Hm : memN i (fixed_ids p) = true) by (apply memN_In; exact HI). unfold memN in Hm. exact (eq_true_false_abs _ Hm C2).
    + destruct (Z.eqb (max - 1) 0); [destruct l1; discriminate|]. exact (IH _ _ _ _ _ _ _ H2).
Qed.
Lemma choose_pairwise_stmt all max ni l1 p l2 q :
  choose_patches all max ni = l1 ++ p :: l2 -> In q l2 ->
  (forall c, In c (changes q) -> ~ In c (changes p)) /\ (forall i, In i (fixed_ids q) -> ~ In i (fixed_ids p)).
Proof. intros H Hq. exact (choose_loop_pairwise all max ni [] [] l1 p l2 H q Hq). Qed.

(* ------------------------------------------------------------------ refutations by witness *)
Lemma diff_ignores_removed_refuted_lemma : exists mgmt (o n : resolved) k,
  unique_keys (m_reqs o) = true /\ unique_keys (m_reqs n) = true /\
  lookup k (apply_updates (p_updates (construct_patches mgmt o n)) (m_reqs o)) <> lookup k (m_reqs n).
Proof.
  exists w_mgmt, {| m_reqs := [ {| r_name := 1; r_ver := 1; r_type := w_t0 |} ]; m_vulns := [] |},
         {| m_reqs := []; m_vulns := [] |}, (1, 0).
  vm_compute. repeat split; discriminate.
Qed.

(* ------------------------------------------------------------------ the depth filter *)
(* a path of at most k proper edges from a to n *)
Inductive upto (edges : list edge) : nat -> N -> N -> Prop :=
| upto_refl k n : upto edges k n n
| upto_step k a b n : In (a, b) edges -> a <> b -> upto edges k b n -> upto edges (S k) a n.

Lemma parents_In edges a b : In a (parents edges b) <-> In (a, b) edges /\ a <> b.
Proof.
  unfold parents. rewrite in_map_iff. split.
  - intros [[x y] [E H]]. cbn [fst] in E. subst x. apply filter_In in H. destruct H as [H1 H2].
    cbn [fst snd] in H2. apply andb_true_iff in H2. destruct H2 as [H2 H3]. apply N.eqb_eq in H2. subst y.
    apply negb_true_iff, N.eqb_neq in H3. auto.
  - intros [H1 H2]. exists (a, b). split; [reflexivity|]. apply filter_In. split; [exact H1|].
    cbn [fst snd]. rewrite N.eqb_refl. cbn [andb]. apply negb_true_iff, N.eqb_neq. exact H2.
Qed.
Lemma add_new_In xs : forall seen x, In x (add_new seen xs) <-> In x seen \/ In x xs.
Proof.
  unfold add_new. induction xs as [|y xs IH]; intros seen x; cbn [fold_left].
  - cbn. tauto.
  - rewrite IH. destruct (memN y seen) eqn:E.
    + apply memN_In in E. cbn [In]. split; [tauto|]. intros [H|[H|H]]; subst; auto.
    + rewrite in_app_iff. cbn [In]. tauto.
Qed.
Lemma upto_S edges k a n : upto edges k a n -> upto edges (S k) a n.
Proof. induction 1; [constructor|]. econstructor; eassumption. Qed.
Lemma upto_le edges k k' a n : (k <= k')%nat -> upto edges k a n -> upto edges k' a n.
Proof. intros Hle. induction Hle as [|k' _ IH]; [auto|]. intros HU. apply upto_S. auto. Qed.

Theorem up_iff_path_lemma edges n : forall k m, In m (up k edges n) <-> upto edges k m n.
Proof.
  induction k as [|k IH]; intros m; cbn [up].
  - cbn [In]. split.
    + intros [<-|[]]. constructor.
    + intros H. inversion H; subst. left. reflexivity.
  - rewrite add_new_In, in_flat_map. split.
    + intros [H|[b [Hb Hm]]].
      * apply upto_S. apply IH. exact H.
      * apply parents_In in Hm. destruct Hm as [H1 H2]. apply (upto_step edges k m b n H1 H2). apply IH. exact Hb.
    + intros H. inversion H as [k' n'|k' a b n' H1 H2 H3]; subst.
      * left. apply IH. constructor.
      * right. exists b. split; [apply IH; exact H3|apply parents_In; auto].
Qed.

Lemma first_level_Some fuel edges n t : forall k d, first_level fuel k edges n t = Some d ->
  (k <= d < k + fuel)%nat /\ In t (up d edges n) /\ (forall j, (k <= j < d)%nat -> ~ In t (up j edges n)).
Proof.
  induction fuel as [|f IH]; intros k d; cbn [first_level]; [discriminate|].
  destruct (memN t (up k edges n)) eqn:E.
  - intros H. inversion H; subst. apply memN_In in E. split; [lia|]. split; [exact E|]. intros j Hj. lia.
  - intros H. destruct (IH _ _ H) as [H1 [H2 H3]]. split; [lia|]. split; [exact H2|].
    intros j Hj. destruct (Nat.eq_dec j k) as [->|Hne].
    + intros HI. apply memN_In in HI. congruence.
    + apply H3. lia.
Qed.
Lemma first_level_None fuel edges n t : forall k, first_level fuel k edges n t = None ->
  forall j, (k <= j < k + fuel)%nat -> ~ In t (up j edges n).
Proof.
  induction fuel as [|f IH]; intros k; cbn [first_level]; [intros _ j Hj; lia|].
  destruct (memN t (up k edges n)) eqn:E; [discriminate|]. intros H j Hj.
  destruct (Nat.eq_dec j k) as [->|Hne].
  - intros HI. apply memN_In in HI. congruence.
  - apply (IH _ H). lia.
Qed.

(* the root is within MaxDepth of the vulnerable node - or the walk never reaches the root, in
   which case the Go code compares the zero value 0 with MaxDepth *)
Theorem root_dist_le_iff_lemma numnodes edges n (maxd : Z) :
  (0 < maxd)%Z -> (Z.to_nat maxd <= numnodes)%nat ->
  ((root_dist numnodes edges n <=? maxd)%Z = true <->
   upto edges (Z.to_nat maxd) 0 n \/ (forall k, (k <= numnodes)%nat -> ~ upto edges k 0 n)).
Proof.
  intros Hpos Hle. unfold root_dist. destruct (first_level (S numnodes) 0 edges n 0) as [d|] eqn:E.
  - destruct (first_level_Some _ _ _ _ _ _ E) as [H1 [H2 H3]]. rewrite Z.leb_le. split.
    + intros H. left. apply (upto_le edges d); [lia|]. apply up_iff_path_lemma. exact H2.
    + intros [H|H].
      * destruct (Nat.le_gt_cases d (Z.to_nat maxd)) as [Hd|Hd]; [lia|]. exfalso.
        apply (H3 (Z.to_nat maxd)); [lia|]. apply up_iff_path_lemma. exact H.
      * exfalso. apply (H d); [lia|]. apply up_iff_path_lemma. exact H2.
  - rewrite Z.leb_le. split; [|lia]. intros _. right. intros k Hk HU.
    apply (first_level_None _ _ _ _ _ E k); [lia|]. apply up_iff_path_lemma. exact HU.
Qed.

Theorem match_depth_iff_lemma maxd numnodes edges nodes :
  (Z.to_nat maxd <= numnodes)%nat ->
  (match_depth maxd numnodes edges nodes = true <->
   (maxd <= 0)%Z \/
   exists n, In n nodes /\ (upto edges (Z.to_nat maxd) 0 n \/ (forall k, (k <= numnodes)%nat -> ~ upto edges k 0 n))).
Proof.
  intros Hle. unfold match_depth. rewrite orb_true_iff, Z.leb_le, existsb_exists.
  destruct (Z.leb_spec maxd 0) as [Hn|Hp]; [tauto|]. split.
  - intros [H|[n [Hn H]]]; [lia|]. right. exists n. split; [exact Hn|].
    apply (root_dist_le_iff_lemma numnodes edges n maxd Hp Hle). exact H.
  - intros [H|[n [Hn H]]]; [lia|]. right. exists n. split; [exact Hn|].
    apply (root_dist_le_iff_lemma numnodes edges n maxd Hp Hle). exact H.
Qed.

(* ------------------------------------------------------------------ the severity filter *)
Lemma max_score_fold l : forall m,
  fold_left (fun m s => match s, m with
                        | Some x, Some y => Some (Z.max x y)
                        | Some x, None => Some x
                        | None, _ => m
                        end) l m =
  match m, max_score l with
  | Some a, Some b => Some (Z.max b a)
  | Some a, None => Some a
  | None, r => r
  end.
Proof.
  unfold max_score. induction l as [|s l IH]; intros m; cbn [fold_left].
  - destruct m; reflexivity.
  - rewrite IH. rewrite (IH (match s with Some x => Some x | None => None end)).
    destruct s as [x|], m as [a|]; cbn; try reflexivity;
      destruct (fold_left _ l None) as [b|]; try reflexivity; f_equal; lia.
Qed.
Lemma max_score_None l : max_score l = None <-> (forall s, In s l -> s = None).
Proof.
  induction l as [|s l IH].
  - cbn. split; [intros _ s []|reflexivity].
  - unfold max_score. cbn [fold_left]. rewrite max_score_fold. destruct s as [x|].
    + split.
      * destruct (max_score l); discriminate.
      * intros H. specialize (H (Some x) (or_introl eq_refl)). discriminate.
    + rewrite IH. split; [intros H s [<-|Hs]; auto|intros H s Hs; apply H; right; exact Hs].
Qed.
Lemma max_score_Some l b : max_score l = Some b ->
  In (Some b) l /\ (forall x, In (Some x) l -> (x <= b)%Z).
Proof.
  revert b. induction l as [|s l IH]; intros b.
  - cbn. discriminate.
  - unfold max_score. cbn [fold_left]. rewrite max_score_fold. destruct s as [x|].
    + destruct (max_score l) as [c|] eqn:E.
      * intros H. inversion H; subst. destruct (IH c eq_refl) as [H1 H2]. split.
        { destruct (Z.max_spec c x) as [[_ ->]|[_ ->]]; [left; reflexivity|right; exact H1]. }
        { intros y [Hy|Hy]; [inversion Hy; lia|]. specialize (H2 y Hy). lia. }
      * intros H. inversion H; subst. split; [left; reflexivity|].
        intros y [Hy|Hy]; [inversion Hy; lia|]. pose proof (proj1 (max_score_None l) E _ Hy). discriminate.
    + intros H. destruct (IH b H) as [H1 H2]. split; [right; exact H1|].
      intros y [Hy|Hy]; [discriminate|auto].
Qed.

(* no selected severity parses, or some selected score reaches the threshold *)
Theorem match_severity_iff_lemma thr top aff :
  match_severity thr top aff = true <->
  (forall s, In s (selected_scores top aff) -> s = None) \/
  (exists x, In (Some x) (selected_scores top aff) /\ (thr <= x)%Z).
Proof.
  unfold match_severity. destruct (max_score (selected_scores top aff)) as [b|] eqn:E.
  - destruct (max_score_Some _ _ E) as [H1 H2]. rewrite Z.leb_le. split.
    + intros H. right. exists b. auto.
    + intros [H|[x [Hx Hle]]].
      * specialize (H _ H1). discriminate.
      * specialize (H2 x Hx). lia.
  - split; [|reflexivity]. intros _. left. apply max_score_None. exact E.
Qed.

(* ------------------------------------------------------------------ MatchVuln as a whole *)
Lemma match_id_false v ids : match_id v ids = false <-> ~ In (f_id v) ids /\ (forall a, In a (f_aliases v) -> ~ In a ids).
Proof.
  unfold match_id. rewrite orb_false_iff, memN_false. split.
  - intros [H1 H2]. split; [exact H1|]. intros a Ha HI.
    assert (existsb (fun a0 => memN a0 ids) (f_aliases v) = true); [|congruence].
    apply existsb_exists. exists a. split; [exact Ha|apply memN_In; exact HI].
  - intros [H1 H2]. split; [exact H1|]. destruct (existsb (fun a => memN a ids) (f_aliases v)) eqn:E; [|reflexivity].
    apply existsb_exists in E. destruct E as [a [Ha HI]]. apply memN_In in HI. exfalso. exact (H2 a Ha HI).
Qed.

Theorem match_vuln_full_iff_lemma o th numnodes edges g :
  (Z.to_nat (th_depth th) <= numnodes)%nat ->
  (match_vuln_full o th numnodes edges g = true <->
   (* not ignored, by ID or alias *)
   (~ In (g_id g) (o_ignore o) /\ (forall a, In a (g_aliases g) -> ~ In a (o_ignore o))) /\
   (* on the explicit list when there is one *)
   (o_explicit o = [] \/ In (g_id g) (o_explicit o)) /\
   (* dev-only vulnerabilities only when asked for *)
   (o_dev_deps o = true \/ g_dev_only g = false) /\
   (* severity *)
   ((forall s, In s (selected_scores (g_top g) (g_aff g)) -> s = None) \/
    (exists x, In (Some x) (selected_scores (g_top g) (g_aff g)) /\ (th_sev th <= x)%Z)) /\
   (* depth *)
   ((th_depth th <= 0)%Z \/
    exists n, In n (g_nodes g) /\
      (upto edges (Z.to_nat (th_depth th)) 0 n \/ (forall k, (k <= numnodes)%nat -> ~ upto edges k 0 n)))).
Proof.
  intros Hle. unfold match_vuln_full, match_vuln.
  set (v := to_fvuln th numnodes edges g).
  rewrite <- (match_severity_iff_lemma (th_sev th) (g_top g) (g_aff g)).
  rewrite <- (match_depth_iff_lemma (th_depth th) numnodes edges (g_nodes g) Hle).
  change (g_id g) with (f_id v). change (g_aliases g) with (f_aliases v).
  rewrite <- (match_id_false v (o_ignore o)).
  change (match_severity (th_sev th) (g_top g) (g_aff g)) with (f_sev_ok v).
  change (match_depth (th_depth th) numnodes edges (g_nodes g)) with (f_depth_ok v).
  change (g_dev_only g) with (f_dev_only v).
  assert (He : explicit_ok o v = true <-> o_explicit o = [] \/ In (f_id v) (o_explicit o)).
  { unfold explicit_ok. destruct (o_explicit o) as [|e l]; [split; auto|].
    rewrite memN_In. split; [auto|intros [H|H]; [discriminate|exact H]]. }
  rewrite <- He.
  destruct (match_id v (o_ignore o)); [split; [discriminate|intros [H _]; discriminate]|].
  destruct (explicit_ok o v); cbn [negb]; [|split; [discriminate|intros [_ [H _]]; discriminate]].
  destruct (o_dev_deps o), (f_dev_only v); cbn [negb andb]; rewrite ?andb_true_iff; split; try tauto; try discriminate.
  - intros [_ [_ [[H|H] _]]]; discriminate.
Qed.

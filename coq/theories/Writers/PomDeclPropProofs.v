(* Exactness of the declaration-level pom.xml writer model for ONE update of a ${property} version
   (domain d_prop of PomDecl.v). *)
From Coq Require Import List ZArith NArith Bool Lia PeanoNat.
From Scalibr Require Import Writers.GoBytes Writers.GoBytesProofs Writers.PomProps Writers.PomPropsProofs
  Writers.PomDecl Writers.PomDeclProofs.
Import ListNotations.
Open Scope N_scope.

Definition set_pval (f : pdef) (v : bytes) : pdef := {| pf_origin := pf_origin f; pf_name := pf_name f; pf_val := v |}.

Lemma indexed_length {A} (l : list A) : forall k, length (indexed k l) = length l.
Proof. induction l; simpl; intros; auto. Qed.

Lemma first_some_def_spec n : forall (l : list (list pdef)) k j' sc,
  first_some (fun jq => if has_def (snd jq) [] n then Some (fst jq, @nil N) else None) (indexed k l) = Some (j', sc) ->
  (k <= j')%nat /\ sc = [] /\ has_def (nth (j' - k) l []) [] n = true.
Proof.
  induction l as [|ps l IHl]; intros k0 j' sc H0; simpl in H0; [discriminate|].
  destruct (has_def ps [] n) eqn:Ed.
  - inversion H0; subst. rewrite Nat.sub_diag. simpl. auto.
  - destruct (IHl (S k0) j' sc H0) as (G1 & G2 & G3). repeat split; auto; [lia|].
    replace (j' - k0)%nat with (S (j' - S k0)) by lia. exact G3.
Qed.

Section OneUpdate.
  Variables (c : chain) (u : pupd) (p0 : pom) (d0 : decl) (asg : assignments).
  Hypothesis HW : chain_wf c = true.
  Hypothesis TF : target_facts c u p0 d0.
  Hypothesis HCP : contains_property (dl_ver d0) = true.
  Hypothesis HG : generate_property_patches (dl_ver d0) (pu_to u) = Ok (asg, true).
  Hypothesis HND : NoDup (names (dl_ver d0)).
  Hypothesis HTo : no_placeholder (pu_to u) = true.

  Let i := pu_pom u.
  Let o := pu_origin u.
  Let path := patch_path i p0.
  Let wscope (n : bytes) : bytes := written_scope c o n.
  Let pp := props_of c.

  Hypothesis HDef : forall n, In n (names (dl_ver d0)) ->
    resolve_def pp i o n = Some (i, wscope n) /\ users c i (wscope n) n = 1%nat.

  Let mk (nv : bytes * bytes) : patch := PropPatch path (wscope (fst nv)) (fst nv) (snd nv).

  Lemma asg_names : map fst asg = names (dl_ver d0).
  Proof. apply (generate_names _ _ _ HG). Qed.

  Lemma asg_nodup : NoDup (map fst asg).
  Proof. rewrite asg_names. exact HND. Qed.

  (* ---------------------------------------------------------------- buildPatches *)
  Lemma dedup_nodup (l : assignments) : forall seen,
    NoDup (map fst l) -> (forall n, In n (map fst l) -> mem n seen = false) -> dedup_names l seen = l.
  Proof.
    induction l as [|[n v] l IH]; intros seen HN Hs; [reflexivity|]. simpl.
    rewrite (Hs n) by (left; reflexivity). f_equal. inversion HN; subst. apply IH; auto.
    intros n' Hn'. simpl. destruct (beq n' n) eqn:E.
    - apply beq_eq in E. subst. contradiction.
    - simpl. apply Hs. right. exact Hn'.
  Qed.

  Lemma preset_none_names (acc : list patch) pa o' n :
    (forall q, In q acc -> match q with PropPatch _ _ n0 _ => beq n0 n = false | DepPatch _ _ _ _ _ => True end) ->
    preset acc pa o' n = None.
  Proof.
    intros H. unfold preset.
    assert (E : find (fun p => match p with
      | PropPatch pa0 o0 n0 _ => beq pa0 pa && beq o0 o' && beq n0 n | DepPatch _ _ _ _ _ => false end) acc = None).
    { apply find_none_iff_local. intros q Hq. specialize (H q Hq). destruct q; auto. rewrite H. apply andb_false_r. }
    rewrite E. reflexivity.
  Qed.

  Lemma fold_props direct (l : assignments) : forall acc0,
    NoDup (map fst l) ->
    (forall q, In q acc0 -> forall n, In n (map fst l) ->
       match q with PropPatch _ _ n0 _ => beq n0 n = false | DepPatch _ _ _ _ _ => True end) ->
    fold_left (fun acc' nv =>
                 let porig := wscope (fst nv) in
                 match preset acc' path porig (fst nv) with
                 | None => acc' ++ [PropPatch path porig (fst nv) (snd nv)]
                 | Some pre => if beq pre (snd nv) then acc' else acc' ++ [direct]
                 end) l acc0 = acc0 ++ map mk l.
  Proof.
    induction l as [|[n v] l IH]; intros acc0 HN Hacc; simpl.
    - rewrite app_nil_r. reflexivity.
    - rewrite (preset_none_names acc0 path (wscope n) n) by (intros q Hq; apply (Hacc q Hq n); left; reflexivity).
      inversion HN as [|? ? Hnot HN']; subst. rewrite IH; auto.
      + rewrite <- app_assoc. reflexivity.
      + intros q Hq n' Hn'. apply in_app_or in Hq as [Hq|Hq].
        * apply (Hacc q Hq n'). right. exact Hn'.
        * simpl in Hq. destruct Hq as [<-|[]]. destruct (beq n n') eqn:E; auto.
          apply beq_eq in E. subst. contradiction.
  Qed.

  Lemma origin_ok_o : origin_ok o = true.
  Proof.
    unfold o. rewrite <- (tf_origin _ _ _ _ TF). apply (pom_wf_origin_ok p0); [|apply (tf_in _ _ _ _ TF)].
    apply (chain_wf_pom c _ _ HW (tf_pom _ _ _ _ TF)).
  Qed.

  Lemma build_prop : build_patches c [] [u] = Some (map mk asg).
  Proof.
    cbn [build_patches]. unfold build_one.
    rewrite (original_dependency_target c u p0 d0 TF). rewrite HCP. simpl negb. cbv iota. rewrite HG.
    pose proof (ppfo_full c (pu_pom u) p0 (pu_origin u) HW (tf_pom _ _ _ _ TF) origin_ok_o) as Hpp.
    rewrite Hpp. cbn [fst snd].
    rewrite (dedup_nodup asg [] asg_nodup) by (intros; reflexivity).
    f_equal. exact (fold_props (DepPatch path o (pu_key u) (pu_to u) true) asg [] asg_nodup (fun q (H : In q []) => match H with end)).
  Qed.

  (* ---------------------------------------------------------------- the effect of the patches *)
  Definition hit (sc n : bytes) (nv : bytes * bytes) : bool := beq (wscope (fst nv)) sc && beq (fst nv) n.

  Definition upd_prop (f : pdef) : pdef :=
    match find (hit (pf_origin f) (pf_name f)) asg with
    | Some nv => set_pval f (snd nv)
    | None => f
    end.

  Definition prop_pom (j : nat) (q : pom) : pom :=
    if Nat.eqb j i then {| pm_path := pm_path q; pm_decls := pm_decls q; pm_props := map upd_prop (pm_props q);
                           pm_empty_mgmt := pm_empty_mgmt q |} else q.

  Definition prop_chain : chain := map (fun jq => prop_pom (fst jq) (snd jq)) (indexed O c).

  Lemma dep_patches_none pa o' : dep_patches_at (map mk asg) pa o' = [].
  Proof. unfold dep_patches_at. apply flat_map_nil. intros q Hq. apply in_map_iff in Hq as (nv & <- & _). reflexivity. Qed.

  Lemma write_decl_prop pa d : write_decl (map mk asg) pa d = Some d.
  Proof.
    unfold write_decl. rewrite dep_patches_none. simpl.
    destruct (beq (dl_origin d) PARENT); [reflexivity|]. destruct (is_nil (dl_ver d)); reflexivity.
  Qed.

  Lemma preset_mk_gen (l : assignments) pa sc n :
    preset (map mk l) pa sc n = if beq path pa then option_map snd (find (hit sc n) l) else None.
  Proof.
    unfold preset. induction l as [|nv l IH]; simpl.
    - destruct (beq path pa); reflexivity.
    - unfold hit at 1. destruct (beq path pa) eqn:E; simpl.
      + destruct (beq (wscope (fst nv)) sc && beq (fst nv) n); [reflexivity|exact IH].
      + exact IH.
  Qed.

  Lemma preset_mk pa sc n :
    preset (map mk asg) pa sc n = if beq path pa then option_map snd (find (hit sc n) asg) else None.
  Proof. apply preset_mk_gen. Qed.

  Lemma write_pom_prop j q : In (j, q) (indexed O c) -> write_pom (map mk asg) j q = Some (prop_pom j q).
  Proof.
    intros Hjq. unfold write_pom.
    rewrite (all_some_map _ (fun d => d)) by (intros; apply write_decl_prop). rewrite map_id.
    assert (Ea : added_pairs (map mk asg) = []).
    { unfold added_pairs. rewrite flat_map_nil; [reflexivity|]. intros x Hx. apply in_map_iff in Hx as (nv & <- & _). reflexivity. }
    rewrite Ea. simpl map. rewrite insert_added_nil.
    assert (Ed : match j with O => if pm_empty_mgmt q then pm_decls q else pm_decls q | S _ => pm_decls q end = pm_decls q)
      by (destruct j; [destruct (pm_empty_mgmt q)|]; reflexivity).
    rewrite Ed.
    unfold prop_pom. destruct (Nat.eqb j i) eqn:E.
    - apply Nat.eqb_eq in E. subst j. pose proof (indexed_fun _ _ _ _ _ Hjq (tf_pom _ _ _ _ TF)) as ->.
      f_equal. f_equal. apply map_ext. intros f. unfold write_prop, upd_prop. rewrite preset_mk. fold path.
      rewrite beq_refl. destruct (find _ asg); reflexivity.
    - assert (Hp : beq path (patch_path j q) = false).
      { destruct (beq path (patch_path j q)) eqn:Eb; auto. apply beq_eq in Eb.
        apply (patch_path_inj c _ _ _ _ HW (tf_pom _ _ _ _ TF) Hjq) in Eb. apply Nat.eqb_neq in E. fold i in Eb. congruence. }
      rewrite (map_id_on_local (write_prop (map mk asg) (patch_path j q))).
      + destruct q; reflexivity.
      + intros f _. unfold write_prop. rewrite preset_mk, Hp. reflexivity.
  Qed.

  Lemma write_chain_prop : write_chain c [u] = Some prop_chain.
  Proof.
    unfold write_chain. rewrite build_prop. unfold prop_chain. apply all_some_map.
    intros [j q] Hjq. simpl. apply write_pom_prop. exact Hjq.
  Qed.

  (* ---------------------------------------------------------------- the property lists afterwards *)
  Let pp' := props_of prop_chain.

  Lemma nth_indexed_map {A B} (f : nat -> A -> B) (l : list A) (da : A) (db : B) : forall k j,
    (j < length l)%nat ->
    nth j (map (fun jq => f (fst jq) (snd jq)) (indexed k l)) db = f (k + j)%nat (nth j l da).
  Proof.
    induction l as [|a l IH]; intros k j Hj; simpl in *; [lia|].
    destruct j as [|j]; [rewrite Nat.add_0_r; reflexivity|].
    rewrite IH by lia. f_equal. lia.
  Qed.

  Lemma pp'_gen (l : chain) : forall k,
    map pm_props (map (fun jq => prop_pom (fst jq) (snd jq)) (indexed k l)) =
    map (fun jps => if Nat.eqb (fst jps) i then map upd_prop (snd jps) else snd jps) (indexed k (map pm_props l)).
  Proof.
    induction l as [|q r IH]; intros k; simpl; [reflexivity|].
    rewrite IH. f_equal. unfold prop_pom. destruct (Nat.eqb k i); reflexivity.
  Qed.

  Lemma pp'_eq : pp' = map (fun jps => if Nat.eqb (fst jps) i then map upd_prop (snd jps) else snd jps) (indexed O pp).
  Proof. unfold pp', pp, props_of, prop_chain. apply pp'_gen. Qed.

  Lemma length_pp' : length pp' = length pp.
  Proof. rewrite pp'_eq, map_length. apply indexed_length. Qed.

  Lemma nth_pp' j : nth j pp' [] = if Nat.eqb j i then map upd_prop (nth j pp []) else nth j pp [].
  Proof.
    destruct (Nat.lt_ge_cases j (length pp)) as [Hj|Hj].
    - rewrite pp'_eq. rewrite (nth_indexed_map (fun j ps => if Nat.eqb j i then map upd_prop ps else ps) pp [] [] O j Hj).
      reflexivity.
    - rewrite (nth_overflow pp' []) by (rewrite length_pp'; exact Hj).
      rewrite (nth_overflow pp []) by exact Hj. destruct (Nat.eqb j i); reflexivity.
  Qed.

  Lemma is_def_upd sc n f : is_def sc n (upd_prop f) = is_def sc n f.
  Proof. unfold upd_prop. destruct (find _ asg); reflexivity. Qed.

  Lemma has_def_upd ps sc n : has_def (map upd_prop ps) sc n = has_def ps sc n.
  Proof. unfold has_def. induction ps as [|f ps IH]; simpl; auto. rewrite is_def_upd, IH. reflexivity. Qed.

  Lemma has_def_nth' j sc n : has_def (nth j pp' []) sc n = has_def (nth j pp []) sc n.
  Proof. rewrite nth_pp'. destruct (Nat.eqb j i); [apply has_def_upd|reflexivity]. Qed.

  Lemma first_some_same n : forall k (l : list (list pdef)),
    first_some (fun jq => if has_def (snd jq) [] n then Some (fst jq, @nil N) else None)
               (indexed k (map (fun jps => if Nat.eqb (fst jps) i then map upd_prop (snd jps) else snd jps) (indexed k l))) =
    first_some (fun jq => if has_def (snd jq) [] n then Some (fst jq, @nil N) else None) (indexed k l).
  Proof.
    intros k l. revert k. induction l as [|ps l IH]; intros k; simpl; [reflexivity|].
    assert (E : has_def (if Nat.eqb k i then map upd_prop ps else ps) [] n = has_def ps [] n)
      by (destruct (Nat.eqb k i); [apply has_def_upd|reflexivity]).
    rewrite E. destruct (has_def ps [] n); [reflexivity|]. apply IH.
  Qed.

  Lemma resolve_def_same j o' n : resolve_def pp' j o' n = resolve_def pp j o' n.
  Proof.
    unfold resolve_def. rewrite has_def_nth'. destruct (_ && _); [reflexivity|].
    rewrite pp'_eq. apply first_some_same.
  Qed.

  Lemma find_map_upd sc n ps :
    find (is_def sc n) (map upd_prop ps) = option_map upd_prop (find (is_def sc n) ps).
  Proof.
    induction ps as [|f ps IH]; simpl; auto. rewrite is_def_upd. destruct (is_def sc n f); auto.
  Qed.

  Lemma block_value_upd ps sc n :
    block_value (map upd_prop ps) sc n =
    match block_value ps sc n with
    | None => None
    | Some old => match find (hit sc n) asg with Some nv => Some (snd nv) | None => Some old end
    end.
  Proof.
    unfold block_value, find_last. rewrite <- map_rev, find_map_upd.
    destruct (find (is_def sc n) (rev ps)) as [f|] eqn:Ef; simpl; auto.
    apply find_some in Ef as [_ Hd]. unfold is_def in Hd. apply andb_true_iff in Hd as [H1 H2].
    apply beq_eq in H1, H2. unfold upd_prop. rewrite H1, H2. destruct (find (hit sc n) asg); reflexivity.
  Qed.

  Lemma block_value_none ps sc n : block_value ps sc n = None <-> has_def ps sc n = false.
  Proof.
    unfold block_value, find_last, has_def. split.
    - intros H. destruct (find (is_def sc n) (rev ps)) eqn:Ef; [discriminate|].
      destruct (existsb (is_def sc n) ps) eqn:Ee; auto. apply existsb_exists in Ee as (f & Hf & Hd).
      apply find_none with (x := f) in Ef; [congruence|]. apply in_rev in Hf. exact Hf.
    - intros H. destruct (find (is_def sc n) (rev ps)) as [f|] eqn:Ef; auto.
      apply find_some in Ef as [Hf Hd]. apply in_rev in Hf.
      assert (existsb (is_def sc n) ps = true) by (apply existsb_exists; eauto). congruence.
  Qed.

  Lemma resolve_def_has_def j o' n j' sc : resolve_def pp j o' n = Some (j', sc) -> has_def (nth j' pp []) sc n = true.
  Proof.
    unfold resolve_def. destruct (negb (is_nil (profile_scope o')) && has_def (nth j pp []) (profile_scope o') n) eqn:E.
    - intros H. inversion H; subst. apply andb_true_iff in E as [_ E]. exact E.
    - intros H. destruct (first_some_def_spec n pp O j' sc H) as (_ & -> & G3).
      rewrite Nat.sub_0_r in G3. exact G3.
  Qed.
  (* ---------------------------------------------------------------- placeholder values afterwards *)
  Lemma resolve_after j o' n :
    resolve pp' j o' n =
    match resolve_def pp j o' n with
    | Some (j', sc) =>
      if Nat.eqb j' i
      then match find (hit sc n) asg with Some nv => Some (snd nv) | None => block_value (nth j' pp []) sc n end
      else block_value (nth j' pp []) sc n
    | None => None
    end.
  Proof.
    unfold resolve. rewrite resolve_def_same. destruct (resolve_def pp j o' n) as [[j' sc]|] eqn:E; auto.
    rewrite nth_pp'. destruct (Nat.eqb j' i) eqn:Ej; auto.
    rewrite block_value_upd. pose proof (resolve_def_has_def _ _ _ _ _ E) as Hd.
    destruct (block_value (nth j' pp []) sc n) eqn:Eb.
    - destruct (find _ asg); reflexivity.
    - apply block_value_none in Eb. congruence.
  Qed.

  Lemma find_hit_name sc n nv : find (hit sc n) asg = Some nv -> In nv asg /\ fst nv = n /\ wscope n = sc.
  Proof.
    intros H. apply find_some in H as [Hin Hh]. unfold hit in Hh. apply andb_true_iff in Hh as [H1 H2].
    apply beq_eq in H1, H2. subst n. auto.
  Qed.

  (* the target: every placeholder now stands for the value generatePropertyPatches computed *)
  Lemma resolve_target n : In n (names (dl_ver d0)) -> resolve pp' i o n = lookup_last n asg.
  Proof.
    intros Hn. rewrite resolve_after. destruct (HDef n Hn) as [Hd _]. rewrite Hd, Nat.eqb_refl.
    destruct (find (hit (wscope n) n) asg) as [nv|] eqn:Ef.
    - destruct (find_hit_name _ _ _ Ef) as (Hin & Hfst & _).
      symmetry. apply lookup_last_nodup.
      + apply nodupb_NoDup. exact asg_nodup.
      + rewrite <- Hfst. destruct nv; exact Hin.
    - exfalso. rewrite <- asg_names in Hn. apply in_map_iff in Hn as (nv & Hfst & Hin).
      apply find_none with (x := nv) in Ef; auto. unfold hit in Ef. rewrite Hfst, !beq_refl in Ef. discriminate.
  Qed.

  Lemma target_uses n : In n (names (dl_ver d0)) -> uses pp i (wscope n) n (i, d0) = true.
  Proof.
    intros Hn. unfold uses. simpl. rewrite (proj2 (mem_In n _) Hn). simpl.
    rewrite (tf_origin _ _ _ _ TF). fold o. destruct (HDef n Hn) as [Hd _]. rewrite Hd, Nat.eqb_refl, beq_refl. reflexivity.
  Qed.

  (* every other declaration: no placeholder changes its value *)
  Lemma resolve_other j d n :
    In (j, d) (all_decls c) -> (j, d) <> (i, d0) -> In n (names (dl_ver d)) ->
    resolve pp' j (dl_origin d) n = resolve pp j (dl_origin d) n.
  Proof.
    intros Hin Hne Hn. rewrite resolve_after. unfold resolve.
    destruct (resolve_def pp j (dl_origin d) n) as [[j' sc]|] eqn:E; auto.
    destruct (Nat.eqb j' i) eqn:Ej; auto.
    destruct (find (hit sc n) asg) as [nv|] eqn:Ef; auto. exfalso.
    destruct (find_hit_name _ _ _ Ef) as (Hnv & Hfst & Hsc). apply Nat.eqb_eq in Ej. subst j' sc.
    assert (Hn0 : In n (names (dl_ver d0))).
    { rewrite <- asg_names. rewrite <- Hfst. apply in_map. exact Hnv. }
    destruct (HDef n Hn0) as [_ Hu]. unfold users in Hu.
    apply Hne. apply (filter_len1_unique _ _ _ _ Hu Hin).
    - unfold uses. simpl. rewrite (proj2 (mem_In n _) Hn). simpl. fold pp. rewrite E, Nat.eqb_refl, beq_refl. reflexivity.
    - apply all_decls_In. exists p0. split; [apply (tf_pom _ _ _ _ TF)|apply (tf_in _ _ _ _ TF)].
    - apply target_uses. exact Hn0.
  Qed.

  (* ---------------------------------------------------------------- the spec *)
  Lemma interpolate_ext_names f g s : (forall n, In n (names s) -> f n = g n) -> interpolate f s = interpolate g s.
  Proof.
    intros H. unfold interpolate. f_equal. apply flat_map_ext_in_local. intros ln Hln.
    rewrite (H (snd ln)); [reflexivity|]. unfold names. apply in_map. exact Hln.
  Qed.

  Lemma interpolate_subst ps f s : (forall n, In n (names s) -> f n = lookup_last n ps) -> interpolate f s = subst ps s.
  Proof.
    intros H. unfold interpolate, subst. f_equal. apply flat_map_ext_in_local. intros ln Hln.
    unfold value_of. rewrite (H (snd ln)); [reflexivity|]. unfold names. apply in_map. exact Hln.
  Qed.

  Lemma prop_chain_indexed : indexed O prop_chain = map (fun jq => (fst jq, prop_pom (fst jq) (snd jq))) (indexed O c).
  Proof. unfold prop_chain. apply (indexed_map prop_pom c O). Qed.

  Lemma prop_pom_decls j q : pm_decls (prop_pom j q) = pm_decls q.
  Proof. unfold prop_pom. destruct (Nat.eqb j i); reflexivity. Qed.

  Lemma prop_chain_spec : decl_spec_ok c [u] prop_chain = true.
  Proof.
    unfold decl_spec_ok.
    assert (E : eff_all prop_chain = want_all c [u]); [|rewrite E; apply beq4_refl].
    unfold eff_all, want_all. rewrite prop_chain_indexed.
    rewrite flat_map_concat_map, map_map, <- flat_map_concat_map.
    apply flat_map_ext_in_local. intros [j q] Hjq. cbn [fst snd]. rewrite prop_pom_decls.
    apply map_ext_in. intros d Hd. f_equal. cbn [find].
    unfold eff. fold pp'. fold pp.
    destruct (addresses u j d) eqn:EA.
    - destruct (addressed_is_target c u p0 d0 j q d HW TF Hjq Hd EA) as (-> & -> & ->).
      rewrite (tf_origin _ _ _ _ TF). fold o. fold i.
      rewrite (interpolate_subst asg) by (intros n Hn; apply resolve_target; exact Hn).
      apply (prop_patches_sound_lemma _ _ _ HG).
    - apply interpolate_ext_names. intros n Hn. apply resolve_other; auto.
      + apply all_decls_In. exists q. auto.
      + intros Heq. inversion Heq; subst.
        unfold addresses in EA. fold i in EA. rewrite Nat.eqb_refl, (tf_origin _ _ _ _ TF), (tf_key _ _ _ _ TF), !beq_refl in EA.
        discriminate.
  Qed.

  Lemma one_update_exact : exists c', write_chain c [u] = Some c' /\ decl_spec_ok c [u] c' = true.
  Proof. exists prop_chain. split; [apply write_chain_prop|apply prop_chain_spec]. Qed.
End OneUpdate.

Lemma pom_decl_property_update_exact_lemma c u :
  d_prop c u = true -> exists c', write_chain c [u] = Some c' /\ decl_spec_ok c [u] c' = true.
Proof.
  unfold d_prop. intros H. apply andb_true_iff in H as [HF HP]. apply andb_true_iff in HF as [HW HU].
  unfold d_upd in HU.
  apply andb_true_iff in HU as [HU HM]. apply andb_true_iff in HU as [HU HTo]. apply andb_true_iff in HU as [HA HC].
  destruct (target_exists c u HA HC) as (p0 & d0 & TF).
  rewrite (original_dependency_target c u p0 d0 TF) in HM, HP.
  apply andb_true_iff in HP as [HP HG']. apply andb_true_iff in HP as [HCP HND].
  rewrite HCP in HM. simpl negb in HM. cbv iota in HM.
  destruct (generate_property_patches (dl_ver d0) (pu_to u)) as [[asg ok]| |] eqn:HG; try discriminate.
  destruct ok; [|discriminate].
  apply (one_update_exact c u p0 d0 asg HW TF HCP HG); auto.
  - apply nodupb_NoDup. exact HND.
  - intros n Hn. rewrite forallb_forall in HM. specialize (HM n Hn).
    destruct (resolve_def (props_of c) (pu_pom u) (pu_origin u) n) as [[j sc]|]; [|discriminate].
    apply andb_true_iff in HM as [HM Hus]. apply andb_true_iff in HM as [Hj Hsc].
    apply Nat.eqb_eq in Hj, Hus. apply beq_eq in Hsc. subst j sc. split; [reflexivity|exact Hus].
Qed.

(* Exactness of the declaration-level pom.xml writer model for SEVERAL updates at once: literal versions,
   ${property} versions and added managed dependencies mixed (domain d_multi of PomDecl.v). *)
From Coq Require Import List ZArith NArith Bool Lia PeanoNat.
From Scalibr Require Import Writers.GoBytes Writers.GoBytesProofs Writers.PomProps Writers.PomPropsProofs
  Writers.PomDecl Writers.PomDeclProofs Writers.PomDeclPropProofs.
Import ListNotations.
Open Scope N_scope.

Lemma nth_indexed_map2 {A B} (f : nat -> A -> B) (l : list A) (da : A) (db : B) : forall k j,
  (j < length l)%nat ->
  nth j (map (fun jq => f (fst jq) (snd jq)) (indexed k l)) db = f (k + j)%nat (nth j l da).
Proof.
  induction l as [|a l IH]; intros k j Hj; simpl in *; [lia|].
  destruct j as [|j]; [rewrite Nat.add_0_r; reflexivity|].
  rewrite IH by lia. f_equal. lia.
Qed.

Lemma nodup_map_inj_local {A} (f : A -> bytes) l a b :
  NoDup (map f l) -> In a l -> In b l -> f a = f b -> a = b.
Proof.
  induction l as [|x l IH]; simpl; intros HN Ha Hb E; [contradiction|].
  inversion HN; subst.
  destruct Ha as [->|Ha], Hb as [->|Hb]; auto.
  - exfalso. apply H1. rewrite E. apply in_map. exact Hb.
  - exfalso. apply H1. rewrite <- E. apply in_map. exact Ha.
Qed.

Lemma find_app_local {A} (p : A -> bool) l1 l2 :
  find p (l1 ++ l2) = match find p l1 with Some x => Some x | None => find p l2 end.
Proof. induction l1 as [|x l1 IH]; simpl; auto. destruct (p x); auto. Qed.

(* ------------------------------------------------------------------ the patches of one update *)
Definition mkp (c : chain) (u : pupd) (p0 : pom) (nv : bytes * bytes) : patch :=
  PropPatch (patch_path (pu_pom u) p0) (written_scope c (pu_origin u) (fst nv)) (fst nv) (snd nv).

Definition dpatch (u : pupd) (p0 : pom) : patch :=
  DepPatch (patch_path (pu_pom u) p0) (pu_origin u) (pu_key u) (pu_to u) true.

Definition apatch (u : pupd) : patch := DepPatch [] MANAGEMENT (pu_key u) (pu_to u) false.

Inductive kind (c : chain) (u : pupd) : list patch -> Prop :=
| KDirect p0 d0 : target_facts c u p0 d0 -> no_placeholder (pu_to u) = true ->
                  (contains_property (dl_ver d0) = false \/
                   exists a, generate_property_patches (dl_ver d0) (pu_to u) = Ok (a, false)) ->
                  kind c u [dpatch u p0]
| KProp p0 d0 asg : target_facts c u p0 d0 -> no_placeholder (pu_to u) = true ->
                    contains_property (dl_ver d0) = true ->
                    generate_property_patches (dl_ver d0) (pu_to u) = Ok (asg, true) ->
                    NoDup (names (dl_ver d0)) ->
                    (forall n, In n (names (dl_ver d0)) ->
                       resolve_def (props_of c) (pu_pom u) (pu_origin u) n = Some (pu_pom u, written_scope c (pu_origin u) n) /\
                       users c (pu_pom u) (written_scope c (pu_origin u) n) n = 1%nat) ->
                    kind c u (map (mkp c u p0) asg)
| KAdd : d_add c u = true -> kind c u [apatch u].

Lemma origin_ok_target c u p0 d0 : chain_wf c = true -> target_facts c u p0 d0 -> origin_ok (pu_origin u) = true.
Proof.
  intros HW TF. rewrite <- (tf_origin _ _ _ _ TF). apply (pom_wf_origin_ok p0); [|apply (tf_in _ _ _ _ TF)].
  apply (chain_wf_pom c _ _ HW (tf_pom _ _ _ _ TF)).
Qed.

Lemma d_multi_kinds c ups :
  d_multi c ups = true ->
  chain_wf c = true /\ NoDup (map pu_key ups) /\ forall u, In u ups -> exists ps, kind c u ps.
Proof.
  unfold d_multi. intros H. apply andb_true_iff in H as [H HF]. apply andb_true_iff in H as [HW HN].
  repeat split; auto; [apply nodupb_NoDup; exact HN|].
  intros u Hu. rewrite forallb_forall in HF. specialize (HF u Hu). apply orb_true_iff in HF as [HF|HA].
  2:{ eexists. apply KAdd. exact HA. }
  apply andb_true_iff in HF as [HU HNd]. unfold d_upd in HU.
  apply andb_true_iff in HU as [HU HM]. apply andb_true_iff in HU as [HU HTo]. apply andb_true_iff in HU as [HA HC].
  destruct (target_exists c u HA HC) as (p0 & d0 & TF).
  unfold prop_names_nodup in HNd. rewrite (original_dependency_target c u p0 d0 TF) in HM, HNd.
  destruct (contains_property (dl_ver d0)) eqn:HCP.
  - simpl negb in HM. cbv iota in HM.
    destruct (generate_property_patches (dl_ver d0) (pu_to u)) as [[asg ok]| |] eqn:HG; try discriminate.
    destruct ok.
    + eexists. apply (KProp c u p0 d0 asg); auto. * apply nodupb_NoDup. exact HNd.
      * intros n Hn. rewrite forallb_forall in HM. specialize (HM n Hn).
        destruct (resolve_def (props_of c) (pu_pom u) (pu_origin u) n) as [[j sc]|]; [|discriminate].
        apply andb_true_iff in HM as [HM Hus]. apply andb_true_iff in HM as [Hj Hsc].
        apply Nat.eqb_eq in Hj, Hus. apply beq_eq in Hsc. subst j sc. split; [reflexivity|exact Hus].
    + eexists. apply (KDirect c u p0 d0); auto. right. eauto.
  - eexists. apply (KDirect c u p0 d0); auto.
Qed.

(* ------------------------------------------------------------------ buildPatches *)
Definition same_triple (q q' : patch) : Prop :=
  match q, q' with
  | PropPatch pa o n _, PropPatch pa' o' n' _ => pa = pa' /\ o = o' /\ n = n'
  | _, _ => False
  end.

Lemma preset_none_triple (acc : list patch) pa o n :
  (forall q, In q acc -> ~ same_triple q (PropPatch pa o n [])) -> preset acc pa o n = None.
Proof.
  intros H. unfold preset.
  assert (E : find (fun p => match p with
    | PropPatch pa0 o0 n0 _ => beq pa0 pa && beq o0 o && beq n0 n | DepPatch _ _ _ _ _ => false end) acc = None).
  { apply find_none_iff_local. intros q Hq. specialize (H q Hq). destruct q as [| pa0 o0 n0 v0]; auto.
    destruct (beq pa0 pa && beq o0 o && beq n0 n) eqn:E; auto. exfalso. apply H.
    apply andb_true_iff in E as [E E3]. apply andb_true_iff in E as [E1 E2]. apply beq_eq in E1, E2, E3.
    simpl. auto. }
  rewrite E. reflexivity.
Qed.

Lemma fold_props_gen c u p0 direct (l : assignments) : forall acc0,
  NoDup (map fst l) ->
  (forall q, In q acc0 -> forall nv, In nv l -> ~ same_triple q (mkp c u p0 nv)) ->
  fold_left (fun acc' nv =>
               let porig := written_scope c (pu_origin u) (fst nv) in
               match preset acc' (patch_path (pu_pom u) p0) porig (fst nv) with
               | None => acc' ++ [PropPatch (patch_path (pu_pom u) p0) porig (fst nv) (snd nv)]
               | Some pre => if beq pre (snd nv) then acc' else acc' ++ [direct]
               end) l acc0 = acc0 ++ map (mkp c u p0) l.
Proof.
  induction l as [|[n v] l IH]; intros acc0 HN Hacc; simpl.
  - rewrite app_nil_r. reflexivity.
  - rewrite (preset_none_triple acc0).
    2:{ intros q Hq Hs. apply (Hacc q Hq (n, v)); [left; reflexivity|].
        unfold mkp. simpl. destruct q; auto. }
    inversion HN as [|? ? Hnot HN']; subst. rewrite IH; auto.
    + rewrite <- app_assoc. reflexivity.
    + intros q Hq nv Hnv. apply in_app_or in Hq as [Hq|Hq].
      * apply (Hacc q Hq nv). right. exact Hnv.
      * simpl in Hq. destruct Hq as [<-|[]]. unfold mkp. simpl. intros (_ & _ & E).
        apply Hnot. rewrite E. apply in_map. exact Hnv.
Qed.

Lemma build_one_kind c acc u ps :
  chain_wf c = true -> kind c u ps ->
  (forall q, In q acc -> forall q', In q' ps -> ~ same_triple q q') ->
  build_one c acc u = Some (acc ++ ps).
Proof.
  intros HW K Hnc. destruct K as [p0 d0 TF HTo Hk | p0 d0 asg TF HTo HCP HG HND HDef | HA].
  - unfold build_one. rewrite (original_dependency_target c u p0 d0 TF).
    pose proof (ppfo_full c (pu_pom u) p0 (pu_origin u) HW (tf_pom _ _ _ _ TF) (origin_ok_target c u p0 d0 HW TF)) as Hpp.
    rewrite Hpp. cbn [fst snd].
    destruct Hk as [Hk|[a Hk]].
    + rewrite Hk. reflexivity.
    + destruct (contains_property (dl_ver d0)); [|reflexivity]. simpl negb. cbv iota. rewrite Hk. reflexivity.
  - unfold build_one. rewrite (original_dependency_target c u p0 d0 TF). rewrite HCP. simpl negb. cbv iota. rewrite HG.
    pose proof (ppfo_full c (pu_pom u) p0 (pu_origin u) HW (tf_pom _ _ _ _ TF) (origin_ok_target c u p0 d0 HW TF)) as Hpp.
    rewrite Hpp. cbn [fst snd].
    assert (HNa : NoDup (map fst asg)) by (rewrite (generate_names _ _ _ HG); exact HND).
    rewrite (dedup_nodup asg [] HNa) by (intros; reflexivity).
    f_equal. apply (fold_props_gen c u p0 (dpatch u p0) asg acc HNa).
    intros q Hq nv Hnv. apply (Hnc q Hq). apply in_map. exact Hnv.
  - unfold build_one. unfold d_add in HA. apply andb_true_iff in HA as [HA _]. apply andb_true_iff in HA as [HA _].
    apply andb_true_iff in HA as [HA _]. unfold is_add in HA. apply negb_true_iff in HA.
    rewrite (not_declared_no_original c _ HA). reflexivity.
Qed.

Lemma kinds_forall2 c ups : (forall u, In u ups -> exists ps, kind c u ps) -> exists pss, Forall2 (kind c) ups pss.
Proof.
  induction ups as [|u r IH]; intros H; [exists []; constructor|].
  destruct (H u (or_introl eq_refl)) as (ps & K). destruct IH as (pss & F); [intros; apply H; right; auto|].
  exists (ps :: pss). constructor; auto.
Qed.

Lemma kind_prop_inv c u ps q :
  kind c u ps -> In q ps -> (exists pa o n v, q = PropPatch pa o n v) ->
  exists p0 d0 asg nv,
    ps = map (mkp c u p0) asg /\ q = mkp c u p0 nv /\ In nv asg /\ target_facts c u p0 d0 /\
    map fst asg = names (dl_ver d0) /\
    (forall n, In n (names (dl_ver d0)) ->
       resolve_def (props_of c) (pu_pom u) (pu_origin u) n = Some (pu_pom u, written_scope c (pu_origin u) n) /\
       users c (pu_pom u) (written_scope c (pu_origin u) n) n = 1%nat).
Proof.
  intros K Hq (pa & o & n & v & ->). destruct K as [p0 d0 TF HTo Hk | p0 d0 asg TF HTo HCP HG HND HDef | HA].
  - simpl in Hq. destruct Hq as [Hq|[]]. discriminate.
  - apply in_map_iff in Hq as (nv & E & Hnv). exists p0, d0, asg, nv.
    split; [reflexivity|]. split; [symmetry; exact E|]. split; [exact Hnv|]. split; [exact TF|].
    split; [apply (generate_names _ _ _ HG)|exact HDef].
  - simpl in Hq. destruct Hq as [Hq|[]]. discriminate.
Qed.

Lemma uses_target c u p0 d0 n sc :
  target_facts c u p0 d0 -> In n (names (dl_ver d0)) ->
  resolve_def (props_of c) (pu_pom u) (pu_origin u) n = Some (pu_pom u, sc) ->
  uses (props_of c) (pu_pom u) sc n (pu_pom u, d0) = true.
Proof.
  intros TF Hn Hd. unfold uses. simpl. rewrite (proj2 (mem_In n _) Hn). simpl.
  rewrite (tf_origin _ _ _ _ TF), Hd, Nat.eqb_refl, beq_refl. reflexivity.
Qed.

(* two different updates never write the same property definition *)
Lemma no_collision c u u' ps ps' q q' :
  chain_wf c = true -> kind c u ps -> kind c u' ps' -> pu_key u <> pu_key u' ->
  In q ps -> In q' ps' -> same_triple q q' -> False.
Proof.
  intros HW K K' Hne Hq Hq' Hs.
  assert (Hp : exists pa o n v, q = PropPatch pa o n v) by (destruct q; [contradiction|eauto]).
  assert (Hp' : exists pa o n v, q' = PropPatch pa o n v) by (destruct q, q'; try contradiction; eauto).
  destruct (kind_prop_inv c u ps q K Hq Hp) as (p0 & d0 & asg & nv & _ & -> & Hnv & TF & Hnames & HDef).
  destruct (kind_prop_inv c u' ps' q' K' Hq' Hp') as (p0' & d0' & asg' & nv' & _ & -> & Hnv' & TF' & Hnames' & HDef').
  unfold mkp in Hs. simpl in Hs. destruct Hs as (Hpath & Hsc & Hn).
  pose proof (patch_path_inj c _ _ _ _ HW (tf_pom _ _ _ _ TF) (tf_pom _ _ _ _ TF') Hpath) as Hi.
  assert (Hin : In (fst nv) (names (dl_ver d0))) by (rewrite <- Hnames; apply in_map; exact Hnv).
  assert (Hin' : In (fst nv) (names (dl_ver d0'))) by (rewrite Hn, <- Hnames'; apply in_map; exact Hnv').
  destruct (HDef _ Hin) as [Hd Hu]. destruct (HDef' _ Hin') as [Hd' _].
  rewrite <- Hn in Hsc. rewrite <- Hsc, <- Hi in Hd'.
  apply Hne.
  assert (E : (pu_pom u, d0) = (pu_pom u, d0')).
  { unfold users in Hu. apply (filter_len1_unique _ _ _ _ Hu).
    - apply all_decls_In. exists p0. split; [apply (tf_pom _ _ _ _ TF)|apply (tf_in _ _ _ _ TF)].
    - apply (uses_target c u p0 d0); auto.
    - apply all_decls_In. exists p0'. split; [rewrite Hi; apply (tf_pom _ _ _ _ TF')|apply (tf_in _ _ _ _ TF')].
    - pose proof (uses_target c u' p0' d0' (fst nv) (written_scope c (pu_origin u) (fst nv)) TF' Hin') as Hu'.
      rewrite <- Hi in Hu'. apply Hu'. exact Hd'. }
  inversion E; subst. rewrite <- (tf_key _ _ _ _ TF), <- (tf_key _ _ _ _ TF'). reflexivity.
Qed.

Lemma build_all c : forall ups pss, Forall2 (kind c) ups pss -> forall acc,
  chain_wf c = true -> NoDup (map pu_key ups) ->
  (forall q, In q acc -> forall ps, In ps pss -> forall q', In q' ps -> ~ same_triple q q') ->
  build_patches c acc ups = Some (acc ++ concat pss).
Proof.
  induction 1 as [|u ps r pss K F IH]; intros acc HW HN Hnc; simpl.
  - rewrite app_nil_r. reflexivity.
  - rewrite (build_one_kind c acc u ps HW K) by (intros q Hq q' Hq'; apply (Hnc q Hq ps (or_introl eq_refl) q' Hq')).
    inversion HN as [|? ? Hnot HN']; subst.
    rewrite IH; auto.
    + rewrite <- app_assoc. reflexivity.
    + intros q Hq ps2 Hps2 q' Hq'. apply in_app_or in Hq as [Hq|Hq].
      * apply (Hnc q Hq ps2 (or_intror Hps2) q' Hq').
      * (* q from u, q' from a later update *)
        intros Hs. clear IH.
        assert (Hex : exists u2, In u2 r /\ kind c u2 ps2).
        { clear -F Hps2. induction F as [|a b l l' Ka Fl IHl]; [contradiction|].
          destruct Hps2 as [<-|Hp]; [exists a; split; [left; reflexivity|exact Ka]|].
          destruct (IHl Hp) as (u2 & H1 & H2). exists u2. split; [right; exact H1|exact H2]. }
        destruct Hex as (u2 & Hu2 & K2).
        apply (no_collision c u u2 ps ps2 q q' HW K K2); auto.
        intros E. apply Hnot. rewrite E. apply in_map. exact Hu2.
Qed.

(* ------------------------------------------------------------------ the effect on the declarations *)
Definition is_dir (ps : list patch) : bool :=
  match ps with [DepPatch _ _ _ _ true] => true | _ => false end.

Fixpoint dirs_of (ups : list pupd) (pss : list (list patch)) : list pupd :=
  match ups, pss with
  | u :: r, ps :: pr => (if is_dir ps then [u] else []) ++ dirs_of r pr
  | _, _ => []
  end.

Lemma dep_patches_app a b pa o : dep_patches_at (a ++ b) pa o = dep_patches_at a pa o ++ dep_patches_at b pa o.
Proof. unfold dep_patches_at. apply flat_map_app. Qed.

Lemma dep_patches_props c u p0 (asg : assignments) pa o : dep_patches_at (map (mkp c u p0) asg) pa o = [].
Proof. unfold dep_patches_at. apply flat_map_nil. intros q Hq. apply in_map_iff in Hq as (nv & <- & _). reflexivity. Qed.

Lemma patch_of_target c u p0 d0 : target_facts c u p0 d0 -> patch_of c u = dpatch u p0.
Proof. intros TF. unfold patch_of. rewrite (target_nth c u p0 d0 TF). reflexivity. Qed.

Lemma dirs_sub c ups pss : Forall2 (kind c) ups pss -> forall u, In u (dirs_of ups pss) -> In u ups /\ tgt_ok c u.
Proof.
  induction 1 as [|u ps r pss K F IH]; simpl; intros x Hx; [contradiction|].
  apply in_app_or in Hx as [Hx|Hx].
  - destruct (is_dir ps) eqn:E; [|contradiction]. destruct Hx as [<-|[]]. split; [left; reflexivity|].
    destruct K as [p0 d0 TF _ _| p0 d0 asg TF _ _ _ _ _ | HA].
    + exists p0, d0. exact TF.
    + exists p0, d0. exact TF.
    + discriminate.
  - destruct (IH x Hx). split; [right|]; auto.
Qed.

Lemma dirs_nodup c ups pss : Forall2 (kind c) ups pss -> NoDup (map pu_key ups) -> NoDup (map pu_key (dirs_of ups pss)).
Proof.
  induction 1 as [|u ps r pss K F IH]; simpl; intros HN; [constructor|].
  inversion HN as [|? ? Hnot HN']; subst. destruct (is_dir ps); simpl; auto.
  constructor; auto. intros Hin. apply Hnot. apply in_map_iff in Hin as (x & E & Hx).
  rewrite <- E. apply in_map. apply (dirs_sub c r pss F x Hx).
Qed.

(* PARENT origin: the patches of added and ${property} updates are filed elsewhere *)
Lemma here_parent c : forall ups pss, Forall2 (kind c) ups pss -> forall pa,
  dep_patches_at (concat pss) pa PARENT = dep_patches_at (map (patch_of c) (dirs_of ups pss)) pa PARENT.
Proof.
  induction 1 as [|u ps r pss K F IH]; intros pa; simpl; [reflexivity|].
  rewrite dep_patches_app, map_app, dep_patches_app, IH. f_equal.
  destruct K as [p0 d0 TF _ _| p0 d0 asg TF _ _ _ _ _ | HA].
  - simpl is_dir. cbv iota. simpl map. rewrite (patch_of_target c u p0 d0 TF). reflexivity.
  - rewrite dep_patches_props.
    (* a ${property} update is never "direct" *)
    assert (E : is_dir (map (mkp c u p0) asg) = false) by (destruct asg as [|nv [|nv2 l]]; reflexivity).
    rewrite E. reflexivity.
  - simpl is_dir. cbv iota. simpl map. unfold apatch, dep_patches_at. cbn [flat_map].
    rewrite MGMT_PARENT, andb_false_r. reflexivity.
Qed.

(* any other origin: the entries of added updates never carry the key of an existing declaration there *)
Lemma here_find c f : forall ups pss, Forall2 (kind c) ups pss -> forall pa o,
  (forall u, In u ups -> d_add c u = true -> beq [] pa && beq MANAGEMENT o = true -> f (pu_key u, pu_to u) = false) ->
  find f (dep_patches_at (concat pss) pa o) = find f (dep_patches_at (map (patch_of c) (dirs_of ups pss)) pa o).
Proof.
  induction 1 as [|u ps r pss K F IH]; intros pa o Hadd; simpl; [reflexivity|].
  rewrite dep_patches_app, map_app, dep_patches_app, !find_app_local.
  rewrite (IH pa o) by (intros u0 Hu0; apply Hadd; right; exact Hu0).
  destruct K as [p0 d0 TF _ _| p0 d0 asg TF _ _ _ _ _ | HA].
  - simpl is_dir. cbv iota. simpl map. rewrite (patch_of_target c u p0 d0 TF). reflexivity.
  - rewrite dep_patches_props.
    assert (E : is_dir (map (mkp c u p0) asg) = false) by (destruct asg as [|nv [|nv2 l]]; reflexivity).
    rewrite E. reflexivity.
  - simpl is_dir. cbv iota. simpl map. unfold apatch, dep_patches_at at 1. cbn [flat_map]. rewrite app_nil_r.
    destruct (beq [] pa && beq MANAGEMENT o) eqn:E; [|reflexivity].
    cbn [find]. rewrite (Hadd u (or_introl eq_refl) HA eq_refl). reflexivity.
Qed.

Lemma main_of_nil_path c i p : chain_wf c = true -> In (i, p) (indexed O c) -> beq [] (patch_path i p) = true -> i = O.
Proof.
  intros HW Hip E. destruct i as [|i]; auto. cbn [patch_path] in E. apply beq_eq in E.
  pose proof (chain_wf_path c i p HW Hip) as Hp. unfold path_ok in Hp. rewrite <- E in Hp. discriminate.
Qed.

Lemma write_decl_full c ups pss i p d :
  chain_wf c = true -> Forall2 (kind c) ups pss -> NoDup (map pu_key ups) ->
  In (i, p) (indexed O c) -> In d (pm_decls p) ->
  write_decl (concat pss) (patch_path i p) d = Some (lit_decl (dirs_of ups pss) i d).
Proof.
  intros HW F HN Hip Hd.
  rewrite <- (write_decl_lit c (dirs_of ups pss) i p d HW (dirs_nodup c ups pss F HN)
               (fun u Hu => proj2 (dirs_sub c ups pss F u Hu)) Hip Hd).
  unfold write_decl. destruct (beq (dl_origin d) PARENT) eqn:Ep.
  - apply beq_eq in Ep. rewrite Ep, (here_parent c ups pss F). reflexivity.
  - destruct (is_nil (dl_ver d)); [reflexivity|].
    rewrite (here_find c (fun kt => beq (fst kt) (dl_key d)) ups pss F); [reflexivity|].
    intros u Hu HA E. cbn [fst]. apply andb_true_iff in E as [E1 E2].
    pose proof (main_of_nil_path c i p HW Hip E1) as ->. apply beq_eq in E2.
    unfold d_add in HA. apply andb_true_iff in HA as [_ HM].
    destruct c as [|m r]; [discriminate|]. apply andb_true_iff in HM as [HM _]. apply negb_true_iff in HM.
    simpl in Hip. destruct Hip as [Hip|Hip]; [|apply indexed_In in Hip as [Hle _]; lia].
    inversion Hip; subst p.
    destruct (beq (pu_key u) (dl_key d)) eqn:Ek; auto.
    assert (existsb (fun d => beq (dl_origin d) MANAGEMENT && beq (dl_key d) (pu_key u)) (pm_decls m) = true); [|congruence].
    apply existsb_exists. exists d. split; auto. rewrite <- E2, beq_refl, beq_sym_l, Ek. reflexivity.
Qed.

Definition full_pom (ps : list patch) (dirs : list pupd) (i : nat) (p : pom) : pom :=
  {| pm_path := pm_path p;
     pm_decls := match i with
                 | O => if pm_empty_mgmt p then map (lit_decl dirs i) (pm_decls p)
                        else insert_added (map added_decl (added_pairs ps)) (map (lit_decl dirs i) (pm_decls p))
                 | S _ => map (lit_decl dirs i) (pm_decls p)
                 end;
     pm_props := map (write_prop ps (patch_path i p)) (pm_props p);
     pm_empty_mgmt := pm_empty_mgmt p |}.

Definition full_chain (c : chain) (ps : list patch) (dirs : list pupd) : chain :=
  map (fun ip => full_pom ps dirs (fst ip) (snd ip)) (indexed O c).

Lemma write_chain_full c ups pss :
  chain_wf c = true -> Forall2 (kind c) ups pss -> NoDup (map pu_key ups) ->
  write_chain c ups = Some (full_chain c (concat pss) (dirs_of ups pss)).
Proof.
  intros HW F HN. unfold write_chain.
  rewrite (build_all c ups pss F [] HW HN) by (intros q []). simpl app.
  unfold full_chain. apply all_some_map. intros [i p] Hip. simpl. unfold write_pom.
  rewrite (all_some_map _ (lit_decl (dirs_of ups pss) i)) by (intros d Hd; apply (write_decl_full c ups pss i p d); auto).
  reflexivity.
Qed.

(* ------------------------------------------------------------------ property lists after a rewrite that keeps origin and name *)
Section PropsAfter.
  Variable fu : nat -> pdef -> pdef.
  Hypothesis fu_def : forall j sc n f, is_def sc n (fu j f) = is_def sc n f.

  Definition after (pp : list (list pdef)) : list (list pdef) :=
    map (fun jps => map (fu (fst jps)) (snd jps)) (indexed O pp).

  Lemma has_def_fu j ps sc n : has_def (map (fu j) ps) sc n = has_def ps sc n.
  Proof. unfold has_def. induction ps as [|f ps IH]; simpl; auto. rewrite fu_def, IH. reflexivity. Qed.

  Lemma nth_after pp j : nth j (after pp) [] = map (fu j) (nth j pp []).
  Proof.
    unfold after. destruct (Nat.lt_ge_cases j (length pp)) as [Hj|Hj].
    - rewrite (nth_indexed_map2 (fun j ps => map (fu j) ps) pp [] [] O j Hj). reflexivity.
    - rewrite !nth_overflow; auto. rewrite map_length, indexed_length. exact Hj.
  Qed.

  Lemma first_some_after n : forall (l : list (list pdef)) k,
    first_some (fun jq => if has_def (snd jq) [] n then Some (fst jq, @nil N) else None)
               (indexed k (map (fun jps => map (fu (fst jps)) (snd jps)) (indexed k l))) =
    first_some (fun jq => if has_def (snd jq) [] n then Some (fst jq, @nil N) else None) (indexed k l).
  Proof.
    induction l as [|ps l IH]; intros k; simpl; [reflexivity|].
    rewrite has_def_fu. destruct (has_def ps [] n); [reflexivity|]. apply IH.
  Qed.

  Lemma resolve_def_after pp j o n : resolve_def (after pp) j o n = resolve_def pp j o n.
  Proof.
    unfold resolve_def. rewrite nth_after, has_def_fu. destruct (_ && _); [reflexivity|].
    unfold after. apply first_some_after.
  Qed.

  Lemma find_map_fu j sc n ps : find (is_def sc n) (map (fu j) ps) = option_map (fu j) (find (is_def sc n) ps).
  Proof. induction ps as [|f ps IH]; simpl; auto. rewrite fu_def. destruct (is_def sc n f); auto. Qed.

  Lemma block_value_after j ps sc n :
    block_value (map (fu j) ps) sc n = option_map (fun f => pf_val (fu j f)) (find_last (is_def sc n) ps).
  Proof.
    unfold block_value, find_last. rewrite <- map_rev, find_map_fu. destruct (find _ (rev ps)); reflexivity.
  Qed.

  Lemma resolve_after_gen pp j o n :
    resolve (after pp) j o n =
    match resolve_def pp j o n with
    | Some (j', sc) => option_map (fun f => pf_val (fu j' f)) (find_last (is_def sc n) (nth j' pp []))
    | None => None
    end.
  Proof.
    unfold resolve. rewrite resolve_def_after. destruct (resolve_def pp j o n) as [[j' sc]|]; auto.
    rewrite nth_after. apply block_value_after.
  Qed.
End PropsAfter.

Lemma resolve_before pp j o n :
  resolve pp j o n =
  match resolve_def pp j o n with
  | Some (j', sc) => option_map pf_val (find_last (is_def sc n) (nth j' pp []))
  | None => None
  end.
Proof. reflexivity. Qed.

(* ------------------------------------------------------------------ the property lists of the written chain *)
Definition pathj (c : chain) (j : nat) : bytes :=
  match nth_error c j with Some q => patch_path j q | None => [] end.

Definition wp (c : chain) (ps : list patch) (j : nat) (f : pdef) : pdef := write_prop ps (pathj c j) f.

Lemma wp_def c ps j sc n f : is_def sc n (wp c ps j f) = is_def sc n f.
Proof. unfold wp, write_prop. destruct (preset _ _ _ _); reflexivity. Qed.

Lemma props_of_full c ps dirs : props_of (full_chain c ps dirs) = after (wp c ps) (props_of c).
Proof.
  unfold props_of, full_chain, after. rewrite map_map.
  assert (G : forall (l : chain) k, (forall j q, In (j, q) (indexed k l) -> pathj c j = patch_path j q) ->
              map (fun x => pm_props (full_pom ps dirs (fst x) (snd x))) (indexed k l) =
              map (fun jps => map (wp c ps (fst jps)) (snd jps)) (indexed k (map pm_props l))).
  { induction l as [|q l IH]; intros k H; simpl; [reflexivity|]. rewrite IH.
    - f_equal. unfold wp. rewrite (H k q) by (left; reflexivity). reflexivity.
    - intros j q' Hj. apply H. right. exact Hj. }
  apply G. intros j q Hj. unfold pathj. apply indexed_In in Hj as [_ Hn]. rewrite Nat.sub_0_r in Hn. rewrite Hn. reflexivity.
Qed.

Lemma preset_in ps pa sc n v : preset ps pa sc n = Some v -> In (PropPatch pa sc n v) ps.
Proof.
  unfold preset. destruct (find _ ps) as [q|] eqn:Ef; [|discriminate].
  apply find_some in Ef as [Hin Hq]. destruct q as [|pa0 o0 n0 v0]; [discriminate|].
  intros H; inversion H; subst. apply andb_true_iff in Hq as [Hq H3]. apply andb_true_iff in Hq as [H1 H2].
  apply beq_eq in H1, H2, H3. subst. exact Hin.
Qed.

Lemma preset_not_none ps pa sc n v : In (PropPatch pa sc n v) ps -> preset ps pa sc n <> None.
Proof.
  intros Hin. unfold preset.
  destruct (find _ ps) as [q|] eqn:Ef.
  - apply find_some in Ef as [_ Hq]. destruct q; [discriminate|]. discriminate.
  - apply find_none with (x := PropPatch pa sc n v) in Ef; auto. rewrite !beq_refl in Ef. discriminate.
Qed.

Lemma concat_kind c q : forall ups pss, Forall2 (kind c) ups pss -> In q (concat pss) ->
  exists u ps, In u ups /\ kind c u ps /\ In q ps /\ In ps pss.
Proof.
  induction 1 as [|u ps r pss K F IH]; simpl; intros Hq; [contradiction|].
  apply in_app_or in Hq as [Hq|Hq].
  - exists u, ps. auto.
  - destruct (IH Hq) as (u' & ps' & H1 & H2 & H3 & H4). exists u', ps'. auto.
Qed.

Lemma kind_in_concat c u ps q : forall ups pss, Forall2 (kind c) ups pss -> In u ups -> NoDup (map pu_key ups) ->
  kind c u ps -> In q ps -> (forall ps', kind c u ps' -> ps' = ps) -> In q (concat pss).
Proof.
  induction 1 as [|u0 ps0 r pss K F IH]; simpl; intros Hu HN Ku Hq Huniq; [contradiction|].
  inversion HN; subst. destruct Hu as [->|Hu].
  - apply in_or_app. left. rewrite (Huniq ps0 K). exact Hq.
  - apply in_or_app. right. apply IH; auto.
Qed.

(* ------------------------------------------------------------------ kinds are exclusive and determined *)
Lemma target_declared c u p0 d0 : target_facts c u p0 d0 -> declared c (pu_key u) = true.
Proof.
  intros TF. unfold declared. apply existsb_exists. exists (pu_pom u, d0). split.
  - apply all_decls_In. exists p0. split; [apply (tf_pom _ _ _ _ TF)|apply (tf_in _ _ _ _ TF)].
  - simpl. rewrite (tf_key _ _ _ _ TF), beq_refl. simpl. apply is_nil_false. apply (tf_ver _ _ _ _ TF).
Qed.

Lemma d_add_not_declared c u : d_add c u = true -> declared c (pu_key u) = false.
Proof.
  unfold d_add, is_add. intros H. apply andb_true_iff in H as [H _]. apply andb_true_iff in H as [H _].
  apply andb_true_iff in H as [H _]. apply negb_true_iff in H. exact H.
Qed.

Lemma target_unique c u p0 d0 p1 d1 : target_facts c u p0 d0 -> target_facts c u p1 d1 -> p0 = p1 /\ d0 = d1.
Proof.
  intros T0 T1. split; [apply (indexed_fun _ _ _ _ _ (tf_pom _ _ _ _ T0) (tf_pom _ _ _ _ T1))|].
  destruct (tf_unique _ _ _ _ T0 (pu_pom u) d1) as [_ E]; auto.
  - apply all_decls_In. exists p1. split; [apply (tf_pom _ _ _ _ T1)|apply (tf_in _ _ _ _ T1)].
  - apply (tf_key _ _ _ _ T1).
  - apply (tf_ver _ _ _ _ T1).
Qed.

Lemma kind_unique c u ps ps' : kind c u ps -> kind c u ps' -> ps' = ps.
Proof.
  intros K K'.
  destruct K as [p0 d0 TF HTo Hk | p0 d0 asg TF HTo HCP HG HND HDef | HA];
  destruct K' as [p1 d1 TF' HTo' Hk' | p1 d1 asg' TF' HTo' HCP' HG' HND' HDef' | HA'].
  - destruct (target_unique c u p0 d0 p1 d1 TF TF') as [-> _]. reflexivity.
  - exfalso. destruct (target_unique c u p0 d0 p1 d1 TF TF') as [-> ->].
    destruct Hk as [Hk|[a Hk]]; congruence.
  - exfalso. pose proof (target_declared c u p0 d0 TF). pose proof (d_add_not_declared c u HA'). congruence.
  - exfalso. destruct (target_unique c u p0 d0 p1 d1 TF TF') as [-> ->].
    destruct Hk' as [Hk'|[a Hk']]; congruence.
  - destruct (target_unique c u p0 d0 p1 d1 TF TF') as [-> ->]. rewrite HG in HG'. inversion HG'; subst. reflexivity.
  - exfalso. pose proof (target_declared c u p0 d0 TF). pose proof (d_add_not_declared c u HA'). congruence.
  - exfalso. pose proof (target_declared c u p1 d1 TF'). pose proof (d_add_not_declared c u HA). congruence.
  - exfalso. pose proof (target_declared c u p1 d1 TF'). pose proof (d_add_not_declared c u HA). congruence.
  - reflexivity.
Qed.

Lemma resolve_def_has pp j o n j' sc : resolve_def pp j o n = Some (j', sc) -> has_def (nth j' pp []) sc n = true.
Proof.
  unfold resolve_def. destruct (negb (is_nil (profile_scope o)) && has_def (nth j pp []) (profile_scope o) n) eqn:E.
  - intros H. inversion H; subst. apply andb_true_iff in E as [_ E]. exact E.
  - intros H. destruct (first_some_def_spec n pp O j' sc H) as (_ & -> & G3). rewrite Nat.sub_0_r in G3. exact G3.
Qed.

Lemma has_def_find_last ps sc n : has_def ps sc n = true -> exists f, find_last (is_def sc n) ps = Some f /\ is_def sc n f = true.
Proof.
  unfold has_def, find_last. intros H. apply existsb_exists in H as (f & Hf & Hd).
  destruct (find (is_def sc n) (rev ps)) as [g|] eqn:Ef.
  - exists g. split; auto. apply find_some in Ef as [_ E]. exact E.
  - apply find_none with (x := f) in Ef; [congruence|]. apply in_rev in Hf. exact Hf.
Qed.

Lemma value_after c ps j sc n f :
  is_def sc n f = true ->
  pf_val (wp c ps j f) = match preset ps (pathj c j) sc n with Some v => v | None => pf_val f end.
Proof.
  unfold is_def. intros H. apply andb_true_iff in H as [H1 H2]. apply beq_eq in H1, H2.
  unfold wp, write_prop. rewrite H1, H2. destruct (preset _ _ _ _); reflexivity.
Qed.

Lemma keys_inj ups u u' : NoDup (map pu_key ups) -> In u ups -> In u' ups -> pu_key u = pu_key u' -> u = u'.
Proof. intros HN H1 H2 E. apply (nodup_map_inj_local pu_key ups u u' HN H1 H2 E). Qed.

(* ------------------------------------------------------------------ placeholder values after the write *)
Section Spec.
  Variables (c : chain) (ups : list pupd) (pss : list (list patch)).
  Hypothesis HW : chain_wf c = true.
  Hypothesis F : Forall2 (kind c) ups pss.
  Hypothesis HN : NoDup (map pu_key ups).

  Let ps := concat pss.
  Let dirs := dirs_of ups pss.
  Let c' := full_chain c ps dirs.
  Let pp := props_of c.

  Lemma props_c' : props_of c' = after (wp c ps) pp.
  Proof. apply props_of_full. Qed.

  (* a property patch that hits the definition in effect for a placeholder of (i, d) belongs to an update
     addressed to (i, d) *)
  Lemma hit_means_addressed i q d n j sc v :
    In (i, q) (indexed O c) -> In d (pm_decls q) -> In n (names (dl_ver d)) ->
    resolve_def pp i (dl_origin d) n = Some (j, sc) ->
    preset ps (pathj c j) sc n = Some v ->
    exists u p0 d0 asg, In u ups /\ kind c u (map (mkp c u p0) asg) /\ target_facts c u p0 d0 /\
                        (i, d) = (pu_pom u, d0) /\ In (n, v) asg.
  Proof.
    intros Hiq Hd Hn Hr Hp.
    apply preset_in in Hp. destruct (concat_kind c _ ups pss F Hp) as (u & psu & Hu & K & Hq & _).
    destruct (kind_prop_inv c u psu _ K Hq) as (p0 & d0 & asg & nv & -> & E & Hnv & TF & Hnames & HDef); [eauto|].
    unfold mkp in E. inversion E as [[Epath Esc En Ev]]. clear E.
    exists u, p0, d0, asg. split; [exact Hu|]. split; [exact K|]. split; [exact TF|].
    (* j is the pom of u *)
    pose proof (resolve_def_has pp i (dl_origin d) n j sc Hr) as Hhd.
    assert (Hj : exists qj, nth_error c j = Some qj).
    { destruct (nth_error c j) as [qj|] eqn:Enj; [eauto|]. exfalso.
      apply nth_error_None in Enj. unfold pp, props_of in Hhd.
      rewrite nth_overflow in Hhd by (rewrite map_length; exact Enj). discriminate. }
    destruct Hj as (qj & Enj). unfold pathj in Epath. rewrite Enj in Epath.
    assert (Hjq : In (j, qj) (indexed O c)) by (apply (indexed_nth c O j qj Enj)).
    pose proof (patch_path_inj c _ _ _ _ HW Hjq (tf_pom _ _ _ _ TF) Epath) as Ej. subst j.
    assert (Hn0 : In n (names (dl_ver d0))) by (rewrite En, <- Hnames; apply in_map; exact Hnv).
    destruct (HDef n Hn0) as [Hd0 Hus]. rewrite <- En in Esc. rewrite <- Esc in Hus, Hd0.
    split.
    - unfold users in Hus. apply (filter_len1_unique _ _ _ _ Hus).
      + apply all_decls_In. exists q. auto.
      + unfold uses. simpl. rewrite (proj2 (mem_In n _) Hn). simpl. fold pp. rewrite Hr, Nat.eqb_refl, beq_refl. reflexivity.
      + apply all_decls_In. exists p0. split; [apply (tf_pom _ _ _ _ TF)|apply (tf_in _ _ _ _ TF)].
      + apply (uses_target c u p0 d0 n sc TF Hn0 Hd0).
    - destruct nv; exact Hnv.
  Qed.

  Lemma target_addressed u p0 d0 : target_facts c u p0 d0 -> addresses u (pu_pom u) d0 = true.
  Proof.
    intros TF. unfold addresses. rewrite Nat.eqb_refl, (tf_origin _ _ _ _ TF), (tf_key _ _ _ _ TF), !beq_refl. reflexivity.
  Qed.

  (* a declaration no ${property} update is addressed to keeps the value of every placeholder *)
  Lemma name_unchanged i q d n :
    In (i, q) (indexed O c) -> In d (pm_decls q) -> In n (names (dl_ver d)) ->
    (forall u p0 asg, In u ups -> kind c u (map (mkp c u p0) asg) -> asg <> [] -> addresses u i d = false) ->
    resolve (props_of c') i (dl_origin d) n = resolve pp i (dl_origin d) n.
  Proof.
    intros Hiq Hd Hn Hno. rewrite props_c', (resolve_after_gen (wp c ps) (wp_def c ps)), resolve_before.
    destruct (resolve_def pp i (dl_origin d) n) as [[j sc]|] eqn:Hr; auto.
    destruct (find_last (is_def sc n) (nth j pp [])) as [f|] eqn:Ef; auto. simpl. f_equal.
    assert (Hdf : is_def sc n f = true) by (unfold find_last in Ef; apply find_some in Ef as [_ E]; exact E).
    rewrite (value_after c ps j sc n f Hdf).
    destruct (preset ps (pathj c j) sc n) as [v|] eqn:Hp; auto. exfalso.
    destruct (hit_means_addressed i q d n j sc v Hiq Hd Hn Hr Hp) as (u & p0 & d0 & asg & Hu & K & TF & E & Hin).
    inversion E; subst. pose proof (Hno u p0 asg Hu K ltac:(destruct asg; [contradiction|discriminate])) as Hna.
    rewrite (target_addressed u p0 d0 TF) in Hna. discriminate.
  Qed.

  (* the target of a ${property} update: every placeholder stands for the value generatePropertyPatches computed *)
  Lemma name_target u p0 d0 asg n :
    In u ups -> kind c u (map (mkp c u p0) asg) -> target_facts c u p0 d0 ->
    generate_property_patches (dl_ver d0) (pu_to u) = Ok (asg, true) -> NoDup (names (dl_ver d0)) ->
    (forall n, In n (names (dl_ver d0)) ->
       resolve_def pp (pu_pom u) (pu_origin u) n = Some (pu_pom u, written_scope c (pu_origin u) n)) ->
    In n (names (dl_ver d0)) ->
    resolve (props_of c') (pu_pom u) (pu_origin u) n = lookup_last n asg.
  Proof.
    intros Hu K TF HG HND HDef Hn.
    rewrite props_c', (resolve_after_gen (wp c ps) (wp_def c ps)), (HDef n Hn).
    pose proof (resolve_def_has pp _ _ _ _ _ (HDef n Hn)) as Hhd.
    destruct (has_def_find_last _ _ _ Hhd) as (f & Ef & Hdf). rewrite Ef. simpl.
    rewrite (value_after c ps _ _ _ f Hdf).
    assert (Hnames : map fst asg = names (dl_ver d0)) by (apply (generate_names _ _ _ HG)).
    assert (HNa : NoDup (map fst asg)) by (rewrite Hnames; exact HND).
    assert (Hpath : pathj c (pu_pom u) = patch_path (pu_pom u) p0) by (unfold pathj; rewrite (target_nth c u p0 d0 TF); reflexivity).
    (* the update's own patch for n is in the list *)
    assert (Hex : exists v0, In (n, v0) asg).
    { rewrite <- Hnames in Hn. apply in_map_iff in Hn as ([n0 v0] & E & Hin). simpl in E. subst n0. eauto. }
    destruct Hex as (v0 & Hv0).
    assert (Hq0 : In (PropPatch (pathj c (pu_pom u)) (written_scope c (pu_origin u) n) n v0) ps).
    { rewrite Hpath. apply (kind_in_concat c u (map (mkp c u p0) asg) _ ups pss F Hu HN K).
      - apply in_map_iff. exists (n, v0). split; [reflexivity|exact Hv0].
      - intros ps' K'. apply (kind_unique c u _ _ K K'). }
    destruct (preset ps (pathj c (pu_pom u)) (written_scope c (pu_origin u) n) n) as [v|] eqn:Hp;
      [|exfalso; apply (preset_not_none _ _ _ _ _ Hq0 Hp)].
    (* whoever wrote it, it is this update *)
    apply preset_in in Hp. destruct (concat_kind c _ ups pss F Hp) as (u2 & ps2 & Hu2 & K2 & Hq2 & _).
    assert (E2 : u2 = u).
    { apply (keys_inj ups u2 u HN Hu2 Hu). destruct (N.eq_dec 0 0) as [_|]; [|contradiction].
      destruct (list_eq_dec N.eq_dec (pu_key u2) (pu_key u)) as [E|Hne]; auto. exfalso.
      apply (no_collision c u2 u ps2 (map (mkp c u p0) asg) _ (mkp c u p0 (n, v0)) HW K2 K Hne Hq2).
      - apply in_map. exact Hv0.
      - unfold mkp. simpl. rewrite Hpath. auto. }
    subst u2. rewrite (kind_unique c u _ _ K K2) in Hq2.
    apply in_map_iff in Hq2 as ([n2 v2] & E & Hin2). unfold mkp in E. simpl in E. inversion E; subst.
    f_equal. symmetry.
    assert (lookup_last n asg = Some v); [|congruence].
    apply lookup_last_nodup; [apply nodupb_NoDup; exact HNa|exact Hin2].
  Qed.
End Spec.

(* ------------------------------------------------------------------ assembling the spec *)
Lemma forall2_kind c : forall ups pss, Forall2 (kind c) ups pss -> forall u, In u ups -> exists ps, kind c u ps /\ In ps pss.
Proof.
  induction 1 as [|u0 ps0 r pss K F IH]; intros u Hu; [contradiction|].
  destruct Hu as [->|Hu]; [exists ps0; split; [exact K|left; reflexivity]|].
  destruct (IH u Hu) as (ps & K' & Hin). exists ps. split; [exact K'|right; exact Hin].
Qed.

Lemma dirs_dir c : forall ups pss, Forall2 (kind c) ups pss -> forall u, In u (dirs_of ups pss) ->
  exists ps, kind c u ps /\ is_dir ps = true.
Proof.
  induction 1 as [|u0 ps0 r pss K F IH]; simpl; intros u Hu; [contradiction|].
  apply in_app_or in Hu as [Hu|Hu]; [|apply IH; exact Hu].
  destruct (is_dir ps0) eqn:E; [|contradiction]. destruct Hu as [<-|[]]. eauto.
Qed.

Lemma in_dirs c : forall ups pss, Forall2 (kind c) ups pss -> forall u ps, In u ups -> kind c u ps -> is_dir ps = true ->
  In u (dirs_of ups pss).
Proof.
  induction 1 as [|u0 ps0 r pss K F IH]; simpl; intros u ps Hu Ku Hd; [contradiction|].
  apply in_or_app. destruct Hu as [->|Hu].
  - left. rewrite (kind_unique c u ps ps0 Ku K), Hd. left. reflexivity.
  - right. apply (IH u ps Hu Ku Hd).
Qed.

Lemma is_dir_props c u p0 (asg : assignments) : is_dir (map (mkp c u p0) asg) = false.
Proof. destruct asg as [|nv [|nv2 l]]; reflexivity. Qed.

Lemma add_not_addressing c u i q d :
  d_add c u = true -> In (i, q) (indexed O c) -> In d (pm_decls q) -> addresses u i d = false.
Proof.
  unfold d_add. intros H Hiq Hd. apply andb_true_iff in H as [H _]. apply andb_true_iff in H as [_ H].
  apply negb_true_iff in H. destruct (addresses u i d) eqn:E; auto.
  assert (existsb (fun id => addresses u (fst id) (snd id)) (all_decls c) = true); [|congruence].
  apply existsb_exists. exists (i, d). split; [apply all_decls_In; eauto|exact E].
Qed.

Section Assemble.
  Variables (c : chain) (ups : list pupd) (pss : list (list patch)).
  Hypothesis HW : chain_wf c = true.
  Hypothesis F : Forall2 (kind c) ups pss.
  Hypothesis HN : NoDup (map pu_key ups).

  Let ps := concat pss.
  Let dirs := dirs_of ups pss.
  Let c' := full_chain c ps dirs.

  Definition wanted (i : nat) (d : decl) : nat * bytes * bytes * bytes :=
    (i, dl_origin d, dl_key d,
     match find (fun u => addresses u i d) ups with Some u => pu_to u | None => eff c i d end).

  Lemma addressing_unique u u' i q d :
    In u ups -> In u' ups -> In (i, q) (indexed O c) -> In d (pm_decls q) ->
    addresses u i d = true -> addresses u' i d = true -> u' = u.
  Proof.
    intros Hu Hu' _ _ HA HA'. apply (keys_inj ups u' u HN Hu' Hu).
    unfold addresses in HA, HA'. apply andb_true_iff in HA as [_ HA]. apply andb_true_iff in HA' as [_ HA'].
    apply beq_eq in HA, HA'. congruence.
  Qed.

  Lemma entry_ok i q d :
    In (i, q) (indexed O c) -> In d (pm_decls q) ->
    entry_of c' i (lit_decl dirs i d) = wanted i d.
  Proof.
    intros Hiq Hd. unfold wanted.
    destruct (find (fun u => addresses u i d) ups) as [u|] eqn:Ef.
    - apply find_some in Ef as [Hu HA].
      destruct (forall2_kind c ups pss F u Hu) as (psu & K & _).
      pose proof K as K0.
      destruct K as [p0 d0 TF HTo Hk | p0 d0 asg TF HTo HCP HG HND HDef | HAdd].
      + (* direct *)
        assert (Hud : In u dirs) by (apply (in_dirs c ups pss F u _ Hu K0 eq_refl)).
        assert (El : lit_decl dirs i d = set_ver d (pu_to u)).
        { unfold lit_decl. destruct (find (fun u0 => addresses u0 i d) dirs) as [u'|] eqn:Ef'.
          - apply find_some in Ef' as [Hu' HA']. destruct (dirs_sub c ups pss F u' Hu') as [Hu'' _].
            rewrite (addressing_unique u u' i q d Hu Hu'' Hiq Hd HA HA'). reflexivity.
          - apply find_none with (x := u) in Ef'; auto. congruence. }
        rewrite El. unfold entry_of, eff, set_ver. cbn [dl_origin dl_key dl_ver].
        rewrite (interpolate_literal _ _ HTo). reflexivity.
      + (* ${property} *)
        assert (El : lit_decl dirs i d = d).
        { unfold lit_decl. destruct (find (fun u0 => addresses u0 i d) dirs) as [u'|] eqn:Ef'; auto. exfalso.
          apply find_some in Ef' as [Hu' HA']. destruct (dirs_sub c ups pss F u' Hu') as [Hu'' _].
          pose proof (addressing_unique u u' i q d Hu Hu'' Hiq Hd HA HA') as ->.
          destruct (dirs_dir c ups pss F u Hu') as (ps2 & K2 & Hd2).
          rewrite (kind_unique c u _ _ K0 K2) in Hd2. rewrite is_dir_props in Hd2. discriminate. }
        rewrite El.
        destruct (addressed_is_target c u p0 d0 i q d HW TF Hiq Hd HA) as (-> & -> & ->).
        unfold entry_of. f_equal. unfold eff. rewrite (tf_origin _ _ _ _ TF).
        rewrite (interpolate_subst asg).
        * apply (prop_patches_sound_lemma _ _ _ HG).
        * intros n Hn. apply (name_target c ups pss HW F HN u p0 d0 asg n Hu K0 TF HG HND); auto.
          intros n0 Hn0. apply (HDef n0 Hn0).
      + exfalso. rewrite (add_not_addressing c u i q d HAdd Hiq Hd) in HA. discriminate.
    - assert (El : lit_decl dirs i d = d).
      { unfold lit_decl. destruct (find (fun u0 => addresses u0 i d) dirs) as [u'|] eqn:Ef'; auto. exfalso.
        apply find_some in Ef' as [Hu' HA']. destruct (dirs_sub c ups pss F u' Hu') as [Hu'' _].
        apply find_none with (x := u') in Ef; auto. congruence. }
      rewrite El. unfold entry_of. f_equal. unfold eff.
      apply interpolate_ext_names. intros n Hn.
      apply (name_unchanged c ups pss HW F i q d n Hiq Hd Hn).
      intros u p0 asg Hu _ _. apply find_none with (x := u) in Ef; auto.
  Qed.
End Assemble.

(* ------------------------------------------------------------------ added entries and the final assembly *)
Lemma distinct_pairs_In l x : In x (distinct_pairs l) <-> In x l.
Proof.
  induction l as [|[k t] r IH]; simpl; [tauto|].
  destruct (existsb (fun kt => beq (fst kt) k && beq (snd kt) t) r) eqn:E.
  - rewrite IH. split; [auto|]. intros [<-|H]; auto.
    apply existsb_exists in E as ([k' t'] & Hin & Hb). simpl in Hb. apply andb_true_iff in Hb as [H1 H2].
    apply beq_eq in H1, H2. subst. exact Hin.
  - simpl. rewrite IH. tauto.
Qed.

Lemma filter_insert_added_list (f : decl -> bool) A ds :
  (forall a, In a A -> f a = false) -> (forall d, In d ds -> f d = true) ->
  filter f (insert_added A ds) = ds.
Proof.
  intros HA Hd.
  assert (HfA : filter f A = []).
  { clear Hd. induction A as [|a A IH]; simpl; auto. rewrite (HA a) by (left; reflexivity). apply IH. intros; apply HA; right; auto. }
  induction ds as [|d r IH]; simpl.
  - exact HfA.
  - destruct (front_origin d).
    + simpl. rewrite (Hd d) by (left; reflexivity). rewrite IH; auto. intros; apply Hd; right; auto.
    + rewrite filter_app, HfA. simpl. rewrite (Hd d) by (left; reflexivity). f_equal.
      apply filter_all_true. intros x Hx. apply Hd. right. exact Hx.
Qed.

Lemma In_insert_added_list A ds a : In a A -> In a (insert_added A ds).
Proof.
  intros Ha. induction ds as [|d r IH]; simpl; auto.
  destruct (front_origin d); [right; exact IH|apply in_or_app; left; exact Ha].
Qed.

Lemma filter_flat_map {A B} (f : B -> bool) (g : A -> list B) l :
  filter f (flat_map g l) = flat_map (fun x => filter f (g x)) l.
Proof. induction l as [|x l IH]; simpl; auto. rewrite filter_app, IH. reflexivity. Qed.

Section Final.
  Variables (c : chain) (ups : list pupd) (pss : list (list patch)).
  Hypothesis HW : chain_wf c = true.
  Hypothesis F : Forall2 (kind c) ups pss.
  Hypothesis HN : NoDup (map pu_key ups).

  Let ps := concat pss.
  Let dirs := dirs_of ups pss.
  Let c' := full_chain c ps dirs.

  Lemma added_from_update k t : In (k, t) (added_pairs ps) -> exists u, In u ups /\ d_add c u = true /\ k = pu_key u /\ t = pu_to u.
  Proof.
    unfold added_pairs. rewrite distinct_pairs_In. intros H. apply in_flat_map in H as (q & Hq & Hkt).
    destruct q as [pa o k0 t0 ex|]; [|contradiction]. destruct ex; [contradiction|].
    destruct (is_nil pa && beq o MANAGEMENT) eqn:E; [|contradiction]. destruct Hkt as [Hkt|[]]. inversion Hkt; subst.
    destruct (concat_kind c _ ups pss F Hq) as (u & psu & Hu & K & Hin & _).
    destruct K as [p0 d0 TF _ _| p0 d0 asg TF _ _ _ _ _ | HA].
    - simpl in Hin. destruct Hin as [Hin|[]]. discriminate.
    - apply in_map_iff in Hin as (nv & Hnv & _). discriminate.
    - simpl in Hin. destruct Hin as [Hin|[]]. inversion Hin; subst. exists u. auto.
  Qed.

  Lemma update_in_added u : In u ups -> d_add c u = true -> In (pu_key u, pu_to u) (added_pairs ps).
  Proof.
    intros Hu HA. unfold added_pairs. rewrite distinct_pairs_In. apply in_flat_map. exists (apatch u). split.
    - apply (kind_in_concat c u [apatch u] _ ups pss F Hu HN (KAdd c u HA)); [left; reflexivity|].
      intros ps' K'. apply (kind_unique c u _ _ (KAdd c u HA) K').
    - unfold apatch. rewrite beq_refl. left. reflexivity.
  Qed.

  Lemma is_add_kind u psu : kind c u psu -> is_add c u = true -> d_add c u = true.
  Proof.
    intros K HI. unfold is_add in HI. apply negb_true_iff in HI.
    destruct K as [p0 d0 TF _ _| p0 d0 asg TF _ _ _ _ _ | HA]; auto;
      pose proof (target_declared c u p0 d0 TF); congruence.
  Qed.

  Lemma existing_not_added i q d :
    In (i, q) (indexed O c) -> In d (pm_decls q) -> is_added_entry c ups (wanted c ups i d) = false.
  Proof.
    intros Hiq Hd. unfold wanted, is_added_entry.
    destruct (Nat.eqb i 0) eqn:Ei; [|reflexivity]. apply Nat.eqb_eq in Ei. subst i.
    destruct (beq (dl_origin d) MANAGEMENT) eqn:Eo; [|reflexivity]. cbn [andb].
    destruct (existsb (fun u => is_add c u && beq (pu_key u) (dl_key d)) ups) eqn:Ee; [|reflexivity]. exfalso.
    apply existsb_exists in Ee as (u & Hu & Hb). apply andb_true_iff in Hb as [HI Hk].
    destruct (forall2_kind c ups pss F u Hu) as (psu & K & _).
    pose proof (is_add_kind u psu K HI) as HA. unfold d_add in HA. apply andb_true_iff in HA as [_ HM].
    destruct c as [|m r]; [discriminate|]. apply andb_true_iff in HM as [HM _]. apply negb_true_iff in HM.
    simpl in Hiq. destruct Hiq as [Hiq|Hiq]; [|apply indexed_In in Hiq as [Hle _]; lia].
    inversion Hiq; subst q.
    assert (existsb (fun d => beq (dl_origin d) MANAGEMENT && beq (dl_key d) (pu_key u)) (pm_decls m) = true); [|congruence].
    apply existsb_exists. exists d. split; auto. rewrite Eo, beq_sym_l, Hk. reflexivity.
  Qed.

  Lemma added_is_added a : In a (map added_decl (added_pairs ps)) -> is_added_entry c ups (entry_of c' O a) = true.
  Proof.
    intros Ha. apply in_map_iff in Ha as ([k t] & <- & Hkt).
    destruct (added_from_update k t Hkt) as (u & Hu & HA & -> & ->).
    unfold entry_of, is_added_entry, added_decl. cbn [dl_origin dl_key fst snd]. rewrite Nat.eqb_refl, beq_refl. cbn [andb].
    apply existsb_exists. exists u. split; auto. rewrite beq_refl, andb_true_r.
    unfold is_add. rewrite (d_add_not_declared c u HA). reflexivity.
  Qed.

  Lemma empty_no_added m r : c = m :: r -> pm_empty_mgmt m = true -> added_pairs ps = [].
  Proof.
    intros Ec He. destruct (added_pairs ps) as [|[k t] l] eqn:E; auto. exfalso.
    destruct (added_from_update k t) as (u & _ & HA & _); [rewrite E; left; reflexivity|].
    unfold d_add in HA. rewrite Ec in HA. apply andb_true_iff in HA as [_ HM]. apply andb_true_iff in HM as [_ HM].
    rewrite He in HM. discriminate.
  Qed.

  Lemma pom_entries i q :
    In (i, q) (indexed O c) ->
    filter (fun e => negb (is_added_entry c ups e)) (map (entry_of c' i) (pm_decls (full_pom ps dirs i q))) =
    map (wanted c ups i) (pm_decls q).
  Proof.
    intros Hiq. unfold c', dirs, ps.
    assert (Hmap : forall ds, (forall d, In d ds -> In d (pm_decls q)) ->
              filter (fun e => negb (is_added_entry c ups e)) (map (entry_of c' i) (map (lit_decl dirs i) ds)) = map (wanted c ups i) ds).
    { intros ds Hs. unfold c', dirs, ps. rewrite map_map. rewrite filter_all_true.
      - apply map_ext_in. intros d Hd. apply (entry_ok c ups pss HW F HN i q d Hiq (Hs d Hd)).
      - intros e He. apply in_map_iff in He as (d & <- & Hd).
        rewrite (entry_ok c ups pss HW F HN i q d Hiq (Hs d Hd)).
        rewrite (existing_not_added i q d Hiq (Hs d Hd)). reflexivity. }
    unfold c', dirs, ps in Hmap. unfold full_pom. cbn [pm_decls]. destruct i as [|i]; [|apply Hmap; auto].
    destruct (pm_empty_mgmt q) eqn:He; [apply Hmap; auto|].
    rewrite filter_map_comm.
    rewrite (filter_insert_added_list _ (map added_decl (added_pairs ps)) (map (lit_decl dirs O) (pm_decls q))).
    - rewrite map_map. apply map_ext_in. intros d Hd. apply (entry_ok c ups pss HW F HN O q d Hiq Hd).
    - intros a Ha. pose proof (added_is_added a Ha) as Hx. unfold c', dirs, ps in Hx. cbv beta. rewrite Hx. reflexivity.
    - intros x Hx. apply in_map_iff in Hx as (d & <- & Hd). cbv beta. unfold dirs.
      rewrite (entry_ok c ups pss HW F HN O q d Hiq Hd). rewrite (existing_not_added O q d Hiq Hd). reflexivity.
  Qed.

  Lemma full_chain_indexed : indexed O c' = map (fun ip => (fst ip, full_pom ps dirs (fst ip) (snd ip))) (indexed O c).
  Proof. unfold c', full_chain. apply (indexed_map (full_pom ps dirs) c O). Qed.

  Lemma full_spec : decl_spec_all c ups c' = true.
  Proof.
    unfold decl_spec_all. apply andb_true_iff. split.
    - assert (E : filter (fun e => negb (is_added_entry c ups e)) (eff_all c') = want_all c ups); [|rewrite E; apply beq4_refl].
      rewrite eff_all_entries, full_chain_indexed.
      rewrite flat_map_concat_map, map_map, <- flat_map_concat_map. cbn [fst snd].
      rewrite filter_flat_map. unfold want_all.
      apply flat_map_ext_in_local. intros [i q] Hiq. cbn [fst snd].
      exact (pom_entries i q Hiq).
    - apply forallb_forall. intros u Hu.
      destruct (is_add c u) eqn:HI; [|reflexivity]. cbn [negb orb].
      destruct (forall2_kind c ups pss F u Hu) as (psu & K & _).
      pose proof (is_add_kind u psu K HI) as HA.
      pose proof HA as HA'. unfold d_add in HA'. apply andb_true_iff in HA' as [HA' HM].
      apply andb_true_iff in HA' as [HA' _]. apply andb_true_iff in HA' as [_ HTo].
      assert (Hm : exists m r, c = m :: r /\ pm_empty_mgmt m = false).
      { destruct c as [|m r]; [discriminate|]. apply andb_true_iff in HM as [_ He]. apply negb_true_iff in He. eauto. }
      destruct Hm as (m & r & Ec & He).
      apply existsb_exists. exists (O, MANAGEMENT, pu_key u, pu_to u). split.
      + assert (Hm0 : In (O, m) (indexed O c)) by (rewrite Ec; left; reflexivity).
        assert (Hm1 : In (O, full_pom ps dirs O m) (indexed O c')).
        { rewrite full_chain_indexed. apply in_map_iff. exists (O, m). split; [reflexivity|exact Hm0]. }
        rewrite eff_all_entries. apply in_flat_map. exists (O, full_pom ps dirs O m). split; [exact Hm1|].
        cbn [fst snd]. unfold full_pom. cbn [pm_decls]. rewrite He.
        apply in_map_iff. exists (added_decl (pu_key u, pu_to u)). split.
        * unfold entry_of, eff, added_decl. cbn [dl_origin dl_key dl_ver fst snd]. rewrite (interpolate_literal _ _ HTo). reflexivity.
        * apply In_insert_added_list. apply in_map. apply (update_in_added u Hu HA).
      + unfold entry_eqb. cbn [beq4]. rewrite Nat.eqb_refl, !beq_refl. reflexivity.
  Qed.
End Final.

Lemma pom_decl_write_exact_on_D_full_lemma c ups :
  d_multi c ups = true -> exists c', write_chain c ups = Some c' /\ decl_spec_all c ups c' = true.
Proof.
  intros HD. destruct (d_multi_kinds c ups HD) as (HW & HN & HK).
  destruct (kinds_forall2 c ups HK) as (pss & F).
  exists (full_chain c (concat pss) (dirs_of ups pss)). split.
  - apply (write_chain_full c ups pss HW F HN).
  - apply (full_spec c ups pss HW F HN).
Qed.

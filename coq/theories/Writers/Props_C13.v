(* C13 - Manifest writers change exactly the requested requirements.
   Only statements here; proofs are in PomPropsProofs.v / PkgJsonProofs.v / PomWriterProofs.v
   (collected by Proofs.v). *)
From Coq Require Import List ZArith NArith Bool.
From Scalibr Require Import Writers.GoBytes Writers.PomProps Writers.PkgJson Writers.PomWriter Writers.Proofs.
Import ListNotations.
Open Scope N_scope.

(* ================================================================== generatePropertyPatches *)

(* Full statement "a reported success means the returned property values turn s1 into s2":
   refuted by a template that uses one property twice. s1 = "${a}-${a}", s2 = "1-2":
   the function answers ({a: "2"}, true) but interpolation gives "2-2". *)
Theorem prop_patches_sound_refuted :
  exists s1 s2 ps, generate_property_patches s1 s2 = Ok (ps, true) /\ subst ps s1 <> s2.
Proof.
  exists [36;123;97;125;45;36;123;97;125], [49;45;50], [([97],[49]); ([97],[50])].
  split; [vm_compute; reflexivity|vm_compute; discriminate].
Qed.
Print Assumptions prop_patches_sound_refuted.

(* ... and it holds whenever no placeholder name occurs twice in s1 (any s1, s2 otherwise). *)
Theorem prop_patches_sound_on_D : forall s1 s2 ps,
  d_sound s1 = true -> generate_property_patches s1 s2 = Ok (ps, true) -> subst ps s1 = s2.
Proof. exact prop_patches_sound_on_D_lemma. Qed.
Print Assumptions prop_patches_sound_on_D.

(* Full statement "never panics": refuted. s1 = "1.${x}", s2 = "1" -> s2[:2] out of range;
   s1 = "${x}-jre", s2 = "1" -> s2[len(s2)-4:] out of range; s1 = "ab${x}bc", s2 = "abc" -> s2[2:1]. *)
Theorem prop_patches_total_refuted :
  exists s1 s2, generate_property_patches s1 s2 = Panic.
Proof. exists [49;46;36;123;120;125], [49]. vm_compute. reflexivity. Qed.
Print Assumptions prop_patches_total_refuted.

Theorem prop_patches_total_refuted_suffix :
  generate_property_patches [36;123;120;125;45;106;114;101] [49] = Panic /\
  generate_property_patches [97;98;36;123;120;125;98;99] [97;98;99] = Panic.
Proof. split; vm_compute; reflexivity. Qed.
Print Assumptions prop_patches_total_refuted_suffix.

(* ... and it holds for every well-formed template (>= 1 placeholder, no "}" in the literal text before the
   last placeholder ends, no unclosed "${" after it) whose literal prefix fits into s2 and that either ends
   with a placeholder or has one placeholder with prefix + suffix fitting into s2. *)
Theorem prop_patches_total_on_D : forall s1 s2,
  d_total s1 s2 = true -> generate_property_patches s1 s2 <> Panic.
Proof. exact prop_patches_total_on_D_lemma. Qed.
Print Assumptions prop_patches_total_on_D.

(* the fuel of the model is never exhausted *)
Theorem prop_patches_fuel_sufficient : forall s1 s2, generate_property_patches s1 s2 <> OutOfFuel.
Proof. exact generate_never_out_of_fuel. Qed.
Print Assumptions prop_patches_fuel_sufficient.

(* non-vacuity: "1.${minor}-${q}" with distinct names, target "1.5-jre" *)
Example prop_patches_example :
  let s1 := [49;46;36;123;109;125;45;36;123;113;125] in
  let s2 := [49;46;53;45;106;114;101] in
  d_sound s1 = true /\ d_total s1 s2 = true /\
  generate_property_patches s1 s2 = Ok ([([109],[53]); ([113],[106;114;101])], true) /\
  subst [([109],[53]); ([113],[106;114;101])] s1 = s2.
Proof. vm_compute. repeat split; reflexivity. Qed.

(* ================================================================== package.json writer *)

(* Exactness. For every document whose dependency sections have no repeated key, and every update list
   with pairwise different keys, each addressed to a requirement present in the file (the version npm
   would use for the key: dev, else optional, else regular) under a gjson-path-safe name (no '.', '*',
   '?'), Write succeeds and the written document is the input with exactly the addressed members
   carrying the new version ... *)
Theorem pkgjson_write_exact_on_safe_names : forall d ups,
  wf_doc d = true ->
  forallb (fun u => safe_name (upd_key u) && addressed d u) ups = true ->
  distinct_keys ups = true ->
  write_pkgjson d ups = Some (spec_apply d ups).
Proof. intros d ups. exact (write_pkgjson_exact ups d). Qed.
Print Assumptions pkgjson_write_exact_on_safe_names.

(* ... where "exactly" means: every byte outside the version strings of the dependency sections is
   untouched (keys, order, whitespace, all other values), for ANY update list ... *)
Theorem pkgjson_only_values_change : forall d ups, erase_vals (spec_apply d ups) = erase_vals d.
Proof. exact pkgjson_only_values_change_lemma. Qed.
Print Assumptions pkgjson_only_values_change.

(* ... and re-reading a dependency section gives the original requirement with the version substituted. *)
Theorem pkgjson_reread_exact : forall d ups sec k,
  mem sec SECS = true ->
  sec_get (spec_apply d ups) sec k = option_map (subst_req ups k) (sec_get d sec k).
Proof. exact pkgjson_reread_lemma. Qed.
Print Assumptions pkgjson_reread_exact.

(* no updates: the output is the input, byte for byte (every document, inside the fragment or not) *)
Theorem pkgjson_no_updates_identity : forall d,
  write_pkgjson d [] = Some d /\ (forall d', write_pkgjson d [] = Some d' -> render d' = render d).
Proof. intros d. split; [reflexivity|]. intros d' H. inversion H. reflexivity. Qed.
Print Assumptions pkgjson_no_updates_identity.

(* "never reports success without having applied an update": refuted for a dotted name.
   {"dependencies": {"socket.io": "^2.0.0"}} with socket.io ^2.0.0 -> ^4.7.0: the path
   "dependencies.socket.io" selects nothing, Write returns success and the unchanged document. *)
Definition socket_io : bytes := [115;111;99;107;101;116;46;105;111].
Definition dotted_doc : doc :=
  {| d_lead := []; d_empty_ws := []; d_trail := [10];
     d_items := [ {| t_pre := [10;32;32]; t_key := PROD; t_mid := [58;32]; t_post := [10];
                     t_val := TSection [ {| m_pre := [10;32;32;32;32]; m_key := socket_io; m_mid := [58;32];
                                            m_val := [94;50;46;48;46;48]; m_post := [10;32;32] |} ] [] |} ] |}.
Definition dotted_upd : jupdate :=
  {| u_name := socket_io; u_known_as := None; u_from := [94;50;46;48;46;48]; u_to := [94;52;46;55;46;48] |}.

Theorem pkgjson_dotted_name_dropped_refuted :
  exists d u, wf_doc d = true /\ addressed d u = true /\
              write_pkgjson d [u] = Some d /\ applied d u = false.
Proof. exists dotted_doc, dotted_upd. vm_compute. repeat split; reflexivity. Qed.
Print Assumptions pkgjson_dotted_name_dropped_refuted.

(* exactness itself is refuted for a wildcard-looking name: {"ab": "2.0.0", "a*": "2.0.0"} with
   a* 2.0.0 -> 2.0.1 rewrites the member "ab" (the name is used as a glob) and leaves "a*" alone. *)
Definition wild_doc : doc :=
  {| d_lead := []; d_empty_ws := []; d_trail := [];
     d_items := [ {| t_pre := []; t_key := PROD; t_mid := [58]; t_post := [];
                     t_val := TSection [ {| m_pre := []; m_key := [97;98]; m_mid := [58]; m_val := [50;46;48;46;48]; m_post := [] |};
                                         {| m_pre := []; m_key := [97;42]; m_mid := [58]; m_val := [50;46;48;46;48]; m_post := [] |} ] [] |} ] |}.
Definition wild_upd : jupdate :=
  {| u_name := [97;42]; u_known_as := None; u_from := [50;46;48;46;48]; u_to := [50;46;48;46;49] |}.

Theorem pkgjson_wildcard_name_refuted :
  exists d u d', wf_doc d = true /\ addressed d u = true /\ write_pkgjson d [u] = Some d' /\
                 render d' <> render (spec_apply d [u]) /\
                 sec_get d' PROD [97;98] = Some (u_to u) /\ sec_get d' PROD (u_name u) = Some (u_from u).
Proof.
  exists wild_doc, wild_upd. eexists. vm_compute. repeat split; try reflexivity. discriminate.
Qed.
Print Assumptions pkgjson_wildcard_name_refuted.

(* ... and it holds on the domain of the exactness theorem *)
Theorem pkgjson_success_implies_applied_on_safe_names : forall d ups d',
  wf_doc d = true ->
  forallb (fun u => safe_name (upd_key u) && addressed d u) ups = true ->
  distinct_keys ups = true ->
  write_pkgjson d ups = Some d' ->
  forall u, In u ups -> applied d' u = true.
Proof.
  intros d ups d' HW HA HD H u Hu.
  rewrite (write_pkgjson_exact ups d HW HA HD) in H. inversion H; subst d'.
  apply applied_lemma; auto.
  rewrite forallb_forall in HA. specialize (HA u Hu). apply andb_true_iff in HA as [_ HA]. exact HA.
Qed.
Print Assumptions pkgjson_success_implies_applied_on_safe_names.

(* non-vacuity: two sections, an alias, the same key in dev and regular dependencies with different
   versions (only dev is the requirement), a scoped name *)
Definition ex_mem (k v : bytes) : member := {| m_pre := [32]; m_key := k; m_mid := [58]; m_val := v; m_post := [] |}.
Definition ex_doc : doc :=
  {| d_lead := []; d_empty_ws := []; d_trail := [];
     d_items := [ {| t_pre := []; t_key := [110]; t_mid := [58]; t_val := TRaw [34;120;34]; t_post := [] |};
                  {| t_pre := []; t_key := PROD; t_mid := [58]; t_post := [];
                     t_val := TSection [ex_mem [97] [49]; ex_mem [64;115;47;112] [50]; ex_mem [122] (alias_ver [114] [51])] [] |};
                  {| t_pre := []; t_key := DEV; t_mid := [58]; t_post := [];
                     t_val := TSection [ex_mem [97] [55]] [] |} ] |}.
Definition ex_ups : list jupdate :=
  [ {| u_name := [97]; u_known_as := None; u_from := [55]; u_to := [56] |};
    {| u_name := [114]; u_known_as := Some [122]; u_from := [51]; u_to := [52] |};
    {| u_name := [64;115;47;112]; u_known_as := None; u_from := [50]; u_to := [50;46;49] |} ].

Example pkgjson_example :
  wf_doc ex_doc = true /\
  forallb (fun u => safe_name (upd_key u) && addressed ex_doc u) ex_ups = true /\
  distinct_keys ex_ups = true /\
  option_map render (write_pkgjson ex_doc ex_ups) = Some (render (spec_apply ex_doc ex_ups)) /\
  render (spec_apply ex_doc ex_ups) <> render ex_doc /\
  sec_get (spec_apply ex_doc ex_ups) PROD [97] = Some [49] /\
  sec_get (spec_apply ex_doc ex_ups) DEV [97] = Some [56] /\
  sec_get (spec_apply ex_doc ex_ups) PROD [122] = Some (alias_ver [114] [52]).
Proof. vm_compute. repeat split; try reflexivity. discriminate. Qed.

(* ================================================================== pom.xml writer *)
(* Only the panic behaviour of Write is modelled (PomWriter.v): Write panics iff one of the
   generatePropertyPatches calls of buildPatches panics. The token-level rewrite is decided by the
   harness's round-trip oracle; pom_no_updates_identity / pom_tokens_preserved are NOT proved. *)
Theorem pom_write_never_panics_on_D : forall pairs,
  forallb (fun p => d_total (fst p) (snd p)) pairs = true -> write_panics pairs = false.
Proof. exact write_panics_false_on_D. Qed.
Print Assumptions pom_write_never_panics_on_D.

(* <version>1.${minor}</version> updated to "1" *)
Theorem pom_write_panics_refuted : exists pairs, write_panics pairs = true.
Proof. exists [([49;46;36;123;109;105;110;111;114;125], [49])]. vm_compute. reflexivity. Qed.
Print Assumptions pom_write_panics_refuted.

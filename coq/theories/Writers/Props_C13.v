(* C13 - Manifest writers change exactly the requested requirements.
   Only statements here; proofs are in PomPropsProofs.v / PkgJsonProofs.v / PomWriterProofs.v
   (collected by Proofs.v).

   State after the fix commits in /repo (package.json path escaping; generatePropertyPatches bounds and
   repeated-property consistency): the former _refuted theorems are gone, the statements below are at
   full strength over the models of the repaired code. *)
From Coq Require Import List ZArith NArith Bool.
From Scalibr Require Import Writers.GoBytes Writers.PomProps Writers.PkgJson Writers.PomDecl Writers.PomTokens Writers.PomWriter Writers.Proofs.
Import ListNotations.
Open Scope N_scope.

(* ================================================================== generatePropertyPatches *)

(* A reported success means the returned property values turn s1 into s2: every s1, s2 (repeated
   placeholders, stray braces, unclosed placeholders included). *)
Theorem prop_patches_sound : forall s1 s2 ps,
  generate_property_patches s1 s2 = Ok (ps, true) -> subst ps s1 = s2.
Proof. exact prop_patches_sound_lemma. Qed.
Print Assumptions prop_patches_sound.

(* Never panics: every s1, s2. *)
Theorem prop_patches_total : forall s1 s2, generate_property_patches s1 s2 <> Panic.
Proof. exact prop_patches_total_lemma. Qed.
Print Assumptions prop_patches_total.

(* the fuel of the model is never exhausted *)
Theorem prop_patches_fuel_sufficient : forall s1 s2, generate_property_patches s1 s2 <> OutOfFuel.
Proof. exact generate_never_out_of_fuel. Qed.
Print Assumptions prop_patches_fuel_sufficient.

(* non-vacuity: "1.${minor}-${q}" -> "1.5-jre" succeeds; the former failing inputs now answer false:
   "1.${x}" / "1" (target shorter than the prefix), "${x}-jre" / "1" (shorter than the suffix),
   "ab${x}bc" / "abc" (overlap), "${a}-${a}" / "1-2" (conflicting values); "${a}-${a}" / "1-1" succeeds *)
Example prop_patches_example :
  let s1 := [49;46;36;123;109;125;45;36;123;113;125] in
  let s2 := [49;46;53;45;106;114;101] in
  generate_property_patches s1 s2 = Ok ([([109],[53]); ([113],[106;114;101])], true) /\
  subst [([109],[53]); ([113],[106;114;101])] s1 = s2.
Proof. vm_compute. split; reflexivity. Qed.

Example prop_patches_former_witnesses :
  generate_property_patches [49;46;36;123;120;125] [49] = Ok ([], false) /\
  generate_property_patches [36;123;120;125;45;106;114;101] [49] = Ok ([], false) /\
  generate_property_patches [97;98;36;123;120;125;98;99] [97;98;99] = Ok ([], false) /\
  generate_property_patches [36;123;97;125;45;36;123;97;125] [49;45;50] = Ok ([([97],[49])], false) /\
  generate_property_patches [36;123;97;125;45;36;123;97;125] [49;45;49] = Ok ([([97],[49]); ([97],[49])], true).
Proof. vm_compute. repeat split; reflexivity. Qed.

(* ================================================================== package.json writer *)

(* Exactness. For every document whose dependency sections have no repeated key, and every update list
   with pairwise different keys, each addressed to a requirement present in the file (the version npm
   would use for the key: dev, else optional, else regular) -- ANY name: dots, wildcards, scopes, pipes,
   brackets ... -- Write succeeds and the written document is the input with exactly the addressed
   members carrying the new version.
   Residual domain (name_supported): gjson.Escape leaves ':' alone and sjson strips a leading ':' of a
   path component as its "forced key" marker; that is not modelled, so names that START with ':' are
   outside this theorem's domain and outside the oracle's claim. *)
Theorem pkgjson_write_exact : forall d ups,
  wf_doc d = true ->
  forallb (fun u => name_supported (upd_key u) && addressed d u) ups = true ->
  distinct_keys ups = true ->
  write_pkgjson d ups = Some (spec_apply d ups).
Proof.
  intros d ups HW HA HD. apply (write_pkgjson_exact ups d HW); auto.
  apply forallb_forall. intros u Hu. rewrite forallb_forall in HA. specialize (HA u Hu).
  apply andb_true_iff in HA as [_ HA]. exact HA.
Qed.
Print Assumptions pkgjson_write_exact.

(* ... where "exactly" means: every byte outside the version strings of the dependency sections is
   untouched (keys, order, whitespace, all other values), for ANY update list ... *)
Theorem pkgjson_only_values_change : forall d ups, erase_vals (spec_apply d ups) = erase_vals d.
Proof. exact pkgjson_only_values_change_lemma. Qed.
Print Assumptions pkgjson_only_values_change.

(* ... and re-reading a dependency section gives the original requirement with the version substituted. *)
Theorem pkgjson_reread_exact : forall d ups sec k,
  mem sec SECS = true ->
  sec_get (spec_apply d ups) sec k = option_map (subst_req ups k) (sec_get d sec k).
Proof. exact pkgjson_reread_lemma. Qed.
Print Assumptions pkgjson_reread_exact.

(* no updates: the output is the input, byte for byte (every document, inside the fragment or not) *)
Theorem pkgjson_no_updates_identity : forall d,
  write_pkgjson d [] = Some d /\ (forall d', write_pkgjson d [] = Some d' -> render d' = render d).
Proof. intros d. split; [reflexivity|]. intros d' H. inversion H. reflexivity. Qed.
Print Assumptions pkgjson_no_updates_identity.

(* "never reports success without having applied an update" *)
Theorem pkgjson_success_implies_applied : forall d ups d',
  wf_doc d = true ->
  forallb (fun u => name_supported (upd_key u) && addressed d u) ups = true ->
  distinct_keys ups = true ->
  write_pkgjson d ups = Some d' ->
  forall u, In u ups -> applied d' u = true.
Proof.
  intros d ups d' HW HA HD H u Hu.
  rewrite (pkgjson_write_exact d ups HW HA HD) in H. inversion H; subst d'.
  apply applied_lemma; auto.
  rewrite forallb_forall in HA. specialize (HA u Hu). apply andb_true_iff in HA as [_ HA]. exact HA.
Qed.
Print Assumptions pkgjson_success_implies_applied.

(* non-vacuity 1: the former failing inputs. {"dependencies": {"socket.io": "^2.0.0"}} with
   socket.io ^2.0.0 -> ^4.7.0 is applied; {"ab": "2.0.0", "a*": "2.0.0"} with a* -> 2.0.1 changes "a*" only. *)
Definition socket_io : bytes := [115;111;99;107;101;116;46;105;111].
Definition dotted_doc : doc :=
  {| d_lead := []; d_empty_ws := []; d_trail := [10];
     d_items := [ {| t_pre := [10;32;32]; t_key := PROD; t_mid := [58;32]; t_post := [10];
                     t_val := TSection [ {| m_pre := [10;32;32;32;32]; m_key := socket_io; m_mid := [58;32];
                                            m_val := [94;50;46;48;46;48]; m_post := [10;32;32] |} ] [] |} ] |}.
Definition dotted_upd : jupdate :=
  {| u_name := socket_io; u_known_as := None; u_from := [94;50;46;48;46;48]; u_to := [94;52;46;55;46;48] |}.
Definition wild_doc : doc :=
  {| d_lead := []; d_empty_ws := []; d_trail := [];
     d_items := [ {| t_pre := []; t_key := PROD; t_mid := [58]; t_post := [];
                     t_val := TSection [ {| m_pre := []; m_key := [97;98]; m_mid := [58]; m_val := [50;46;48;46;48]; m_post := [] |};
                                         {| m_pre := []; m_key := [97;42]; m_mid := [58]; m_val := [50;46;48;46;48]; m_post := [] |} ] [] |} ] |}.
Definition wild_upd : jupdate :=
  {| u_name := [97;42]; u_known_as := None; u_from := [50;46;48;46;48]; u_to := [50;46;48;46;49] |}.

Example pkgjson_former_witnesses :
  (exists d', write_pkgjson dotted_doc [dotted_upd] = Some d' /\ applied d' dotted_upd = true /\
              sec_get d' PROD socket_io = Some (u_to dotted_upd)) /\
  (exists d', write_pkgjson wild_doc [wild_upd] = Some d' /\
              sec_get d' PROD [97;98] = Some (u_from wild_upd) /\ sec_get d' PROD [97;42] = Some (u_to wild_upd)).
Proof. split; eexists; vm_compute; repeat split; reflexivity. Qed.

(* non-vacuity 2: two sections, an alias, the same key in dev and regular dependencies with different
   versions (only dev is the requirement), a scoped dotted name *)
Definition ex_mem (k v : bytes) : member := {| m_pre := [32]; m_key := k; m_mid := [58]; m_val := v; m_post := [] |}.
Definition ex_doc : doc :=
  {| d_lead := []; d_empty_ws := []; d_trail := [];
     d_items := [ {| t_pre := []; t_key := [110]; t_mid := [58]; t_val := TRaw [34;120;34]; t_post := [] |};
                  {| t_pre := []; t_key := PROD; t_mid := [58]; t_post := [];
                     t_val := TSection [ex_mem [97] [49]; ex_mem [64;115;47;112;46;106] [50]; ex_mem [122] (alias_ver [114] [51])] [] |};
                  {| t_pre := []; t_key := DEV; t_mid := [58]; t_post := [];
                     t_val := TSection [ex_mem [97] [55]] [] |} ] |}.
Definition ex_ups : list jupdate :=
  [ {| u_name := [97]; u_known_as := None; u_from := [55]; u_to := [56] |};
    {| u_name := [114]; u_known_as := Some [122]; u_from := [51]; u_to := [52] |};
    {| u_name := [64;115;47;112;46;106]; u_known_as := None; u_from := [50]; u_to := [50;46;49] |} ].

Example pkgjson_example :
  wf_doc ex_doc = true /\
  forallb (fun u => name_supported (upd_key u) && addressed ex_doc u) ex_ups = true /\
  distinct_keys ex_ups = true /\
  option_map render (write_pkgjson ex_doc ex_ups) = Some (render (spec_apply ex_doc ex_ups)) /\
  render (spec_apply ex_doc ex_ups) <> render ex_doc /\
  sec_get (spec_apply ex_doc ex_ups) PROD [97] = Some [49] /\
  sec_get (spec_apply ex_doc ex_ups) DEV [97] = Some [56] /\
  sec_get (spec_apply ex_doc ex_ups) PROD [122] = Some (alias_ver [114] [52]) /\
  sec_get (spec_apply ex_doc ex_ups) PROD [64;115;47;112;46;106] = Some [50;46;49].
Proof. vm_compute. repeat split; try reflexivity. discriminate. Qed.

(* ================================================================== pom.xml writer *)
(* Modelled at the level of declarations (PomDecl.v): a chain of poms (project + local parents), each a
   list of version declarations (origin string as the Go code builds it, dependency key, version text)
   and property definitions; buildPatches with OriginalDependency (first declaration by key),
   parentPathFromOrigin, the property-vs-literal decision through generate_property_patches, the property
   origin and preset rules; and the effect of the patches on every declaration and property.
   The spec is stated independently: the EFFECTIVE version of a declaration (its ${placeholders} resolved
   with the properties of its own profile, then the project-level properties, closest descendant first)
   becomes VersionTo for exactly the addressed declarations and stays what it was for all others.

   What remains with the harness's token-level oracle ONLY (not modelled, not proved): that everything
   around those texts survives as the same XML token sequence -- element order, attributes, namespaces,
   whitespace and other text, comments (incl. a comment inside <version>), processing instructions, CDATA
   re-encoding -- and the shape of the inserted dependencyManagement block. *)

Theorem pom_write_never_panics : forall pairs, write_panics pairs = false.
Proof. exact write_never_panics. Qed.
Print Assumptions pom_write_never_panics.

(* no updates: no declaration and no property changes (every chain) *)
Theorem pom_decl_no_updates_identity : forall c, write_chain c [] = Some c.
Proof. exact write_chain_nil. Qed.
Print Assumptions pom_decl_no_updates_identity.

(* Exactness on D_lit: any chain that is well-formed (chain_wf: what pom files can give), any number of
   updates with pairwise different keys, each addressed to the ONE declaration of its key in the whole
   chain (in the project, a profile, dependencyManagement, a plugin, a parent, a profile of a parent...),
   declared version and VersionTo without ${...}: Write succeeds and exactly the addressed declarations
   stand for VersionTo afterwards. *)
Theorem pom_decl_write_exact_on_D : forall c ups,
  d_lit c ups = true ->
  exists c', write_chain c ups = Some c' /\ decl_spec_ok c ups c' = true.
Proof. exact pom_decl_write_exact_on_D_lemma. Qed.
Print Assumptions pom_decl_write_exact_on_D.

(* Exactness on D_prop: ONE update of a declaration whose version uses ${properties}, in a well-formed
   chain, the key declared once, generatePropertyPatches succeeds, no placeholder name twice; for every
   placeholder the definition in effect (own profile first, then project level, closest descendant
   first) sits in the declaring pom, in the block buildPatches writes to, and no other declaration of the
   chain resolves to it. Then Write succeeds, the addressed declaration stands for VersionTo and every
   other effective version is unchanged. (Several such updates at once, or mixed with literal ones, are
   claimed by the oracle on d_full and tied by vm_compute, not proved.) *)
Theorem pom_decl_property_update_exact_on_D : forall c u,
  d_prop c u = true ->
  exists c', write_chain c [u] = Some c' /\ decl_spec_ok c [u] c' = true.
Proof. exact pom_decl_property_update_exact_lemma. Qed.
Print Assumptions pom_decl_property_update_exact_on_D.

(* Exactness on D_multi: SEVERAL updates at once, mixed: literal versions, ${property} versions (every definition
   in effect sits in the declaring pom, in the block buildPatches writes to, and is used by that one declaration;
   no placeholder name twice in one version), versions with ${...} that generatePropertyPatches cannot match
   (rewritten literally), and added managed dependencies; pairwise different keys, each key declared once in a
   well-formed chain. Write succeeds, exactly the addressed declarations stand for VersionTo, the added requirements
   are project-level management declarations of the main pom, every other effective version is unchanged.
   (d_multi is the oracle's d_full minus versions that repeat a placeholder name.) *)
Theorem pom_decl_write_exact_on_D_full : forall c ups,
  d_multi c ups = true ->
  exists c', write_chain c ups = Some c' /\ decl_spec_all c ups c' = true.
Proof. exact pom_decl_write_exact_on_D_full_lemma. Qed.
Print Assumptions pom_decl_write_exact_on_D_full.

(* The full statement (every update addressed to an existing declaration) is refuted three ways. *)
Definition kA : bytes := [103;58;97;124;106;97;114;124].    (* g:a|jar| *)
Definition kB : bytes := [103;58;98;124;106;97;114;124].    (* g:b|jar| *)
Definition dcl (o k v : bytes) : decl := {| dl_origin := o; dl_key := k; dl_ver := v; dl_listed := true |}.
Definition refuted_shape (c : chain) (u : pupd) : Prop :=
  chain_wf c = true /\ addressed_decl c u = true /\
  exists c', write_chain c [u] = Some c' /\ decl_spec_ok c [u] c' = false.

(* (1) origin ignored, the first declaration by key wins: <dependencies> g:a 1.0 and
   <dependencyManagement> g:a 2.0; the update addressed to the managed declaration rewrites the other one. *)
Theorem pom_origin_ignored_refuted :
  refuted_shape [ {| pm_empty_mgmt := false; pm_path := [112]; pm_props := [];
                     pm_decls := [dcl [] kA [49;46;48]; dcl MANAGEMENT kA [50;46;48]] |} ]
                {| pu_key := kA; pu_to := [50;46;53]; pu_pom := 0; pu_origin := MANAGEMENT |}.
Proof. unfold refuted_shape. repeat split; try (vm_compute; reflexivity). eexists. split; vm_compute; reflexivity. Qed.
Print Assumptions pom_origin_ignored_refuted.

(* (2) shared property: g:a and g:b both ${v}; updating g:a rewrites v and g:b follows. *)
Theorem pom_shared_property_refuted :
  refuted_shape [ {| pm_empty_mgmt := false; pm_path := [112]; pm_props := [ {| pf_origin := []; pf_name := [118]; pf_val := [49;46;48] |} ];
                     pm_decls := [dcl [] kA [36;123;118;125]; dcl [] kB [36;123;118;125]] |} ]
                {| pu_key := kA; pu_to := [50;46;48]; pu_pom := 0; pu_origin := [] |}.
Proof. unfold refuted_shape. repeat split; try (vm_compute; reflexivity). eexists. split; vm_compute; reflexivity. Qed.
Print Assumptions pom_shared_property_refuted.

(* (3) the property in effect is defined in another pom: child g:a ${v}, v defined in the local parent only;
   the patch is filed under the child's <properties>, nothing changes, Write succeeds. *)
Theorem pom_property_in_parent_refuted :
  refuted_shape [ {| pm_empty_mgmt := false; pm_path := [99]; pm_props := []; pm_decls := [dcl [] kA [36;123;118;125]] |};
                  {| pm_empty_mgmt := false; pm_path := [112]; pm_props := [ {| pf_origin := []; pf_name := [118]; pf_val := [49;46;48] |} ]; pm_decls := [] |} ]
                {| pu_key := kA; pu_to := [49;46;49]; pu_pom := 0; pu_origin := [] |}.
Proof. unfold refuted_shape. repeat split; try (vm_compute; reflexivity). eexists. split; vm_compute; reflexivity. Qed.
Print Assumptions pom_property_in_parent_refuted.

(* Added requirements. An update whose key no declaration of the chain carries with a version (what the
   override strategy emits for a transitive package: origin management) and that addresses no declaration:
   Write succeeds, the MAIN pom gains the project-level "management" declaration (key, VersionTo) -- whether the
   project had a dependencyManagement section, had none, had one only inside a profile or only in the parent --
   nothing else changes, and the spec with added entries holds: every other effective version is unchanged and
   the added requirement stands for VersionTo. *)
Theorem pom_decl_added_management_present : forall c u,
  d_add c u = true ->
  write_chain c [u] = Some (add_main c u) /\ decl_spec_all c [u] (add_main c u) = true /\
  exists p r p', c = p :: r /\ add_main c u = p' :: r /\ In (added_decl (pu_key u, pu_to u)) (pm_decls p').
Proof. exact pom_decl_added_management_present_lemma. Qed.
Print Assumptions pom_decl_added_management_present.

(* ... refuted without the condition on the empty section: the project has
   <dependencyManagement><dependencies/></dependencyManagement>; the added <dependency> is written AFTER the
   closed <dependencies/> element, no reader lists it, Write returns nil. *)
Theorem pom_added_entry_lost_refuted :
  exists c u c', is_add c u = true /\ write_chain c [u] = Some c' /\ decl_spec_all c [u] c' = false /\ c' = c.
Proof.
  exists [ {| pm_empty_mgmt := true; pm_path := [112]; pm_props := []; pm_decls := [dcl [] kA [49;46;48]] |} ],
         {| pu_key := kB; pu_to := [50;46;48]; pu_pom := 999; pu_origin := [] |}.
  eexists. repeat split; vm_compute; reflexivity.
Qed.
Print Assumptions pom_added_entry_lost_refuted.

(* non-vacuity of D_lit: a child and its parent; the key g:b is declared once, in profile p1 of the PARENT
   (the case the separator fix repaired), g:a once in the child's dependencyManagement (and, without a
   version, in its dependencies); both are updated *)
Definition ex_chain : chain :=
  [ {| pm_empty_mgmt := false; pm_path := [99]; pm_props := [ {| pf_origin := []; pf_name := [118]; pf_val := [55] |} ];
       pm_decls := [dcl PARENT [103;58;112;124;112;111;109;124] [49]; dcl [] kA []; dcl MANAGEMENT kA [49;46;48];
                    dcl [] [103;58;99;124;106;97;114;124] [36;123;118;125]] |};
    {| pm_empty_mgmt := false; pm_path := [112]; pm_props := [];
       pm_decls := [dcl (PROFILE ++ [64;112;49]) kB [52;46;49;50]] |} ].
Definition ex_pups : list pupd :=
  [ {| pu_key := kB; pu_to := [52;46;49;51]; pu_pom := 1; pu_origin := PROFILE ++ [64;112;49] |};
    {| pu_key := kA; pu_to := [49;46;49]; pu_pom := 0; pu_origin := MANAGEMENT |} ].

Example pom_decl_example :
  d_lit ex_chain ex_pups = true /\
  (exists c', write_chain ex_chain ex_pups = Some c' /\ chain_eqb c' ex_chain = false /\
              eff_all c' = [(0%nat, PARENT, [103;58;112;124;112;111;109;124], [49]); (0%nat, [], kA, []);
                            (0%nat, MANAGEMENT, kA, [49;46;49]); (0%nat, [], [103;58;99;124;106;97;114;124], [55]);
                            (1%nat, PROFILE ++ [64;112;49], kB, [52;46;49;51])]).
Proof. split; [vm_compute; reflexivity|]. eexists. split; [vm_compute; reflexivity|]. split; vm_compute; reflexivity. Qed.

(* non-vacuity of D_prop: the same property name v in the project properties and in two profiles, the
   dependency of profile p1 uses 1.${v}-jre and is updated: only p1's v changes *)
Definition ex_chain2 : chain :=
  [ {| pm_empty_mgmt := false; pm_path := [99];
       pm_props := [ {| pf_origin := []; pf_name := [118]; pf_val := [48] |};
                     {| pf_origin := PROFILE ++ [64;112;49]; pf_name := [118]; pf_val := [53] |};
                     {| pf_origin := PROFILE ++ [64;112;50]; pf_name := [118]; pf_val := [55] |} ];
       pm_decls := [dcl [] kA [36;123;118;125];
                    dcl (PROFILE ++ [64;112;49]) kB [49;46;36;123;118;125;45;106;114;101];
                    dcl (PROFILE ++ [64;112;50] ++ AT_MANAGEMENT) [103;58;99;124;106;97;114;124] [36;123;118;125]] |} ].
Definition ex_pupd2 : pupd :=
  {| pu_key := kB; pu_to := [49;46;57;45;106;114;101]; pu_pom := 0; pu_origin := PROFILE ++ [64;112;49] |}.

Example pom_decl_property_example :
  d_prop ex_chain2 ex_pupd2 = true /\
  (exists c', write_chain ex_chain2 [ex_pupd2] = Some c' /\
              map (fun x => snd x) (eff_all c') = [[48]; [49;46;57;45;106;114;101]; [55]] /\
              map (fun x => snd x) (eff_all ex_chain2) = [[48]; [49;46;53;45;106;114;101]; [55]]).
Proof. split; [vm_compute; reflexivity|]. eexists. split; [vm_compute; reflexivity|]. split; vm_compute; reflexivity. Qed.

(* non-vacuity of D_add: the only dependencyManagement of the chain sits inside profile p1 *)
Definition ex_chain3 : chain :=
  [ {| pm_empty_mgmt := false; pm_path := [99]; pm_props := [];
       pm_decls := [dcl [] kA [49;46;48]; dcl (PROFILE ++ [64;112;49] ++ AT_MANAGEMENT) kB [50;46;48]] |} ].
Definition ex_pupd3 : pupd :=
  {| pu_key := [103;58;110;124;106;97;114;124]; pu_to := [51;46;49]; pu_pom := 999; pu_origin := [] |}.
Example pom_decl_added_example :
  d_add ex_chain3 ex_pupd3 = true /\
  option_map eff_all (write_chain ex_chain3 [ex_pupd3]) =
  Some [(0%nat, [], kA, [49;46;48]); (0%nat, MANAGEMENT, [103;58;110;124;106;97;114;124], [51;46;49]);
        (0%nat, PROFILE ++ [64;112;49] ++ AT_MANAGEMENT, kB, [50;46;48])].
Proof. split; vm_compute; reflexivity. Qed.

(* non-vacuity of D_multi: ex_chain2 (property v in the project and two profiles) with three updates at once:
   the ${v} dependency of the project (property), 1.${v}-jre in profile p1 (property), and an added one *)
Definition ex_pups4 : list pupd :=
  [ {| pu_key := kA; pu_to := [57]; pu_pom := 0; pu_origin := [] |};
    ex_pupd2;
    {| pu_key := [103;58;110;124;106;97;114;124]; pu_to := [51;46;49]; pu_pom := 999; pu_origin := [] |} ].
Example pom_decl_multi_example :
  d_multi ex_chain2 ex_pups4 = true /\
  option_map (fun c' => map (fun x => snd x) (eff_all c')) (write_chain ex_chain2 ex_pups4) =
  Some [[57]; [51;46;49]; [49;46;57;45;106;114;101]; [55]].
Proof. split; vm_compute; reflexivity. Qed.

(* ================================================================== pom.xml writer, token level *)
(* PomTokens.v: the writer as a transformer of the XML token stream (names/texts interned), copying every token
   except the content of a <version> element with a <dependency>/<parent> ancestor (re-encoded from its text) and
   the content of an addressed direct child of <properties>. The decoder/encoder pair is a parameter with the one
   hypothesis decode (encode toks) = toks (the harness decodes every written file and compares with the model's
   tokens, which checks the hypothesis on each case). Which elements are addressed comes from the declaration
   level. NOT covered: the inserted dependencyManagement entries (cases with added requirements). *)

(* output tokens = input tokens except inside the rewritten <version> elements and the addressed <properties>
   children: after removing those contents the streams are equal -- any decisions, any input *)
Theorem pom_tokens_preserved :
  forall (decode : bytes -> list tok) (encode : list tok -> bytes),
  (forall toks, decode (encode toks) = toks) ->
  forall tbl vdec pdec input,
    stripped pdec (decode (write_bytes decode encode tbl vdec pdec input)) = stripped pdec (decode input).
Proof. intros decode encode H. apply (write_bytes_preserved decode encode H). Qed.
Print Assumptions pom_tokens_preserved.

(* no updates: the written file has the same token sequence, provided every <version> of a dependency/parent is
   spelled plainly (at most one text, nothing else inside) *)
Theorem pom_no_updates_identity :
  forall (decode : bytes -> list tok) (encode : list tok -> bytes),
  (forall toks, decode (encode toks) = toks) ->
  forall tbl input, plain (decode input) = true -> decode (write_bytes decode encode tbl [] [] input) = decode input.
Proof. intros decode encode H. apply (write_bytes_identity decode encode H). Qed.
Print Assumptions pom_no_updates_identity.

(* ... and without that proviso it is refuted: <dependency><version>1.0<!-- pinned --></version></dependency>
   loses the comment although nothing is updated (writeString re-encodes the element from its text) *)
Theorem pom_comment_inside_version_refuted :
  exists l, plain l = false /\ write_tokens [] [] [] l <> l /\
            write_tokens [] [] [] l = [TStart K_DEPENDENCY 1; TStart K_VERSION 2; TText 3; TEnd K_VERSION 5; TEnd K_DEPENDENCY 6].
Proof.
  exists [TStart K_DEPENDENCY 1; TStart K_VERSION 2; TText 3; TComment 4; TEnd K_VERSION 5; TEnd K_DEPENDENCY 6].
  split; [reflexivity|]. split; [vm_compute; discriminate|reflexivity].
Qed.
Print Assumptions pom_comment_inside_version_refuted.

(* non-vacuity: a dependency whose version is addressed (3 -> 9), one that is not, a property that is addressed *)
Example pom_tokens_example :
  let l := [TStart 0 10; TStart K_PROPERTIES 11; TStart 0 12; TText 20; TEnd 0 13; TEnd K_PROPERTIES 14;
            TStart K_DEPENDENCY 1; TStart K_VERSION 2; TText 3; TEnd K_VERSION 5; TEnd K_DEPENDENCY 6;
            TStart K_DEPENDENCY 1; TStart K_VERSION 2; TText 7; TEnd K_VERSION 5; TEnd K_DEPENDENCY 6; TEnd 0 15] in
  plain l = true /\
  write_tokens [] [DSet (Some 9); DKeep] [DSet (Some 21)] l =
           [TStart 0 10; TStart K_PROPERTIES 11; TStart 0 12; TText 21; TEnd 0 13; TEnd K_PROPERTIES 14;
            TStart K_DEPENDENCY 1; TStart K_VERSION 2; TText 9; TEnd K_VERSION 5; TEnd K_DEPENDENCY 6;
            TStart K_DEPENDENCY 1; TStart K_VERSION 2; TText 7; TEnd K_VERSION 5; TEnd K_DEPENDENCY 6; TEnd 0 15] /\
  write_tokens [] [] [] l = l.
Proof. vm_compute. repeat split; reflexivity. Qed.

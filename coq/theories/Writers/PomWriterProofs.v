(* Proofs about the modelled part of the pom.xml writer (PomWriter.v). *)
From Coq Require Import List ZArith NArith Bool.
From Scalibr Require Import Writers.GoBytes Writers.PomProps Writers.PomPropsProofs Writers.PomWriter.
Import ListNotations.

Lemma write_never_panics pairs : write_panics pairs = false.
Proof.
  unfold write_panics. induction pairs as [|p r IH]; simpl; auto.
  rewrite IH, orb_false_r. unfold pair_panics, is_panic.
  pose proof (prop_patches_total_lemma (fst p) (snd p)) as Hn.
  destruct (generate_property_patches (fst p) (snd p)); auto. contradiction.
Qed.

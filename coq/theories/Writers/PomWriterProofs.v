(* Proofs about the modelled part of the pom.xml writer (PomWriter.v). *)
From Coq Require Import List ZArith NArith Bool.
From Scalibr Require Import Writers.GoBytes Writers.PomProps Writers.PomPropsProofs Writers.PomWriter.
Import ListNotations.

Lemma write_panics_false_on_D pairs :
  forallb (fun p => d_total (fst p) (snd p)) pairs = true -> write_panics pairs = false.
Proof.
  unfold write_panics. induction pairs as [|p r IH]; simpl; auto.
  intros H. apply andb_true_iff in H as [H1 H2]. rewrite (IH H2), orb_false_r.
  unfold pair_panics, is_panic.
  pose proof (prop_patches_total_on_D_lemma _ _ H1) as Hn.
  destruct (generate_property_patches (fst p) (snd p)); auto. contradiction.
Qed.

(* Model of the npm package.json writer (guidedremediation/internal/manifest/npm/packagejson.go,
   readWriter.Write) with the gjson/sjson path machinery it relies on, and the exactness spec.
   Definitions only (no proofs).

   A document is kept structured *with all its bytes*: render doc is the file. The writer never
   re-formats: gjson locates the raw value by the PATH STRING "<section>." ++ name and sjson splices the
   new string in place, so a write is "replace the value bytes of one member".

   Since the fix the writer builds the path "<section>." ++ gjson.Escape(name): every byte of the name
   that is not [A-Za-z0-9_:-], <= ' ' or > '~' is preceded by a backslash.

   Modelled fragment of gjson/sjson (everything else is outside: jcase_in_fragment = false and only
   the byte/round-trip oracle speaks):
   - the document is an object whose dependency sections are objects with string values; keys and
     values are printable ASCII without the double quote and the backslash (no escapes);
   - a path is split at every unescaped '.', a backslash makes the next byte literal, a component
     with an unescaped '*' or '?' is a glob matched against the keys in document order, any other
     component is compared for equality (unescaped '|' pipes are not modelled: Escape never leaves one);
   - RESIDUAL, not covered by gjson.Escape and not modelled: a name with a leading ':' (':' is "safe"
     for Escape, but sjson reads a leading ':' of a component as "forced string key" and strips it,
     so it sets/creates the key without the colon). name_supported excludes it. *)
From Coq Require Import List ZArith NArith Bool.
From Scalibr Require Import Writers.GoBytes.
Import ListNotations.
Open Scope N_scope.

(* ------------------------------------------------------------------ documents *)
Record member := { m_pre : bytes; m_key : bytes; m_mid : bytes; m_val : bytes; m_post : bytes }.

Inductive tvalue :=
| TSection (ms : list member) (empty_ws : bytes)   (* { "k": "v", ... }  (empty_ws: the blanks of "{ }") *)
| TRaw (raw : bytes).                              (* any other JSON value, verbatim *)

Record item := { t_pre : bytes; t_key : bytes; t_mid : bytes; t_val : tvalue; t_post : bytes }.

Record doc := { d_lead : bytes; d_items : list item; d_empty_ws : bytes; d_trail : bytes }.

Definition quote (s : bytes) : bytes := 34 :: s ++ [34].

Fixpoint join_comma (l : list bytes) : bytes :=
  match l with
  | [] => []
  | [x] => x
  | x :: r => x ++ 44 :: join_comma r
  end.

Definition render_member (m : member) : bytes :=
  m_pre m ++ quote (m_key m) ++ m_mid m ++ quote (m_val m) ++ m_post m.

Definition render_tvalue (v : tvalue) : bytes :=
  match v with
  | TSection [] ws => 123 :: ws ++ [125]
  | TSection ms _ => 123 :: join_comma (map render_member ms) ++ [125]
  | TRaw r => r
  end.

Definition render_item (t : item) : bytes :=
  t_pre t ++ quote (t_key t) ++ t_mid t ++ render_tvalue (t_val t) ++ t_post t.

Definition render (d : doc) : bytes :=
  d_lead d ++ 123 :: (match d_items d with [] => d_empty_ws d | its => join_comma (map render_item its) end)
          ++ 125 :: d_trail d.

Definition set_val (m : member) (v : bytes) : member :=
  {| m_pre := m_pre m; m_key := m_key m; m_mid := m_mid m; m_val := v; m_post := m_post m |}.

Definition set_tval (t : item) (v : tvalue) : item :=
  {| t_pre := t_pre t; t_key := t_key t; t_mid := t_mid t; t_val := v; t_post := t_post t |}.

Definition set_items (d : doc) (its : list item) : doc :=
  {| d_lead := d_lead d; d_items := its; d_empty_ws := d_empty_ws d; d_trail := d_trail d |}.

(* ------------------------------------------------------------------ gjson path strings *)
Definition DOT : N := 46.

Definition is_wild_char (c : N) : bool := N.eqb c 42 || N.eqb c 63.   (* '*' '?' *)

(* one parsed path component: its text with the escapes removed, and whether an unescaped '*'/'?' occurred *)
Record pcomp := { pc_part : bytes; pc_wild : bool }.

Definition push_char (ch : N) (w : bool) (l : list pcomp) : list pcomp :=
  match l with
  | [] => [ {| pc_part := [ch]; pc_wild := w |} ]
  | h :: t => {| pc_part := ch :: pc_part h; pc_wild := w || pc_wild h |} :: t
  end.

(* gjson parseObjectPath, applied repeatedly: split at unescaped '.', a backslash makes the next byte literal *)
Fixpoint parse_path (p : bytes) : list pcomp :=
  match p with
  | [] => [ {| pc_part := []; pc_wild := false |} ]
  | c :: r =>
    if N.eqb c 92 then
      match r with
      | [] => [ {| pc_part := []; pc_wild := false |} ]
      | e :: r' => push_char e false (parse_path r')
      end
    else if N.eqb c DOT then {| pc_part := []; pc_wild := false |} :: parse_path r
    else push_char c (is_wild_char c) (parse_path r)
  end.

(* gjson.Escape *)
Definition safe_char (c : N) : bool :=
  ((97 <=? c) && (c <=? 122)) || ((65 <=? c) && (c <=? 90)) || ((48 <=? c) && (c <=? 57)) ||
  (c <=? 32) || (126 <? c) || N.eqb c 95 || N.eqb c 45 || N.eqb c 58.

Definition escape (s : bytes) : bytes :=
  flat_map (fun c => if safe_char c then [c] else [92; c]) s.

(* tidwall/match: '*' any sequence, '?' any one character *)
Fixpoint glob (pat : bytes) : bytes -> bool :=
  match pat with
  | [] => fun s => match s with [] => true | _ => false end
  | p :: pat' =>
    if N.eqb p 42 then
      fix star (s : bytes) : bool :=
        glob pat' s || match s with [] => false | _ :: s' => star s' end
    else fun s => match s with
                  | [] => false
                  | c :: s' => (N.eqb p 63 || N.eqb p c) && glob pat' s'
                  end
  end.

(* how one path component selects a key *)
Definition comp_match (comp : pcomp) (key : bytes) : bool :=
  if pc_wild comp then glob (pc_part comp) key else beq (pc_part comp) key.

Definition find_member (comp : pcomp) (ms : list member) : option member :=
  find (fun m => comp_match comp (m_key m)) ms.

(* gjson.Get(doc, path) for a two-component path: objects keyed c1 are entered in document order until
   one of them has a member selected by c2. A path with more components never selects a string member. *)
Fixpoint lookup_items (c1 c2 : pcomp) (its : list item) : option bytes :=
  match its with
  | [] => None
  | t :: r =>
    match t_val t with
    | TSection ms _ =>
      if comp_match c1 (t_key t)
      then match find_member c2 ms with
           | Some m => Some (m_val m)
           | None => lookup_items c1 c2 r
           end
      else lookup_items c1 c2 r
    | TRaw _ => lookup_items c1 c2 r
    end
  end.

Definition path_lookup (d : doc) (path : bytes) : option bytes :=
  match parse_path path with
  | [c1; c2] => lookup_items c1 c2 (d_items d)
  | _ => None
  end.

(* sjson.Set(doc, path, string): the located raw value is replaced by the quoted new string *)
Fixpoint set_first (comp : pcomp) (new : bytes) (ms : list member) : list member :=
  match ms with
  | [] => []
  | m :: r => if comp_match comp (m_key m) then set_val m new :: r else m :: set_first comp new r
  end.

Fixpoint set_in_items (c1 c2 : pcomp) (new : bytes) (its : list item) : list item :=
  match its with
  | [] => []
  | t :: r =>
    match t_val t with
    | TSection ms ws =>
      if comp_match c1 (t_key t)
      then match find_member c2 ms with
           | Some _ => set_tval t (TSection (set_first c2 new ms) ws) :: r
           | None => t :: set_in_items c1 c2 new r
           end
      else t :: set_in_items c1 c2 new r
    | TRaw _ => t :: set_in_items c1 c2 new r
    end
  end.

Definition path_set (d : doc) (path new : bytes) : doc :=
  match parse_path path with
  | [c1; c2] => set_items d (set_in_items c1 c2 new (d_items d))
  | _ => d
  end.

(* ------------------------------------------------------------------ the writer *)
Record jupdate := { u_name : bytes; u_known_as : option bytes; u_from : bytes; u_to : bytes }.

Definition DEV : bytes := [100;101;118;68;101;112;101;110;100;101;110;99;105;101;115].                         (* devDependencies *)
Definition OPT : bytes := [111;112;116;105;111;110;97;108;68;101;112;101;110;100;101;110;99;105;101;115].      (* optionalDependencies *)
Definition PROD : bytes := [100;101;112;101;110;100;101;110;99;105;101;115].                                    (* dependencies *)
Definition NPM_COLON : bytes := [110;112;109;58].                                                               (* npm: *)

(* fmt.Sprintf("npm:%s@%s", name, ver) *)
Definition alias_ver (name ver : bytes) : bytes := NPM_COLON ++ name ++ 64 :: ver.

Definition upd_key (u : jupdate) : bytes := match u_known_as u with Some k => k | None => u_name u end.
Definition upd_orig (u : jupdate) : bytes :=
  match u_known_as u with Some _ => alias_ver (u_name u) (u_from u) | None => u_from u end.
Definition upd_new (u : jupdate) : bytes :=
  match u_known_as u with Some _ => alias_ver (u_name u) (u_to u) | None => u_to u end.

(* "<section>." + gjson.Escape(name) *)
Definition dep_path (sec name : bytes) : bytes := sec ++ DOT :: escape name.

(* one of the three "if res := gjson.GetBytes(manif, depStr); res.Exists() {...}" blocks.
   None = the mismatch error. *)
Definition sec_step (d : doc) (sec key orig new : bytes) (matched : bool) : option (doc * bool) :=
  match path_lookup d (dep_path sec key) with
  | Some ver =>
    if beq ver orig then Some (path_set d (dep_path sec key) new, true)
    else if matched then Some (d, matched) else None
  | None => Some (d, matched)
  end.

Definition apply_one (d : doc) (u : jupdate) : option doc :=
  match sec_step d DEV (upd_key u) (upd_orig u) (upd_new u) false with
  | None => None
  | Some (d1, m1) =>
    match sec_step d1 OPT (upd_key u) (upd_orig u) (upd_new u) m1 with
    | None => None
    | Some (d2, m2) =>
      match sec_step d2 PROD (upd_key u) (upd_orig u) (upd_new u) m2 with
      | None => None
      | Some (d3, _) => Some d3
      end
    end
  end.

(* Write: None = error returned (nothing written), Some d = success, render d written *)
Fixpoint write_pkgjson (d : doc) (ups : list jupdate) : option doc :=
  match ups with
  | [] => Some d
  | u :: r => match apply_one d u with Some d' => write_pkgjson d' r | None => None end
  end.

(* ------------------------------------------------------------------ spec *)
Definition SECS : list bytes := [DEV; OPT; PROD].

(* the members of every object keyed sec, in document order *)
Definition sec_members (d : doc) (sec : bytes) : list member :=
  flat_map (fun t => match t_val t with
                     | TSection ms _ => if beq sec (t_key t) then ms else []
                     | TRaw _ => []
                     end) (d_items d).

Definition sec_get (d : doc) (sec key : bytes) : option bytes :=
  option_map m_val (find (fun m => beq key (m_key m)) (sec_members d sec)).

(* the version npm uses for the key: dev before optional before regular *)
Definition effective (d : doc) (key : bytes) : option bytes :=
  match sec_get d DEV key with
  | Some v => Some v
  | None => match sec_get d OPT key with
            | Some v => Some v
            | None => sec_get d PROD key
            end
  end.

(* the update is addressed to a requirement present in the file *)
Definition addressed (d : doc) (u : jupdate) : bool :=
  match effective d (upd_key u) with Some v => beq v (upd_orig u) | None => false end.

Definition hits (u : jupdate) (m : member) : bool :=
  beq (upd_key u) (m_key m) && beq (upd_orig u) (m_val m).

(* what the property asks for, member by member: a member of a dependency section that spells a
   requirement addressed by an update carries the new version; every other byte is as before *)
Definition spec_member (ups : list jupdate) (m : member) : member :=
  match find (fun u => hits u m) ups with
  | Some u => set_val m (upd_new u)
  | None => m
  end.

Definition spec_item (ups : list jupdate) (t : item) : item :=
  match t_val t with
  | TSection ms ws => if mem (t_key t) SECS then set_tval t (TSection (map (spec_member ups) ms) ws) else t
  | TRaw _ => t
  end.

Definition spec_apply (d : doc) (ups : list jupdate) : doc :=
  set_items d (map (spec_item ups) (d_items d)).

(* "applied": after the write some dependency section spells the key with the new version *)
Definition applied (d' : doc) (u : jupdate) : bool :=
  existsb (fun sec => match sec_get d' sec (upd_key u) with Some v => beq v (upd_new u) | None => false end) SECS.

(* the requirement spelled (key, v) after the updates *)
Definition subst_req (ups : list jupdate) (key v : bytes) : bytes :=
  match find (fun u => beq (upd_key u) key && beq (upd_orig u) v) ups with
  | Some u => upd_new u
  | None => v
  end.

(* the document with the version strings of the dependency sections blanked: everything a write must
   leave alone (all other bytes, all keys, all whitespace, all other values) *)
Definition erase_member (m : member) : member := set_val m [].
Definition erase_item (t : item) : item :=
  match t_val t with
  | TSection ms ws => if mem (t_key t) SECS then set_tval t (TSection (map erase_member ms) ws) else t
  | TRaw _ => t
  end.
Definition erase_vals (d : doc) : doc := set_items d (map erase_item (d_items d)).

(* no key twice inside the objects keyed by one section name *)
Definition wf_doc (d : doc) : bool :=
  forallb (fun sec => nodupb (map m_key (sec_members d sec))) SECS.

(* the residual domain: what gjson.Escape does not cover (sjson's forced-key prefix ':') *)
Definition name_supported (s : bytes) : bool :=
  match s with c :: _ => negb (N.eqb c 58) | [] => true end.

Definition distinct_keys (ups : list jupdate) : bool := nodupb (map upd_key ups).

(* ------------------------------------------------------------------ the modelled fragment *)
Definition is_ws (c : N) : bool := N.eqb c 32 || N.eqb c 9 || N.eqb c 10 || N.eqb c 13.
Definition all_ws (s : bytes) : bool := forallb is_ws s.
Definition plain_char (c : N) : bool := (32 <=? c) && (c <=? 126) && negb (N.eqb c 34) && negb (N.eqb c 92).
Definition plain (s : bytes) : bool := forallb plain_char s.

(* ws ':' ws *)
Fixpoint is_mid (s : bytes) : bool :=
  match s with
  | [] => false
  | c :: r => if N.eqb c 58 then all_ws r else is_ws c && is_mid r
  end.

Definition member_frag (m : member) : bool :=
  all_ws (m_pre m) && plain (m_key m) && is_mid (m_mid m) && plain (m_val m) && all_ws (m_post m).

Definition item_frag (t : item) : bool :=
  all_ws (t_pre t) && plain (t_key t) && is_mid (t_mid t) && all_ws (t_post t) &&
  match t_val t with
  | TSection ms ws => forallb member_frag ms && all_ws ws
  | TRaw _ => negb (mem (t_key t) SECS)      (* the raw JSON text itself is the generator's business *)
  end.

Definition doc_frag (d : doc) : bool :=
  all_ws (d_lead d) && all_ws (d_trail d) && all_ws (d_empty_ws d) && forallb item_frag (d_items d) &&
  nodupb (map t_key (d_items d)).

Definition name_frag (s : bytes) : bool :=
  match s with [] => false | _ => plain s && name_supported s end.

Definition ver_frag (s : bytes) : bool := plain s.

Definition upd_frag (u : jupdate) : bool :=
  name_frag (upd_key u) && ver_frag (upd_orig u) && ver_frag (upd_new u).

(* ------------------------------------------------------------------ correspondence record *)
Inductive jobs := JObsOk (out : bytes) | JObsErr | JObsPanic.

Record jcase := {
  jc_doc : doc;
  jc_input : bytes;               (* the bytes the implementation was given *)
  jc_updates : list jupdate;
  jc_obs : jobs;
  jc_reread_ok : bool;            (* harness: Read(written file) = Read(input) with the versions substituted *)
  jc_from_read : bool }.          (* harness: every update was built from a requirement that Read reported for this file *)

Definition jcase_in_fragment (c : jcase) : bool :=
  doc_frag (jc_doc c) && forallb upd_frag (jc_updates c).

Definition jcase_supported_names (c : jcase) : bool :=
  forallb (fun u => name_supported (upd_key u)) (jc_updates c).

(* evidence counter: updates whose name needs escaping ('.', '*', '?', '@', '/', ...) *)
Definition jcase_escaped_names (c : jcase) : bool :=
  existsb (fun u => negb (beq (escape (upd_key u)) (upd_key u))) (jc_updates c).

(* model = implementation, on the modelled fragment; the structured document must be the input *)
Definition jcase_model_ok (c : jcase) : bool :=
  beq (render (jc_doc c)) (jc_input c) &&
  (negb (jcase_in_fragment c) ||
   match write_pkgjson (jc_doc c) (jc_updates c), jc_obs c with
   | Some d', JObsOk out => beq (render d') out
   | None, JObsErr => true
   | _, _ => false
   end).

(* the property on the implementation's own output: success, exactly the addressed members changed,
   nothing else, and the re-read requirements are the substituted ones *)
Definition jcase_claimed (c : jcase) : bool :=
  wf_doc (jc_doc c) && forallb (addressed (jc_doc c)) (jc_updates c) && distinct_keys (jc_updates c).

(* the key is spelled the same way wherever the dependency sections mention it (and is mentioned) *)
Definition consistent_key (d : doc) (key : bytes) : bool :=
  match flat_map (fun sec => map m_val (filter (fun m => beq key (m_key m)) (sec_members d sec))) SECS with
  | [] => false
  | v :: r => forallb (beq v) r
  end.

(* Read and Write must agree on what a member spells: an update built from a requirement Read reported, for a key
   that is spelled consistently, has to be writable -- Write succeeds and the re-read requirements carry VersionTo
   (this holds whatever attributes Read put on the requirement, e.g. for a package aliased to its own name) *)
Definition jcase_read_claimed (c : jcase) : bool :=
  jc_from_read c && wf_doc (jc_doc c) && distinct_keys (jc_updates c) &&
  forallb (fun u => consistent_key (jc_doc c) (upd_key u)) (jc_updates c).

Definition jcase_spec_full (c : jcase) : bool :=
  (negb (jcase_claimed c) ||
   match jc_obs c with
   | JObsOk out => beq out (render (spec_apply (jc_doc c) (jc_updates c))) && jc_reread_ok c
   | _ => false
   end) &&
  (negb (jcase_read_claimed c) ||
   match jc_obs c with JObsOk _ => jc_reread_ok c | _ => false end).

(* ... claimed wherever the model is the code: modelled fragment, names supported by Escape *)
Definition jcase_spec_ok (c : jcase) : bool :=
  negb (jcase_in_fragment c && jcase_supported_names c) || jcase_spec_full c.

(* Proofs about the package.json writer model (PkgJson.v). *)
From Coq Require Import List ZArith NArith Bool Lia PeanoNat.
From Scalibr Require Import Writers.GoBytes Writers.GoBytesProofs Writers.PkgJson.
Import ListNotations.
Open Scope N_scope.

(* ------------------------------------------------------------------ small facts *)
Lemma beq_sym a b : beq a b = beq b a.
Proof.
  destruct (beq a b) eqn:E.
  - apply beq_eq in E. subst. symmetry. apply beq_refl.
  - symmetry. apply beq_neq. apply beq_neq in E. congruence.
Qed.

Lemma find_app {A} (p : A -> bool) l1 l2 :
  find p (l1 ++ l2) = match find p l1 with Some x => Some x | None => find p l2 end.
Proof. induction l1 as [|x l1 IH]; simpl; auto. destruct (p x); auto. Qed.

Lemma find_none_iff {A} (p : A -> bool) l : find p l = None <-> forall x, In x l -> p x = false.
Proof.
  split.
  - apply find_none.
  - induction l as [|x l IH]; simpl; auto. intros H. rewrite (H x) by auto. apply IH. intros y Hy. apply H. auto.
Qed.

Lemma find_ext_local {A} (p q : A -> bool) l : (forall x, In x l -> p x = q x) -> find p l = find q l.
Proof.
  induction l as [|x l IH]; simpl; auto. intros H. rewrite (H x) by auto.
  destruct (q x); [reflexivity|]. apply IH. intros y Hy. apply H. auto.
Qed.

Lemma NoDup_app_remove_l {A} (l l' : list A) : NoDup (l ++ l') -> NoDup l'.
Proof. induction l as [|x l IH]; simpl; auto. intros H. inversion H; auto. Qed.

Lemma NoDup_app_remove_r {A} (l l' : list A) : NoDup (l ++ l') -> NoDup l.
Proof.
  induction l as [|x l IH]; simpl; intros H; [constructor|].
  inversion H; subst. constructor; auto. intros Hin. apply H2. apply in_or_app. auto.
Qed.

Lemma NoDup_app_disjoint {A} (l l' : list A) : NoDup (l ++ l') -> forall x, In x l -> In x l' -> False.
Proof.
  induction l as [|y l IH]; simpl; intros H x Hx Hx'; [contradiction|].
  inversion H; subst. destruct Hx as [->|Hx].
  - apply H2. apply in_or_app. auto.
  - apply (IH H3 x Hx Hx').
Qed.

Lemma set_tval_same t ms ws : t_val t = TSection ms ws -> set_tval t (TSection ms ws) = t.
Proof. destruct t; simpl. intros ->. reflexivity. Qed.

Lemma set_items_same d : set_items d (d_items d) = d.
Proof. destruct d; reflexivity. Qed.

(* ------------------------------------------------------------------ path strings *)
Definition lit (k : bytes) : pcomp := {| pc_part := k; pc_wild := false |}.

(* a literal first component: no backslash, no dot, no wildcard *)
Definition lit_char (c : N) : bool := negb (N.eqb c 92) && negb (N.eqb c DOT) && negb (is_wild_char c).
Definition lit_comp (s : bytes) : bool := forallb lit_char s.

Lemma safe_char_lit c : safe_char c = true -> lit_char c = true.
Proof.
  unfold lit_char, is_wild_char. intros H.
  destruct (N.eqb_spec c 92) as [->|]; [vm_compute in H; discriminate|].
  destruct (N.eqb_spec c DOT) as [->|]; [vm_compute in H; discriminate|].
  destruct (N.eqb_spec c 42) as [->|]; [vm_compute in H; discriminate|].
  destruct (N.eqb_spec c 63) as [->|]; [vm_compute in H; discriminate|].
  reflexivity.
Qed.

Lemma parse_path_lit_char c r : lit_char c = true -> parse_path (c :: r) = push_char c false (parse_path r).
Proof.
  unfold lit_char. intros H. apply andb_true_iff in H as [H H3]. apply andb_true_iff in H as [H1 H2].
  apply negb_true_iff in H1, H2, H3. cbn [parse_path]. rewrite H1, H2, H3. reflexivity.
Qed.

(* the escaped name is one literal component, whatever the name *)
Lemma parse_path_escape k : parse_path (escape k) = [lit k].
Proof.
  induction k as [|c k IH]; [reflexivity|].
  unfold escape. cbn [flat_map]. fold (escape k).
  destruct (safe_char c) eqn:E.
  - cbn [app]. rewrite (parse_path_lit_char c _ (safe_char_lit c E)), IH. reflexivity.
  - cbn [app parse_path]. rewrite N.eqb_refl. rewrite IH. reflexivity.
Qed.

Lemma parse_path_lit_app sec rest :
  lit_comp sec = true -> parse_path (sec ++ DOT :: rest) = lit sec :: parse_path rest.
Proof.
  unfold lit_comp. induction sec as [|c sec IH]; cbn [forallb app].
  - intros _. cbn [parse_path]. replace (N.eqb DOT 92) with false by reflexivity. rewrite N.eqb_refl. reflexivity.
  - intros H. apply andb_true_iff in H as [H1 H2].
    rewrite (parse_path_lit_char c _ H1), (IH H2). reflexivity.
Qed.

Lemma parse_dep_path sec k : lit_comp sec = true -> parse_path (dep_path sec k) = [lit sec; lit k].
Proof. intros H. unfold dep_path. rewrite (parse_path_lit_app sec _ H), parse_path_escape. reflexivity. Qed.

Lemma comp_match_plain c key : comp_match (lit c) key = beq c key.
Proof. reflexivity. Qed.

(* ------------------------------------------------------------------ sections, spelled with equality *)
Definition secf (sec : bytes) (t : item) : list member :=
  match t_val t with
  | TSection ms _ => if beq sec (t_key t) then ms else []
  | TRaw _ => []
  end.

Definition map_item (sec : bytes) (g : member -> member) (t : item) : item :=
  match t_val t with
  | TSection ms ws => if beq sec (t_key t) then set_tval t (TSection (map g ms) ws) else t
  | TRaw _ => t
  end.

Definition map_sec (d : doc) (sec : bytes) (g : member -> member) : doc :=
  set_items d (map (map_item sec g) (d_items d)).

Definition keyp (k : bytes) (m : member) : bool := beq k (m_key m).

Lemma sec_members_unfold d sec : sec_members d sec = flat_map (secf sec) (d_items d).
Proof. reflexivity. Qed.

Lemma lookup_items_plain c1 c2 its :
  lookup_items (lit c1) (lit c2) its = option_map m_val (find (keyp c2) (flat_map (secf c1) its)).
Proof.
  induction its as [|t r IH]; simpl; auto.
  unfold secf at 1. destruct (t_val t) as [ms ws|raw]; simpl; auto.
  rewrite (comp_match_plain c1). destruct (beq c1 (t_key t)); simpl; auto.
  rewrite find_app. unfold find_member.
  assert (E : find (fun m => comp_match (lit c2) (m_key m)) ms = find (keyp c2) ms).
  { apply find_ext_local. intros m _. apply comp_match_plain. }
  rewrite E. destruct (find (keyp c2) ms); simpl; auto.
Qed.

Definition setk (k new : bytes) (m : member) : member := if keyp k m then set_val m new else m.

Lemma setk_key k new m : m_key (setk k new m) = m_key m.
Proof. unfold setk. destruct (keyp k m); reflexivity. Qed.

Lemma map_id_on {A} (f : A -> A) l : (forall x, In x l -> f x = x) -> map f l = l.
Proof.
  induction l as [|x l IH]; simpl; auto. intros H. rewrite (H x) by auto. rewrite IH; auto.
Qed.

Lemma setk_id_when_absent k new ms : (forall m, In m ms -> keyp k m = false) -> map (setk k new) ms = ms.
Proof. intros H. apply map_id_on. intros m Hm. unfold setk. rewrite (H m Hm). reflexivity. Qed.

Lemma keyp_In_keys k ms m : In m ms -> keyp k m = true -> In k (map m_key ms).
Proof. intros Hm Hk. unfold keyp in Hk. apply beq_eq in Hk. subst k. apply in_map. exact Hm. Qed.

Lemma set_first_nodup k new ms :
  NoDup (map m_key ms) -> set_first (lit k) new ms = map (setk k new) ms.
Proof.
  induction ms as [|m r IH]; simpl; auto. intros HN. inversion HN; subst.
  rewrite (comp_match_plain k). unfold setk at 1. unfold keyp at 1.
  destruct (beq k (m_key m)) eqn:E.
  - f_equal. symmetry. apply setk_id_when_absent. intros m' Hm'.
    destruct (keyp k m') eqn:E'; auto. exfalso. apply H1.
    apply beq_eq in E. rewrite <- E. apply (keyp_In_keys k r m'); auto.
  - f_equal. apply IH. exact H2.
Qed.

Lemma map_item_id sec g t : (forall m, In m (secf sec t) -> g m = m) -> map_item sec g t = t.
Proof.
  unfold map_item, secf. destruct (t_val t) as [ms ws|raw] eqn:E; auto.
  destruct (beq sec (t_key t)); auto. intros H. rewrite (map_id_on g ms H). apply set_tval_same. exact E.
Qed.

Lemma set_in_items_nodup c1 c2 new its :
  NoDup (map m_key (flat_map (secf c1) its)) ->
  set_in_items (lit c1) (lit c2) new its = map (map_item c1 (setk c2 new)) its.
Proof.
  induction its as [|t r IH]; simpl; auto. intros HN.
  rewrite map_app in HN.
  pose proof (NoDup_app_remove_l _ _ HN) as HNr.
  pose proof (NoDup_app_remove_r _ _ HN) as HNl.
  unfold map_item at 1. unfold secf at 1 in HN. unfold secf at 1 in HNl.
  destruct (t_val t) as [ms ws|raw] eqn:Et.
  - rewrite (comp_match_plain c1). destruct (beq c1 (t_key t)) eqn:Ek.
    + unfold find_member.
      assert (E : find (fun m => comp_match (lit c2) (m_key m)) ms = find (keyp c2) ms).
      { apply find_ext_local. intros m _. apply comp_match_plain. }
      rewrite E. destruct (find (keyp c2) ms) as [m0|] eqn:Ef.
      * rewrite (set_first_nodup c2 new ms HNl). f_equal.
        symmetry. apply map_id_on. intros t' Ht'. apply map_item_id. intros m Hm.
        unfold setk. destruct (keyp c2 m) eqn:Ekm; auto. exfalso.
        apply find_some in Ef as [Hin0 Hk0].
        (* c2 is a key of ms and of the rest: contradiction with NoDup *)
        apply (NoDup_app_disjoint _ _ HN c2).
        -- apply (keyp_In_keys c2 ms m0); auto.
        -- apply (keyp_In_keys c2 _ m); auto. apply in_flat_map. exists t'. auto.
      * rewrite setk_id_when_absent by (apply find_none_iff; exact Ef).
        rewrite (set_tval_same t ms ws Et). f_equal. apply IH. exact HNr.
    + f_equal. apply IH. exact HNr.
  - f_equal. apply IH. exact HNr.
Qed.

(* ------------------------------------------------------------------ one section block of the writer *)
Definition gset (k orig new : bytes) (m : member) : member :=
  if beq k (m_key m) && beq orig (m_val m) then set_val m new else m.

Lemma gset_key k orig new m : m_key (gset k orig new m) = m_key m.
Proof. unfold gset. destruct (_ && _); reflexivity. Qed.

Definition sec_hit (d : doc) (sec k orig : bytes) : bool :=
  match sec_get d sec k with Some v => beq v orig | None => false end.
Definition sec_miss (d : doc) (sec k orig : bytes) : bool :=
  match sec_get d sec k with Some v => negb (beq v orig) | None => false end.

Definition sec_wf (d : doc) (sec : bytes) : Prop := NoDup (map m_key (sec_members d sec)).

Lemma path_lookup_plain d sec k :
  lit_comp sec = true -> path_lookup d (dep_path sec k) = sec_get d sec k.
Proof.
  intros H1. unfold path_lookup. rewrite (parse_dep_path sec k H1).
  rewrite (lookup_items_plain sec k). reflexivity.
Qed.

Lemma path_set_plain d sec k new :
  lit_comp sec = true -> sec_wf d sec ->
  path_set d (dep_path sec k) new = map_sec d sec (setk k new).
Proof.
  intros H1 HW. unfold path_set. rewrite (parse_dep_path sec k H1).
  unfold map_sec. f_equal. apply set_in_items_nodup; auto.
Qed.

(* with unique keys, the member found first is the only one with that key *)
Lemma find_unique_val k ms m0 :
  NoDup (map m_key ms) -> find (keyp k) ms = Some m0 ->
  forall m, In m ms -> keyp k m = true -> m = m0.
Proof.
  induction ms as [|x r IH]; simpl; intros HN Hf m Hm Hk; [contradiction|].
  inversion HN; subst.
  destruct (keyp k x) eqn:Ex.
  - inversion Hf; subst x. destruct Hm as [->|Hm]; auto.
    exfalso. apply H1. unfold keyp in Ex, Hk. apply beq_eq in Ex, Hk. rewrite <- Ex, Hk. apply in_map. exact Hm.
  - destruct Hm as [->|Hm]; [congruence|]. apply (IH H2 Hf m Hm Hk).
Qed.

Lemma map_sec_ext d sec g1 g2 :
  (forall m, In m (sec_members d sec) -> g1 m = g2 m) -> map_sec d sec g1 = map_sec d sec g2.
Proof.
  intros H. unfold map_sec. f_equal. apply map_ext_in. intros t Ht.
  unfold map_item. destruct (t_val t) as [ms ws|raw] eqn:Et; auto.
  destruct (beq sec (t_key t)) eqn:Ek; auto. f_equal. f_equal.
  apply map_ext_in. intros m Hm. apply H. rewrite sec_members_unfold. apply in_flat_map.
  exists t. split; auto. unfold secf. rewrite Et, Ek. exact Hm.
Qed.

Lemma map_sec_id d sec g : (forall m, In m (sec_members d sec) -> g m = m) -> map_sec d sec g = d.
Proof.
  intros H. unfold map_sec. rewrite map_id_on; [apply set_items_same|].
  intros t Ht. apply map_item_id. intros m Hm. apply H. rewrite sec_members_unfold. apply in_flat_map. eauto.
Qed.

Lemma sec_step_char d sec k orig new matched :
  lit_comp sec = true -> sec_wf d sec ->
  sec_step d sec k orig new matched =
  if sec_miss d sec k orig && negb matched then None
  else Some (map_sec d sec (gset k orig new), matched || sec_hit d sec k orig).
Proof.
  intros H1 HW. unfold sec_step, sec_miss, sec_hit.
  rewrite (path_lookup_plain d sec k H1).
  unfold sec_get. destruct (find (fun m => beq k (m_key m)) (sec_members d sec)) as [m0|] eqn:Ef; simpl.
  - pose proof (find_unique_val k _ m0 HW Ef) as HU.
    destruct (beq (m_val m0) orig) eqn:Ev; simpl.
    + rewrite (path_set_plain d sec k new H1 HW). rewrite orb_true_r. f_equal. f_equal.
      apply map_sec_ext. intros m Hm. unfold setk, gset, keyp.
      destruct (beq k (m_key m)) eqn:Ek; simpl; auto.
      rewrite (HU m Hm Ek). rewrite beq_sym, Ev. reflexivity.
    + destruct matched; simpl; auto. f_equal. f_equal. symmetry. apply map_sec_id.
      intros m Hm. unfold gset. destruct (beq k (m_key m)) eqn:Ek; simpl; auto.
      rewrite (HU m Hm Ek). rewrite beq_sym, Ev. reflexivity.
  - rewrite orb_false_r. f_equal. f_equal. symmetry. apply map_sec_id.
    intros m Hm. unfold gset. apply find_none with (x := m) in Ef; auto. simpl in Ef. rewrite Ef. reflexivity.
Qed.

(* ------------------------------------------------------------------ sections do not interfere *)
Lemma secf_map_item sec sec' g t :
  (forall m, m_key (g m) = m_key m) ->
  secf sec' (map_item sec g t) = if beq sec sec' then map g (secf sec' t) else secf sec' t.
Proof.
  intros Hg. unfold map_item, secf. destruct (t_val t) as [ms ws|raw] eqn:Et.
  - destruct (beq sec (t_key t)) eqn:Ek.
    + simpl. apply beq_eq in Ek. subst sec. rewrite (beq_sym (t_key t) sec').
      destruct (beq sec' (t_key t)); auto. 
    + rewrite Et. destruct (beq sec' (t_key t)) eqn:Ek'; auto.
      * destruct (beq sec sec') eqn:E; auto. apply beq_eq in E. subst. congruence.
      * destruct (beq sec sec'); reflexivity.
  - rewrite Et. destruct (beq sec sec'); reflexivity.
Qed.

Lemma sec_members_map_sec d sec sec' g :
  (forall m, m_key (g m) = m_key m) ->
  sec_members (map_sec d sec g) sec' = if beq sec sec' then map g (sec_members d sec') else sec_members d sec'.
Proof.
  intros Hg. rewrite !sec_members_unfold. unfold map_sec. simpl.
  induction (d_items d) as [|t r IH]; simpl.
  - destruct (beq sec sec'); reflexivity.
  - rewrite IH, (secf_map_item sec sec' g t Hg). destruct (beq sec sec'); auto. rewrite map_app. reflexivity.
Qed.

Lemma keys_map_sec d sec sec' g :
  (forall m, m_key (g m) = m_key m) ->
  map m_key (sec_members (map_sec d sec g) sec') = map m_key (sec_members d sec').
Proof.
  intros Hg. rewrite (sec_members_map_sec d sec sec' g Hg). destruct (beq sec sec'); auto.
  rewrite map_map. apply map_ext. exact Hg.
Qed.

Lemma sec_get_other d sec sec' g k :
  (forall m, m_key (g m) = m_key m) -> beq sec sec' = false ->
  sec_get (map_sec d sec g) sec' k = sec_get d sec' k.
Proof. intros Hg E. unfold sec_get. rewrite (sec_members_map_sec d sec sec' g Hg), E. reflexivity. Qed.

Lemma find_map_gset k' k orig new ms :
  beq k' k = false ->
  option_map m_val (find (fun m => beq k' (m_key m)) (map (gset k orig new) ms)) =
  option_map m_val (find (fun m => beq k' (m_key m)) ms).
Proof.
  intros E. induction ms as [|m r IH]; simpl; auto.
  rewrite gset_key. destruct (beq k' (m_key m)) eqn:Ek; auto.
  simpl. unfold gset. destruct (beq k (m_key m)) eqn:Ek2; simpl; auto.
  exfalso. apply beq_eq in Ek, Ek2. subst. rewrite beq_refl in E. discriminate.
Qed.

Lemma sec_get_map_sec_other_key d sec sec' k' k orig new :
  beq k' k = false ->
  sec_get (map_sec d sec (gset k orig new)) sec' k' = sec_get d sec' k'.
Proof.
  intros E. unfold sec_get. rewrite (sec_members_map_sec d sec sec' _ (gset_key k orig new)).
  destruct (beq sec sec'); auto. apply find_map_gset. exact E.
Qed.

(* ------------------------------------------------------------------ the three blocks = the spec for one update *)
Lemma DEV_OPT : beq DEV OPT = false. Proof. reflexivity. Qed.
Lemma DEV_PROD : beq DEV PROD = false. Proof. reflexivity. Qed.
Lemma OPT_PROD : beq OPT PROD = false. Proof. reflexivity. Qed.
Lemma OPT_DEV : beq OPT DEV = false. Proof. reflexivity. Qed.
Lemma PROD_DEV : beq PROD DEV = false. Proof. reflexivity. Qed.
Lemma PROD_OPT : beq PROD OPT = false. Proof. reflexivity. Qed.

Lemma spec_member_one u m : spec_member [u] m = gset (upd_key u) (upd_orig u) (upd_new u) m.
Proof. unfold spec_member, gset, hits. simpl. destruct (_ && _); reflexivity. Qed.

Lemma lc_DEV : lit_comp DEV = true. Proof. reflexivity. Qed.
Lemma lc_OPT : lit_comp OPT = true. Proof. reflexivity. Qed.
Lemma lc_PROD : lit_comp PROD = true. Proof. reflexivity. Qed.
Local Opaque DEV OPT PROD.

Lemma map_item_other sec g t : beq sec (t_key t) = false -> map_item sec g t = t.
Proof. unfold map_item. intros ->. destruct (t_val t); reflexivity. Qed.

Lemma map_item_hit sec g t ms ws :
  t_val t = TSection ms ws -> beq sec (t_key t) = true -> map_item sec g t = set_tval t (TSection (map g ms) ws).
Proof. unfold map_item. intros -> ->. reflexivity. Qed.

Lemma map_item_raw sec g t raw : t_val t = TRaw raw -> map_item sec g t = t.
Proof. unfold map_item. intros ->. reflexivity. Qed.

Lemma mem_SECS k : mem k SECS = beq DEV k || beq OPT k || beq PROD k.
Proof. unfold SECS. cbn [mem]. rewrite (beq_sym k DEV), (beq_sym k OPT), (beq_sym k PROD), orb_false_r, orb_assoc. reflexivity. Qed.

Lemma three_items u t :
  let g := gset (upd_key u) (upd_orig u) (upd_new u) in
  map_item PROD g (map_item OPT g (map_item DEV g t)) = spec_item [u] t.
Proof.
  intros g. unfold spec_item. destruct (t_val t) as [ms ws|raw] eqn:Et.
  - rewrite mem_SECS.
    assert (Hm : map g ms = map (spec_member [u]) ms) by (apply map_ext; intros m; symmetry; apply spec_member_one).
    destruct (beq DEV (t_key t)) eqn:E1.
    + rewrite (map_item_hit DEV g t ms ws Et E1). apply beq_eq in E1.
      rewrite (map_item_other OPT) by (simpl; rewrite <- E1; apply OPT_DEV).
      rewrite (map_item_other PROD) by (simpl; rewrite <- E1; apply PROD_DEV).
      simpl. rewrite Hm. reflexivity.
    + rewrite (map_item_other DEV g t E1). destruct (beq OPT (t_key t)) eqn:E2.
      * rewrite (map_item_hit OPT g t ms ws Et E2). apply beq_eq in E2.
        rewrite (map_item_other PROD) by (simpl; rewrite <- E2; apply PROD_OPT).
        simpl. rewrite Hm. reflexivity.
      * rewrite (map_item_other OPT g t E2). destruct (beq PROD (t_key t)) eqn:E3.
        -- rewrite (map_item_hit PROD g t ms ws Et E3). simpl. rewrite Hm. reflexivity.
        -- rewrite (map_item_other PROD g t E3). reflexivity.
  - rewrite !(map_item_raw _ g t raw Et). reflexivity.
Qed.

Lemma three_sections d u :
  map_sec (map_sec (map_sec d DEV (gset (upd_key u) (upd_orig u) (upd_new u))) OPT (gset (upd_key u) (upd_orig u) (upd_new u)))
          PROD (gset (upd_key u) (upd_orig u) (upd_new u)) = spec_apply d [u].
Proof.
  unfold map_sec, spec_apply, set_items. cbn [d_items d_lead d_empty_ws d_trail]. f_equal.
  rewrite !map_map. apply map_ext. intros t. apply three_items.
Qed.

Definition wf_doc_prop (d : doc) : Prop := sec_wf d DEV /\ sec_wf d OPT /\ sec_wf d PROD.

Lemma wf_doc_iff d : wf_doc d = true <-> wf_doc_prop d.
Proof.
  unfold wf_doc, wf_doc_prop, sec_wf, SECS. simpl. rewrite !andb_true_iff, !nodupb_NoDup. tauto.
Qed.

Lemma sec_wf_map_sec d sec sec' g : (forall m, m_key (g m) = m_key m) -> sec_wf d sec' -> sec_wf (map_sec d sec g) sec'.
Proof. intros Hg H. unfold sec_wf. rewrite (keys_map_sec d sec sec' g Hg). exact H. Qed.

Lemma apply_one_exact d u :
  wf_doc_prop d -> addressed d u = true ->
  apply_one d u = Some (spec_apply d [u]).
Proof.
  intros (W1 & W2 & W3) Ha.
  set (k := upd_key u) in *. set (o := upd_orig u). set (n := upd_new u).
  pose proof (gset_key k o n) as Hg.
  unfold apply_one. fold k o n.
  rewrite (sec_step_char d DEV k o n false lc_DEV W1).
  unfold addressed, effective in Ha. fold k o in Ha.
  assert (M1 : sec_miss d DEV k o = false).
  { unfold sec_miss. destruct (sec_get d DEV k) as [v|]; auto. rewrite Ha. reflexivity. }
  rewrite M1. simpl.
  set (d1 := map_sec d DEV (gset k o n)).
  rewrite (sec_step_char d1 OPT k o n _ lc_OPT (sec_wf_map_sec d DEV OPT _ Hg W2)).
  assert (G2 : sec_get d1 OPT k = sec_get d OPT k) by (apply sec_get_other; auto).
  assert (M2 : sec_miss d1 OPT k o && negb (sec_hit d DEV k o) = false).
  { unfold sec_miss, sec_hit. rewrite G2. destruct (sec_get d DEV k) as [v|]; [rewrite Ha; apply andb_false_r|].
    destruct (sec_get d OPT k) as [v|]; auto. rewrite Ha. reflexivity. }
  rewrite M2.
  set (d2 := map_sec d1 OPT (gset k o n)).
  assert (W3' : sec_wf d2 PROD).
  { apply sec_wf_map_sec; auto. apply sec_wf_map_sec; auto. }
  rewrite (sec_step_char d2 PROD k o n _ lc_PROD W3').
  assert (G3 : sec_get d2 PROD k = sec_get d PROD k).
  { unfold d2. rewrite sec_get_other; auto. unfold d1. rewrite sec_get_other; auto. }
  assert (M3 : sec_miss d2 PROD k o && negb (sec_hit d DEV k o || sec_hit d1 OPT k o) = false).
  { unfold sec_miss, sec_hit. rewrite G2, G3. destruct (sec_get d DEV k) as [v|]; [rewrite Ha; apply andb_false_r|].
    destruct (sec_get d OPT k) as [v|]; [rewrite Ha; apply andb_false_r|].
    destruct (sec_get d PROD k) as [v|]; auto. rewrite Ha. reflexivity. }
  rewrite M3. f_equal. apply three_sections.
Qed.

(* ------------------------------------------------------------------ all updates *)
Lemma spec_member_compose u r m :
  (forall u', In u' r -> beq (upd_key u') (upd_key u) = false) ->
  spec_member r (spec_member [u] m) = spec_member (u :: r) m.
Proof.
  intros Hd. unfold spec_member at 2 3. simpl. destruct (hits u m) eqn:Eh; auto.
  unfold spec_member. 
  assert (E : find (fun u0 => hits u0 (set_val m (upd_new u))) r = None).
  { apply find_none_iff. intros u' Hu'. unfold hits. simpl.
    unfold hits in Eh. apply andb_true_iff in Eh as [Ek _]. apply beq_eq in Ek. rewrite <- Ek.
    rewrite (Hd u' Hu'). reflexivity. }
  rewrite E. reflexivity.
Qed.

Lemma spec_apply_compose d u r :
  (forall u', In u' r -> beq (upd_key u') (upd_key u) = false) ->
  spec_apply (spec_apply d [u]) r = spec_apply d (u :: r).
Proof.
  intros Hd. unfold spec_apply, set_items. cbn [d_items d_lead d_empty_ws d_trail]. f_equal. rewrite map_map. apply map_ext. intros t.
  unfold spec_item. destruct (t_val t) as [ms ws|raw] eqn:Et.
  - destruct (mem (t_key t) SECS) eqn:Em.
    + cbn [t_val t_key set_tval]. rewrite Em. unfold set_tval. cbn [t_pre t_key t_mid t_post]. f_equal. f_equal. rewrite map_map. apply map_ext.
      intros m. apply spec_member_compose. exact Hd.
    + rewrite Et, Em. reflexivity.
  - rewrite Et. reflexivity.
Qed.

Lemma spec_apply_one_map d u sec :
  In sec SECS ->
  sec_members (spec_apply d [u]) sec = map (gset (upd_key u) (upd_orig u) (upd_new u)) (sec_members d sec).
Proof.
  intros Hin. rewrite <- three_sections.
  set (g := gset (upd_key u) (upd_orig u) (upd_new u)).
  pose proof (gset_key (upd_key u) (upd_orig u) (upd_new u)) as Hg. fold g in Hg.
  rewrite !(sec_members_map_sec _ _ _ g Hg).
  simpl in Hin. destruct Hin as [<-|[<-|[<-|[]]]]; reflexivity.
Qed.

Lemma write_pkgjson_exact ups : forall d,
  wf_doc d = true ->
  forallb (addressed d) ups = true ->
  distinct_keys ups = true ->
  write_pkgjson d ups = Some (spec_apply d ups).
Proof.
  induction ups as [|u r IH]; intros d HW HA HD.
  - simpl. unfold spec_apply. simpl. rewrite map_id_on; [rewrite set_items_same; reflexivity|].
    intros t _. unfold spec_item. destruct (t_val t) as [ms ws|raw] eqn:Et; auto.
    destruct (mem (t_key t) SECS); auto. rewrite map_id_on; [apply set_tval_same; exact Et|]. reflexivity.
  - simpl in HA. apply andb_true_iff in HA as [Ha HA].
    unfold distinct_keys in HD. simpl in HD. apply andb_true_iff in HD as [HD1 HD]. apply negb_true_iff in HD1.
    assert (Hdist : forall u', In u' r -> beq (upd_key u') (upd_key u) = false).
    { intros u' Hu'. destruct (beq (upd_key u') (upd_key u)) eqn:E; auto. exfalso.
      apply beq_eq in E. assert (mem (upd_key u) (map upd_key r) = true); [|congruence].
      apply mem_In. rewrite <- E. apply in_map. exact Hu'. }
    pose proof (proj1 (wf_doc_iff d) HW) as HWp.
    cbn [write_pkgjson]. rewrite (apply_one_exact d u HWp Ha).
    rewrite IH.
    + rewrite spec_apply_compose; auto.
    + apply wf_doc_iff. destruct HWp as (W1 & W2 & W3).
      unfold wf_doc_prop, sec_wf. rewrite !spec_apply_one_map by (simpl; auto). rewrite !map_map.
      repeat split; (erewrite map_ext; [eassumption|]; intros m; apply gset_key).
    + apply forallb_forall. intros u' Hu'. rewrite forallb_forall in HA. specialize (HA u' Hu').
      rename HA into Ha'.
      unfold addressed, effective in *.
      rewrite <- three_sections.
      rewrite !sec_get_map_sec_other_key by (apply Hdist; exact Hu'). exact Ha'.
    + exact HD.
Qed.

(* ------------------------------------------------------------------ consequences of exactness *)
Lemma secf_spec_item ups sec t :
  mem sec SECS = true -> secf sec (spec_item ups t) = map (spec_member ups) (secf sec t).
Proof.
  intros Hs. unfold spec_item, secf. destruct (t_val t) as [ms ws|raw] eqn:Et.
  - destruct (mem (t_key t) SECS) eqn:Em.
    + cbn [t_val t_key set_tval]. destruct (beq sec (t_key t)); reflexivity.
    + rewrite Et. destruct (beq sec (t_key t)) eqn:Ek; auto.
      apply beq_eq in Ek. subst sec. congruence.
  - rewrite Et. reflexivity.
Qed.

Lemma sec_members_spec_apply d ups sec :
  mem sec SECS = true -> sec_members (spec_apply d ups) sec = map (spec_member ups) (sec_members d sec).
Proof.
  intros Hs. rewrite !sec_members_unfold. unfold spec_apply. cbn [d_items set_items].
  induction (d_items d) as [|t r IH]; simpl; auto.
  rewrite IH, (secf_spec_item ups sec t Hs), map_app. reflexivity.
Qed.

Lemma spec_member_key ups m : m_key (spec_member ups m) = m_key m.
Proof. unfold spec_member. destruct (find _ ups); reflexivity. Qed.

Lemma spec_member_val ups m : m_val (spec_member ups m) = subst_req ups (m_key m) (m_val m).
Proof.
  unfold spec_member, subst_req, hits. destruct (find _ ups); reflexivity.
Qed.

Lemma pkgjson_reread_lemma d ups sec k :
  mem sec SECS = true ->
  sec_get (spec_apply d ups) sec k = option_map (subst_req ups k) (sec_get d sec k).
Proof.
  intros Hs. unfold sec_get. rewrite (sec_members_spec_apply d ups sec Hs).
  induction (sec_members d sec) as [|m r IH]; simpl; auto.
  rewrite spec_member_key. destruct (beq k (m_key m)) eqn:Ek; auto.
  simpl. rewrite spec_member_val. apply beq_eq in Ek. subst k. reflexivity.
Qed.

Lemma erase_spec_member ups m : erase_member (spec_member ups m) = erase_member m.
Proof. unfold spec_member. destruct (find _ ups); reflexivity. Qed.

Lemma pkgjson_only_values_change_lemma d ups : erase_vals (spec_apply d ups) = erase_vals d.
Proof.
  unfold erase_vals, spec_apply, set_items. cbn [d_items d_lead d_empty_ws d_trail]. f_equal.
  rewrite map_map. apply map_ext. intros t.
  unfold erase_item, spec_item. destruct (t_val t) as [ms ws|raw] eqn:Et.
  - destruct (mem (t_key t) SECS) eqn:Em.
    + cbn [t_val t_key set_tval]. rewrite Em. unfold set_tval. cbn [t_pre t_key t_mid t_post].
      f_equal. f_equal. rewrite map_map. apply map_ext. apply erase_spec_member.
    + rewrite Et, Em. reflexivity.
  - rewrite Et. reflexivity.
Qed.

Lemma nodup_map_inj {A} (f : A -> bytes) l a b :
  NoDup (map f l) -> In a l -> In b l -> f a = f b -> a = b.
Proof.
  induction l as [|x l IH]; simpl; intros HN Ha Hb E; [contradiction|].
  inversion HN; subst.
  destruct Ha as [->|Ha], Hb as [->|Hb]; auto.
  - exfalso. apply H1. rewrite E. apply in_map. exact Hb.
  - exfalso. apply H1. rewrite <- E. apply in_map. exact Ha.
Qed.

Lemma applied_lemma d ups u :
  distinct_keys ups = true -> In u ups -> addressed d u = true -> applied (spec_apply d ups) u = true.
Proof.
  intros HD Hin Ha. unfold distinct_keys in HD. apply nodupb_NoDup in HD.
  assert (Hsub : subst_req ups (upd_key u) (upd_orig u) = upd_new u).
  { unfold subst_req.
    destruct (find (fun u0 => beq (upd_key u0) (upd_key u) && beq (upd_orig u0) (upd_orig u)) ups) as [u'|] eqn:Ef.
    - apply find_some in Ef as [Hin' Hh]. apply andb_true_iff in Hh as [Hk _]. apply beq_eq in Hk.
      rewrite (nodup_map_inj upd_key ups u' u HD Hin' Hin Hk). reflexivity.
    - apply find_none with (x := u) in Ef; auto. rewrite !beq_refl in Ef. discriminate. }
  unfold applied, addressed, effective in *. unfold SECS. cbn [existsb].
  rewrite !pkgjson_reread_lemma by reflexivity.
  destruct (sec_get d DEV (upd_key u)) as [v|].
  - apply beq_eq in Ha. subst v. simpl. rewrite Hsub, beq_refl. reflexivity.
  - destruct (sec_get d OPT (upd_key u)) as [v|].
    + apply beq_eq in Ha. subst v. simpl. rewrite Hsub, beq_refl. reflexivity.
    + destruct (sec_get d PROD (upd_key u)) as [v|]; [|discriminate].
      apply beq_eq in Ha. subst v. simpl. rewrite Hsub, beq_refl. reflexivity.
Qed.

(* Declaration-level model of the pom.xml writer
   (guidedremediation/internal/manifest/maven/pomxml.go: Write, buildPatches, OriginalDependency,
   parentPathFromOrigin, and the effect of write/writeProject/writeDependency/writeString on the
   version declarations and property definitions), and the independent effective-version spec.
   Definitions only (no proofs).

   A pom chain is the main pom followed by its local parents. Of each pom only what the writer decides
   on is kept: the version declarations (with the origin string the Go code builds for the place they
   sit in, the dependency key, the version text) and the property definitions (origin, name, value).
   What this level does NOT see -- and what stays with the token-level oracle of the harness -- is the
   XML around them: element order, attributes, whitespace, comments, CDATA, namespaces, the inserted
   dependencyManagement block. *)
From Coq Require Import List ZArith NArith Bool.
From Scalibr Require Import Writers.GoBytes Writers.PomProps.
Import ListNotations.
Open Scope N_scope.

(* ------------------------------------------------------------------ data *)
(* origin of a declaration inside its pom, as buildOriginalRequirements / writeProject spell it:
   ""  "management"  "profile@ID"  "profile@ID@management"  "plugin@G:A"  "parent" (the <parent> reference) *)
Record decl := {
  dl_origin : bytes;
  dl_key : bytes;       (* groupId:artifactId|type|classifier *)
  dl_ver : bytes;       (* trimmed text of <version>, possibly with ${properties} *)
  dl_listed : bool }.   (* in ManifestSpecific.OriginalRequirements (false: a <plugin> outside pluginManagement,
                           which writeProject walks but Read does not list) *)

Record pdef := { pf_origin : bytes; pf_name : bytes; pf_val : bytes }.   (* origin "" or "profile@ID" *)

Record pom := {
  pm_path : bytes;
  pm_decls : list decl;
  pm_props : list pdef;
  pm_empty_mgmt : bool }.   (* the project has a <dependencyManagement> whose <dependencies> holds no <dependency> *)

Definition chain := list pom.   (* main pom first, then its local parents *)

Record pupd := {
  pu_key : bytes;
  pu_to : bytes;
  (* the declaration the update is addressed to: used by the SPEC only, the writer never sees it *)
  pu_pom : nat;
  pu_origin : bytes }.

(* ------------------------------------------------------------------ origin strings *)
Definition AT : N := 64.
Definition PARENT : bytes := [112;97;114;101;110;116].
Definition PROFILE : bytes := [112;114;111;102;105;108;101].
Definition MANAGEMENT : bytes := [109;97;110;97;103;101;109;101;110;116].
Definition AT_MANAGEMENT : bytes := AT :: MANAGEMENT.

Definition is_nil {A} (l : list A) : bool := match l with [] => true | _ => false end.

(* mavenOrigin(a, b): non-empty parts joined by "@" *)
Definition join_origin (a b : bytes) : bytes :=
  if is_nil a then b else if is_nil b then a else a ++ AT :: b.

(* strings.Split(s, "@") *)
Fixpoint split_at (s : bytes) : list bytes :=
  match s with
  | [] => [[]]
  | c :: r => if N.eqb c AT then [] :: split_at r
              else match split_at r with
                   | [] => [[c]]
                   | h :: t => (c :: h) :: t
                   end
  end.

(* strings.Join(l, "@") *)
Fixpoint join_at (l : list bytes) : bytes :=
  match l with
  | [] => []
  | [x] => x
  | x :: r => x ++ AT :: join_at r
  end.

(* parentPathFromOrigin (after the separator fix) *)
Definition parent_path_from_origin (o : bytes) : bytes * bytes :=
  match split_at o with
  | t0 :: t1 :: rest => if beq t0 PARENT then (t1, join_at rest) else ([], o)
  | _ => ([], o)
  end.

(* origin of a declaration of pom number i in specific.OriginalRequirements *)
Definition origin_prefix (i : nat) (p : pom) : bytes :=
  match i with O => [] | S _ => join_origin PARENT (pm_path p) end.

Definition full_origin (i : nat) (p : pom) (o : bytes) : bytes := join_origin (origin_prefix i p) o.

(* origin of a property of pom number i in specific.Properties: project-level properties carry NO origin
   (also those of a parent), profile properties carry prefix@profile@ID *)
Definition prop_full_origin (i : nat) (p : pom) (o : bytes) : bytes :=
  if is_nil o then [] else join_origin (origin_prefix i p) o.

Fixpoint indexed {A} (i : nat) (l : list A) : list (nat * A) :=
  match l with [] => [] | x :: r => (i, x) :: indexed (S i) r end.

Definition orig_reqs (c : chain) : list (bytes * decl) :=
  flat_map (fun ip => map (fun d => (full_origin (fst ip) (snd ip) (dl_origin d), d))
                          (filter dl_listed (pm_decls (snd ip)))) (indexed O c).

Definition all_props (c : chain) : list (bytes * pdef) :=
  flat_map (fun ip => map (fun f => (prop_full_origin (fst ip) (snd ip) (pf_origin f), f)) (pm_props (snd ip)))
           (indexed O c).

(* OriginalDependency: the first declaration with the key and a non-empty version *)
Definition original_dependency (c : chain) (key : bytes) : option (bytes * decl) :=
  find (fun od => beq key (dl_key (snd od)) && negb (is_nil (dl_ver (snd od)))) (orig_reqs c).

(* maven.String.ContainsProperty *)
Definition contains_property (v : bytes) : bool :=
  match index_nat DB v with
  | Some i => contains RB (skipn (i + 2) v)
  | None => false
  end.

(* strings.CutSuffix(s, suffix) *)
Definition cut_suffix (suffix s : bytes) : bytes :=
  if prefixb (rev suffix) (rev s) then firstn (length s - length suffix) s else s.

(* ------------------------------------------------------------------ buildPatches *)
Inductive patch :=
| DepPatch (path origin key to : bytes) (exist : bool)   (* result[path].DependencyPatches[origin][{key,to}] = exist *)
| PropPatch (path origin name value : bytes).            (* result[path].PropertyPatches[origin][name] = value *)

Definition preset (acc : list patch) (path origin name : bytes) : option bytes :=
  match find (fun p => match p with
                       | PropPatch pa o n _ => beq pa path && beq o origin && beq n name
                       | DepPatch _ _ _ _ _ => false
                       end) acc with
  | Some (PropPatch _ _ _ v) => Some v
  | _ => None
  end.

(* the Go map returned by generatePropertyPatches, one entry per name (the values of a repeated name agree) *)
Fixpoint dedup_names (asg : assignments) (seen : list bytes) : assignments :=
  match asg with
  | [] => []
  | (n, v) :: r => if mem n seen then dedup_names r seen else (n, v) :: dedup_names r (n :: seen)
  end.

(* where the property `name` of a dependency with origin dep_origin is looked for *)
Definition property_origin (c : chain) (dep_origin name : bytes) : bytes :=
  if existsb (fun op => beq (pf_name (snd op)) name && negb (is_nil (fst op)) && beq (fst op) dep_origin) (all_props c)
  then dep_origin else [].

(* one iteration of the loop over the upgrades; None = generatePropertyPatches did not return (never) *)
Definition build_one (c : chain) (acc : list patch) (u : pupd) : option (list patch) :=
  match original_dependency c (pu_key u) with
  | None => Some (acc ++ [DepPatch [] MANAGEMENT (pu_key u) (pu_to u) false])
  | Some (fo, d) =>
    let po := parent_path_from_origin fo in
    let direct := DepPatch (fst po) (snd po) (pu_key u) (pu_to u) true in
    if negb (contains_property (dl_ver d)) then Some (acc ++ [direct])
    else match generate_property_patches (dl_ver d) (pu_to u) with
         | Ok (asg, true) =>
           let dep_origin := if prefixb PROFILE (snd po) then cut_suffix AT_MANAGEMENT (snd po) else [] in
           Some (fold_left
                   (fun acc' nv =>
                      let porig := property_origin c dep_origin (fst nv) in
                      match preset acc' (fst po) porig (fst nv) with
                      | None => acc' ++ [PropPatch (fst po) porig (fst nv) (snd nv)]
                      | Some pre => if beq pre (snd nv) then acc' else acc' ++ [direct]
                      end)
                   (dedup_names asg []) acc)
         | Ok (_, false) => Some (acc ++ [direct])
         | _ => None
         end
  end.

Fixpoint build_patches (c : chain) (acc : list patch) (ups : list pupd) : option (list patch) :=
  match ups with
  | [] => Some acc
  | u :: r => match build_one c acc u with Some acc' => build_patches c acc' r | None => None end
  end.

(* ------------------------------------------------------------------ the effect of write() on one pom *)
(* the patches filed under the path of pom number i ("" for the main pom) *)
Definition patch_path (i : nat) (p : pom) : bytes := match i with O => [] | S _ => pm_path p end.

Definition dep_patches_at (ps : list patch) (path origin : bytes) : list (bytes * bytes) :=
  flat_map (fun p => match p with
                     | DepPatch pa o k t _ => if beq pa path && beq o origin then [(k, t)] else []
                     | PropPatch _ _ _ _ => []
                     end) ps.

Fixpoint distinct_pairs (l : list (bytes * bytes)) : list (bytes * bytes) :=
  match l with
  | [] => []
  | (k, t) :: r => if existsb (fun kt => beq (fst kt) k && beq (snd kt) t) r then distinct_pairs r
                   else (k, t) :: distinct_pairs r
  end.

(* writeDependency / the "parent" case of writeProject. None = "multiple parent patches" *)
Definition write_decl (ps : list patch) (path : bytes) (d : decl) : option decl :=
  let here := dep_patches_at ps path (dl_origin d) in
  if beq (dl_origin d) PARENT then
    match distinct_pairs here with
    | [] => Some d
    | [(_, t)] => Some {| dl_origin := dl_origin d; dl_key := dl_key d; dl_ver := t; dl_listed := dl_listed d |}
    | _ => None
    end
  else if is_nil (dl_ver d) then Some d     (* no <version> element: writeString has nothing to replace *)
  else match find (fun kt => beq (fst kt) (dl_key d)) here with
       | Some (_, t) => Some {| dl_origin := dl_origin d; dl_key := dl_key d; dl_ver := t; dl_listed := dl_listed d |}
       | None => Some d
       end.

(* writeString over <properties> with properties[origin] *)
Definition write_prop (ps : list patch) (path : bytes) (f : pdef) : pdef :=
  match preset ps path (pf_origin f) (pf_name f) with
  | Some v => {| pf_origin := pf_origin f; pf_name := pf_name f; pf_val := v |}
  | None => f
  end.

Fixpoint all_some {A} (l : list (option A)) : option (list A) :=
  match l with
  | [] => Some []
  | Some x :: r => match all_some r with Some r' => Some (x :: r') | None => None end
  | None :: _ => None
  end.

(* Added dependencyManagement entries (updates whose key no listed declaration carries: exist = false, always
   filed under the main pom, origin "management"). writeDependency inserts them at the head of the project's
   <dependencyManagement><dependencies>; when the project has no <dependencyManagement> element, write() appends
   one holding them. Either way the main pom gains project-level "management" declarations. (Their order among
   themselves -- sorted "for consistency in testing" -- and the XML of the block are token-level matters.)
   When the project has no dependencyManagement element it has no "management" declaration, hence no exist = true
   patch under that origin: only exist = false patches are listed here.
   DEFECT reproduced: when the project's <dependencyManagement> has an EMPTY <dependencies> element (pm_empty_mgmt),
   the encoder closes that element before the new <dependency> elements are written: they land outside
   <dependencies>, no reader lists them, Write returns nil -- at this level: nothing is added. *)
Definition added_pairs (ps : list patch) : list (bytes * bytes) :=
  distinct_pairs (flat_map (fun p => match p with
                                     | DepPatch pa o k t false => if is_nil pa && beq o MANAGEMENT then [(k, t)] else []
                                     | _ => []
                                     end) ps).

Definition front_origin (d : decl) : bool := beq (dl_origin d) PARENT || is_nil (dl_origin d).

Fixpoint insert_added (adds : list decl) (ds : list decl) : list decl :=
  match ds with
  | d :: r => if front_origin d then d :: insert_added adds r else adds ++ ds
  | [] => adds
  end.

Definition added_decl (kt : bytes * bytes) : decl :=
  {| dl_origin := MANAGEMENT; dl_key := fst kt; dl_ver := snd kt; dl_listed := true |}.

Definition write_pom (ps : list patch) (i : nat) (p : pom) : option pom :=
  match all_some (map (write_decl ps (patch_path i p)) (pm_decls p)) with
  | Some ds => Some {| pm_path := pm_path p;
                       pm_decls := match i with
                                   | O => if pm_empty_mgmt p then ds else insert_added (map added_decl (added_pairs ps)) ds
                                   | S _ => ds
                                   end;
                       pm_props := map (write_prop ps (patch_path i p)) (pm_props p);
                       pm_empty_mgmt := pm_empty_mgmt p |}
  | None => None
  end.

(* Write: None = an error is returned *)
Definition write_chain (c : chain) (ups : list pupd) : option chain :=
  match build_patches c [] ups with
  | Some ps => all_some (map (fun ip => write_pom ps (fst ip) (snd ip)) (indexed O c))
  | None => None
  end.

(* ------------------------------------------------------------------ spec: effective versions *)
(* Maven, with the declaration's own profile in effect: a property of the same profile (same pom)
   first, then the project-level properties of the chain, closest descendant first; inside one block
   the last definition of a name counts. *)
Definition find_last {A} (f : A -> bool) (l : list A) : option A := find f (rev l).

Definition profile_scope (origin : bytes) : bytes :=
  if prefixb PROFILE origin then cut_suffix AT_MANAGEMENT origin else [].

Fixpoint first_some {A B} (f : A -> option B) (l : list A) : option B :=
  match l with
  | [] => None
  | x :: r => match f x with Some y => Some y | None => first_some f r end
  end.

(* only the property definitions matter: one list per pom of the chain *)
Definition props_of (c : chain) : list (list pdef) := map pm_props c.

Definition is_def (scope name : bytes) (f : pdef) : bool := beq (pf_origin f) scope && beq (pf_name f) name.
Definition has_def (ps : list pdef) (scope name : bytes) : bool := existsb (is_def scope name) ps.
Definition block_value (ps : list pdef) (scope name : bytes) : option bytes :=
  option_map pf_val (find_last (is_def scope name) ps).

(* where the definition in effect for `name` sits, for a declaration of pom i with the given origin:
   (pom number, scope) *)
Definition resolve_def (pp : list (list pdef)) (i : nat) (origin name : bytes) : option (nat * bytes) :=
  if negb (is_nil (profile_scope origin)) && has_def (nth i pp []) (profile_scope origin) name
  then Some (i, profile_scope origin)
  else first_some (fun jq => if has_def (snd jq) [] name then Some (fst jq, @nil N) else None) (indexed O pp).

Definition resolve (pp : list (list pdef)) (i : nat) (origin name : bytes) : option bytes :=
  match resolve_def pp i origin name with
  | Some (j, sc) => block_value (nth j pp []) sc name
  | None => None
  end.

(* the version text with its placeholders replaced (unresolved ones stay) *)
Definition interpolate (f : bytes -> option bytes) (s : bytes) : bytes :=
  flat_map (fun ln => fst ln ++ match f (snd ln) with Some v => v | None => DB ++ snd ln ++ RB end)
           (fst (parse s)) ++ snd (parse s).

Definition eff (c : chain) (i : nat) (d : decl) : bytes :=
  interpolate (resolve (props_of c) i (dl_origin d)) (dl_ver d).

(* (pom number, origin, key, effective version) of every declaration *)
Definition eff_all (c : chain) : list (nat * bytes * bytes * bytes) :=
  flat_map (fun ip => map (fun d => (fst ip, dl_origin d, dl_key d, eff c (fst ip) d)) (pm_decls (snd ip))) (indexed O c).

Definition addresses (u : pupd) (i : nat) (d : decl) : bool :=
  Nat.eqb (pu_pom u) i && beq (pu_origin u) (dl_origin d) && beq (pu_key u) (dl_key d).

(* what the property asks for: exactly the addressed declarations stand for VersionTo *)
Definition want_all (c : chain) (ups : list pupd) : list (nat * bytes * bytes * bytes) :=
  flat_map (fun ip => map (fun d => (fst ip, dl_origin d, dl_key d,
                                      match find (fun u => addresses u (fst ip) d) ups with
                                      | Some u => pu_to u
                                      | None => eff c (fst ip) d
                                      end)) (pm_decls (snd ip))) (indexed O c).

Fixpoint beq4 (a b : list (nat * bytes * bytes * bytes)) : bool :=
  match a, b with
  | [], [] => true
  | (i, o, k, v) :: a', (j, o', k', v') :: b' => Nat.eqb i j && beq o o' && beq k k' && beq v v' && beq4 a' b'
  | _, _ => false
  end.

Definition decl_spec_ok (c : chain) (ups : list pupd) (c' : chain) : bool :=
  beq4 (eff_all c') (want_all c ups).

(* every update is addressed to a declaration that exists *)
Definition addressed_decl (c : chain) (u : pupd) : bool :=
  existsb (fun ip => existsb (fun d => addresses u (fst ip) d && negb (is_nil (dl_ver d)) && dl_listed d)
                             (pm_decls (snd ip))) (indexed O c).

(* ------------------------------------------------------------------ the domain D of the exactness theorem *)
(* every declaration with the number of its pom *)
Definition all_decls (c : chain) : list (nat * decl) :=
  flat_map (fun ip => map (fun d => (fst ip, d)) (pm_decls (snd ip))) (indexed O c).

Definition count_key (c : chain) (key : bytes) : nat :=
  length (filter (fun id => beq key (dl_key (snd id)) && negb (is_nil (dl_ver (snd id)))) (all_decls c)).

Definition no_placeholder (s : bytes) : bool := negb (contains DB s).

(* an update ADDS a managed dependency when no declaration of the chain carries its key with a version *)
Definition declared (c : chain) (key : bytes) : bool :=
  existsb (fun id => beq key (dl_key (snd id)) && negb (is_nil (dl_ver (snd id)))) (all_decls c).
Definition is_add (c : chain) (u : pupd) : bool := negb (declared c (pu_key u)).

Definition is_added_entry (c : chain) (ups : list pupd) (e : nat * bytes * bytes * bytes) : bool :=
  match e with
  | (i, o, k, _) => Nat.eqb i 0 && beq o MANAGEMENT && existsb (fun u => is_add c u && beq (pu_key u) k) ups
  end.

Definition entry_eqb (a b : nat * bytes * bytes * bytes) : bool := beq4 [a] [b].

(* the spec with added entries: apart from them every declaration is as decl_spec_ok wants it, and every added
   requirement is a project-level "management" declaration of the main pom standing for VersionTo *)
Definition decl_spec_all (c : chain) (ups : list pupd) (c' : chain) : bool :=
  beq4 (filter (fun e => negb (is_added_entry c ups e)) (eff_all c')) (want_all c ups) &&
  forallb (fun u => negb (is_add c u) ||
                    existsb (entry_eqb (O, MANAGEMENT, pu_key u, pu_to u)) (eff_all c')) ups.

(* D_add: the update adds a managed dependency: its key is declared nowhere with a version, it addresses no
   declaration, the main pom has no (version-less) "management" declaration of that key and no empty
   <dependencyManagement><dependencies/> (known finding), VersionTo is literal *)
Definition d_add (c : chain) (u : pupd) : bool :=
  is_add c u && no_placeholder (pu_to u) &&
  negb (existsb (fun id => addresses u (fst id) (snd id)) (all_decls c)) &&
  match c with
  | p :: _ => negb (existsb (fun d => beq (dl_origin d) MANAGEMENT && beq (dl_key d) (pu_key u)) (pm_decls p)) &&
              negb (pm_empty_mgmt p)
  | [] => false
  end.

(* well-formed chains: what every chain read from real pom files satisfies. Parent paths are non-empty,
   free of "@" and pairwise different; an origin does not start with "parent@"; inside one pom no two
   declarations share origin and key (Maven rejects duplicate declarations in one block); one <parent>. *)
Fixpoint pair_nodup (l : list (bytes * bytes)) : bool :=
  match l with
  | [] => true
  | (a, b) :: r => negb (existsb (fun ab => beq (fst ab) a && beq (snd ab) b) r) && pair_nodup r
  end.

Definition path_ok (s : bytes) : bool := negb (is_nil s) && negb (existsb (N.eqb AT) s).
Definition origin_ok (o : bytes) : bool := negb (prefixb (PARENT ++ [AT]) o).

Definition pom_wf (p : pom) : bool :=
  pair_nodup (map (fun d => (dl_origin d, dl_key d)) (pm_decls p)) &&
  forallb (fun d => origin_ok (dl_origin d)) (pm_decls p) &&
  Nat.leb (length (filter (fun d => beq (dl_origin d) PARENT) (pm_decls p))) 1.

Definition chain_wf (c : chain) : bool :=
  forallb pom_wf c && forallb (fun p => path_ok (pm_path p)) (tl c) && nodupb (map pm_path (tl c)).


(* D_lit: any number of updates; pairwise different keys; every key is declared exactly once in the
   chain (version non-empty) and that declaration is the addressed one and is listed; the declared
   version and VersionTo contain no "${"; no declaration of the chain is the <parent> reference
   with two updates (implied by distinct keys: one <parent> per pom), and updates do not address it
   unless the key is unique. *)
Definition d_lit (c : chain) (ups : list pupd) : bool :=
  chain_wf c && nodupb (map pu_key ups) &&
  forallb (fun u => addressed_decl c u && Nat.eqb (count_key c (pu_key u)) 1 && no_placeholder (pu_to u) &&
                    match original_dependency c (pu_key u) with
                    | Some (_, d) => no_placeholder (dl_ver d)
                    | None => false
                    end) ups.

(* number of declarations one of whose placeholders `name` resolves to the definition (j, scope) *)
Definition uses (pp : list (list pdef)) (j : nat) (scope name : bytes) (id : nat * decl) : bool :=
  mem name (names (dl_ver (snd id))) &&
  match resolve_def pp (fst id) (dl_origin (snd id)) name with
  | Some (j', sc) => Nat.eqb j' j && beq sc scope
  | None => false
  end.

Definition users (c : chain) (j : nat) (scope name : bytes) : nat :=
  length (filter (uses (props_of c) j scope name) (all_decls c)).

(* the scope buildPatches files the property patch under, for the declaration (pom i, origin) *)
Definition written_scope (c : chain) (origin name : bytes) : bytes :=
  property_origin c (if prefixb PROFILE origin then cut_suffix AT_MANAGEMENT origin else []) name.

(* the per-update condition of D_full: as d_lit, but a declared version may use ${properties}: then, when
   generatePropertyPatches succeeds, for every placeholder the definition in effect sits in the declaring pom, in
   the block buildPatches writes to, and no other declaration of the chain uses it *)
Definition d_upd (c : chain) (u : pupd) : bool :=
    addressed_decl c u && Nat.eqb (count_key c (pu_key u)) 1 && no_placeholder (pu_to u) &&
    match original_dependency c (pu_key u) with
    | Some (_, d) =>
      if negb (contains_property (dl_ver d)) then no_placeholder (dl_ver d)
      else match generate_property_patches (dl_ver d) (pu_to u) with
           | Ok (_, true) =>
             forallb (fun n => match resolve_def (props_of c) (pu_pom u) (pu_origin u) n with
                               | Some (j, sc) => Nat.eqb j (pu_pom u) && beq sc (written_scope c (pu_origin u) n) &&
                                                 Nat.eqb (users c j sc n) 1
                               | None => false
                               end) (names (dl_ver d))
           | Ok (_, false) => true
           | _ => false
           end
    | None => false
    end.

(* D_full, the domain the oracle claims: every update satisfies d_upd or adds a managed dependency (d_add) *)
Definition d_full (c : chain) (ups : list pupd) : bool :=
  chain_wf c && nodupb (map pu_key ups) && forallb (fun u => d_upd c u || d_add c u) ups.

(* D_multi: D_full without repeated placeholder names in an updated ${property} version (several updates at
   once, literal versions, ${property} versions and added managed dependencies mixed) *)
Definition prop_names_nodup (c : chain) (u : pupd) : bool :=
  match original_dependency c (pu_key u) with
  | Some (_, d) =>
    if contains_property (dl_ver d)
    then match generate_property_patches (dl_ver d) (pu_to u) with Ok (_, true) => nodupb (names (dl_ver d)) | _ => true end
    else true
  | None => true
  end.

Definition d_multi (c : chain) (ups : list pupd) : bool :=
  chain_wf c && nodupb (map pu_key ups) &&
  forallb (fun u => (d_upd c u && prop_names_nodup c u) || d_add c u) ups.

(* D_prop: ONE update of a ${property} version on which generatePropertyPatches succeeds, no placeholder
   name twice in the version; otherwise as d_upd. *)
Definition d_prop (c : chain) (u : pupd) : bool :=
  chain_wf c && d_upd c u &&
  match original_dependency c (pu_key u) with
  | Some (_, d) => contains_property (dl_ver d) && nodupb (names (dl_ver d)) &&
                   match generate_property_patches (dl_ver d) (pu_to u) with Ok (_, true) => true | _ => false end
  | None => false
  end.

(* ------------------------------------------------------------------ correspondence record *)
Inductive dobs := DObsOk (c' : chain) | DObsErr | DObsPanic.

(* inputs on which the Go code is deterministic and the model is the code: two dependency patches with one
   (path, origin, key) and different versions are applied in Go map order *)
Definition dep_conflict_free (ps : list patch) : bool :=
  forallb (fun p => match p with
                    | DepPatch pa o k t _ =>
                      forallb (fun q => match q with
                                        | DepPatch pa' o' k' t' _ => negb (beq pa pa' && beq o o' && beq k k') || beq t t'
                                        | PropPatch _ _ _ _ => true
                                        end) ps
                    | PropPatch _ _ _ _ => true
                    end) ps.

Definition chain_frag (c : chain) (ups : list pupd) : bool :=
  match build_patches c [] ups with
  | Some ps => dep_conflict_free ps
  | None => true
  end.

Fixpoint decl_eqb (a b : list decl) : bool :=
  match a, b with
  | [], [] => true
  | x :: a', y :: b' => beq (dl_origin x) (dl_origin y) && beq (dl_key x) (dl_key y) && beq (dl_ver x) (dl_ver y) && decl_eqb a' b'
  | _, _ => false
  end.

Fixpoint pdef_eqb (a b : list pdef) : bool :=
  match a, b with
  | [], [] => true
  | x :: a', y :: b' => beq (pf_origin x) (pf_origin y) && beq (pf_name x) (pf_name y) && beq (pf_val x) (pf_val y) && pdef_eqb a' b'
  | _, _ => false
  end.

Fixpoint chain_eqb (a b : chain) : bool :=
  match a, b with
  | [], [] => true
  | p :: a', q :: b' => beq (pm_path p) (pm_path q) && decl_eqb (pm_decls p) (pm_decls q) &&
                        pdef_eqb (pm_props p) (pm_props q) && chain_eqb a' b'
  | _, _ => false
  end.

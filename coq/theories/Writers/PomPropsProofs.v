(* Proofs about generatePropertyPatches (model in PomProps.v). *)
From Coq Require Import List ZArith NArith Bool Lia PeanoNat.
From Scalibr Require Import Writers.GoBytes Writers.GoBytesProofs Writers.PomProps.
Import ListNotations.
Open Scope Z_scope.

(* ------------------------------------------------------------------ the scanner *)
Lemma is_db_spec s r : is_db s = Some r <-> prefixb DB s = true /\ r = skipn 2 s.
Proof.
  unfold is_db, DB. destruct s as [|a [|b t]]; cbn [prefixb skipn].
  - split; [discriminate|intros [H _]; discriminate].
  - rewrite andb_false_r. split; [discriminate|intros [H _]; discriminate].
  - rewrite (N.eqb_sym 36 a), (N.eqb_sym 123 b), andb_true_r.
    destruct (N.eqb a 36 && N.eqb b 123); split.
    + intros H; inversion H; auto.
    + intros [_ ->]. reflexivity.
    + discriminate.
    + intros [H _]. discriminate.
Qed.

Lemma is_db_none s : is_db s = None <-> prefixb DB s = false.
Proof.
  destruct (is_db s) eqn:E.
  - apply is_db_spec in E as [E _]. rewrite E. split; discriminate.
  - split; auto. intros _. destruct (prefixb DB s) eqn:E'; auto.
    assert (is_db s = Some (skipn 2 s)) by (apply is_db_spec; auto). congruence.
Qed.

Lemma split_brace_len b n a : split_brace b = Some (n, a) -> length b = (length n + 1 + length a)%nat.
Proof.
  revert n a; induction b as [|c b IH]; simpl; intros n a H; [discriminate|].
  destruct (N.eqb c 125).
  - inversion H; subst. simpl. lia.
  - destruct (split_brace b) as [[n' a']|]; [|discriminate]. inversion H; subst.
    simpl. rewrite (IH n' a eq_refl). lia.
Qed.

Lemma prepend_prepend a b p : prepend a (prepend b p) = prepend (a ++ b) p.
Proof.
  unfold prepend. destruct p as [[|[l0 n] t] rem]; simpl.
  - rewrite app_assoc. reflexivity.
  - rewrite app_assoc. reflexivity.
Qed.

Lemma prepend_nil p : prepend [] p = p.
Proof. unfold prepend. destruct p as [[|[l0 n] t] rem]; reflexivity. Qed.

Lemma parse_fuel_indep f1 : forall f2 s, (length s <= f1)%nat -> (length s <= f2)%nat ->
  parse_fuel f1 s = parse_fuel f2 s.
Proof.
  induction f1 as [|f1 IH]; intros f2 s H1 H2.
  - destruct s; [|simpl in H1; lia]. destruct f2; reflexivity.
  - destruct f2 as [|f2].
    + destruct s; [reflexivity|simpl in H2; lia].
    + destruct s as [|c r]; [reflexivity|]. cbn [parse_fuel].
      destruct (is_db (c :: r)) as [body|] eqn:E.
      * destruct (split_brace body) as [[name after]|] eqn:E2; [|reflexivity].
        apply is_db_spec in E as [_ E]. apply split_brace_len in E2.
        assert (length body <= length r)%nat.
        { subst body. destruct r; simpl; [lia|]. lia. }
        simpl in H1, H2.
        rewrite (IH f2 after) by lia. reflexivity.
      * simpl in H1, H2. rewrite (IH f2 r) by lia. reflexivity.
Qed.

Lemma parse_cons c r : is_db (c :: r) = None -> parse (c :: r) = prepend [c] (parse r).
Proof.
  intros H. unfold parse. cbn [length parse_fuel]. rewrite H. reflexivity.
Qed.

Lemma parse_db s body name after :
  is_db s = Some body -> split_brace body = Some (name, after) ->
  parse s = (([], name) :: fst (parse after), snd (parse after)).
Proof.
  intros H1 H2. unfold parse. destruct s as [|c r]; [discriminate|].
  cbn [length parse_fuel]. rewrite H1, H2.
  apply is_db_spec in H1 as [_ H1]. apply split_brace_len in H2.
  assert (length after <= length r)%nat.
  { assert (length body <= length r)%nat by (subst body; destruct r; simpl; lia). lia. }
  rewrite (parse_fuel_indep (length r) (length after) after) by lia. reflexivity.
Qed.

Lemma parse_nil : parse [] = ([], []).
Proof. reflexivity. Qed.

Lemma parse_skip i : forall s, (i <= length s)%nat ->
  (forall j, (j < i)%nat -> prefixb DB (skipn j s) = false) ->
  parse s = prepend (firstn i s) (parse (skipn i s)).
Proof.
  induction i as [|i IH]; intros s Hl H.
  - simpl. rewrite prepend_nil. reflexivity.
  - destruct s as [|c r]; [simpl in Hl; lia|].
    rewrite parse_cons.
    + rewrite (IH r).
      * rewrite prepend_prepend. reflexivity.
      * simpl in Hl. lia.
      * intros j Hj. apply (H (S j)). lia.
    + apply is_db_none. apply (H 0%nat). lia.
Qed.

Lemma parse_no_db s : index_nat DB s = None -> parse s = ([], s).
Proof.
  intros H. rewrite (parse_skip (length s) s); [|lia|intros j _; apply index_nat_none; exact H].
  rewrite skipn_all, firstn_all. unfold prepend. simpl. rewrite app_nil_r. reflexivity.
Qed.

Lemma split_brace_index s e :
  index_nat RB s = Some e -> split_brace s = Some (firstn e s, skipn (S e) s).
Proof.
  revert e; induction s as [|c s IH]; intros e H.
  - simpl in H. discriminate.
  - unfold RB in *. cbn [index_nat prefixb] in H. cbn [split_brace]. rewrite andb_true_r in H.
    rewrite (N.eqb_sym c 125). destruct (N.eqb 125 c) eqn:E.
    + inversion H; subst e. reflexivity.
    + destruct (index_nat [125%N] s) as [e'|]; [|discriminate]. inversion H; subst.
      rewrite (IH e' eq_refl). reflexivity.
Qed.

(* one step of the scanner, stated with the positions the Go code computes *)
Lemma parse_step s i e :
  index_nat DB s = Some i -> index_nat RB s = Some e -> (i + 2 <= e)%nat ->
  parse s = ((firstn i s, firstn (e - i - 2) (skipn (i + 2) s)) :: fst (parse (skipn (S e) s)),
             snd (parse (skipn (S e) s))).
Proof.
  intros Hi He Hle.
  pose proof (index_nat_some _ _ _ Hi) as (P1 & P2 & P3).
  rewrite (parse_skip i s P3 P2).
  assert (Hdb : is_db (skipn i s) = Some (skipn (i + 2) s)).
  { apply is_db_spec. split; auto. rewrite skipn_skipn. f_equal. lia. }
  pose proof (index_nat_skip _ _ _ (i + 2)%nat He ltac:(lia)) as Hrb.
  apply split_brace_index in Hrb.
  rewrite skipn_skipn in Hrb. replace (S (e - (i + 2)) + (i + 2))%nat with (S e) in Hrb by lia.
  rewrite (parse_db _ _ _ _ Hdb Hrb).
  unfold prepend. simpl. rewrite app_nil_r. replace (e - (i + 2))%nat with (e - i - 2)%nat by lia.
  reflexivity.
Qed.

Lemma subst_step ps s i e :
  index_nat DB s = Some i -> index_nat RB s = Some e -> (i + 2 <= e)%nat ->
  subst ps s = firstn i s ++ value_of ps (firstn (e - i - 2) (skipn (i + 2) s)) ++ subst ps (skipn (S e) s).
Proof.
  intros Hi He Hle. unfold subst at 1. rewrite (parse_step s i e Hi He Hle). simpl.
  unfold subst. rewrite <- !app_assoc. reflexivity.
Qed.

Lemma names_step s i e :
  index_nat DB s = Some i -> index_nat RB s = Some e -> (i + 2 <= e)%nat ->
  names s = firstn (e - i - 2) (skipn (i + 2) s) :: names (skipn (S e) s).
Proof.
  intros Hi He Hle. unfold names at 1. rewrite (parse_step s i e Hi He Hle). reflexivity.
Qed.

Lemma subst_no_db ps s : index_nat DB s = None -> subst ps s = s.
Proof. intros H. unfold subst. rewrite (parse_no_db s H). reflexivity. Qed.

Lemma names_no_db s : index_nat DB s = None -> names s = [].
Proof. intros H. unfold names. rewrite (parse_no_db s H). reflexivity. Qed.

(* ------------------------------------------------------------------ one step of the Go function *)
(* what a successful, non-panicking evaluation of the common prefix of the function body tells us *)
Record step_facts (s1 s2 : bytes) (i e : nat) : Prop := {
  sf_db : index_nat DB s1 = Some i;
  sf_rb : index_nat RB s1 = Some e;
  sf_le : (i + 2 <= e)%nat;
  sf_e_len : (e < length s1)%nat;
  sf_i_len2 : (i <= length s2)%nat;
  sf_prefix : firstn i s1 = firstn i s2 }.

Ltac inv_bind H a Ha := apply bind_ok in H as (a & Ha & H).

Lemma index_rb_lt s e : index_nat RB s = Some e -> (e < length s)%nat.
Proof.
  intros H. apply index_nat_some in H as (H1 & _ & H3).
  apply prefixb_spec in H1 as [_ H1]. rewrite skipn_length in H1. simpl in H1. lia.
Qed.

Lemma name_slice_facts s1 s2 start e p1 p2 name :
  start = index DB s1 -> slice_to s1 start = Ok p1 -> slice_to s2 start = Ok p2 -> beq p1 p2 = true ->
  e = index RB s1 -> slice s1 (start + 2) e = Ok name ->
  exists i en, start = Z.of_nat i /\ e = Z.of_nat en /\ step_facts s1 s2 i en /\
               name = firstn (en - i - 2) (skipn (i + 2) s1).
Proof.
  intros Hs H1 H2 Hb He Hn.
  apply slice_to_ok in H1 as (A1 & A2 & A3). apply slice_to_ok in H2 as (B1 & B2 & B3).
  apply slice_ok in Hn as (C1 & C2 & C3 & C4).
  destruct (index_ge0 DB s1) as (i & Hi & Hi'); [lia|].
  destruct (index_ge0 RB s1) as (en & Hen & Hen'); [lia|].
  exists i, en. rewrite <- Hs in Hi'. rewrite <- He in Hen'.
  repeat split; auto; try lia.
  - apply index_rb_lt. exact Hen.
  - unfold len in B2. lia.
  - apply beq_eq in Hb. rewrite A3, B3, Hi', Nat2Z.id in Hb. exact Hb.
  - subst name. f_equal; [lia|]. f_equal. lia.
Qed.

(* ------------------------------------------------------------------ the map *)
Definition ext (acc acc' : assignments) : Prop :=
  forall n v, lookup_last n acc = Some v -> lookup_last n acc' = Some v.

Lemma ext_refl acc : ext acc acc. Proof. intros n v H; exact H. Qed.
Lemma ext_trans a b c : ext a b -> ext b c -> ext a c.
Proof. intros H1 H2 n v H. apply H2, H1, H. Qed.

Lemma lookup_last_snoc (acc : assignments) name v n :
  lookup_last n (acc ++ [(name, v)]) = if beq n name then Some v else lookup_last n acc.
Proof. unfold lookup_last. rewrite rev_app_distr. reflexivity. Qed.

Lemma pset_some name v acc acc' :
  pset name v acc = Some acc' -> ext acc acc' /\ lookup_last name acc' = Some v.
Proof.
  unfold pset. destruct (lookup_last name acc) as [pre|] eqn:E.
  - destruct (beq pre v) eqn:Eb; [|discriminate]. intros H; inversion H; subst. apply beq_eq in Eb. subst pre.
    split.
    + intros n w Hn. rewrite lookup_last_snoc. destruct (beq n name) eqn:En; auto.
      apply beq_eq in En. subst. congruence.
    + rewrite lookup_last_snoc, beq_refl. reflexivity.
  - intros H; inversion H; subst. split.
    + intros n w Hn. rewrite lookup_last_snoc. destruct (beq n name) eqn:En; auto.
      apply beq_eq in En. subst. congruence.
    + rewrite lookup_last_snoc, beq_refl. reflexivity.
Qed.

(* ------------------------------------------------------------------ soundness (full strength) *)
Lemma gpp_aux_sound fuel : forall s1 s2 acc acc',
  gpp_aux fuel s1 s2 acc = Ok (acc', true) -> ext acc acc' /\ subst acc' s1 = s2.
Proof.
  induction fuel as [|fuel IH]; intros s1 s2 acc acc' H; [discriminate|].
  cbn [gpp_aux] in H.
  destruct ((index DB s1 <? 0) || (len s2 <? index DB s1)); [discriminate|].
  inv_bind H p1 Hp1. inv_bind H p2 Hp2.
  destruct (beq p1 p2) eqn:Hb; simpl negb in H; cbv iota in H; [|discriminate].
  destruct (index RB s1 <? index DB s1 + 2); [discriminate|].
  inv_bind H t Ht.
  destruct (index DB t <? 0) eqn:Hnext.
  - (* last placeholder *)
    destruct (len t <=? len s2 - index DB s1); [|discriminate].
    inv_bind H sfx Hsfx.
    destruct (beq t sfx) eqn:Hts; [|discriminate].
    inv_bind H name Hname. inv_bind H v Hv.
    destruct (pset name v acc) as [acc1|] eqn:Hset; [|discriminate]. inversion H; subst acc1; clear H.
    destruct (pset_some _ _ _ _ Hset) as [Hext Hlk].
    destruct (name_slice_facts _ _ _ _ _ _ _ eq_refl Hp1 Hp2 Hb eq_refl Hname)
      as (i & en & Ei & Ee & F & En).
    destruct F as [Fdb Frb Fle Felen Filen Fpre].
    apply slice_from_ok in Ht as (T1 & T2 & T3). rewrite Ee in T3.
    replace (Z.to_nat (Z.of_nat en + 1)) with (S en) in T3 by lia.
    apply slice_from_ok in Hsfx as (S1 & S2 & S3).
    apply beq_eq in Hts. apply Z.ltb_lt in Hnext. apply index_lt0 in Hnext.
    apply slice_ok in Hv as (V1 & V2 & V3 & V4).
    split; [exact Hext|].
    rewrite (subst_step acc' s1 i en Fdb Frb Fle), <- En, <- T3, (subst_no_db acc' t Hnext).
    unfold value_of. rewrite Hlk.
    rewrite Fpre.
    transitivity (firstn i s2 ++ skipn i s2); [|apply firstn_skipn]. f_equal.
    rewrite Ei in V4. rewrite Nat2Z.id in V4.
    rewrite (skipn_firstn_split s2 i (Z.to_nat (len s2 - len t - Z.of_nat i))).
    rewrite <- V4. f_equal.
    rewrite Hts at 1. rewrite S3. f_equal. unfold len in *. lia.
  - (* a further placeholder follows *)
    inv_bind H needle Hneedle. inv_bind H h Hh.
    destruct (0 <? index needle h) eqn:Hm; [|discriminate].
    inv_bind H name Hname. inv_bind H v Hv.
    destruct (pset name v acc) as [acc1|] eqn:Hset; [|discriminate].
    inv_bind H s1' Hs1'. inv_bind H s2' Hs2'.
    destruct (pset_some _ _ _ _ Hset) as [Hext Hlk].
    destruct (IH s1' s2' acc1 acc' H) as [IHe IHs].
    destruct (name_slice_facts _ _ _ _ _ _ _ eq_refl Hp1 Hp2 Hb eq_refl Hname)
      as (i & en & Ei & Ee & F & En).
    destruct F as [Fdb Frb Fle Felen Filen Fpre].
    apply slice_from_ok in Hs1' as (T1 & T2 & T3). rewrite Ee in T3.
    replace (Z.to_nat (Z.of_nat en + 1)) with (S en) in T3 by lia.
    apply Z.ltb_lt in Hm.
    apply slice_ok in Hv as (V1 & V2 & V3 & V4).
    apply slice_from_ok in Hs2' as (U1 & U2 & U3).
    split; [apply (ext_trans _ _ _ Hext IHe)|].
    rewrite (subst_step acc' s1 i en Fdb Frb Fle), <- En, <- T3.
    unfold value_of. rewrite (IHe name v Hlk). rewrite IHs.
    rewrite Fpre.
    transitivity (firstn i s2 ++ skipn i s2); [|apply firstn_skipn]. f_equal.
    rewrite Ei in V4, U3. rewrite Nat2Z.id in V4.
    rewrite (skipn_firstn_split s2 i (Z.to_nat (index needle h))).
    replace (Z.of_nat i + index needle h - Z.of_nat i) with (index needle h) in V4 by lia.
    rewrite <- V4. f_equal. rewrite U3. f_equal. lia.
Qed.

Lemma prop_patches_sound_lemma s1 s2 ps :
  generate_property_patches s1 s2 = Ok (ps, true) -> subst ps s1 = s2.
Proof. unfold generate_property_patches. intros H. apply (gpp_aux_sound _ _ _ _ _ H). Qed.

(* ------------------------------------------------------------------ no panic (full strength) *)
Lemma index_bounds n s : -1 <= index n s <= len s.
Proof.
  unfold index, len. destruct (index_nat n s) as [i|] eqn:E; [|lia].
  apply index_nat_some in E as (_ & _ & H). lia.
Qed.

Lemma index_rb_lt_len s : 0 <= index RB s -> index RB s < len s.
Proof.
  intros H. destruct (index_ge0 RB s H) as (i & Hi & ->). apply index_rb_lt in Hi. unfold len. lia.
Qed.

Lemma slice_len s lo hi x : slice s lo hi = Ok x -> len x = hi - lo.
Proof.
  intros H. apply slice_ok in H as (H1 & H2 & H3 & ->). unfold len in *.
  rewrite firstn_length, skipn_length. lia.
Qed.

Lemma gpp_aux_total fuel : forall s1 s2 acc, gpp_aux fuel s1 s2 acc <> Panic.
Proof.
  induction fuel as [|fuel IH]; intros s1 s2 acc; [discriminate|].
  cbn [gpp_aux].
  pose proof (index_bounds DB s1) as Bs.
  destruct ((index DB s1 <? 0) || (len s2 <? index DB s1)) eqn:G1; [discriminate|].
  apply orb_false_iff in G1 as [G1 G2]. apply Z.ltb_ge in G1, G2.
  unfold slice_to at 1. rewrite slice_in_range by lia. cbn [bind].
  unfold slice_to at 1. rewrite slice_in_range by lia. cbn [bind].
  match goal with |- (if ?c then _ else _) <> _ => destruct c end; [discriminate|].
  destruct (index RB s1 <? index DB s1 + 2) eqn:G3; [discriminate|]. apply Z.ltb_ge in G3.
  pose proof (index_rb_lt_len s1 ltac:(lia)) as Be.
  destruct (slice_from s1 (index RB s1 + 1)) as [t| |] eqn:Ht.
  2:{ unfold slice_from in Ht. rewrite slice_in_range in Ht by lia. discriminate. }
  2:{ unfold slice_from, slice in Ht. destruct (_ && _); discriminate. }
  cbn [bind].
  assert (Lt : len t = len s1 - (index RB s1 + 1)) by (apply (slice_len _ _ _ _ Ht)).
  pose proof (index_bounds DB t) as Bn.
  destruct (index DB t <? 0) eqn:G4.
  - destruct (len t <=? len s2 - index DB s1) eqn:G5; [|discriminate]. apply Z.leb_le in G5.
    assert (0 <= len t) by (unfold len; lia).
    unfold slice_from at 1. rewrite slice_in_range by lia. cbn [bind].
    match goal with |- (if ?c then _ else _) <> _ => destruct c end; [|discriminate].
    rewrite slice_in_range by lia. cbn [bind].
    rewrite slice_in_range by lia. cbn [bind].
    destruct (pset _ _ acc); discriminate.
  - apply Z.ltb_ge in G4.
    rewrite slice_in_range by lia. cbn [bind].
    destruct (slice_from s2 (index DB s1)) as [h| |] eqn:Hh.
    2:{ unfold slice_from in Hh. rewrite slice_in_range in Hh by lia. discriminate. }
    2:{ unfold slice_from, slice in Hh. destruct (_ && _); discriminate. }
    cbn [bind].
    assert (Lh : len h = len s2 - index DB s1) by (apply (slice_len _ _ _ _ Hh)).
    match goal with |- context [index ?nd h] => set (needle := nd) end.
    pose proof (index_bounds needle h) as Bm.
    destruct (0 <? index needle h) eqn:G6; [|discriminate]. apply Z.ltb_lt in G6.
    rewrite slice_in_range by lia. cbn [bind].
    rewrite slice_in_range by lia. cbn [bind].
    destruct (pset _ _ acc) as [acc1|]; [|discriminate].
    unfold slice_from at 1. rewrite slice_in_range by lia. cbn [bind].
    apply IH.
Qed.

Lemma prop_patches_total_lemma s1 s2 : generate_property_patches s1 s2 <> Panic.
Proof. apply gpp_aux_total. Qed.

(* ------------------------------------------------------------------ fuel *)
Lemma gpp_aux_fuel fuel : forall s1 s2 acc, (length s1 < fuel)%nat -> gpp_aux fuel s1 s2 acc <> OutOfFuel.
Proof.
  induction fuel as [|fuel IH]; intros s1 s2 acc Hl; [lia|].
  cbn [gpp_aux].
  pose proof (index_bounds DB s1) as Bs.
  destruct ((index DB s1 <? 0) || (len s2 <? index DB s1)) eqn:G1; [discriminate|].
  apply orb_false_iff in G1 as [G1 G2]. apply Z.ltb_ge in G1, G2.
  unfold slice_to at 1. rewrite slice_in_range by lia. cbn [bind].
  unfold slice_to at 1. rewrite slice_in_range by lia. cbn [bind].
  match goal with |- (if ?c then _ else _) <> _ => destruct c end; [discriminate|].
  destruct (index RB s1 <? index DB s1 + 2) eqn:G3; [discriminate|]. apply Z.ltb_ge in G3.
  pose proof (index_rb_lt_len s1 ltac:(lia)) as Be.
  destruct (slice_from s1 (index RB s1 + 1)) as [t| |] eqn:Ht.
  2:{ discriminate. }
  2:{ unfold slice_from, slice in Ht. destruct (_ && _); discriminate. }
  cbn [bind].
  assert (Lt : len t = len s1 - (index RB s1 + 1)) by (apply (slice_len _ _ _ _ Ht)).
  pose proof (index_bounds DB t) as Bn.
  destruct (index DB t <? 0) eqn:G4.
  - destruct (len t <=? len s2 - index DB s1) eqn:G5; [|discriminate]. apply Z.leb_le in G5.
    assert (0 <= len t) by (unfold len; lia).
    unfold slice_from at 1. rewrite slice_in_range by lia. cbn [bind].
    match goal with |- (if ?c then _ else _) <> _ => destruct c end; [|discriminate].
    rewrite slice_in_range by lia. cbn [bind].
    rewrite slice_in_range by lia. cbn [bind].
    destruct (pset _ _ acc); discriminate.
  - apply Z.ltb_ge in G4.
    rewrite slice_in_range by lia. cbn [bind].
    destruct (slice_from s2 (index DB s1)) as [h| |] eqn:Hh.
    2:{ discriminate. }
    2:{ unfold slice_from, slice in Hh. destruct (_ && _); discriminate. }
    cbn [bind].
    assert (Lh : len h = len s2 - index DB s1) by (apply (slice_len _ _ _ _ Hh)).
    match goal with |- context [index ?nd h] => set (needle := nd) end.
    pose proof (index_bounds needle h) as Bm.
    destruct (0 <? index needle h) eqn:G6; [|discriminate]. apply Z.ltb_lt in G6.
    rewrite slice_in_range by lia. cbn [bind].
    rewrite slice_in_range by lia. cbn [bind].
    destruct (pset _ _ acc) as [acc1|]; [|discriminate].
    unfold slice_from at 1. rewrite slice_in_range by lia. cbn [bind].
    unfold slice_from in Ht. rewrite slice_in_range in Ht by lia. inversion Ht as [Et].
    apply IH. rewrite firstn_length, skipn_length. unfold len in *. lia.
Qed.

Lemma generate_never_out_of_fuel s1 s2 : generate_property_patches s1 s2 <> OutOfFuel.
Proof. apply gpp_aux_fuel. lia. Qed.

(* ------------------------------------------------------------------ which names get a value *)
Lemma pset_app name v acc acc' : pset name v acc = Some acc' -> acc' = acc ++ [(name, v)].
Proof.
  unfold pset. destruct (lookup_last name acc) as [pre|]; [destruct (beq pre v)|]; intros H; inversion H; reflexivity.
Qed.

Lemma gpp_aux_names fuel : forall s1 s2 acc acc',
  gpp_aux fuel s1 s2 acc = Ok (acc', true) -> exists asg, acc' = acc ++ asg /\ map fst asg = names s1.
Proof.
  induction fuel as [|fuel IH]; intros s1 s2 acc acc' H; [discriminate|].
  cbn [gpp_aux] in H.
  destruct ((index DB s1 <? 0) || (len s2 <? index DB s1)); [discriminate|].
  inv_bind H p1 Hp1. inv_bind H p2 Hp2.
  destruct (beq p1 p2) eqn:Hb; simpl negb in H; cbv iota in H; [|discriminate].
  destruct (index RB s1 <? index DB s1 + 2); [discriminate|].
  inv_bind H t Ht.
  destruct (index DB t <? 0) eqn:Hnext.
  - destruct (len t <=? len s2 - index DB s1); [|discriminate].
    inv_bind H sfx Hsfx.
    destruct (beq t sfx) eqn:Hts; [|discriminate].
    inv_bind H name Hname. inv_bind H v Hv.
    destruct (pset name v acc) as [acc1|] eqn:Hset; [|discriminate]. inversion H; subst acc1; clear H.
    destruct (name_slice_facts _ _ _ _ _ _ _ eq_refl Hp1 Hp2 Hb eq_refl Hname)
      as (i & en & Ei & Ee & F & En).
    destruct F as [Fdb Frb Fle Felen Filen Fpre].
    apply slice_from_ok in Ht as (T1 & T2 & T3). rewrite Ee in T3.
    replace (Z.to_nat (Z.of_nat en + 1)) with (S en) in T3 by lia.
    apply Z.ltb_lt in Hnext. apply index_lt0 in Hnext.
    exists [(name, v)]. split; [apply pset_app; exact Hset|].
    simpl. rewrite (names_step s1 i en Fdb Frb Fle). rewrite <- T3, (names_no_db t Hnext), <- En. reflexivity.
  - inv_bind H needle Hneedle. inv_bind H h Hh.
    destruct (0 <? index needle h) eqn:Hm; [|discriminate].
    inv_bind H name Hname. inv_bind H v Hv.
    destruct (pset name v acc) as [acc1|] eqn:Hset; [|discriminate].
    inv_bind H s1' Hs1'. inv_bind H s2' Hs2'.
    destruct (IH s1' s2' acc1 acc' H) as (asg' & E' & N').
    destruct (name_slice_facts _ _ _ _ _ _ _ eq_refl Hp1 Hp2 Hb eq_refl Hname)
      as (i & en & Ei & Ee & F & En).
    destruct F as [Fdb Frb Fle Felen Filen Fpre].
    apply slice_from_ok in Hs1' as (T1 & T2 & T3). rewrite Ee in T3.
    replace (Z.to_nat (Z.of_nat en + 1)) with (S en) in T3 by lia.
    exists ((name, v) :: asg'). split.
    + rewrite E', (pset_app _ _ _ _ Hset), <- app_assoc. reflexivity.
    + simpl. rewrite (names_step s1 i en Fdb Frb Fle), <- T3, <- En, N'. reflexivity.
Qed.

Lemma generate_names s1 s2 ps :
  generate_property_patches s1 s2 = Ok (ps, true) -> map fst ps = names s1.
Proof.
  unfold generate_property_patches. intros H. destruct (gpp_aux_names _ _ _ _ _ H) as (asg & E & N).
  simpl in E. subst. exact N.
Qed.

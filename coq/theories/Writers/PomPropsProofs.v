(* Proofs about generatePropertyPatches (model in PomProps.v). *)
From Coq Require Import List ZArith NArith Bool Lia PeanoNat.
From Scalibr Require Import Writers.GoBytes Writers.GoBytesProofs Writers.PomProps.
Import ListNotations.
Open Scope Z_scope.

(* ------------------------------------------------------------------ the scanner *)
Lemma is_db_spec s r : is_db s = Some r <-> prefixb DB s = true /\ r = skipn 2 s.
Proof.
  unfold is_db, DB. destruct s as [|a [|b t]]; cbn [prefixb skipn].
  - split; [discriminate|intros [H _]; discriminate].
  - rewrite andb_false_r. split; [discriminate|intros [H _]; discriminate].
  - rewrite (N.eqb_sym 36 a), (N.eqb_sym 123 b), andb_true_r.
    destruct (N.eqb a 36 && N.eqb b 123); split.
    + intros H; inversion H; auto.
    + intros [_ ->]. reflexivity.
    + discriminate.
    + intros [H _]. discriminate.
Qed.

Lemma is_db_none s : is_db s = None <-> prefixb DB s = false.
Proof.
  destruct (is_db s) eqn:E.
  - apply is_db_spec in E as [E _]. rewrite E. split; discriminate.
  - split; auto. intros _. destruct (prefixb DB s) eqn:E'; auto.
    assert (is_db s = Some (skipn 2 s)) by (apply is_db_spec; auto). congruence.
Qed.

Lemma split_brace_len b n a : split_brace b = Some (n, a) -> length b = (length n + 1 + length a)%nat.
Proof.
  revert n a; induction b as [|c b IH]; simpl; intros n a H; [discriminate|].
  destruct (N.eqb c 125).
  - inversion H; subst. simpl. lia.
  - destruct (split_brace b) as [[n' a']|]; [|discriminate]. inversion H; subst.
    simpl. rewrite (IH n' a eq_refl). lia.
Qed.

Lemma prepend_prepend a b p : prepend a (prepend b p) = prepend (a ++ b) p.
Proof.
  unfold prepend. destruct p as [[|[l0 n] t] rem]; simpl.
  - rewrite app_assoc. reflexivity.
  - rewrite app_assoc. reflexivity.
Qed.

Lemma prepend_nil p : prepend [] p = p.
Proof. unfold prepend. destruct p as [[|[l0 n] t] rem]; reflexivity. Qed.

Lemma parse_fuel_indep f1 : forall f2 s, (length s <= f1)%nat -> (length s <= f2)%nat ->
  parse_fuel f1 s = parse_fuel f2 s.
Proof.
  induction f1 as [|f1 IH]; intros f2 s H1 H2.
  - destruct s; [|simpl in H1; lia]. destruct f2; reflexivity.
  - destruct f2 as [|f2].
    + destruct s; [reflexivity|simpl in H2; lia].
    + destruct s as [|c r]; [reflexivity|]. cbn [parse_fuel].
      destruct (is_db (c :: r)) as [body|] eqn:E.
      * destruct (split_brace body) as [[name after]|] eqn:E2; [|reflexivity].
        apply is_db_spec in E as [_ E]. apply split_brace_len in E2.
        assert (length body <= length r)%nat.
        { subst body. destruct r; simpl; [lia|]. lia. }
        simpl in H1, H2.
        rewrite (IH f2 after) by lia. reflexivity.
      * simpl in H1, H2. rewrite (IH f2 r) by lia. reflexivity.
Qed.

Lemma parse_cons c r : is_db (c :: r) = None -> parse (c :: r) = prepend [c] (parse r).
Proof.
  intros H. unfold parse. cbn [length parse_fuel]. rewrite H. reflexivity.
Qed.

Lemma parse_db s body name after :
  is_db s = Some body -> split_brace body = Some (name, after) ->
  parse s = (([], name) :: fst (parse after), snd (parse after)).
Proof.
  intros H1 H2. unfold parse. destruct s as [|c r]; [discriminate|].
  cbn [length parse_fuel]. rewrite H1, H2.
  apply is_db_spec in H1 as [_ H1]. apply split_brace_len in H2.
  assert (length after <= length r)%nat.
  { assert (length body <= length r)%nat by (subst body; destruct r; simpl; lia). lia. }
  rewrite (parse_fuel_indep (length r) (length after) after) by lia. reflexivity.
Qed.

Lemma parse_nil : parse [] = ([], []).
Proof. reflexivity. Qed.

Lemma parse_skip i : forall s, (i <= length s)%nat ->
  (forall j, (j < i)%nat -> prefixb DB (skipn j s) = false) ->
  parse s = prepend (firstn i s) (parse (skipn i s)).
Proof.
  induction i as [|i IH]; intros s Hl H.
  - simpl. rewrite prepend_nil. reflexivity.
  - destruct s as [|c r]; [simpl in Hl; lia|].
    rewrite parse_cons.
    + rewrite (IH r).
      * rewrite prepend_prepend. reflexivity.
      * simpl in Hl. lia.
      * intros j Hj. apply (H (S j)). lia.
    + apply is_db_none. apply (H 0%nat). lia.
Qed.

Lemma parse_no_db s : index_nat DB s = None -> parse s = ([], s).
Proof.
  intros H. rewrite (parse_skip (length s) s); [|lia|intros j _; apply index_nat_none; exact H].
  rewrite skipn_all, firstn_all. unfold prepend. simpl. rewrite app_nil_r. reflexivity.
Qed.

Lemma split_brace_index s e :
  index_nat RB s = Some e -> split_brace s = Some (firstn e s, skipn (S e) s).
Proof.
  revert e; induction s as [|c s IH]; intros e H.
  - simpl in H. discriminate.
  - unfold RB in *. cbn [index_nat prefixb] in H. cbn [split_brace]. rewrite andb_true_r in H.
    rewrite (N.eqb_sym c 125). destruct (N.eqb 125 c) eqn:E.
    + inversion H; subst e. reflexivity.
    + destruct (index_nat [125%N] s) as [e'|]; [|discriminate]. inversion H; subst.
      rewrite (IH e' eq_refl). reflexivity.
Qed.

(* one step of the scanner, stated with the positions the Go code computes *)
Lemma parse_step s i e :
  index_nat DB s = Some i -> index_nat RB s = Some e -> (i + 2 <= e)%nat ->
  parse s = ((firstn i s, firstn (e - i - 2) (skipn (i + 2) s)) :: fst (parse (skipn (S e) s)),
             snd (parse (skipn (S e) s))).
Proof.
  intros Hi He Hle.
  pose proof (index_nat_some _ _ _ Hi) as (P1 & P2 & P3).
  rewrite (parse_skip i s P3 P2).
  assert (Hdb : is_db (skipn i s) = Some (skipn (i + 2) s)).
  { apply is_db_spec. split; auto. rewrite skipn_skipn. f_equal. lia. }
  pose proof (index_nat_skip _ _ _ (i + 2)%nat He ltac:(lia)) as Hrb.
  apply split_brace_index in Hrb.
  rewrite skipn_skipn in Hrb. replace (S (e - (i + 2)) + (i + 2))%nat with (S e) in Hrb by lia.
  rewrite (parse_db _ _ _ _ Hdb Hrb).
  unfold prepend. simpl. rewrite app_nil_r. replace (e - (i + 2))%nat with (e - i - 2)%nat by lia.
  reflexivity.
Qed.

Lemma subst_step ps s i e :
  index_nat DB s = Some i -> index_nat RB s = Some e -> (i + 2 <= e)%nat ->
  subst ps s = firstn i s ++ value_of ps (firstn (e - i - 2) (skipn (i + 2) s)) ++ subst ps (skipn (S e) s).
Proof.
  intros Hi He Hle. unfold subst at 1. rewrite (parse_step s i e Hi He Hle). simpl.
  unfold subst. rewrite <- !app_assoc. reflexivity.
Qed.

Lemma names_step s i e :
  index_nat DB s = Some i -> index_nat RB s = Some e -> (i + 2 <= e)%nat ->
  names s = firstn (e - i - 2) (skipn (i + 2) s) :: names (skipn (S e) s).
Proof.
  intros Hi He Hle. unfold names at 1. rewrite (parse_step s i e Hi He Hle). reflexivity.
Qed.

Lemma subst_no_db ps s : index_nat DB s = None -> subst ps s = s.
Proof. intros H. unfold subst. rewrite (parse_no_db s H). reflexivity. Qed.

Lemma names_no_db s : index_nat DB s = None -> names s = [].
Proof. intros H. unfold names. rewrite (parse_no_db s H). reflexivity. Qed.

(* ------------------------------------------------------------------ one step of the Go function *)
(* what a successful, non-panicking evaluation of the common prefix of the function body tells us *)
Record step_facts (s1 s2 : bytes) (i e : nat) : Prop := {
  sf_db : index_nat DB s1 = Some i;
  sf_rb : index_nat RB s1 = Some e;
  sf_le : (i + 2 <= e)%nat;
  sf_e_len : (e < length s1)%nat;
  sf_i_len2 : (i <= length s2)%nat;
  sf_prefix : firstn i s1 = firstn i s2 }.

Ltac inv_bind H a Ha := apply bind_ok in H as (a & Ha & H).

Lemma index_rb_lt s e : index_nat RB s = Some e -> (e < length s)%nat.
Proof.
  intros H. apply index_nat_some in H as (H1 & _ & H3).
  apply prefixb_spec in H1 as [_ H1]. rewrite skipn_length in H1. simpl in H1. lia.
Qed.

Lemma name_slice_facts s1 s2 start e p1 p2 name :
  start = index DB s1 -> slice_to s1 start = Ok p1 -> slice_to s2 start = Ok p2 -> beq p1 p2 = true ->
  e = index RB s1 -> slice s1 (start + 2) e = Ok name ->
  exists i en, start = Z.of_nat i /\ e = Z.of_nat en /\ step_facts s1 s2 i en /\
               name = firstn (en - i - 2) (skipn (i + 2) s1).
Proof.
  intros Hs H1 H2 Hb He Hn.
  apply slice_to_ok in H1 as (A1 & A2 & A3). apply slice_to_ok in H2 as (B1 & B2 & B3).
  apply slice_ok in Hn as (C1 & C2 & C3 & C4).
  destruct (index_ge0 DB s1) as (i & Hi & Hi'); [lia|].
  destruct (index_ge0 RB s1) as (en & Hen & Hen'); [lia|].
  exists i, en. rewrite <- Hs in Hi'. rewrite <- He in Hen'.
  repeat split; auto; try lia.
  - apply index_rb_lt. exact Hen.
  - unfold len in B2. lia.
  - apply beq_eq in Hb. rewrite A3, B3, Hi', Nat2Z.id in Hb. exact Hb.
  - subst name. f_equal; [lia|]. f_equal. lia.
Qed.

(* ------------------------------------------------------------------ soundness *)
Lemma gpp_aux_sound fuel : forall s1 s2 asg,
  gpp_aux fuel s1 s2 = Ok (asg, true) ->
  map fst asg = names s1 /\
  forall ps, (forall n v, In (n, v) asg -> lookup_last n ps = Some v) -> subst ps s1 = s2.
Proof.
  induction fuel as [|fuel IH]; intros s1 s2 asg H; [discriminate|].
  cbn [gpp_aux] in H.
  inv_bind H p1 Hp1. inv_bind H p2 Hp2.
  destruct (beq p1 p2) eqn:Hb; simpl negb in H; cbv iota in H; [|discriminate].
  inv_bind H t Ht.
  destruct (index DB t <? 0) eqn:Hnext.
  - (* last placeholder *)
    inv_bind H sfx Hsfx.
    destruct (beq t sfx) eqn:Hts; [|discriminate].
    inv_bind H name Hname. inv_bind H v Hv. inversion H; subst asg; clear H.
    destruct (name_slice_facts _ _ _ _ _ _ _ eq_refl Hp1 Hp2 Hb eq_refl Hname)
      as (i & en & Ei & Ee & F & En).
    destruct F as [Fdb Frb Fle Felen Filen Fpre].
    apply slice_from_ok in Ht as (T1 & T2 & T3). rewrite Ee in T3.
    replace (Z.to_nat (Z.of_nat en + 1)) with (S en) in T3 by lia.
    apply slice_from_ok in Hsfx as (S1 & S2 & S3).
    apply beq_eq in Hts. apply Z.ltb_lt in Hnext. apply index_lt0 in Hnext.
    apply slice_ok in Hv as (V1 & V2 & V3 & V4).
    split.
    + simpl. rewrite (names_step s1 i en Fdb Frb Fle). rewrite <- T3, (names_no_db t Hnext), <- En. reflexivity.
    + intros ps Hps.
      rewrite (subst_step ps s1 i en Fdb Frb Fle), <- En, <- T3, (subst_no_db ps t Hnext).
      unfold value_of. rewrite (Hps name v) by (left; reflexivity).
      rewrite Fpre.
      transitivity (firstn i s2 ++ skipn i s2); [|apply firstn_skipn]. f_equal.
      rewrite Ei in V4. rewrite Nat2Z.id in V4.
      rewrite (skipn_firstn_split s2 i (Z.to_nat (len s2 - len t - Z.of_nat i))).
      rewrite <- V4. f_equal.
      rewrite Hts at 1. rewrite S3. f_equal. unfold len in *. lia.
  - (* a further placeholder follows *)
    inv_bind H needle Hneedle. inv_bind H h Hh.
    destruct (0 <? index needle h) eqn:Hm; [|discriminate].
    inv_bind H name Hname. inv_bind H v Hv. inv_bind H s1' Hs1'. inv_bind H s2' Hs2'.
    destruct (gpp_aux fuel s1' s2') as [[asg' ok']| |] eqn:Hrec; try discriminate.
    inversion H; subst asg ok'; clear H.
    destruct (name_slice_facts _ _ _ _ _ _ _ eq_refl Hp1 Hp2 Hb eq_refl Hname)
      as (i & en & Ei & Ee & F & En).
    destruct F as [Fdb Frb Fle Felen Filen Fpre].
    apply slice_from_ok in Hs1' as (T1 & T2 & T3). rewrite Ee in T3.
    replace (Z.to_nat (Z.of_nat en + 1)) with (S en) in T3 by lia.
    apply Z.ltb_lt in Hm.
    apply slice_ok in Hv as (V1 & V2 & V3 & V4).
    apply slice_from_ok in Hs2' as (U1 & U2 & U3).
    destruct (IH s1' s2' asg' Hrec) as [IHn IHs].
    split.
    + simpl. rewrite (names_step s1 i en Fdb Frb Fle), <- T3, <- En, IHn. reflexivity.
    + intros ps Hps.
      rewrite (subst_step ps s1 i en Fdb Frb Fle), <- En, <- T3.
      unfold value_of. rewrite (Hps name v) by (left; reflexivity).
      rewrite (IHs ps) by (intros n0 v0 Hin; apply Hps; right; exact Hin).
      rewrite Fpre.
      transitivity (firstn i s2 ++ skipn i s2); [|apply firstn_skipn]. f_equal.
      rewrite Ei in V4, U3. rewrite Nat2Z.id in V4.
      rewrite (skipn_firstn_split s2 i (Z.to_nat (index needle h))).
      replace (Z.of_nat i + index needle h - Z.of_nat i) with (index needle h) in V4 by lia.
      rewrite <- V4. f_equal. rewrite U3. f_equal. lia.
Qed.

Lemma prop_patches_sound_on_D_lemma s1 s2 ps :
  d_sound s1 = true -> generate_property_patches s1 s2 = Ok (ps, true) -> subst ps s1 = s2.
Proof.
  unfold d_sound, generate_property_patches. intros HD H.
  destruct (gpp_aux_sound _ _ _ _ H) as [Hn Hs].
  apply Hs. intros n v Hin. apply lookup_last_nodup; auto. rewrite Hn. exact HD.
Qed.

(* ------------------------------------------------------------------ fuel *)
Lemma gpp_aux_fuel fuel : forall s1 s2, (length s1 < fuel)%nat -> gpp_aux fuel s1 s2 <> OutOfFuel.
Proof.
  induction fuel as [|fuel IH]; intros s1 s2 Hl; [lia|].
  cbn [gpp_aux].
  destruct (slice_to s1 (index DB s1)) as [p1| |] eqn:Hp1; simpl; try discriminate.
  2:{ unfold slice_to, slice in Hp1. destruct (_ && _); discriminate. }
  destruct (slice_to s2 (index DB s1)) as [p2| |] eqn:Hp2; simpl; try discriminate.
  2:{ unfold slice_to, slice in Hp2. destruct (_ && _); discriminate. }
  destruct (negb (beq p1 p2)); [discriminate|].
  destruct (slice_from s1 (index RB s1 + 1)) as [t| |] eqn:Ht; simpl; try discriminate.
  2:{ unfold slice_from, slice in Ht. destruct (_ && _); discriminate. }
  destruct (index DB t <? 0).
  - destruct (slice_from s2 (len s2 - len t)) as [sfx| |] eqn:Hsfx; simpl; try discriminate.
    2:{ unfold slice_from, slice in Hsfx. destruct (_ && _); discriminate. }
    destruct (beq t sfx); [|discriminate].
    unfold slice. destruct (_ && _); simpl; [|discriminate]. destruct (_ && _); simpl; discriminate.
  - destruct (slice s1 (index RB s1 + 1) (index RB s1 + 1 + index DB t)) as [needle| |] eqn:Hnd; simpl; try discriminate.
    2:{ unfold slice in Hnd. destruct (_ && _); discriminate. }
    destruct (slice_from s2 (index DB s1)) as [h| |] eqn:Hh; simpl; try discriminate.
    2:{ unfold slice_from, slice in Hh. destruct (_ && _); discriminate. }
    destruct (0 <? index needle h); [|discriminate].
    destruct (slice s1 (index DB s1 + 2) (index RB s1)) as [name| |] eqn:Hname; simpl; try discriminate.
    2:{ unfold slice in Hname. destruct (_ && _); discriminate. }
    destruct (slice s2 (index DB s1) (index DB s1 + index needle h)) as [v| |] eqn:Hv; simpl; try discriminate.
    2:{ unfold slice in Hv. destruct (_ && _); discriminate. }
    destruct (slice_from s2 (index DB s1 + index needle h)) as [s2'| |] eqn:Hs2'; simpl; try discriminate.
    2:{ unfold slice_from, slice in Hs2'. destruct (_ && _); discriminate. }
    assert (Hlt : (length t < fuel)%nat).
    { apply slice_from_ok in Ht as (T1 & T2 & T3). apply slice_ok in Hname as (C1 & C2 & C3 & _).
      apply slice_to_ok in Hp1 as (A1 & _). subst t. rewrite skipn_length. unfold len in *. lia. }
    pose proof (IH t s2' Hlt) as Hrec.
    destruct (gpp_aux fuel t s2') as [[a o]| |]; try discriminate. contradiction.
Qed.

Lemma generate_never_out_of_fuel s1 s2 : generate_property_patches s1 s2 <> OutOfFuel.
Proof. apply gpp_aux_fuel. lia. Qed.

(* ------------------------------------------------------------------ no panic on d_total *)
Lemma split_brace_spec b n a :
  split_brace b = Some (n, a) -> b = n ++ 125%N :: a /\ existsb (N.eqb 125) n = false.
Proof.
  revert n a; induction b as [|c b IH]; simpl; intros n a H; [discriminate|].
  destruct (N.eqb c 125) eqn:E.
  - inversion H; subst. apply N.eqb_eq in E. subst. split; reflexivity.
  - destruct (split_brace b) as [[n' a']|]; [|discriminate]. inversion H; subst.
    destruct (IH n' a eq_refl) as [-> H2]. split; [reflexivity|]. cbn [existsb]. rewrite N.eqb_sym, E. exact H2.
Qed.

Lemma index_rb_app n a : existsb (N.eqb 125) n = false -> index_nat RB (n ++ 125%N :: a) = Some (length n).
Proof.
  unfold RB. induction n as [|c n IH]; simpl; intros H.
  - reflexivity.
  - apply orb_false_iff in H as [H1 H2]. rewrite H1. simpl. rewrite (IH H2). reflexivity.
Qed.

Lemma index_rb_cons c s e : N.eqb 125 c = false -> index_nat RB s = Some e -> index_nat RB (c :: s) = Some (S e).
Proof. unfold RB. intros H1 H2. cbn [index_nat prefixb]. rewrite H1. simpl. rewrite H2. reflexivity. Qed.

Lemma parse_segs_nil s : fst (parse s) = [] -> snd (parse s) = s.
Proof.
  induction s as [|c r IH]; [reflexivity|].
  destruct (is_db (c :: r)) as [body|] eqn:E.
  - destruct (split_brace body) as [[name after]|] eqn:E2.
    + rewrite (parse_db _ _ _ _ E E2). simpl. discriminate.
    + unfold parse. cbn [length parse_fuel]. rewrite E, E2. reflexivity.
  - rewrite (parse_cons c r E). unfold prepend. destruct (fst (parse r)) as [|[l0 n] t] eqn:Ef; simpl.
    + intros _. rewrite IH; auto.
    + discriminate.
Qed.

(* the shape of a template with at least one placeholder, in terms of the positions Go computes *)
Lemma parse_cons_inv s : forall l0 n0 t rem,
  parse s = ((l0, n0) :: t, rem) ->
  exists s', s = l0 ++ DB ++ n0 ++ 125%N :: s' /\ parse s' = (t, rem) /\
             index_nat DB s = Some (length l0) /\
             (no_rb l0 = true -> index_nat RB s = Some (length l0 + 2 + length n0)%nat).
Proof.
  induction s as [|c r IH]; intros l0 n0 t rem H; [discriminate|].
  destruct (is_db (c :: r)) as [body|] eqn:E.
  - destruct (split_brace body) as [[name after]|] eqn:E2.
    + rewrite (parse_db _ _ _ _ E E2) in H. inversion H; subst.
      apply is_db_spec in E as [E1 E3].
      apply split_brace_spec in E2 as [E2 E4].
      exists after. pose proof (prefixb_decomp _ _ E1) as Hd. simpl length in Hd. rewrite <- E3, E2 in Hd.
      repeat split.
      * exact Hd.
      * destruct (parse after); reflexivity.
      * cbn [index_nat]. rewrite E1. reflexivity.
      * intros _. rewrite Hd. unfold DB. cbn [app]. 
        rewrite (index_rb_cons 36 _ (S (length n0))); [reflexivity|reflexivity|].
        rewrite (index_rb_cons 123 _ (length n0)); [reflexivity|reflexivity|].
        apply index_rb_app. exact E4.
    + unfold parse in H. cbn [length parse_fuel] in H. rewrite E, E2 in H. discriminate.
  - rewrite (parse_cons c r E) in H. unfold prepend in H.
    destruct (parse r) as [[|[l0' n0'] t'] rem'] eqn:Ep; simpl in H; [discriminate|].
    inversion H; subst.
    destruct (IH l0' n0 t rem eq_refl) as (s' & H1 & H2 & H3 & H4).
    exists s'. repeat split.
    + simpl. rewrite H1. reflexivity.
    + exact H2.
    + cbn [index_nat]. apply is_db_none in E. rewrite E. rewrite H3. reflexivity.
    + intros Hn. unfold no_rb in Hn. simpl in Hn. apply negb_true_iff in Hn. apply orb_false_iff in Hn as [Hc Hl].
      simpl. apply index_rb_cons; auto. apply H4. unfold no_rb. rewrite Hl. reflexivity.
Qed.

Definition tpl_inv (s1 s2 : bytes) : Prop :=
  exists l0 n0 t rem,
    parse s1 = ((l0, n0) :: t, rem) /\
    forallb (fun ln => no_rb (fst ln)) ((l0, n0) :: t) = true /\
    index_nat DB rem = None /\
    (length l0 <= length s2)%nat /\
    (rem = [] \/ (t = [] /\ (length l0 + length rem <= length s2)%nat)).

Lemma d_total_inv s1 s2 : d_total s1 s2 = true -> tpl_inv s1 s2.
Proof.
  unfold d_total, tpl_inv. destruct (parse s1) as [[|[l0 n0] t] rem] eqn:Ep; simpl fst; simpl snd; [discriminate|].
  intros H. apply andb_true_iff in H as [H H4]. apply andb_true_iff in H as [H H3].
  apply andb_true_iff in H as [H1 H2].
  exists l0, n0, t, rem. repeat split; auto.
  - apply negb_true_iff in H2. unfold contains in H2. destruct (index_nat DB rem); [discriminate|reflexivity].
  - apply Z.leb_le in H3. unfold len in H3. lia.
  - destruct rem as [|c rem]; [left; reflexivity|]. right.
    destruct t; [|discriminate]. split; auto. apply Z.leb_le in H4. unfold len in H4. lia.
Qed.

Lemma app_length4 (a b c : bytes) (x : N) (d : bytes) :
  length (a ++ b ++ c ++ x :: d) = (length a + length b + length c + 1 + length d)%nat.
Proof. rewrite !app_length. simpl. lia. Qed.

Lemma firstn_app_exact {A} (a b : list A) : firstn (length a) (a ++ b) = a.
Proof. rewrite firstn_app, Nat.sub_diag, firstn_all. simpl. apply app_nil_r. Qed.

Lemma skipn_app_exact {A} (a b : list A) : skipn (length a) (a ++ b) = b.
Proof. rewrite skipn_app, Nat.sub_diag, skipn_all. reflexivity. Qed.

Lemma gpp_aux_total fuel : forall s1 s2, tpl_inv s1 s2 -> gpp_aux fuel s1 s2 <> Panic.
Proof.
  induction fuel as [|fuel IH]; intros s1 s2 Hinv; [discriminate|].
  destruct Hinv as (l0 & n0 & t & rem & Hp & Hrb & Hrem & Hl0 & Hcase).
  destruct (parse_cons_inv s1 l0 n0 t rem Hp) as (s1' & Hs1 & Hp' & Hdb & Hrbi).
  simpl in Hrb. apply andb_true_iff in Hrb as [Hrb0 Hrbt]. specialize (Hrbi Hrb0).
  assert (Elen : length s1 = (length l0 + 2 + length n0 + 1 + length s1')%nat).
  { rewrite Hs1 at 1. rewrite app_length4. reflexivity. }
  cbn [gpp_aux].
  assert (Estart : index DB s1 = Z.of_nat (length l0)) by (unfold index; rewrite Hdb; reflexivity).
  assert (Ee : index RB s1 = Z.of_nat (length l0 + 2 + length n0)) by (unfold index; rewrite Hrbi; reflexivity).
  rewrite Estart, Ee.
  unfold slice_to at 1. rewrite slice_in_range by (unfold len; lia). cbn [bind].
  unfold slice_to at 1. rewrite slice_in_range by (unfold len; lia). cbn [bind].
  match goal with |- (if ?c then _ else _) <> _ => destruct c end; [discriminate|].
  unfold slice_from at 1. rewrite slice_in_range by (unfold len; lia). cbn [bind].
  assert (Et : firstn (Z.to_nat (len s1 - (Z.of_nat (length l0 + 2 + length n0) + 1)))
                 (skipn (Z.to_nat (Z.of_nat (length l0 + 2 + length n0) + 1)) s1) = s1').
  { replace (Z.to_nat (Z.of_nat (length l0 + 2 + length n0) + 1)) with (length (l0 ++ DB ++ n0 ++ [125%N])).
    2:{ rewrite !app_length. simpl. lia. }
    assert (Es : s1 = (l0 ++ DB ++ n0 ++ [125%N]) ++ s1').
    { rewrite Hs1 at 1. rewrite <- !app_assoc. reflexivity. }
    rewrite Es at 2. rewrite skipn_app_exact. apply firstn_all2. unfold len. rewrite Elen. lia. }
  rewrite Et.
  destruct t as [|[l1 n1] t'].
  - (* last placeholder: s1' = rem has no "${" *)
    assert (Es1' : s1' = rem).
    { pose proof (parse_segs_nil s1') as Hn. rewrite Hp' in Hn. simpl in Hn. symmetry. apply Hn. reflexivity. }
    rewrite Es1' in *. clear Es1'.
    assert (Enext : index DB rem <? 0 = true) by (unfold index; rewrite Hrem; reflexivity).
    rewrite Enext.
    assert (Hfit : (length l0 + length rem <= length s2)%nat).
    { destruct Hcase as [->|[_ H]]; [simpl; lia|exact H]. }
    unfold slice_from at 1. rewrite slice_in_range by (unfold len; lia). cbn [bind].
    match goal with |- (if ?c then _ else _) <> _ => destruct c end; [|discriminate].
    rewrite slice_in_range by (unfold len; lia). cbn [bind].
    rewrite slice_in_range by (unfold len; lia). cbn [bind]. discriminate.
  - (* a further placeholder *)
    destruct (parse_cons_inv s1' l1 n1 t' rem Hp') as (s1'' & Hs1' & _ & Hdb' & _).
    assert (Enext : index DB s1' = Z.of_nat (length l1)) by (unfold index; rewrite Hdb'; reflexivity).
    rewrite Enext.
    replace (Z.of_nat (length l1) <? 0) with false by (symmetry; apply Z.ltb_ge; lia).
    assert (Elen' : (length l1 <= length s1')%nat).
    { rewrite Hs1' at 1. rewrite app_length. lia. }
    rewrite slice_in_range by (unfold len; lia). cbn [bind].
    unfold slice_from at 1. rewrite slice_in_range by (unfold len; lia). cbn [bind].
    match goal with |- context [index ?nd ?hh] => set (needle := nd); set (h := hh) end.
    destruct (0 <? index needle h) eqn:Hm; [|discriminate].
    apply Z.ltb_lt in Hm.
    destruct (index_ge0 needle h) as (m & Hmn & Hmz); [lia|].
    pose proof (index_nat_some _ _ _ Hmn) as (Hpre & _ & Hmle).
    assert (Hh : length h = (length s2 - length l0)%nat).
    { unfold h. rewrite firstn_length, skipn_length. unfold len. lia. }
    rewrite Hmz.
    rewrite slice_in_range by (unfold len; lia). cbn [bind].
    rewrite slice_in_range by (unfold len; lia). cbn [bind].
    unfold slice_from at 1. rewrite slice_in_range by (unfold len; lia). cbn [bind].
    rewrite Et.
    unfold slice_from at 1. rewrite slice_in_range by (unfold len; lia). cbn [bind].
    match goal with |- context [gpp_aux fuel s1' ?x] => set (s2' := x) end.
    assert (Hrec : gpp_aux fuel s1' s2' <> Panic).
    { apply IH. exists l1, n1, t', rem. repeat split; auto.
      - (* the needle is l1 and it is a prefix of s2' *)
        assert (Hneedle : needle = l1).
        { unfold needle.
          replace (Z.to_nat (Z.of_nat (length l0 + 2 + length n0) + 1 + Z.of_nat (length l1) - (Z.of_nat (length l0 + 2 + length n0) + 1))) with (length l1) by lia.
          replace (Z.to_nat (Z.of_nat (length l0 + 2 + length n0) + 1)) with (length (l0 ++ DB ++ n0 ++ [125%N])).
          2:{ rewrite !app_length. simpl. lia. }
          assert (Es : s1 = (l0 ++ DB ++ n0 ++ [125%N]) ++ s1') by (rewrite Hs1 at 1; rewrite <- !app_assoc; reflexivity).
          rewrite Es. rewrite skipn_app_exact. rewrite Hs1'. apply firstn_app_exact. }
        assert (Hs2' : s2' = skipn m h).
        { unfold s2', h.
          replace (Z.to_nat (len s2 - (Z.of_nat (length l0) + Z.of_nat m))) with (length s2 - (length l0 + m))%nat by (unfold len; lia).
          replace (Z.to_nat (len s2 - Z.of_nat (length l0))) with (length s2 - length l0)%nat by (unfold len; lia).
          replace (Z.to_nat (Z.of_nat (length l0) + Z.of_nat m)) with (m + length l0)%nat by lia.
          rewrite Nat2Z.id.
          rewrite (firstn_all2 (skipn (length l0) s2)) by (rewrite skipn_length; lia).
          rewrite skipn_skipn. apply firstn_all2. rewrite skipn_length. lia. }
        apply prefixb_spec in Hpre as [_ Hpre]. rewrite Hneedle in Hpre. rewrite Hs2'. exact Hpre.
      - destruct Hcase as [->|[Hc _]]; [left; reflexivity|discriminate]. }
    destruct (gpp_aux fuel s1' s2') as [[a o]| |]; try discriminate. contradiction.
Qed.

Lemma prop_patches_total_on_D_lemma s1 s2 : d_total s1 s2 = true -> generate_property_patches s1 s2 <> Panic.
Proof. intros H. apply gpp_aux_total. apply d_total_inv. exact H. Qed.

(* Go string operations on bytes, with the operations that can panic returning an explicit outcome.
   Definitions only (no proofs). Strings are list N, Go ints are Z. *)
From Coq Require Import List ZArith NArith Bool.
Import ListNotations.
Open Scope Z_scope.

Definition bytes := list N.

Inductive Outcome (A : Type) : Type :=
| Ok (a : A)
| Panic            (* Go runtime panic: slice bounds out of range *)
| OutOfFuel.       (* artefact of fuelled recursion; excluded by a proved bound *)
Arguments Ok {A} a.
Arguments Panic {A}.
Arguments OutOfFuel {A}.

Definition bind {A B} (x : Outcome A) (f : A -> Outcome B) : Outcome B :=
  match x with Ok a => f a | Panic => Panic | OutOfFuel => OutOfFuel end.
Notation "x <- e ;; k" := (bind e (fun x => k)) (at level 61, e at next level, right associativity).

Definition is_panic {A} (x : Outcome A) : bool := match x with Panic => true | _ => false end.

Definition len (s : bytes) : Z := Z.of_nat (length s).

Fixpoint beq (a b : bytes) : bool :=
  match a, b with
  | [], [] => true
  | x :: a', y :: b' => N.eqb x y && beq a' b'
  | _, _ => false
  end.

Fixpoint prefixb (p s : bytes) : bool :=
  match p, s with
  | [], _ => true
  | x :: p', y :: s' => N.eqb x y && prefixb p' s'
  | _ :: _, [] => false
  end.

(* strings.Index as an optional position ... *)
Fixpoint index_nat (needle s : bytes) : option nat :=
  if prefixb needle s then Some O
  else match s with
       | [] => None
       | _ :: s' => match index_nat needle s' with Some i => Some (S i) | None => None end
       end.

(* ... and as the Go int (-1 = not found) *)
Definition index (needle s : bytes) : Z :=
  match index_nat needle s with Some i => Z.of_nat i | None => -1 end.

Definition contains (needle s : bytes) : bool :=
  match index_nat needle s with Some _ => true | None => false end.

(* s[lo:hi]; panics exactly when Go does: not (0 <= lo <= hi <= len s) *)
Definition slice (s : bytes) (lo hi : Z) : Outcome bytes :=
  if (0 <=? lo) && (lo <=? hi) && (hi <=? len s)
  then Ok (firstn (Z.to_nat (hi - lo)) (skipn (Z.to_nat lo) s))
  else Panic.
Definition slice_to (s : bytes) (hi : Z) : Outcome bytes := slice s 0 hi.       (* s[:hi] *)
Definition slice_from (s : bytes) (lo : Z) : Outcome bytes := slice s lo (len s). (* s[lo:] *)

(* association lists keyed by byte strings *)
Fixpoint lookup {V} (k : bytes) (m : list (bytes * V)) : option V :=
  match m with
  | [] => None
  | (k', v) :: m' => if beq k k' then Some v else lookup k m'
  end.

(* Go map after a sequence of assignments m[k] = v listed oldest first: the last write wins *)
Definition lookup_last {V} (k : bytes) (asg : list (bytes * V)) : option V := lookup k (rev asg).

Fixpoint mem (k : bytes) (l : list bytes) : bool :=
  match l with [] => false | x :: l' => beq k x || mem k l' end.

Fixpoint nodupb (l : list bytes) : bool :=
  match l with [] => true | x :: l' => negb (mem x l') && nodupb l' end.

Fixpoint bad_indices {A} (f : A -> bool) (l : list A) (i : nat) : list nat :=
  match l with
  | [] => []
  | x :: l' => if f x then bad_indices f l' (S i) else i :: bad_indices f l' (S i)
  end.

Fixpoint count_true {A} (f : A -> bool) (l : list A) : nat :=
  match l with [] => O | x :: l' => if f x then S (count_true f l') else count_true f l' end.

(* Proofs about the token-level model of the pom.xml writer (PomTokens.v). *)
From Coq Require Import List ZArith NArith Bool Lia PeanoNat.
From Scalibr Require Import Writers.GoBytes Writers.PomTokens.
Import ListNotations.
Open Scope N_scope.

(* ------------------------------------------------------------------ no decisions, plainly spelled versions: identity *)
Lemma tok_write_identity tbl : forall n l stack,
  (length l <= n)%nat -> plain_s stack l = true -> tok_write tbl stack MNormal [] [] l = l.
Proof.
  induction n as [|n IH]; intros l stack Hl Hp.
  - destruct l; [reflexivity|simpl in Hl; lia].
  - destruct l as [|t r]; [reflexivity|]. simpl in Hl.
    destruct t as [k id|k id|x|x|x|x]; cbn [tok_write plain_s] in *.
    + destruct (N.eqb k K_VERSION && in_ctx stack).
      * cbn [pop fst snd].
        destruct r as [|t2 r2]; [discriminate|].
        destruct t2 as [k2 i2|k2 i2|x2|x2|x2|x2]; try discriminate.
        -- cbn [tok_write rev merged text_tok app]. f_equal. f_equal. apply IH; [simpl in Hl; lia|exact Hp].
        -- destruct r2 as [|t3 r3]; [discriminate|]. destruct t3 as [k3 i3|k3 i3|x3|x3|x3|x3]; try discriminate.
           cbn [tok_write rev app merged text_tok]. f_equal. f_equal. f_equal. apply IH; [simpl in Hl; lia|exact Hp].
      * destruct (in_props stack); cbn [pop fst snd]; f_equal; apply IH; auto; lia.
    + f_equal. apply IH; auto; lia.
    + f_equal. apply IH; auto; lia.
    + f_equal. apply IH; auto; lia.
    + f_equal. apply IH; auto; lia.
    + f_equal. apply IH; auto; lia.
Qed.

Lemma write_tokens_identity tbl l : plain l = true -> write_tokens tbl [] [] l = l.
Proof. intros H. apply (tok_write_identity tbl (length l) l []); auto. Qed.

(* ------------------------------------------------------------------ only the rewritten elements' contents change *)
Lemma strip_text_tok stack pdec x rest :
  strip_sel stack (Some O) pdec (text_tok x ++ rest) = strip_sel stack (Some O) pdec rest.
Proof. destruct x; reflexivity. Qed.

Lemma strip_tok_write tbl : forall l stack vdec pdec,
  strip_sel stack None pdec (tok_write tbl stack MNormal vdec pdec l) = strip_sel stack None pdec l /\
  (forall d col dec, strip_sel stack (Some O) pdec (tok_write tbl stack (MVer d col dec) vdec pdec l) = strip_sel stack (Some d) pdec l) /\
  (forall d x, strip_sel stack (Some O) pdec (tok_write tbl stack (MProp d x) vdec pdec l) = strip_sel stack (Some d) pdec l).
Proof.
  induction l as [|t r IH]; intros stack vdec pdec.
  - repeat split; intros; reflexivity.
  - split; [|split].
    + destruct t as [k id|k id|x|x|x|x]; cbn [tok_write strip_sel].
      * destruct (N.eqb k K_VERSION && in_ctx stack) eqn:E.
        -- cbn [strip_sel]. rewrite E. f_equal. apply (proj1 (proj2 (IH stack (snd (pop vdec)) pdec))).
        -- destruct (in_props stack) eqn:Ep.
           ++ destruct (fst (pop pdec)) eqn:Ed.
              ** cbn [strip_sel]. rewrite E, Ep, Ed. f_equal. apply (proj1 (IH (k :: stack) vdec (snd (pop pdec)))).
              ** cbn [strip_sel]. rewrite E, Ep, Ed. f_equal. apply (proj2 (proj2 (IH stack vdec (snd (pop pdec))))).
           ++ cbn [strip_sel]. rewrite E, Ep. f_equal. apply (proj1 (IH (k :: stack) vdec pdec)).
      * f_equal. apply (proj1 (IH (tl stack) vdec pdec)).
      * f_equal. apply (proj1 (IH stack vdec pdec)).
      * f_equal. apply (proj1 (IH stack vdec pdec)).
      * f_equal. apply (proj1 (IH stack vdec pdec)).
      * f_equal. apply (proj1 (IH stack vdec pdec)).
    + intros d col dec. destruct t as [k id|k id|x|x|x|x]; cbn [tok_write strip_sel].
      * apply (proj1 (proj2 (IH stack vdec pdec))).
      * destruct d as [|d'].
        -- rewrite strip_text_tok. cbn [strip_sel]. f_equal. apply (proj1 (IH stack vdec pdec)).
        -- apply (proj1 (proj2 (IH stack vdec pdec))).
      * apply (proj1 (proj2 (IH stack vdec pdec))).
      * apply (proj1 (proj2 (IH stack vdec pdec))).
      * apply (proj1 (proj2 (IH stack vdec pdec))).
      * apply (proj1 (proj2 (IH stack vdec pdec))).
    + intros d x0. destruct t as [k id|k id|x|x|x|x]; cbn [tok_write strip_sel].
      * apply (proj2 (proj2 (IH stack vdec pdec))).
      * destruct d as [|d'].
        -- rewrite strip_text_tok. cbn [strip_sel]. f_equal. apply (proj1 (IH stack vdec pdec)).
        -- apply (proj2 (proj2 (IH stack vdec pdec))).
      * apply (proj2 (proj2 (IH stack vdec pdec))).
      * apply (proj2 (proj2 (IH stack vdec pdec))).
      * apply (proj2 (proj2 (IH stack vdec pdec))).
      * apply (proj2 (proj2 (IH stack vdec pdec))).
Qed.

Lemma write_tokens_preserved tbl vdec pdec l :
  stripped pdec (write_tokens tbl vdec pdec l) = stripped pdec l.
Proof. apply (proj1 (strip_tok_write tbl l [] vdec pdec)). Qed.

(* ------------------------------------------------------------------ bytes: decoder / encoder as parameters *)
Section Codec.
  Variable decode : bytes -> list tok.       (* the (forked) encoding/xml decoder, adjacent character data merged *)
  Variable encode : list tok -> bytes.       (* the forked encoder *)
  Hypothesis decode_encode : forall toks, decode (encode toks) = toks.

  (* Write on one pom file, decisions given *)
  Definition write_bytes (tbl : texts) (vdec pdec : list decision) (input : bytes) : bytes :=
    encode (write_tokens tbl vdec pdec (decode input)).

  Lemma write_bytes_preserved tbl vdec pdec input :
    stripped pdec (decode (write_bytes tbl vdec pdec input)) = stripped pdec (decode input).
  Proof. unfold write_bytes. rewrite decode_encode. apply write_tokens_preserved. Qed.

  Lemma write_bytes_identity tbl input :
    plain (decode input) = true -> decode (write_bytes tbl [] [] input) = decode input.
  Proof. intros H. unfold write_bytes. rewrite decode_encode. apply write_tokens_identity. exact H. Qed.
End Codec.

(* Proofs about the declaration-level model of the pom.xml writer (PomDecl.v). *)
From Coq Require Import List ZArith NArith Bool Lia PeanoNat.
From Scalibr Require Import Writers.GoBytes Writers.GoBytesProofs Writers.PomProps Writers.PomPropsProofs Writers.PomDecl.
Import ListNotations.
Open Scope N_scope.

(* ------------------------------------------------------------------ lists *)
Lemma all_some_map {A B} (f : A -> option B) (g : A -> B) l :
  (forall x, In x l -> f x = Some (g x)) -> all_some (map f l) = Some (map g l).
Proof.
  induction l as [|x l IH]; simpl; auto. intros H.
  rewrite (H x) by auto. rewrite IH; auto.
Qed.

Lemma filter_len1_unique {A} (f : A -> bool) l x y :
  length (filter f l) = 1%nat -> In x l -> f x = true -> In y l -> f y = true -> x = y.
Proof.
  induction l as [|a l IH]; simpl; intros HL Hx Fx Hy Fy; [contradiction|].
  destruct (f a) eqn:Fa.
  - simpl in HL. assert (HN : filter f l = []) by (destruct (filter f l); [reflexivity|simpl in HL; lia]).
    assert (forall z, In z l -> f z = true -> False).
    { intros z Hz Fz. assert (In z (filter f l)) by (apply filter_In; auto). rewrite HN in H. exact H. }
    destruct Hx as [->|Hx], Hy as [->|Hy]; auto; exfalso; eauto.
  - destruct Hx as [->|Hx]; [congruence|]. destruct Hy as [->|Hy]; [congruence|]. eauto.
Qed.

Lemma find_none_iff_local {A} (p : A -> bool) l : (forall x, In x l -> p x = false) -> find p l = None.
Proof.
  induction l as [|x l IH]; simpl; auto. intros H. rewrite (H x) by auto. apply IH. intros y Hy. apply H. auto.
Qed.

Lemma map_id_on_local {A} (f : A -> A) l : (forall x, In x l -> f x = x) -> map f l = l.
Proof. induction l as [|x l IH]; simpl; auto. intros H. rewrite (H x) by auto. rewrite IH; auto. Qed.

Lemma flat_map_ext_in_local {A B} (f g : A -> list B) l : (forall x, In x l -> f x = g x) -> flat_map f l = flat_map g l.
Proof. induction l as [|x l IH]; simpl; auto. intros H. rewrite (H x) by auto. rewrite IH; auto. Qed.

Lemma beq_sym_l a b : beq a b = beq b a.
Proof.
  destruct (beq a b) eqn:E.
  - apply beq_eq in E. subst. symmetry. apply beq_refl.
  - symmetry. apply beq_neq. apply beq_neq in E. congruence.
Qed.

Lemma indexed_In {A} (l : list A) : forall k i x, In (i, x) (indexed k l) -> (k <= i)%nat /\ nth_error l (i - k) = Some x.
Proof.
  induction l as [|a l IH]; simpl; intros k i x H; [contradiction|].
  destruct H as [H|H].
  - inversion H; subst. rewrite Nat.sub_diag. split; [lia|reflexivity].
  - destruct (IH (S k) i x H) as [H1 H2]. split; [lia|].
    replace (i - k)%nat with (S (i - S k)) by lia. exact H2.
Qed.

Lemma indexed_fun {A} (l : list A) k i x y : In (i, x) (indexed k l) -> In (i, y) (indexed k l) -> x = y.
Proof.
  intros H1 H2. apply indexed_In in H1 as [_ H1]. apply indexed_In in H2 as [_ H2]. congruence.
Qed.

Lemma indexed_nth {A} (l : list A) : forall k i x, nth_error l i = Some x -> In ((k + i)%nat, x) (indexed k l).
Proof.
  induction l as [|a l IH]; intros k i x H; [destruct i; discriminate|].
  destruct i as [|i]; simpl in *.
  - inversion H; subst. left. f_equal. lia.
  - right. replace (k + S i)%nat with (S k + i)%nat by lia. apply IH. exact H.
Qed.

Lemma indexed_map_snd {A} (l : list A) k : map snd (indexed k l) = l.
Proof. revert k; induction l; simpl; intros; f_equal; auto. Qed.

Lemma indexed_map_fst_snd {A B} (f : nat -> A -> B) (l : list A) k :
  map snd (map (fun ip => (fst ip, f (fst ip) (snd ip))) (indexed k l)) = map (fun ip => f (fst ip) (snd ip)) (indexed k l).
Proof. rewrite map_map. reflexivity. Qed.

(* ------------------------------------------------------------------ origin strings *)
Definition no_at (s : bytes) : bool := negb (existsb (N.eqb AT) s).

Lemma split_at_noat s : no_at s = true -> split_at s = [s].
Proof.
  unfold no_at. induction s as [|c s IH]; [reflexivity|]. cbn [existsb split_at].
  rewrite negb_true_iff, orb_false_iff. intros [H1 H2]. rewrite N.eqb_sym in H1. rewrite H1.
  rewrite IH; [reflexivity|]. rewrite negb_true_iff. exact H2.
Qed.

Lemma split_at_app a b : no_at a = true -> split_at (a ++ AT :: b) = a :: split_at b.
Proof.
  unfold no_at. induction a as [|c a IH]; cbn [existsb split_at app].
  - intros _. rewrite N.eqb_refl. reflexivity.
  - rewrite negb_true_iff, orb_false_iff. intros [H1 H2]. rewrite N.eqb_sym in H1. rewrite H1.
    rewrite IH; [reflexivity|]. rewrite negb_true_iff. exact H2.
Qed.

Lemma split_at_nonnil s : split_at s <> [].
Proof. destruct s as [|c s]; simpl; [discriminate|]. destruct (N.eqb c AT); [discriminate|]. destruct (split_at s); discriminate. Qed.

Lemma join_at_cons (x : list N) (l : list (list N)) : l <> [] -> join_at (x :: l) = x ++ AT :: join_at l.
Proof. destruct l; [contradiction|reflexivity]. Qed.

Lemma join_split_at s : join_at (split_at s) = s.
Proof.
  induction s as [|c s IH]; [reflexivity|]. cbn [split_at].
  pose proof (split_at_nonnil s) as Hn.
  destruct (N.eqb c AT) eqn:E.
  - apply N.eqb_eq in E. subst c. rewrite (join_at_cons [] _ Hn), IH. reflexivity.
  - destruct (split_at s) as [|h t] eqn:Es; [contradiction|].
    destruct t as [|h2 t2].
    + simpl in IH. subst h. reflexivity.
    + rewrite (join_at_cons (c :: h)) by discriminate. rewrite (join_at_cons h) in IH by discriminate.
      rewrite <- IH. reflexivity.
Qed.

Lemma PARENT_noat : no_at PARENT = true. Proof. reflexivity. Qed.

Lemma ppfo_main o : origin_ok o = true -> parent_path_from_origin o = ([], o).
Proof.
  unfold origin_ok, parent_path_from_origin. intros H.
  destruct (split_at o) as [|t0 [|t1 rest]] eqn:Es; auto.
  destruct (beq t0 PARENT) eqn:Eb; auto. exfalso.
  apply beq_eq in Eb. subst t0.
  pose proof (join_split_at o) as Hj. rewrite Es in Hj. rewrite (join_at_cons PARENT) in Hj by discriminate.
  rewrite <- Hj in H. replace (PARENT ++ AT :: join_at (t1 :: rest)) with ((PARENT ++ [AT]) ++ join_at (t1 :: rest)) in H
    by (rewrite <- app_assoc; reflexivity).
  rewrite prefixb_app in H. discriminate.
Qed.

Lemma ppfo_parent path o :
  path_ok path = true -> parent_path_from_origin (join_origin (join_origin PARENT path) o) = (path, o).
Proof.
  unfold path_ok. intros H. apply andb_true_iff in H as [H1 H2].
  assert (Hp : join_origin PARENT path = PARENT ++ AT :: path).
  { unfold join_origin. simpl is_nil. destruct path; [discriminate|reflexivity]. }
  rewrite Hp. unfold join_origin at 1. simpl is_nil.
  unfold parent_path_from_origin.
  destruct o as [|c o].
  - simpl is_nil. cbv iota. rewrite (split_at_app PARENT path PARENT_noat), (split_at_noat path H2).
    rewrite beq_refl. reflexivity.
  - simpl is_nil. cbv iota.
    replace ((PARENT ++ AT :: path) ++ AT :: c :: o) with (PARENT ++ AT :: (path ++ AT :: c :: o))
      by (rewrite <- app_assoc; reflexivity).
    rewrite (split_at_app PARENT _ PARENT_noat), (split_at_app path _ H2).
    pose proof (split_at_nonnil (c :: o)) as Hn.
    destruct (split_at (c :: o)) as [|h t] eqn:Es; [contradiction|].
    rewrite beq_refl. rewrite <- Es, join_split_at. reflexivity.
Qed.

(* ------------------------------------------------------------------ interpolation *)
Lemma no_placeholder_index s : no_placeholder s = true -> index_nat DB s = None.
Proof.
  unfold no_placeholder, contains. destruct (index_nat DB s); [discriminate|reflexivity].
Qed.

Lemma interpolate_literal f s : no_placeholder s = true -> interpolate f s = s.
Proof.
  intros H. unfold interpolate. rewrite (parse_no_db s (no_placeholder_index s H)). reflexivity.
Qed.

Lemma contains_property_literal s : no_placeholder s = true -> contains_property s = false.
Proof. intros H. unfold contains_property. rewrite (no_placeholder_index s H). reflexivity. Qed.

(* ------------------------------------------------------------------ membership *)
Lemma all_decls_In c i d :
  In (i, d) (all_decls c) <-> exists p, In (i, p) (indexed O c) /\ In d (pm_decls p).
Proof.
  unfold all_decls. rewrite in_flat_map. split.
  - intros ([j p] & Hip & Hd). simpl in Hd. apply in_map_iff in Hd as (d' & E & Hd'). inversion E; subst.
    exists p. auto.
  - intros (p & Hip & Hd). exists (i, p). split; auto. simpl. apply in_map_iff. exists d. auto.
Qed.

Lemma orig_reqs_In c fo d :
  In (fo, d) (orig_reqs c) <->
  exists i p, In (i, p) (indexed O c) /\ In d (pm_decls p) /\ dl_listed d = true /\ fo = full_origin i p (dl_origin d).
Proof.
  unfold orig_reqs. rewrite in_flat_map. split.
  - intros ([i p] & Hip & Hd). simpl in Hd. apply in_map_iff in Hd as (d' & E & Hd').
    inversion E; subst. apply filter_In in Hd' as [Hd' Hl]. exists i, p. auto.
  - intros (i & p & Hip & Hd & Hl & ->). exists (i, p). split; auto. simpl.
    apply in_map_iff. exists d. split; auto. apply filter_In. auto.
Qed.

(* ------------------------------------------------------------------ the target of an update in D_lit *)
Record target_facts (c : chain) (u : pupd) (p0 : pom) (d0 : decl) : Prop := {
  tf_pom : In (pu_pom u, p0) (indexed O c);
  tf_in : In d0 (pm_decls p0);
  tf_origin : dl_origin d0 = pu_origin u;
  tf_key : dl_key d0 = pu_key u;
  tf_ver : dl_ver d0 <> [];
  tf_listed : dl_listed d0 = true;
  tf_unique : forall i d, In (i, d) (all_decls c) -> dl_key d = pu_key u -> dl_ver d <> [] -> i = pu_pom u /\ d = d0 }.

Lemma is_nil_false {A} (l : list A) : negb (is_nil l) = true <-> l <> [].
Proof. destruct l; simpl; split; intros; try discriminate; try congruence; auto. Qed.

Lemma target_exists c u :
  addressed_decl c u = true -> Nat.eqb (count_key c (pu_key u)) 1 = true ->
  exists p0 d0, target_facts c u p0 d0.
Proof.
  unfold addressed_decl. intros HA HC. apply Nat.eqb_eq in HC.
  apply existsb_exists in HA as ([i p0] & Hip & HA). apply existsb_exists in HA as (d0 & Hd0 & HA).
  apply andb_true_iff in HA as [HA Hl]. apply andb_true_iff in HA as [HA Hv].
  unfold addresses in HA. apply andb_true_iff in HA as [HA Hk]. apply andb_true_iff in HA as [Hi Ho].
  simpl in *. apply Nat.eqb_eq in Hi. apply beq_eq in Ho, Hk. subst i. apply is_nil_false in Hv.
  exists p0, d0. constructor; auto.
  intros i d Hin Hkey Hver.
  unfold count_key in HC.
  assert (E : (i, d) = (pu_pom u, d0)).
  { apply (filter_len1_unique _ _ _ _ HC Hin).
    - simpl. rewrite Hkey, beq_refl. simpl. apply is_nil_false. exact Hver.
    - apply all_decls_In. exists p0. auto.
    - simpl. rewrite <- Hk, beq_refl. simpl. apply is_nil_false. exact Hv. }
  inversion E; auto.
Qed.

Lemma original_dependency_target c u p0 d0 :
  target_facts c u p0 d0 ->
  original_dependency c (pu_key u) = Some (full_origin (pu_pom u) p0 (pu_origin u), d0).
Proof.
  intros [Hp Hin Ho Hk Hv Hl Hu]. unfold original_dependency.
  destruct (find _ (orig_reqs c)) as [[fo d]|] eqn:Ef.
  - apply find_some in Ef as [Hin' Hpred]. simpl in Hpred. apply andb_true_iff in Hpred as [Hk' Hv'].
    apply beq_eq in Hk'. apply is_nil_false in Hv'.
    apply orig_reqs_In in Hin' as (i & p & Hip & Hd & Hl' & ->).
    destruct (Hu i d) as [-> ->]; auto.
    + apply all_decls_In. exists p. auto.
    + rewrite (indexed_fun _ _ _ _ _ Hip Hp), Ho. reflexivity.
  - exfalso. apply find_none with (x := (full_origin (pu_pom u) p0 (dl_origin d0), d0)) in Ef.
    + simpl in Ef. rewrite <- Hk, beq_refl in Ef. simpl in Ef. apply is_nil_false in Hv. rewrite Hv in Ef. discriminate.
    + apply orig_reqs_In. exists (pu_pom u), p0. auto.
Qed.

(* ------------------------------------------------------------------ chain_wf, unpacked *)
Lemma chain_wf_pom c i p : chain_wf c = true -> In (i, p) (indexed O c) -> pom_wf p = true.
Proof.
  unfold chain_wf. intros H Hip. apply andb_true_iff in H as [H _]. apply andb_true_iff in H as [H _].
  rewrite forallb_forall in H. apply H. apply indexed_In in Hip as [_ Hn]. apply nth_error_In in Hn. exact Hn.
Qed.

Lemma chain_wf_path c i p : chain_wf c = true -> In (S i, p) (indexed O c) -> path_ok (pm_path p) = true.
Proof.
  unfold chain_wf. intros H Hip. apply andb_true_iff in H as [H _]. apply andb_true_iff in H as [_ H].
  rewrite forallb_forall in H. apply H. apply indexed_In in Hip as [_ Hn].
  rewrite Nat.sub_0_r in Hn. destruct c; [discriminate|]. simpl in *. apply nth_error_In in Hn. exact Hn.
Qed.

Lemma nodupb_nth_inj (l : list bytes) i j x :
  nodupb l = true -> nth_error l i = Some x -> nth_error l j = Some x -> i = j.
Proof.
  intros H. apply nodupb_NoDup in H. intros Hi Hj.
  apply (proj1 (NoDup_nth_error l) H); [apply nth_error_Some; congruence|congruence].
Qed.

(* the patch path identifies the pom *)
Lemma patch_path_inj c i p j q :
  chain_wf c = true -> In (i, p) (indexed O c) -> In (j, q) (indexed O c) ->
  patch_path i p = patch_path j q -> i = j.
Proof.
  intros HW Hi Hj E.
  destruct i as [|i], j as [|j]; auto; simpl in E.
  - pose proof (chain_wf_path c j q HW Hj) as Hp. unfold path_ok in Hp. rewrite <- E in Hp. discriminate.
  - pose proof (chain_wf_path c i p HW Hi) as Hp. unfold path_ok in Hp. rewrite E in Hp. discriminate.
  - f_equal. unfold chain_wf in HW. apply andb_true_iff in HW as [_ HN].
    apply indexed_In in Hi as [_ Hi]. apply indexed_In in Hj as [_ Hj]. rewrite Nat.sub_0_r in Hi, Hj.
    destruct c as [|m c]; [discriminate|]. simpl in Hi, Hj, HN.
    apply (nodupb_nth_inj (map pm_path c) i j (pm_path p) HN).
    + rewrite nth_error_map, Hi. reflexivity.
    + rewrite nth_error_map, Hj, E. reflexivity.
Qed.

Lemma ppfo_full c i p o :
  chain_wf c = true -> In (i, p) (indexed O c) -> origin_ok o = true ->
  parent_path_from_origin (full_origin i p o) = (patch_path i p, o).
Proof.
  intros HW Hip Ho. destruct i as [|i]; simpl.
  - unfold full_origin, origin_prefix, join_origin. simpl. apply ppfo_main. exact Ho.
  - unfold full_origin, origin_prefix. apply ppfo_parent. apply (chain_wf_path c i p HW Hip).
Qed.

Lemma pom_wf_origin_ok p d : pom_wf p = true -> In d (pm_decls p) -> origin_ok (dl_origin d) = true.
Proof.
  unfold pom_wf. intros H Hd. apply andb_true_iff in H as [H _]. apply andb_true_iff in H as [_ H].
  rewrite forallb_forall in H. auto.
Qed.

Lemma pair_nodup_unique (l : list decl) d1 d2 :
  pair_nodup (map (fun d => (dl_origin d, dl_key d)) l) = true ->
  In d1 l -> In d2 l -> dl_origin d1 = dl_origin d2 -> dl_key d1 = dl_key d2 -> d1 = d2.
Proof.
  induction l as [|a l IH]; simpl; intros H H1 H2 Eo Ek; [contradiction|].
  apply andb_true_iff in H as [Hn H]. apply negb_true_iff in Hn.
  assert (Hno : forall d, In d l -> dl_origin d = dl_origin a -> dl_key d = dl_key a -> False).
  { intros d Hd E1 E2. assert (existsb (fun ab => beq (fst ab) (dl_origin a) && beq (snd ab) (dl_key a))
      (map (fun d => (dl_origin d, dl_key d)) l) = true); [|congruence].
    apply existsb_exists. exists (dl_origin d, dl_key d). split; [apply in_map_iff; eauto|].
    simpl. rewrite E1, E2, !beq_refl. reflexivity. }
  destruct H1 as [->|H1], H2 as [->|H2]; auto.
  - exfalso. apply (Hno d2 H2); auto.
  - exfalso. apply (Hno d1 H1); auto.
Qed.

Lemma pom_wf_unique p d1 d2 :
  pom_wf p = true -> In d1 (pm_decls p) -> In d2 (pm_decls p) ->
  dl_origin d1 = dl_origin d2 -> dl_key d1 = dl_key d2 -> d1 = d2.
Proof.
  unfold pom_wf. intros H. apply andb_true_iff in H as [H _]. apply andb_true_iff in H as [H _].
  apply pair_nodup_unique. exact H.
Qed.

Lemma pom_wf_one_parent p d1 d2 :
  pom_wf p = true -> In d1 (pm_decls p) -> In d2 (pm_decls p) ->
  dl_origin d1 = PARENT -> dl_origin d2 = PARENT -> d1 = d2.
Proof.
  unfold pom_wf. intros H. apply andb_true_iff in H as [_ H]. apply Nat.leb_le in H.
  generalize dependent H. generalize (pm_decls p) as l.
  induction l as [|a l IH]; simpl; intros H H1 H2 E1 E2; [contradiction|].
  destruct (beq (dl_origin a) PARENT) eqn:Ea.
  - simpl in H. assert (HN : filter (fun d => beq (dl_origin d) PARENT) l = []) by (destruct (filter _ l); [reflexivity|simpl in H; lia]).
    assert (forall d, In d l -> dl_origin d = PARENT -> False).
    { intros d Hd E. assert (In d (filter (fun d => beq (dl_origin d) PARENT) l)); [|rewrite HN in H0; exact H0].
      apply filter_In. split; auto. rewrite E. apply beq_refl. }
    destruct H1 as [->|H1], H2 as [->|H2]; auto; exfalso; eauto.
  - destruct H1 as [->|H1]; [rewrite E1, beq_refl in Ea; discriminate|].
    destruct H2 as [->|H2]; [rewrite E2, beq_refl in Ea; discriminate|]. eauto.
Qed.

(* ------------------------------------------------------------------ D_lit: buildPatches *)
Definition lit_ok (c : chain) (u : pupd) : Prop :=
  exists p0 d0, target_facts c u p0 d0 /\ no_placeholder (dl_ver d0) = true /\ no_placeholder (pu_to u) = true.

Definition patch_of (c : chain) (u : pupd) : patch :=
  match nth_error c (pu_pom u) with
  | Some p => DepPatch (patch_path (pu_pom u) p) (pu_origin u) (pu_key u) (pu_to u) true
  | None => DepPatch [] [] [] [] false
  end.

Lemma d_lit_unpack c ups :
  d_lit c ups = true ->
  chain_wf c = true /\ NoDup (map pu_key ups) /\ forall u, In u ups -> lit_ok c u.
Proof.
  unfold d_lit. intros H. apply andb_true_iff in H as [H HF]. apply andb_true_iff in H as [HW HN].
  repeat split; auto.
  - apply nodupb_NoDup. exact HN.
  - intros u Hu. rewrite forallb_forall in HF. specialize (HF u Hu).
    apply andb_true_iff in HF as [HF Hd]. apply andb_true_iff in HF as [HF Ht]. apply andb_true_iff in HF as [HA HC].
    destruct (target_exists c u HA HC) as (p0 & d0 & TF).
    rewrite (original_dependency_target c u p0 d0 TF) in Hd.
    exists p0, d0. auto.
Qed.

Lemma target_nth c u p0 d0 : target_facts c u p0 d0 -> nth_error c (pu_pom u) = Some p0.
Proof. intros TF. pose proof (tf_pom _ _ _ _ TF) as H. apply indexed_In in H as [_ H]. rewrite Nat.sub_0_r in H. exact H. Qed.

Lemma build_one_lit c acc u :
  chain_wf c = true -> lit_ok c u -> build_one c acc u = Some (acc ++ [patch_of c u]).
Proof.
  intros HW (p0 & d0 & TF & Hv & Ht). unfold build_one.
  rewrite (original_dependency_target c u p0 d0 TF).
  rewrite (contains_property_literal _ Hv). simpl negb. cbv iota.
  rewrite (ppfo_full c (pu_pom u) p0 (pu_origin u) HW (tf_pom _ _ _ _ TF)).
  - unfold patch_of. rewrite (target_nth c u p0 d0 TF). reflexivity.
  - rewrite <- (tf_origin _ _ _ _ TF). apply (pom_wf_origin_ok p0); [|apply (tf_in _ _ _ _ TF)].
    apply (chain_wf_pom c _ _ HW (tf_pom _ _ _ _ TF)).
Qed.

Lemma build_patches_lit c ups : forall acc,
  chain_wf c = true -> (forall u, In u ups -> lit_ok c u) ->
  build_patches c acc ups = Some (acc ++ map (patch_of c) ups).
Proof.
  induction ups as [|u r IH]; intros acc HW HL; simpl.
  - rewrite app_nil_r. reflexivity.
  - rewrite (build_one_lit c acc u HW) by (apply HL; left; reflexivity).
    rewrite IH; auto. + rewrite <- app_assoc. reflexivity. + intros u' Hu'. apply HL. right. exact Hu'.
Qed.

(* ------------------------------------------------------------------ D_lit: the effect of the patches *)
Definition set_ver (d : decl) (v : bytes) : decl :=
  {| dl_origin := dl_origin d; dl_key := dl_key d; dl_ver := v; dl_listed := dl_listed d |}.

Definition lit_decl (ups : list pupd) (i : nat) (d : decl) : decl :=
  match find (fun u => addresses u i d) ups with
  | Some u => set_ver d (pu_to u)
  | None => d
  end.

Definition lit_pom (ups : list pupd) (i : nat) (p : pom) : pom :=
  {| pm_path := pm_path p; pm_decls := map (lit_decl ups i) (pm_decls p); pm_props := pm_props p;
     pm_empty_mgmt := pm_empty_mgmt p |}.

Definition lit_chain (c : chain) (ups : list pupd) : chain :=
  map (fun ip => lit_pom ups (fst ip) (snd ip)) (indexed O c).

Definition tgt_ok (c : chain) (u : pupd) : Prop := exists p0 d0, target_facts c u p0 d0.

Lemma lit_tgt c u : lit_ok c u -> tgt_ok c u.
Proof. intros (p0 & d0 & TF & _). exists p0, d0. exact TF. Qed.

(* the patch of u is filed where pom i looks iff u is addressed to pom i *)
Lemma patch_of_here c ups u i p o :
  chain_wf c = true -> (forall u, In u ups -> tgt_ok c u) -> In u ups -> In (i, p) (indexed O c) ->
  match patch_of c u with
  | DepPatch pa o' k t _ => if beq pa (patch_path i p) && beq o' o then [(k, t)] else []
  | PropPatch _ _ _ _ => []
  end = if Nat.eqb (pu_pom u) i && beq (pu_origin u) o then [(pu_key u, pu_to u)] else [].
Proof.
  intros HW HL Hu Hip. destruct (HL u Hu) as (p0 & d0 & TF).
  unfold patch_of. rewrite (target_nth c u p0 d0 TF).
  destruct (Nat.eqb (pu_pom u) i) eqn:E.
  - apply Nat.eqb_eq in E. subst i. rewrite (indexed_fun _ _ _ _ _ Hip (tf_pom _ _ _ _ TF)). rewrite beq_refl. reflexivity.
  - destruct (beq (patch_path (pu_pom u) p0) (patch_path i p)) eqn:Eb; auto.
    apply beq_eq in Eb. apply (patch_path_inj c _ _ _ _ HW (tf_pom _ _ _ _ TF) Hip) in Eb.
    apply Nat.eqb_neq in E. contradiction.
Qed.

Lemma dep_patches_at_lit c ups i p o : forall sub,
  chain_wf c = true -> (forall u, In u ups -> tgt_ok c u) -> In (i, p) (indexed O c) -> (forall u, In u sub -> In u ups) ->
  dep_patches_at (map (patch_of c) sub) (patch_path i p) o =
  flat_map (fun u => if Nat.eqb (pu_pom u) i && beq (pu_origin u) o then [(pu_key u, pu_to u)] else []) sub.
Proof.
  induction sub as [|u r IH]; intros HW HL Hip Hs; [reflexivity|].
  simpl. rewrite <- (patch_of_here c ups u i p o HW HL (Hs u (or_introl eq_refl)) Hip).
  rewrite IH; auto. intros u' Hu'. apply Hs. right. exact Hu'.
Qed.

Lemma find_key_here ups i d :
  find (fun kt => beq (fst kt) (dl_key d))
       (flat_map (fun u => if Nat.eqb (pu_pom u) i && beq (pu_origin u) (dl_origin d) then [(pu_key u, pu_to u)] else []) ups) =
  option_map (fun u => (pu_key u, pu_to u)) (find (fun u => addresses u i d) ups).
Proof.
  induction ups as [|u r IH]; [reflexivity|]. simpl. unfold addresses at 1.
  destruct (Nat.eqb (pu_pom u) i && beq (pu_origin u) (dl_origin d)) eqn:E; simpl.
  - destruct (beq (pu_key u) (dl_key d)); [reflexivity|exact IH].
  - exact IH.
Qed.

Lemma preset_no_prop c ups path o n : preset (map (patch_of c) ups) path o n = None.
Proof.
  unfold preset. assert (E : find (fun p => match p with
    | PropPatch pa o0 n0 _ => beq pa path && beq o0 o && beq n0 n | DepPatch _ _ _ _ _ => false end)
    (map (patch_of c) ups) = None).
  { apply find_none_iff_local. intros x Hx. apply in_map_iff in Hx as (u & <- & _).
    unfold patch_of. destruct (nth_error c (pu_pom u)); reflexivity. }
  rewrite E. reflexivity.
Qed.

(* a declaration addressed by an update of D_lit is the update's target *)
Lemma addressed_is_target c u p0 d0 i p d :
  chain_wf c = true -> target_facts c u p0 d0 -> In (i, p) (indexed O c) -> In d (pm_decls p) ->
  addresses u i d = true -> i = pu_pom u /\ p = p0 /\ d = d0.
Proof.
  intros HW TF Hip Hd HA. unfold addresses in HA.
  apply andb_true_iff in HA as [HA Hk]. apply andb_true_iff in HA as [Hi Ho].
  apply Nat.eqb_eq in Hi. apply beq_eq in Ho, Hk. subst i.
  pose proof (indexed_fun _ _ _ _ _ Hip (tf_pom _ _ _ _ TF)) as ->.
  repeat split; auto.
  apply (pom_wf_unique p0); auto.
  - apply (chain_wf_pom c _ _ HW Hip).
  - apply (tf_in _ _ _ _ TF).
  - rewrite (tf_origin _ _ _ _ TF). auto.
  - rewrite (tf_key _ _ _ _ TF). auto.
Qed.

Lemma flat_map_nil {A B} (f : A -> list B) l : (forall x, In x l -> f x = []) -> flat_map f l = [].
Proof. induction l as [|x l IH]; simpl; auto. intros H. rewrite (H x) by auto. rewrite IH; auto. Qed.

(* an update filed under the "parent" origin of pom i is addressed to the <parent> reference of pom i *)
Lemma parent_cond_addresses c u i p d :
  chain_wf c = true -> tgt_ok c u -> In (i, p) (indexed O c) -> In d (pm_decls p) -> dl_origin d = PARENT ->
  Nat.eqb (pu_pom u) i && beq (pu_origin u) (dl_origin d) = true ->
  addresses u i d = true /\ pu_key u = dl_key d.
Proof.
  intros HW (p0 & d0 & TF) Hip Hd Ep E.
  apply andb_true_iff in E as [Ei Eo]. pose proof Ei as Ei'. apply Nat.eqb_eq in Ei. apply beq_eq in Eo. subst i.
  pose proof (indexed_fun _ _ _ _ _ Hip (tf_pom _ _ _ _ TF)) as ->.
  assert (d0 = d).
  { apply (pom_wf_one_parent p0); auto.
    - apply (chain_wf_pom c _ _ HW Hip).
    - apply (tf_in _ _ _ _ TF).
    - rewrite (tf_origin _ _ _ _ TF), Eo. exact Ep. }
  subst d0. split; [|symmetry; apply (tf_key _ _ _ _ TF)].
  unfold addresses. rewrite Ei', Eo, beq_refl, <- (tf_key _ _ _ _ TF), beq_refl. reflexivity.
Qed.

Lemma write_decl_lit c ups i p d :
  chain_wf c = true -> NoDup (map pu_key ups) -> (forall u, In u ups -> tgt_ok c u) ->
  In (i, p) (indexed O c) -> In d (pm_decls p) ->
  write_decl (map (patch_of c) ups) (patch_path i p) d = Some (lit_decl ups i d).
Proof.
  intros HW HN HL Hip Hd. unfold write_decl, lit_decl.
  rewrite (dep_patches_at_lit c ups i p (dl_origin d) ups HW HL Hip (fun u H => H)).
  destruct (beq (dl_origin d) PARENT) eqn:Ep.
  - (* the <parent> reference: every patch filed under "parent" of this pom is for it *)
    apply beq_eq in Ep.
    assert (Hhere : flat_map (fun u => if Nat.eqb (pu_pom u) i && beq (pu_origin u) (dl_origin d) then [(pu_key u, pu_to u)] else []) ups =
                    match find (fun u => addresses u i d) ups with Some u => [(pu_key u, pu_to u)] | None => [] end).
    { revert HN HL. induction ups as [|u r IH]; intros HN HL; [reflexivity|].
      simpl. inversion HN as [|? ? Hnotin HN']; subst.
      assert (HLr : forall u', In u' r -> tgt_ok c u') by (intros; apply HL; right; auto).
      destruct (Nat.eqb (pu_pom u) i && beq (pu_origin u) (dl_origin d)) eqn:E.
      - destruct (parent_cond_addresses c u i p d HW (HL u (or_introl eq_refl)) Hip Hd Ep E) as [HA HK].
        rewrite HA. simpl. f_equal. apply flat_map_nil. intros u' Hu'.
        destruct (Nat.eqb (pu_pom u') i && beq (pu_origin u') (dl_origin d)) eqn:E'; auto. exfalso.
        destruct (parent_cond_addresses c u' i p d HW (HLr u' Hu') Hip Hd Ep E') as [_ HK'].
        apply Hnotin. rewrite HK, <- HK'. apply in_map. exact Hu'.
      - assert (Hna : addresses u i d = false) by (unfold addresses; rewrite E; reflexivity).
        rewrite Hna. simpl. apply IH; auto. }
    rewrite Hhere. destruct (find (fun u => addresses u i d) ups) as [u|]; reflexivity.
  - rewrite find_key_here.
    destruct (find (fun u => addresses u i d) ups) as [u|] eqn:Ef; simpl.
    + (* the addressed declaration has a version *)
      apply find_some in Ef as [Hu HA]. destruct (HL u Hu) as (p0 & d0 & TF).
      destruct (addressed_is_target c u p0 d0 i p d HW TF Hip Hd HA) as (_ & _ & ->).
      pose proof (tf_ver _ _ _ _ TF) as Hv. destruct (dl_ver d0); [contradiction|reflexivity].
    + destruct (is_nil (dl_ver d)); reflexivity.
Qed.

Lemma insert_added_nil ds : insert_added [] ds = ds.
Proof. induction ds as [|d r IH]; simpl; auto. destruct (front_origin d); [rewrite IH|]; reflexivity. Qed.

Lemma added_pairs_lit c ups : added_pairs (map (patch_of c) ups) = [].
Proof.
  unfold added_pairs. rewrite flat_map_nil; [reflexivity|].
  intros q Hq. apply in_map_iff in Hq as (u & <- & _). unfold patch_of.
  destruct (nth_error c (pu_pom u)); reflexivity.
Qed.

Lemma write_pom_lit c ups i p :
  chain_wf c = true -> NoDup (map pu_key ups) -> (forall u, In u ups -> lit_ok c u) ->
  In (i, p) (indexed O c) ->
  write_pom (map (patch_of c) ups) i p = Some (lit_pom ups i p).
Proof.
  intros HW HN HL Hip. unfold write_pom.
  rewrite (all_some_map _ (lit_decl ups i)) by (intros d Hd; apply (write_decl_lit c ups i p d); auto; intros u0 Hu0; apply lit_tgt; auto).
  rewrite added_pairs_lit. simpl map. rewrite insert_added_nil.
  assert (Ed : match i with
               | O => if pm_empty_mgmt p then map (lit_decl ups i) (pm_decls p) else map (lit_decl ups i) (pm_decls p)
               | S _ => map (lit_decl ups i) (pm_decls p) end
               = map (lit_decl ups i) (pm_decls p)) by (destruct i; [destruct (pm_empty_mgmt p)|]; reflexivity).
  rewrite Ed.
  unfold lit_pom. f_equal. f_equal. apply map_id_on_local. intros f _. unfold write_prop.
  rewrite preset_no_prop. reflexivity.
Qed.

Lemma write_chain_lit c ups :
  d_lit c ups = true -> write_chain c ups = Some (lit_chain c ups).
Proof.
  intros HD. destruct (d_lit_unpack c ups HD) as (HW & HN & HL).
  unfold write_chain. rewrite (build_patches_lit c ups [] HW HL). simpl app.
  unfold lit_chain. apply all_some_map. intros [i p] Hip. simpl. apply write_pom_lit; auto.
Qed.

(* ------------------------------------------------------------------ D_lit: the spec holds on the result *)
Lemma indexed_map {A B} (f : nat -> A -> B) (l : list A) : forall k,
  indexed k (map (fun ip => f (fst ip) (snd ip)) (indexed k l)) =
  map (fun ip => (fst ip, f (fst ip) (snd ip))) (indexed k l).
Proof.
  induction l as [|a l IH]; intros k; simpl; [reflexivity|]. f_equal.
  (* the tail: indices continue at S k on both sides *)
  specialize (IH (S k)). exact IH.
Qed.

Lemma interpolate_ext f g s : (forall n, f n = g n) -> interpolate f s = interpolate g s.
Proof.
  intros H. unfold interpolate. f_equal. apply flat_map_ext. intros ln. rewrite H. reflexivity.
Qed.

Lemma lit_chain_props c ups : props_of (lit_chain c ups) = props_of c.
Proof.
  unfold props_of, lit_chain. rewrite map_map. simpl.
  rewrite <- (indexed_map_snd c O) at 2. rewrite map_map. reflexivity.
Qed.

Lemma beq4_refl l : beq4 l l = true.
Proof.
  induction l as [|[[[i o] k] v] l IH]; simpl; auto.
  rewrite Nat.eqb_refl, !beq_refl, IH. reflexivity.
Qed.

Lemma lit_chain_spec c ups :
  d_lit c ups = true -> decl_spec_ok c ups (lit_chain c ups) = true.
Proof.
  intros HD. destruct (d_lit_unpack c ups HD) as (HW & HN & HL).
  unfold decl_spec_ok.
  assert (E : eff_all (lit_chain c ups) = want_all c ups); [|rewrite E; apply beq4_refl].
  unfold eff_all, want_all, lit_chain.
  rewrite (indexed_map (fun i p => lit_pom ups i p) c O).
  rewrite flat_map_concat_map, map_map, <- flat_map_concat_map.
  apply flat_map_ext_in_local. intros [i p] Hip. simpl.
  rewrite map_map. apply map_ext_in. intros d Hd.
  unfold lit_decl. destruct (find (fun u => addresses u i d) ups) as [u|] eqn:Ef.
  - simpl. f_equal. unfold eff. simpl.
    apply find_some in Ef as [Hu _]. destruct (HL u Hu) as (_ & _ & _ & _ & Ht).
    apply interpolate_literal. exact Ht.
  - f_equal. unfold eff. fold (lit_chain c ups). rewrite lit_chain_props. reflexivity.
Qed.

Lemma pom_decl_write_exact_on_D_lemma c ups :
  d_lit c ups = true ->
  exists c', write_chain c ups = Some c' /\ decl_spec_ok c ups c' = true.
Proof.
  intros HD. exists (lit_chain c ups). split; [apply write_chain_lit|apply lit_chain_spec]; exact HD.
Qed.

(* ------------------------------------------------------------------ no updates *)
Lemma write_decl_nil path d : write_decl [] path d = Some d.
Proof.
  unfold write_decl. simpl. destruct (beq (dl_origin d) PARENT); [reflexivity|].
  destruct (is_nil (dl_ver d)); reflexivity.
Qed.

Lemma write_chain_nil c : write_chain c [] = Some c.
Proof.
  unfold write_chain. simpl.
  rewrite (all_some_map _ snd).
  - rewrite indexed_map_snd. reflexivity.
  - intros [i p] _. simpl. unfold write_pom.
    rewrite (all_some_map _ (fun d => d)) by (intros; apply write_decl_nil).
    rewrite map_id. rewrite (map_id_on_local (write_prop [] (patch_path i p))) by reflexivity.
    unfold added_pairs. simpl. rewrite insert_added_nil. destruct p as [? ? ? e], i; [destruct e|]; reflexivity.
Qed.

(* ------------------------------------------------------------------ added dependencyManagement entries *)
Definition add_main (c : chain) (u : pupd) : chain :=
  match c with
  | p :: r => {| pm_path := pm_path p;
                 pm_decls := insert_added [added_decl (pu_key u, pu_to u)] (pm_decls p);
                 pm_props := pm_props p; pm_empty_mgmt := pm_empty_mgmt p |} :: r
  | [] => []
  end.

Lemma not_declared_no_original c key : declared c key = false -> original_dependency c key = None.
Proof.
  intros H. unfold original_dependency. apply find_none_iff_local. intros [fo d] Hin.
  apply orig_reqs_In in Hin as (i & p & Hip & Hd & _ & _). simpl.
  destruct (beq key (dl_key d) && negb (is_nil (dl_ver d))) eqn:E; auto.
  assert (declared c key = true); [|congruence].
  unfold declared. apply existsb_exists. exists (i, d). split; [apply all_decls_In; eauto|exact E].
Qed.

Lemma dep_patches_one k t pa o :
  dep_patches_at [DepPatch [] MANAGEMENT k t false] pa o = if beq [] pa && beq MANAGEMENT o then [(k, t)] else [].
Proof. unfold dep_patches_at. cbn [flat_map]. rewrite app_nil_r. reflexivity. Qed.

Lemma MGMT_PARENT : beq MANAGEMENT PARENT = false. Proof. reflexivity. Qed.

Lemma write_decl_add c u pa i d :
  declared c (pu_key u) = false -> In (i, d) (all_decls c) ->
  write_decl [DepPatch [] MANAGEMENT (pu_key u) (pu_to u) false] pa d = Some d.
Proof.
  intros HD Hin. unfold write_decl. rewrite dep_patches_one.
  destruct (beq (dl_origin d) PARENT) eqn:Ep.
  - apply beq_eq in Ep. rewrite Ep, MGMT_PARENT, andb_false_r. reflexivity.
  - destruct (is_nil (dl_ver d)) eqn:Ev; [reflexivity|].
    destruct (beq [] pa && beq MANAGEMENT (dl_origin d)); [|reflexivity]. cbn [find fst].
    destruct (beq (pu_key u) (dl_key d)) eqn:Ek; [|reflexivity].
    exfalso. assert (declared c (pu_key u) = true); [|congruence].
    unfold declared. apply existsb_exists. exists (i, d). split; auto. cbn [snd]. rewrite Ek, Ev. reflexivity.
Qed.

Lemma map_indexed_succ {A} (g : nat * A -> A) (l : list A) : forall k,
  (forall i x, (0 < i)%nat -> g (i, x) = x) -> (0 < k)%nat -> map g (indexed k l) = l.
Proof.
  induction l as [|a l IH]; intros k Hg Hk; simpl; [reflexivity|].
  rewrite Hg by exact Hk. rewrite IH; auto.
Qed.

Lemma write_chain_add c u :
  c <> [] -> declared c (pu_key u) = false -> (forall p r, c = p :: r -> pm_empty_mgmt p = false) ->
  write_chain c [u] = Some (add_main c u).
Proof.
  intros Hne HD HE. unfold write_chain. cbn [build_patches]. unfold build_one.
  rewrite (not_declared_no_original c (pu_key u) HD). simpl app.
  set (ps := [DepPatch [] MANAGEMENT (pu_key u) (pu_to u) false]).
  assert (Ea : added_pairs ps = [(pu_key u, pu_to u)]) by reflexivity.
  set (g := fun ip : nat * pom => match fst ip with
                                  | O => {| pm_path := pm_path (snd ip);
                                            pm_decls := insert_added [added_decl (pu_key u, pu_to u)] (pm_decls (snd ip));
                                            pm_props := pm_props (snd ip); pm_empty_mgmt := pm_empty_mgmt (snd ip) |}
                                  | S _ => snd ip
                                  end).
  rewrite (all_some_map _ g).
  - destruct c as [|p r]; [contradiction|]. simpl. unfold g at 1. simpl. f_equal. f_equal.
    apply map_indexed_succ; [|lia]. intros i x Hi. unfold g. simpl. destruct i; [lia|reflexivity].
  - intros [i p] Hip. simpl. unfold write_pom.
    rewrite (all_some_map _ (fun d => d)).
    + rewrite map_id, Ea. rewrite (map_id_on_local (write_prop ps (patch_path i p))) by reflexivity.
      unfold g. simpl. destruct i; [|destruct p; reflexivity].
      assert (Hem : pm_empty_mgmt p = false).
      { destruct c as [|p' r']; [contradiction|]. simpl in Hip. destruct Hip as [Hip|Hip].
        - inversion Hip; subst. apply (HE p r' eq_refl).
        - apply indexed_In in Hip as [Hle _]. lia. }
      rewrite Hem. reflexivity.
    + intros d Hd. apply (write_decl_add c u _ i d HD). apply all_decls_In. eauto.
Qed.

Lemma add_main_props c u : props_of (add_main c u) = props_of c.
Proof. destruct c; reflexivity. Qed.

Definition entry_of (c : chain) (i : nat) (d : decl) : nat * bytes * bytes * bytes :=
  (i, dl_origin d, dl_key d, eff c i d).

Lemma eff_all_entries c :
  eff_all c = flat_map (fun ip => map (fun d => entry_of c (fst ip) d) (pm_decls (snd ip))) (indexed O c).
Proof. reflexivity. Qed.

Lemma eff_all_cons p r (c : chain) k :
  flat_map (fun ip => map (fun d => entry_of c (fst ip) d) (pm_decls (snd ip))) (indexed k (p :: r)) =
  map (entry_of c k) (pm_decls p) ++
  flat_map (fun ip => map (fun d => entry_of c (fst ip) d) (pm_decls (snd ip))) (indexed (S k) r).
Proof. reflexivity. Qed.

Lemma filter_insert_added (f : decl -> bool) a ds :
  f a = false -> (forall d, In d ds -> f d = true) ->
  filter f (insert_added [a] ds) = ds.
Proof.
  intros Ha Hd. induction ds as [|d r IH]; simpl.
  - rewrite Ha. reflexivity.
  - destruct (front_origin d).
    + simpl. rewrite (Hd d) by (left; reflexivity). rewrite IH; auto. intros; apply Hd; right; auto.
    + simpl. rewrite Ha. rewrite (Hd d) by (left; reflexivity). f_equal.
      clear IH. induction r as [|x r IH]; simpl; auto. rewrite (Hd x) by (right; left; reflexivity).
      f_equal. apply IH. intros y Hy. apply Hd. destruct Hy as [->|Hy]; [left; reflexivity|right; right; exact Hy].
Qed.

Lemma In_insert_added a ds : In a (insert_added [a] ds).
Proof.
  induction ds as [|d r IH]; simpl; [left; reflexivity|].
  destruct (front_origin d); [right; exact IH|left; reflexivity].
Qed.

Lemma filter_map_comm {A B} (f : B -> bool) (g : A -> B) l : filter f (map g l) = map g (filter (fun x => f (g x)) l).
Proof. induction l as [|x l IH]; simpl; auto. destruct (f (g x)); simpl; rewrite IH; reflexivity. Qed.

Lemma filter_all_true {A} (f : A -> bool) l : (forall x, In x l -> f x = true) -> filter f l = l.
Proof. induction l as [|x l IH]; simpl; auto. intros H. rewrite (H x) by auto. rewrite IH; auto. Qed.

Lemma add_main_spec c u : d_add c u = true -> decl_spec_all c [u] (add_main c u) = true.
Proof.
  unfold d_add. intros H. apply andb_true_iff in H as [H HM]. apply andb_true_iff in H as [H HA].
  apply andb_true_iff in H as [HI HT]. apply negb_true_iff in HA.
  destruct c as [|p r]; [discriminate|]. apply andb_true_iff in HM as [HM _]. apply negb_true_iff in HM.
  unfold decl_spec_all. apply andb_true_iff. split.
  - (* everything but the added entry is as before *)
    assert (E : filter (fun e => negb (is_added_entry (p :: r) [u] e)) (eff_all (add_main (p :: r) u)) = want_all (p :: r) [u]);
      [|rewrite E; apply beq4_refl].
    assert (Hw : want_all (p :: r) [u] = eff_all (p :: r)).
    { unfold want_all, eff_all. apply flat_map_ext_in_local. intros [i q] Hiq. apply map_ext_in. intros d Hd.
      cbn [find fst snd].
      assert (addresses u i d = false); [|rewrite H; reflexivity].
      destruct (addresses u i d) eqn:EA; auto.
      assert (existsb (fun id => addresses u (fst id) (snd id)) (all_decls (p :: r)) = true); [|congruence].
      apply existsb_exists. exists (i, d). split; [apply all_decls_In; eauto|exact EA]. }
    rewrite Hw. rewrite !eff_all_entries.
    assert (Ee : forall i d, entry_of (add_main (p :: r) u) i d = entry_of (p :: r) i d).
    { intros. unfold entry_of, eff. rewrite add_main_props. reflexivity. }
    unfold add_main. rewrite !eff_all_cons. cbn [pm_decls].
    rewrite filter_app. f_equal.
    + rewrite filter_map_comm.
      rewrite (filter_insert_added _ (added_decl (pu_key u, pu_to u)) (pm_decls p)).
      * apply map_ext. intros d. apply Ee.
      * unfold entry_of, is_added_entry, added_decl. cbn [dl_origin dl_key fst snd existsb].
        rewrite Nat.eqb_refl, !beq_refl, HI. reflexivity.
      * intros d Hd. unfold entry_of, is_added_entry. cbn [existsb]. rewrite orb_false_r, Nat.eqb_refl. cbn [andb].
        destruct (beq (dl_origin d) MANAGEMENT) eqn:Eo; [|reflexivity]. cbn [andb]. rewrite HI. cbn [andb].
        destruct (beq (pu_key u) (dl_key d)) eqn:Ek; [|reflexivity]. exfalso.
        assert (existsb (fun d => beq (dl_origin d) MANAGEMENT && beq (dl_key d) (pu_key u)) (pm_decls p) = true); [|congruence].
        apply existsb_exists. exists d. split; auto. rewrite Eo, beq_sym_l, Ek. reflexivity.
    + rewrite filter_all_true.
      * apply flat_map_ext_in_local. intros [i q] _. apply map_ext. intros d. apply Ee.
      * intros e He. apply in_flat_map in He as ([i q] & Hiq & He). apply in_map_iff in He as (d & <- & _).
        apply indexed_In in Hiq as [Hi _]. unfold entry_of, is_added_entry. destruct i; [lia|reflexivity].
  - (* the added requirement is a project-level management declaration standing for VersionTo *)
    cbn [forallb]. rewrite andb_true_r, HI. cbn [negb orb].
    apply existsb_exists. exists (O, MANAGEMENT, pu_key u, pu_to u). split.
    + rewrite eff_all_entries. unfold add_main. rewrite eff_all_cons. apply in_or_app. left. cbn [pm_decls].
      apply in_map_iff. exists (added_decl (pu_key u, pu_to u)). split; [|apply In_insert_added].
      unfold entry_of, eff, added_decl. cbn [dl_origin dl_key dl_ver fst snd]. rewrite (interpolate_literal _ _ HT). reflexivity.
    + unfold entry_eqb. cbn [beq4]. rewrite Nat.eqb_refl, !beq_refl. reflexivity.
Qed.

Lemma pom_decl_added_management_present_lemma c u :
  d_add c u = true ->
  write_chain c [u] = Some (add_main c u) /\ decl_spec_all c [u] (add_main c u) = true /\
  exists p r p', c = p :: r /\ add_main c u = p' :: r /\ In (added_decl (pu_key u, pu_to u)) (pm_decls p').
Proof.
  intros HD. pose proof HD as HD'. unfold d_add in HD'.
  apply andb_true_iff in HD' as [H HM]. apply andb_true_iff in H as [H _]. apply andb_true_iff in H as [HI _].
  unfold is_add in HI. apply negb_true_iff in HI.
  destruct c as [|p r]; [discriminate|].
  apply andb_true_iff in HM as [_ HE]. apply negb_true_iff in HE.
  repeat split.
  - apply write_chain_add; [discriminate|exact HI|]. intros p1 r1 E. inversion E; subst. exact HE.
  - apply add_main_spec. exact HD.
  - exists p, r. eexists. repeat split. simpl. apply In_insert_added.
Qed.

(* Token-level model of the pom.xml writer (write / writeProject / writeDependency / writeString of
   guidedremediation/internal/manifest/maven/pomxml.go), a first step: the writer as a transformer of the XML
   token stream that copies every token except
     (a) the content of a <version> element that has a <dependency> or <parent> ancestor: writeString re-encodes
         that element from its TEXT (EncodeElement(value, start)): the children are replaced by one text token --
         the new version when the declaration is addressed, else the element's own direct text (comments and
         nested elements inside it are dropped, which is the known finding "comment inside <version>");
     (b) the content of an addressed direct child of <properties>: replaced by the new value.
   NOT modelled here: (c) the inserted dependencyManagement entries/block (cases with added requirements are left
   to the harness's encoding/xml oracle), and which declarations are addressed -- that is the declaration-level
   model (PomDecl.v); the decisions are handed over per occurrence, in document order.

   Tokens are what encoding/xml yields for the file, adjacent character data merged; names, attributes and
   texts are interned per case (equal id = equal string), with the element kinds the writer looks at.
   Definitions only (no proofs). *)
From Coq Require Import List ZArith NArith Bool.
From Scalibr Require Import Writers.GoBytes.
Import ListNotations.
Open Scope N_scope.

Inductive tok :=
| TStart (kind id : N)      (* kind by local name: 1 version, 2 dependency, 3 parent, 4 properties, 0 other *)
| TEnd (kind id : N)
| TText (id : N)
| TComment (id : N)
| TPI (id : N)
| TDir (id : N).

Definition K_VERSION : N := 1.
Definition K_DEPENDENCY : N := 2.
Definition K_PARENT : N := 3.
Definition K_PROPERTIES : N := 4.

(* what to do with one rewritten element *)
Inductive decision :=
| DKeep                       (* not addressed *)
| DSet (text : option N).     (* addressed: the new text (None = the empty string: no text token) *)

(* interned texts: the bytes of the ids that matter (texts inside rewritten elements, new values) *)
Definition texts := list (N * bytes).

Definition bytes_of (tbl : texts) (x : N) : bytes :=
  match find (fun e => N.eqb (fst e) x) tbl with Some e => snd e | None => [] end.

Definition id_of (tbl : texts) (s : bytes) : N :=
  match find (fun e => beq (snd e) s) tbl with Some e => fst e | None => 0 end.

(* the string value of an element: its direct character data, concatenated *)
Definition merged (tbl : texts) (ids : list N) : option N :=
  match ids with
  | [] => None
  | [x] => Some x
  | _ => Some (id_of tbl (flat_map (bytes_of tbl) ids))
  end.

Definition text_tok (x : option N) : list tok := match x with Some i => [TText i] | None => [] end.

Definition pop (l : list decision) : decision * list decision :=
  match l with [] => (DKeep, []) | d :: r => (d, r) end.

Definition in_ctx (stack : list N) : bool := existsb (fun k => N.eqb k K_DEPENDENCY || N.eqb k K_PARENT) stack.
Definition in_props (stack : list N) : bool := match stack with k :: _ => N.eqb k K_PROPERTIES | [] => false end.

(* the writer is in one of three modes: copying; inside a rewritten <version> (DecodeElement has the decoder read
   the element to its end: depth d below it, direct texts collected so far, newest first); inside an addressed
   child of <properties> *)
Inductive mode :=
| MNormal
| MVer (d : nat) (col : list N) (dec : decision)
| MProp (d : nat) (x : option N).

(* stack = kinds of the open elements, innermost first; vdec / pdec = the decisions for the rewritten <version>
   elements / the direct children of <properties>, in document order *)
Fixpoint tok_write (tbl : texts) (stack : list N) (m : mode) (vdec pdec : list decision) (l : list tok) : list tok :=
  match l with
  | [] => []
  | t :: r =>
    match m with
    | MVer d col dec =>
      match t with
      | TStart _ _ => tok_write tbl stack (MVer (S d) col dec) vdec pdec r
      | TEnd _ _ =>
        match d with
        | O => text_tok (match dec with DSet x => x | DKeep => merged tbl (rev col) end) ++
               t :: tok_write tbl stack MNormal vdec pdec r
        | S d' => tok_write tbl stack (MVer d' col dec) vdec pdec r
        end
      | TText x => tok_write tbl stack (MVer d (match d with O => x :: col | S _ => col end) dec) vdec pdec r
      | _ => tok_write tbl stack (MVer d col dec) vdec pdec r
      end
    | MProp d x =>
      match t with
      | TStart _ _ => tok_write tbl stack (MProp (S d) x) vdec pdec r
      | TEnd _ _ =>
        match d with
        | O => text_tok x ++ t :: tok_write tbl stack MNormal vdec pdec r
        | S d' => tok_write tbl stack (MProp d' x) vdec pdec r
        end
      | _ => tok_write tbl stack (MProp d x) vdec pdec r
      end
    | MNormal =>
      match t with
      | TStart k id =>
        if N.eqb k K_VERSION && in_ctx stack
        then t :: tok_write tbl stack (MVer O [] (fst (pop vdec))) (snd (pop vdec)) pdec r
        else if in_props stack then
          match fst (pop pdec) with
          | DSet x => t :: tok_write tbl stack (MProp O x) vdec (snd (pop pdec)) r
          | DKeep => t :: tok_write tbl (k :: stack) MNormal vdec (snd (pop pdec)) r
          end
        else t :: tok_write tbl (k :: stack) MNormal vdec pdec r
      | TEnd _ _ => t :: tok_write tbl (tl stack) MNormal vdec pdec r
      | _ => t :: tok_write tbl stack MNormal vdec pdec r
      end
    end
  end.

Definition write_tokens (tbl : texts) (vdec pdec : list decision) (l : list tok) : list tok :=
  tok_write tbl [] MNormal vdec pdec l.

(* ------------------------------------------------------------------ spec side *)
(* everything strictly inside a rewritten <version> element or inside an addressed direct child of <properties>
   removed (skip = Some d: inside such an element, d levels below it) *)
Fixpoint strip_sel (stack : list N) (skip : option nat) (pdec : list decision) (l : list tok) : list tok :=
  match l with
  | [] => []
  | t :: r =>
    match skip with
    | Some d =>
      match t with
      | TStart _ _ => strip_sel stack (Some (S d)) pdec r
      | TEnd _ _ => match d with O => t :: strip_sel stack None pdec r | S d' => strip_sel stack (Some d') pdec r end
      | _ => strip_sel stack (Some d) pdec r
      end
    | None =>
      match t with
      | TStart k id =>
        if N.eqb k K_VERSION && in_ctx stack then t :: strip_sel stack (Some O) pdec r
        else if in_props stack then
          match fst (pop pdec) with
          | DSet _ => t :: strip_sel stack (Some O) (snd (pop pdec)) r
          | DKeep => t :: strip_sel (k :: stack) None (snd (pop pdec)) r
          end
        else t :: strip_sel (k :: stack) None pdec r
      | TEnd _ _ => t :: strip_sel (tl stack) None pdec r
      | _ => t :: strip_sel stack None pdec r
      end
    end
  end.

Definition stripped (pdec : list decision) (l : list tok) : list tok := strip_sel [] None pdec l.

(* every rewritten <version> element holds at most one text token and nothing else *)
Fixpoint plain_s (stack : list N) (l : list tok) : bool :=
  match l with
  | [] => true
  | TStart k id :: r =>
    if N.eqb k K_VERSION && in_ctx stack then
      match r with
      | TEnd _ _ :: rest => plain_s stack rest
      | TText _ :: TEnd _ _ :: rest => plain_s stack rest
      | _ => false
      end
    else plain_s (k :: stack) r
  | TEnd _ _ :: r => plain_s (tl stack) r
  | _ :: r => plain_s stack r
  end.

Definition plain (l : list tok) : bool := plain_s [] l.

Fixpoint tok_eqb (a b : list tok) : bool :=
  match a, b with
  | [], [] => true
  | x :: a', y :: b' =>
    match x, y with
    | TStart k i, TStart k' i' | TEnd k i, TEnd k' i' => N.eqb k k' && N.eqb i i'
    | TText i, TText i' | TComment i, TComment i' | TPI i, TPI i' | TDir i, TDir i' => N.eqb i i'
    | _, _ => false
    end && tok_eqb a' b'
  | _, _ => false
  end.

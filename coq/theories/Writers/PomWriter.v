(* pom.xml writer (guidedremediation/internal/manifest/maven/pomxml.go: Write, buildPatches, write,
   writeProject, writeDependency, writeString): the correspondence record of the harness's pom mode.

   Modelled in Coq (PomDecl.v): which version declaration / property definition of which pom of the chain
   gets which new text -- buildPatches (OriginalDependency, parentPathFromOrigin, property-vs-literal via
   generatePropertyPatches, property origin, preset conflicts) and the effect of the patches; and
   "Write panics iff a generatePropertyPatches call panics" (never, since the fix).
   NOT modelled, decided by the harness's token-level oracle only: that the bytes around those texts
   survive as the same XML token sequence (elements, attributes, text, comments, processing instructions),
   incl. the re-encoding of every token by the forked encoder, comments inside <version>, CDATA, and the
   inserted dependencyManagement block.  Definitions only (no proofs). *)
From Coq Require Import List ZArith NArith Bool.
From Scalibr Require Import Writers.GoBytes Writers.PomProps Writers.PomDecl Writers.PomTokens.
Import ListNotations.

(* the token streams of one pom of the chain *)
Record tokfile := {
  tf_in : list tok;          (* encoding/xml tokens of the input file *)
  tf_out : list tok;         (* ... of the written file *)
  tf_vmap : list nat;        (* per rewritten <version> element, in document order: index of its declaration *)
  tf_pmap : list nat }.      (* per direct child of <properties>: index of its property definition *)

Record mcase := {
  mc_prop_pairs : list (bytes * bytes);  (* (s1, s2) of the generatePropertyPatches calls Write has to make *)
  mc_chain : chain;                      (* declaration-level reading of the input poms *)
  mc_updates : list pupd;
  mc_dobs : dobs;                        (* ... of the written poms (declarations present before only) *)
  mc_chain_ok : bool;                    (* harness: Write wrote every pom of the chain *)
  mc_tok_claimed : bool;                 (* harness, token-level part of the domain: no comment inside a <version>,
                                            changed properties used in dependency versions only *)
  mc_zero_updates : bool;
  mc_claimed : bool;                     (* harness: its own structural domain (kept as a cross-check of d_full) *)
  mc_panic : bool;
  mc_error : bool;
  mc_good : bool;                        (* observed: success AND token sequence preserved AND re-read requirements
                                            substituted AND the Go effective-version reference agrees *)
  mc_tokfiles : list tokfile;            (* token streams, one per pom of the chain *)
  mc_texts : texts;                      (* the interned texts the token model may need *)
  mc_tok_dump_ok : bool }.               (* harness: token streams dumped for every pom (no added entries) *)

Definition pair_panics (p : bytes * bytes) : bool := is_panic (generate_property_patches (fst p) (snd p)).
Definition write_panics (pairs : list (bytes * bytes)) : bool := existsb pair_panics pairs.

(* model = implementation: no panic; on inputs where the Go code is deterministic (chain_frag) the written
   declarations and properties are the model's *)
Definition mcase_decl_model_ok (c : mcase) : bool :=
  Bool.eqb (write_panics (mc_prop_pairs c)) (mc_panic c) &&
  (negb (mc_chain_ok c && chain_frag (mc_chain c) (mc_updates c)) ||
   match write_chain (mc_chain c) (mc_updates c), mc_dobs c with
   | Some c', DObsOk o => chain_eqb c' o
   | None, DObsErr => true
   | _, _ => mc_panic c
   end).

(* ------------------------------------------------------------------ the token level *)
Definition dec_of_bytes (tbl : texts) (old new : bytes) : decision :=
  if beq old new then DKeep else DSet (if is_nil new then None else Some (id_of tbl new)).

(* the decisions of the token writer, taken from the declaration-level result *)
Definition vdecs (tbl : texts) (p p' : pom) (vmap : list nat) : list decision :=
  map (fun j => match nth_error (pm_decls p) j, nth_error (pm_decls p') j with
                | Some d, Some d' => dec_of_bytes tbl (dl_ver d) (dl_ver d')
                | _, _ => DKeep
                end) vmap.

Definition pdecs (tbl : texts) (p p' : pom) (pmap : list nat) : list decision :=
  map (fun j => match nth_error (pm_props p) j, nth_error (pm_props p') j with
                | Some f, Some f' => dec_of_bytes tbl (pf_val f) (pf_val f')
                | _, _ => DKeep
                end) pmap.

Fixpoint tok_files_ok (tbl : texts) (c c' : chain) (fs : list tokfile) : bool :=
  match c, c', fs with
  | p :: c1, p' :: c1', f :: fs1 =>
    tok_eqb (write_tokens tbl (vdecs tbl p p' (tf_vmap f)) (pdecs tbl p p' (tf_pmap f)) (tf_in f)) (tf_out f) &&
    tok_files_ok tbl c1 c1' fs1
  | [], [], [] => true
  | _, _, _ => false
  end.

(* token model = implementation: the written token stream of every pom is the token writer applied to the input
   stream with the decisions of the declaration-level model *)
Definition mcase_tok_model_ok (c : mcase) : bool :=
  negb (mc_tok_dump_ok c && mc_chain_ok c && chain_frag (mc_chain c) (mc_updates c)) ||
  match write_chain (mc_chain c) (mc_updates c) with
  | Some c' => tok_files_ok (mc_texts c) (mc_chain c) c' (mc_tokfiles c)
  | None => true
  end.

Definition mcase_model_ok (c : mcase) : bool := mcase_decl_model_ok c && mcase_tok_model_ok c.

(* token spec on the implementation's own output: nothing outside the rewritten elements differs; with no updates
   and plainly spelled versions the stream is identical *)
Fixpoint tok_spec_files (tbl : texts) (zero : bool) (c c' : chain) (fs : list tokfile) : bool :=
  match c, c', fs with
  | p :: c1, p' :: c1', f :: fs1 =>
    let pd := pdecs tbl p p' (tf_pmap f) in
    tok_eqb (stripped pd (tf_out f)) (stripped pd (tf_in f)) &&
    (negb (zero && plain (tf_in f)) || tok_eqb (tf_out f) (tf_in f)) &&
    tok_spec_files tbl zero c1 c1' fs1
  | [], [], [] => true
  | _, _, _ => false
  end.

(* which children of <properties> were addressed is read off the OBSERVED declaration-level result *)
Definition mcase_tok_spec_ok (c : mcase) : bool :=
  negb (mc_tok_dump_ok c) ||
  match mc_dobs c with
  | DObsOk o => tok_spec_files (mc_texts c) (mc_zero_updates c) (mc_chain c) o (mc_tokfiles c)
  | _ => false
  end.

(* the domain of the oracle: the token-level part (harness) and D_full (Coq) *)
Definition mcase_in_domain (c : mcase) : bool :=
  mc_tok_claimed c && d_full (mc_chain c) (mc_updates c).

(* the declaration-level spec on the implementation's own output *)
Definition mcase_decl_spec (c : mcase) : bool :=
  match mc_dobs c with
  | DObsOk o => decl_spec_all (mc_chain c) (mc_updates c) o
  | _ => false
  end.

Definition mcase_spec_full (c : mcase) : bool := mc_good c && mcase_decl_spec c && mcase_tok_spec_ok c.

Definition mcase_spec_ok (c : mcase) : bool := negb (mcase_in_domain c) || mcase_spec_full c.

(* cross-check of the two domain computations: everything D_full claims, the harness claims too *)
Definition mcase_domains_agree (c : mcase) : bool := negb (mcase_in_domain c) || mc_claimed c.

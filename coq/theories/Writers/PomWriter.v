(* pom.xml writer (guidedremediation/internal/manifest/maven/pomxml.go: Write, buildPatches, write,
   writeProject, writeDependency, writeString): the correspondence record of the harness's pom mode.

   Modelled in Coq (PomDecl.v): which version declaration / property definition of which pom of the chain
   gets which new text -- buildPatches (OriginalDependency, parentPathFromOrigin, property-vs-literal via
   generatePropertyPatches, property origin, preset conflicts) and the effect of the patches; and
   "Write panics iff a generatePropertyPatches call panics" (never, since the fix).
   NOT modelled, decided by the harness's token-level oracle only: that the bytes around those texts
   survive as the same XML token sequence (elements, attributes, text, comments, processing instructions),
   incl. the re-encoding of every token by the forked encoder, comments inside <version>, CDATA, and the
   inserted dependencyManagement block.  Definitions only (no proofs). *)
From Coq Require Import List ZArith NArith Bool.
From Scalibr Require Import Writers.GoBytes Writers.PomProps Writers.PomDecl.
Import ListNotations.

Record mcase := {
  mc_prop_pairs : list (bytes * bytes);  (* (s1, s2) of the generatePropertyPatches calls Write has to make *)
  mc_chain : chain;                      (* declaration-level reading of the input poms *)
  mc_updates : list pupd;
  mc_dobs : dobs;                        (* ... of the written poms (declarations present before only) *)
  mc_chain_ok : bool;                    (* harness: Write wrote every pom of the chain *)
  mc_tok_claimed : bool;                 (* harness, token-level part of the domain: no comment inside a <version>,
                                            changed properties used in dependency versions only *)
  mc_zero_updates : bool;
  mc_claimed : bool;                     (* harness: its own structural domain (kept as a cross-check of d_full) *)
  mc_panic : bool;
  mc_error : bool;
  mc_good : bool }.                      (* observed: success AND token sequence preserved AND re-read requirements
                                            substituted AND the Go effective-version reference agrees *)

Definition pair_panics (p : bytes * bytes) : bool := is_panic (generate_property_patches (fst p) (snd p)).
Definition write_panics (pairs : list (bytes * bytes)) : bool := existsb pair_panics pairs.

(* model = implementation: no panic; on inputs where the Go code is deterministic (chain_frag) the written
   declarations and properties are the model's *)
Definition mcase_model_ok (c : mcase) : bool :=
  Bool.eqb (write_panics (mc_prop_pairs c)) (mc_panic c) &&
  (negb (mc_chain_ok c && chain_frag (mc_chain c) (mc_updates c)) ||
   match write_chain (mc_chain c) (mc_updates c), mc_dobs c with
   | Some c', DObsOk o => chain_eqb c' o
   | None, DObsErr => true
   | _, _ => mc_panic c
   end).

(* the domain of the oracle: the token-level part (harness) and D_full (Coq) *)
Definition mcase_in_domain (c : mcase) : bool :=
  mc_tok_claimed c && d_full (mc_chain c) (mc_updates c).

(* the declaration-level spec on the implementation's own output *)
Definition mcase_decl_spec (c : mcase) : bool :=
  match mc_dobs c with
  | DObsOk o => decl_spec_all (mc_chain c) (mc_updates c) o
  | _ => false
  end.

Definition mcase_spec_full (c : mcase) : bool := mc_good c && mcase_decl_spec c.

Definition mcase_spec_ok (c : mcase) : bool := negb (mcase_in_domain c) || mcase_spec_full c.

(* cross-check of the two domain computations: everything D_full claims, the harness claims too *)
Definition mcase_domains_agree (c : mcase) : bool := negb (mcase_in_domain c) || mc_claimed c.

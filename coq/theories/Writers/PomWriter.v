(* pom.xml writer (guidedremediation/internal/manifest/maven/pomxml.go: Write, buildPatches, write,
   writeProject, writeDependency, writeString).

   What is modelled here is the part of Write that is decided by generatePropertyPatches:
   buildPatches calls generatePropertyPatches(origVersion, VersionTo) once for every update whose
   original (un-interpolated) version contains a property, in update order, before anything is written;
   a panic there is a panic of Write, and Write has no other panic-capable operation on the inputs of
   the quantifier. The token-level rewrite itself (forked encoding/xml decoder/encoder) is NOT modelled:
   it is decided by the harness's round-trip oracle (token sequence via encoding/xml, re-read
   requirements) -- the evidence says so.  Definitions only (no proofs). *)
From Coq Require Import List ZArith NArith Bool.
From Scalibr Require Import Writers.GoBytes Writers.PomProps.
Import ListNotations.

Record mcase := {
  mc_prop_pairs : list (bytes * bytes);  (* (s1, s2) of the generatePropertyPatches calls Write has to make *)
  mc_zero_updates : bool;
  mc_claimed : bool;     (* harness: structural domain (updates addressed to present requirements, one per key,
                            changed properties referenced once, version texts spelled plainly) *)
  mc_panic : bool;       (* observed: Write panicked *)
  mc_error : bool;       (* observed: Write returned an error *)
  mc_good : bool }.      (* observed: success AND token sequence preserved (only addressed texts differ)
                            AND re-read requirements = original requirements with the versions substituted *)

Definition pair_panics (p : bytes * bytes) : bool := is_panic (generate_property_patches (fst p) (snd p)).

(* model of "Write panics": some generatePropertyPatches call panics *)
Definition write_panics (pairs : list (bytes * bytes)) : bool := existsb pair_panics pairs.

Definition mcase_model_ok (c : mcase) : bool := Bool.eqb (write_panics (mc_prop_pairs c)) (mc_panic c).

(* domain of the oracle: the structural part computed by the harness (generatePropertyPatches is total
   and sound on every input since the fix, so no further restriction comes from it) *)
Definition mcase_in_domain (c : mcase) : bool := mc_claimed c.

(* zero updates: claimed for every file (no domain) *)
Definition mcase_spec_ok (c : mcase) : bool :=
  negb (mcase_in_domain c) || mc_good c.

Definition mcase_spec_full (c : mcase) : bool := mc_good c.

(* Lemmas about the Go byte-string helpers. *)
From Coq Require Import List ZArith NArith Bool Lia PeanoNat.
From Scalibr Require Import Writers.GoBytes.
Import ListNotations.
Open Scope Z_scope.

Lemma skipn_skipn {A} (x y : nat) (l : list A) : skipn x (skipn y l) = skipn (x + y) l.
Proof.
  revert l; induction y as [|y IH]; intros l.
  - simpl. rewrite Nat.add_0_r. reflexivity.
  - destruct l as [|a l].
    + rewrite !skipn_nil. reflexivity.
    + rewrite Nat.add_succ_r. simpl. apply IH.
Qed.

Lemma bind_ok {A B} (x : Outcome A) (f : A -> Outcome B) r :
  bind x f = Ok r -> exists a, x = Ok a /\ f a = Ok r.
Proof. destruct x; simpl; intros H; try discriminate. eauto. Qed.

Lemma beq_eq a b : beq a b = true <-> a = b.
Proof.
  revert b; induction a as [|x a IH]; intros [|y b]; simpl; split; intros H; try discriminate; auto.
  - apply andb_true_iff in H as [H1 H2]. apply N.eqb_eq in H1. apply IH in H2. congruence.
  - inversion H; subst. rewrite N.eqb_refl. simpl. apply IH. reflexivity.
Qed.

Lemma beq_refl a : beq a a = true.
Proof. apply beq_eq. reflexivity. Qed.

Lemma beq_neq a b : beq a b = false <-> a <> b.
Proof.
  split; intros H.
  - intros E. apply beq_eq in E. congruence.
  - destruct (beq a b) eqn:E; auto. apply beq_eq in E. contradiction.
Qed.

Lemma prefixb_spec p s : prefixb p s = true <-> firstn (length p) s = p /\ (length p <= length s)%nat.
Proof.
  revert s; induction p as [|x p IH]; intros s; simpl.
  - split; auto. intros _. split; [reflexivity|lia].
  - destruct s as [|y s]; simpl.
    + split; [discriminate|]. intros [H _]. discriminate.
    + rewrite andb_true_iff, N.eqb_eq, IH. split.
      * intros [-> [H1 H2]]. rewrite H1. split; [reflexivity|lia].
      * intros [H1 H2]. inversion H1. rewrite H3. repeat split; auto. lia.
Qed.

Lemma prefixb_app p r : prefixb p (p ++ r) = true.
Proof. induction p; simpl; auto. rewrite N.eqb_refl. simpl. auto. Qed.

Lemma prefixb_decomp p s : prefixb p s = true -> s = p ++ skipn (length p) s.
Proof.
  intros H. apply prefixb_spec in H as [H _].
  rewrite <- H at 1. symmetry. apply firstn_skipn.
Qed.

(* ------------------------------------------------------------------ index *)
Lemma index_nat_some n s i :
  index_nat n s = Some i ->
  prefixb n (skipn i s) = true /\ (forall j, (j < i)%nat -> prefixb n (skipn j s) = false) /\ (i <= length s)%nat.
Proof.
  revert i; induction s as [|c s IH]; intros i H.
  - simpl in H. destruct (prefixb n []) eqn:E; [|discriminate].
    inversion H; subst. simpl. repeat split; auto; intros j Hj; lia.
  - cbn [index_nat] in H. destruct (prefixb n (c :: s)) eqn:E.
    + inversion H; subst. simpl. repeat split; auto; try lia; intros j Hj; lia.
    + destruct (index_nat n s) as [i'|] eqn:E'; [|discriminate]. inversion H; subst.
      destruct (IH i' eq_refl) as (H1 & H2 & H3). simpl. repeat split; auto; try lia.
      intros [|j] Hj; simpl; auto. apply H2. lia.
Qed.

Lemma index_nat_none n s :
  index_nat n s = None -> forall j, prefixb n (skipn j s) = false.
Proof.
  induction s as [|c s IH]; intros H j.
  - simpl in H. destruct (prefixb n []) eqn:E; [discriminate|]. destruct j; exact E.
  - cbn [index_nat] in H. destruct (prefixb n (c :: s)) eqn:E; [discriminate|].
    destruct (index_nat n s) eqn:E'; [discriminate|].
    destruct j; simpl; auto.
Qed.

Lemma index_nat_first n s i :
  prefixb n (skipn i s) = true -> (forall j, (j < i)%nat -> prefixb n (skipn j s) = false) ->
  (i <= length s)%nat -> index_nat n s = Some i.
Proof.
  revert i; induction s as [|c s IH]; intros i H1 H2 H3.
  - simpl in H3. assert (i = 0)%nat by lia. subst. simpl in *. rewrite H1. reflexivity.
  - destruct i as [|i].
    + simpl in H1. cbn [index_nat]. rewrite H1. reflexivity.
    + cbn [index_nat]. pose proof (H2 0%nat ltac:(lia)) as H0. simpl in H0. rewrite H0.
      rewrite (IH i); auto.
      * intros j Hj. apply (H2 (S j)). lia.
      * simpl in H3. lia.
Qed.

Lemma index_nat_skip n s e k :
  index_nat n s = Some e -> (k <= e)%nat -> index_nat n (skipn k s) = Some (e - k)%nat.
Proof.
  intros H Hk. apply index_nat_some in H as (H1 & H2 & H3).
  apply index_nat_first.
  - rewrite skipn_skipn. replace (e - k + k)%nat with e by lia. exact H1.
  - intros j Hj. rewrite skipn_skipn. apply H2. lia.
  - rewrite skipn_length. lia.
Qed.

Lemma index_ge0 n s : 0 <= index n s -> exists i, index_nat n s = Some i /\ index n s = Z.of_nat i.
Proof.
  unfold index. destruct (index_nat n s) as [i|]; intros H; [eauto|lia].
Qed.

Lemma index_lt0 n s : index n s < 0 -> index_nat n s = None.
Proof. unfold index. destruct (index_nat n s); intros; [lia|reflexivity]. Qed.

(* ------------------------------------------------------------------ slices *)
Lemma slice_ok s lo hi x :
  slice s lo hi = Ok x ->
  0 <= lo /\ lo <= hi /\ hi <= len s /\ x = firstn (Z.to_nat (hi - lo)) (skipn (Z.to_nat lo) s).
Proof.
  unfold slice. destruct ((0 <=? lo) && (lo <=? hi) && (hi <=? len s)) eqn:E; [|discriminate].
  intros H; inversion H; subst.
  apply andb_true_iff in E as [E E3]. apply andb_true_iff in E as [E1 E2].
  apply Z.leb_le in E1, E2, E3. auto.
Qed.

Lemma slice_in_range s lo hi :
  0 <= lo -> lo <= hi -> hi <= len s ->
  slice s lo hi = Ok (firstn (Z.to_nat (hi - lo)) (skipn (Z.to_nat lo) s)).
Proof.
  intros H1 H2 H3. unfold slice.
  apply Z.leb_le in H1, H2, H3. rewrite H1, H2, H3. reflexivity.
Qed.

Lemma slice_to_ok s hi x : slice_to s hi = Ok x -> 0 <= hi /\ hi <= len s /\ x = firstn (Z.to_nat hi) s.
Proof.
  unfold slice_to. intros H. apply slice_ok in H as (H1 & H2 & H3 & H4).
  rewrite Z.sub_0_r in H4. simpl in H4. auto.
Qed.

Lemma slice_from_ok s lo x : slice_from s lo = Ok x -> 0 <= lo /\ lo <= len s /\ x = skipn (Z.to_nat lo) s.
Proof.
  unfold slice_from. intros H. apply slice_ok in H as (H1 & H2 & H3 & H4).
  repeat split; auto. subst x. apply firstn_all2. rewrite skipn_length. unfold len. lia.
Qed.

Lemma skipn_firstn_split {A} (l : list A) i m :
  skipn i l = firstn m (skipn i l) ++ skipn (i + m) l.
Proof.
  rewrite <- (firstn_skipn m (skipn i l)) at 1. f_equal. rewrite skipn_skipn. f_equal. lia.
Qed.

(* ------------------------------------------------------------------ lookups *)
Lemma mem_In k l : mem k l = true <-> In k l.
Proof.
  induction l as [|x l IH]; simpl; [split; [discriminate|tauto]|].
  rewrite orb_true_iff, IH, beq_eq. split; intros [H|H]; auto.
Qed.

Lemma nodupb_NoDup l : nodupb l = true <-> NoDup l.
Proof.
  induction l as [|x l IH]; simpl.
  - split; auto. constructor.
  - rewrite andb_true_iff, negb_true_iff, IH. split.
    + intros [H1 H2]. constructor; auto. intros Hin. apply mem_In in Hin. congruence.
    + intros H. inversion H; subst. split; auto.
      destruct (mem x l) eqn:E; auto. apply mem_In in E. contradiction.
Qed.

Lemma lookup_nodup {V} (l : list (bytes * V)) n v :
  NoDup (map fst l) -> In (n, v) l -> lookup n l = Some v.
Proof.
  induction l as [|[k w] l IH]; simpl; intros HN HI; [contradiction|].
  inversion HN; subst.
  destruct HI as [HI|HI].
  - inversion HI; subst. rewrite beq_refl. reflexivity.
  - destruct (beq n k) eqn:E.
    + apply beq_eq in E. subst. exfalso. apply H1. apply (in_map fst) in HI. exact HI.
    + auto.
Qed.

Lemma lookup_last_nodup {V} (l : list (bytes * V)) n v :
  nodupb (map fst l) = true -> In (n, v) l -> lookup_last n l = Some v.
Proof.
  intros HN HI. unfold lookup_last. apply lookup_nodup.
  - rewrite map_rev. apply NoDup_rev. apply nodupb_NoDup. exact HN.
  - apply in_rev in HI. exact HI.
Qed.

(* Model of generatePropertyPatches / generatePropertyPatchesAux
   (guidedremediation/internal/manifest/maven/pomxml.go) and the interpolation spec.
   Definitions only (no proofs): this file must keep evaluating when a proof breaks. *)
From Coq Require Import List ZArith NArith Bool.
From Scalibr Require Import Writers.GoBytes.
Import ListNotations.
Open Scope Z_scope.

Definition DB : bytes := [36; 123]%N.   (* "${" *)
Definition RB : bytes := [125]%N.       (* "}"  *)

(* ------------------------------------------------------------------ model *)
(* The Go function threads a map through the recursion and (since the fix) reads it: the model threads
   the assignments patches[name] = value in the order they are executed (oldest first); the map is
   "last write wins" (GoBytes.lookup_last). Every slice expression of the Go text goes through
   GoBytes.slice*, guarded exactly as the Go text guards it.

   func generatePropertyPatchesAux(s1, s2 string, patches map[string]string) bool {
     start := strings.Index(s1, "${")
     if start < 0 || start > len(s2) || s1[:start] != s2[:start] { return false }
     end := strings.Index(s1, "}")
     if end < start+2 { return false }
     set := func(name, value string) bool {
       if preset, ok := patches[name]; ok && preset != value { return false }
       patches[name] = value
       return true
     }
     next := strings.Index(s1[end+1:], "${")
     if next < 0 {
       remainder := s1[end+1:]
       if len(remainder) <= len(s2)-start && remainder == s2[len(s2)-len(remainder):] {
         return set(s1[start+2:end], s2[start:len(s2)-len(remainder)])
       }
     } else if match := strings.Index(s2[start:], s1[end+1:end+1+next]); match > 0 {
       if !set(s1[start+2:end], s2[start:start+match]) { return false }
       return generatePropertyPatchesAux(s1[end+1:], s2[start+match:], patches)
     }
     return false
   } *)
Definition assignments := list (bytes * bytes).

(* set: None = conflicting value for a property that already has one (map left unchanged) *)
Definition pset (name v : bytes) (acc : assignments) : option assignments :=
  match lookup_last name acc with
  | Some pre => if beq pre v then Some (acc ++ [(name, v)]) else None
  | None => Some (acc ++ [(name, v)])
  end.

Fixpoint gpp_aux (fuel : nat) (s1 s2 : bytes) (acc : assignments) : Outcome (assignments * bool) :=
  match fuel with
  | O => OutOfFuel
  | S fuel' =>
    let start := index DB s1 in
    if (start <? 0) || (len s2 <? start) then Ok (acc, false) else
    p1 <- slice_to s1 start ;;
    p2 <- slice_to s2 start ;;
    if negb (beq p1 p2) then Ok (acc, false) else
    let e := index RB s1 in
    if e <? start + 2 then Ok (acc, false) else
    t <- slice_from s1 (e + 1) ;;
    let next := index DB t in
    if next <? 0 then
      if len t <=? len s2 - start then
        sfx <- slice_from s2 (len s2 - len t) ;;
        if beq t sfx then
          name <- slice s1 (start + 2) e ;;
          v <- slice s2 start (len s2 - len t) ;;
          match pset name v acc with
          | Some acc' => Ok (acc', true)
          | None => Ok (acc, false)
          end
        else Ok (acc, false)
      else Ok (acc, false)
    else
      needle <- slice s1 (e + 1) (e + 1 + next) ;;
      h <- slice_from s2 start ;;
      let m := index needle h in
      if 0 <? m then
        name <- slice s1 (start + 2) e ;;
        v <- slice s2 start (start + m) ;;
        match pset name v acc with
        | None => Ok (acc, false)
        | Some acc' =>
          s1' <- slice_from s1 (e + 1) ;;
          s2' <- slice_from s2 (start + m) ;;
          gpp_aux fuel' s1' s2' acc'
        end
      else Ok (acc, false)
  end.

(* generatePropertyPatches(s1, s2) *)
Definition generate_property_patches (s1 s2 : bytes) : Outcome (assignments * bool) :=
  gpp_aux (S (length s1)) s1 s2 [].

(* ------------------------------------------------------------------ spec *)
(* Character scanner for Maven placeholders: "${" name "}" where the name runs to the first "}".
   parse s = ([(lit_1, name_1); ...; (lit_k, name_k)], rem):
   s = lit_1 ${name_1} lit_2 ${name_2} ... lit_k ${name_k} rem. An unclosed "${" is literal text. *)
Definition is_db (s : bytes) : option bytes :=
  match s with
  | a :: b :: r => if N.eqb a 36 && N.eqb b 123 then Some r else None
  | _ => None
  end.

Fixpoint split_brace (s : bytes) : option (bytes * bytes) :=
  match s with
  | [] => None
  | c :: r => if N.eqb c 125 then Some ([], r)
              else match split_brace r with Some (n, a) => Some (c :: n, a) | None => None end
  end.

Definition prepend (l : bytes) (p : list (bytes * bytes) * bytes) : list (bytes * bytes) * bytes :=
  match fst p with
  | [] => ([], l ++ snd p)
  | (l0, n) :: t => ((l ++ l0, n) :: t, snd p)
  end.

Fixpoint parse_fuel (f : nat) (s : bytes) : list (bytes * bytes) * bytes :=
  match f with
  | O => ([], s)
  | S f' =>
    match s with
    | [] => ([], [])
    | c :: r =>
      match is_db s with
      | Some body =>
        match split_brace body with
        | Some (name, after) => (([], name) :: fst (parse_fuel f' after), snd (parse_fuel f' after))
        | None => ([], s)
        end
      | None => prepend [c] (parse_fuel f' r)
      end
    end
  end.

Definition parse (s : bytes) := parse_fuel (length s) s.

Definition value_of (props : assignments) (name : bytes) : bytes :=
  match lookup_last name props with
  | Some v => v
  | None => DB ++ name ++ RB
  end.

(* one pass of Maven interpolation with the property values props (last write wins) *)
Definition subst (props : assignments) (s : bytes) : bytes :=
  flat_map (fun ln => fst ln ++ value_of props (snd ln)) (fst (parse s)) ++ snd (parse s).

Definition names (s : bytes) : list bytes := map snd (fst (parse s)).

(* ------------------------------------------------------------------ correspondence record *)
Inductive pobs :=
| PObsPanic
| PObsRes (ok : bool) (m : list (bytes * bytes)).   (* the Go map, listed by key *)

Record pcase := { pc_s1 : bytes; pc_s2 : bytes; pc_obs : pobs }.

Definition map_agrees (asg : assignments) (m : list (bytes * bytes)) : bool :=
  forallb (fun kv => match lookup_last (fst kv) asg with Some v => beq v (snd kv) | None => false end) m &&
  forallb (fun kv => mem (fst kv) (map fst m)) asg.

Definition pcase_model_ok (c : pcase) : bool :=
  match generate_property_patches (pc_s1 c) (pc_s2 c), pc_obs c with
  | Panic, PObsPanic => true
  | Ok (asg, ok), PObsRes ok' m => Bool.eqb ok ok' && map_agrees asg m
  | _, _ => false
  end.

(* the property, evaluated on what the implementation returned, at full strength:
   no panic; when it reports success the returned property values turn s1 into s2 *)
Definition pcase_spec_full (c : pcase) : bool :=
  match pc_obs c with
  | PObsPanic => false
  | PObsRes true m => beq (subst m (pc_s1 c)) (pc_s2 c)
  | PObsRes false _ => true
  end.

Definition pcase_spec_ok (c : pcase) : bool := pcase_spec_full c.

(* non-triviality counters for the evidence *)
Definition has_placeholder (s1 : bytes) : bool := match fst (parse s1) with [] => false | _ => true end.

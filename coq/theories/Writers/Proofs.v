(* C13 proofs, collected: byte helpers, generatePropertyPatches, package.json writer, pom.xml writer. *)
From Scalibr Require Export Writers.GoBytesProofs Writers.PomPropsProofs Writers.PkgJsonProofs Writers.PomDeclProofs Writers.PomDeclPropProofs Writers.PomDeclFullProofs Writers.PomTokensProofs Writers.PomWriterProofs.

(* C19 - model of plugin requirement validation, capability filtering, name resolution and
   auto-enabling of required extractors.

   Anchors: /repo/plugin/plugin.go (ValidateRequirements), /repo/extractor/filesystem/list/list.go,
   /repo/extractor/standalone/list/list.go, /repo/detector/list/list.go (FromCapabilities,
   FilterByCapabilities, ExtractorsFromNames, ExtractorFromName, DetectorsFromNames),
   /repo/scalibr.go (EnableRequiredExtractors, ValidatePluginRequirements).

   Model + spec only; no proofs in this file.  Strings (plugin names, table keys) are N ids; the
   string table is in Generated_Registry.v. *)
From Coq Require Import List NArith ZArith Bool.
Import ListNotations.
Open Scope N_scope.

(* ------------------------------------------------------------------ capabilities *)
(* plugin.OS / plugin.Network, in iota order *)
Inductive os := OSAny | OSLinux | OSWindows | OSMac | OSUnix.
Inductive net := NetAny | NetOffline | NetOnline.
Record caps := mkCaps { c_os : os; c_net : net; c_dfs : bool; c_run : bool }.

Definition os_eqb (a b : os) : bool :=
  match a, b with
  | OSAny, OSAny | OSLinux, OSLinux | OSWindows, OSWindows | OSMac, OSMac | OSUnix, OSUnix => true
  | _, _ => false
  end.
Definition net_eqb (a b : net) : bool :=
  match a, b with
  | NetAny, NetAny | NetOffline, NetOffline | NetOnline, NetOnline => true
  | _, _ => false
  end.
Definition caps_eqb (a b : caps) : bool :=
  os_eqb (c_os a) (c_os b) && net_eqb (c_net a) (c_net b) && Bool.eqb (c_dfs a) (c_dfs b) && Bool.eqb (c_run a) (c_run b).

Definition all_os : list os := [OSAny; OSLinux; OSWindows; OSMac; OSUnix].
Definition all_net : list net := [NetAny; NetOffline; NetOnline].
(* every value of the Capabilities struct (5 x 3 x 2 x 2 = 60); the documented scan environments are
   the 4 x 2 x 2 x 2 = 32 with OS <> OSUnix and Network <> NetworkAny, see env_caps *)
Definition all_caps : list caps :=
  flat_map (fun o => flat_map (fun n => flat_map (fun d => map (fun r => mkCaps o n d r) [false; true]) [false; true]) all_net) all_os.
Definition is_env (c : caps) : bool := negb (os_eqb (c_os c) OSUnix) && negb (net_eqb (c_net c) NetAny).
Definition env_caps : list caps := filter is_env all_caps.

(* ------------------------------------------------------------------ plugins, tables *)
Inductive kind := KFs | KSa | KDet.
Definition kind_eqb (a b : kind) : bool :=
  match a, b with KFs, KFs | KSa, KSa | KDet, KDet => true | _, _ => false end.

Record plugin := mkPlugin {
  p_kind : kind;
  p_name : N;              (* Name() *)
  p_version : Z;           (* Version() *)
  p_req : caps;            (* *Requirements() *)
  p_required : list N      (* RequiredExtractors(); [] for extractors *)
}.

Definition list_eqb {A} (eqb : A -> A -> bool) : list A -> list A -> bool :=
  fix go l1 l2 := match l1, l2 with
                  | [], [] => true
                  | a :: l1', b :: l2' => eqb a b && go l1' l2'
                  | _, _ => false
                  end.
Definition option_eqb {A} (eqb : A -> A -> bool) (a b : option A) : bool :=
  match a, b with Some x, Some y => eqb x y | None, None => true | _, _ => false end.

Definition plugin_eqb (a b : plugin) : bool :=
  kind_eqb (p_kind a) (p_kind b) && N.eqb (p_name a) (p_name b) && Z.eqb (p_version a) (p_version b)
  && caps_eqb (p_req a) (p_req b) && list_eqb N.eqb (p_required a) (p_required b).

(* one InitMap entry: key -> the plugins its InitFns create (the generator lists them sorted by name;
   Go's order is that of maps.Values, i.e. unspecified) *)
Record entry := mkEntry { e_key : N; e_plugins : list plugin }.
Definition table := list entry.

Record registry := mkRegistry {
  r_fs_all : table; r_fs_names : table;
  r_sa_all : table; r_sa_names : table;
  r_det_all : table; r_det_names : table
}.

Definition all_of (r : registry) (k : kind) : table :=
  match k with KFs => r_fs_all r | KSa => r_sa_all r | KDet => r_det_all r end.
Definition names_of (r : registry) (k : kind) : table :=
  match k with KFs => r_fs_names r | KSa => r_sa_names r | KDet => r_det_names r end.
Definition flat (t : table) : list plugin := flat_map e_plugins t.

Fixpoint lookup (t : table) (key : N) : option (list plugin) :=
  match t with
  | [] => None
  | e :: t' => if N.eqb (e_key e) key then Some (e_plugins e) else lookup t' key
  end.

(* ------------------------------------------------------------------ ValidateRequirements *)
Inductive verr := ENonUnix | EOtherOS | ENeedsNet | EOfflineOnly | ENeedsDirectFS | ENotRunningSystem.

(* statement by statement as in plugin.go *)
Definition validate_errs (req c : caps) : list verr :=
  (match c_os req with
   | OSUnix => match c_os c with OSLinux | OSMac => [] | _ => [ENonUnix] end
   | _ => if negb (os_eqb (c_os req) OSAny) && negb (os_eqb (c_os req) (c_os c)) then [EOtherOS] else []
   end)
  ++ (if negb (net_eqb (c_net req) NetAny) && negb (net_eqb (c_net req) (c_net c))
      then (if net_eqb (c_net c) NetOffline then [ENeedsNet] else [EOfflineOnly]) else [])
  ++ (if c_dfs req && negb (c_dfs c) then [ENeedsDirectFS] else [])
  ++ (if c_run req && negb (c_run c) then [ENotRunningSystem] else []).

Definition validate_requirements (req c : caps) : bool :=
  match validate_errs req c with [] => true | _ => false end.

(* SPEC: "the environment satisfies the stated requirements", written as a table, independent of
   the control flow above *)
Definition os_satisfies (req env : os) : bool :=
  match req, env with
  | OSAny, _ => true
  | OSUnix, OSLinux | OSUnix, OSMac => true
  | OSLinux, OSLinux | OSWindows, OSWindows | OSMac, OSMac => true
  | _, _ => false
  end.
Definition net_satisfies (req env : net) : bool :=
  match req, env with
  | NetAny, _ => true
  | NetOffline, NetOffline | NetOnline, NetOnline => true
  | _, _ => false
  end.
Definition satisfies (req env : caps) : bool :=
  os_satisfies (c_os req) (c_os env) && net_satisfies (c_net req) (c_net env)
  && implb (c_dfs req) (c_dfs env) && implb (c_run req) (c_run env).

(* ------------------------------------------------------------------ FilterByCapabilities, FromCapabilities *)
Definition filter_by_capabilities (ps : list plugin) (c : caps) : list plugin :=
  filter (fun p => validate_requirements (p_req p) c) ps.

(* a call as the caller sees it: (returned list, the caller's own list afterwards).  FilterByCapabilities
   builds a new slice and never writes to its argument. *)
Definition filter_call (ps : list plugin) (c : caps) : list plugin * list plugin :=
  (filter_by_capabilities ps c, ps).

(* instantiates every InitFn of All (map order: unspecified; here table order), then filters *)
Definition from_capabilities (all : table) (c : caps) : list plugin :=
  filter_by_capabilities (flat all) c.

(* ------------------------------------------------------------------ ExtractorsFromNames / DetectorsFromNames *)
Definition has_name (n : N) (ps : list plugin) : bool := existsb (fun p => N.eqb (p_name p) n) ps.

(* resultMap[e.Name()] = e unless present: first instance per name wins *)
Fixpoint add_new (acc ps : list plugin) : list plugin :=
  match ps with
  | [] => acc
  | p :: ps' => add_new (if has_name (p_name p) acc then acc else acc ++ [p]) ps'
  end.

Fixpoint from_names_acc (t : table) (names : list N) (acc : list plugin) : option (list plugin) :=
  match names with
  | [] => Some acc
  | n :: names' =>
      match lookup t n with
      | None => None                             (* unknown extractor/detector %q *)
      | Some ps => from_names_acc t names' (add_new acc ps)
      end
  end.

(* the result is the value set of a Go map: order unspecified.  Canonical order: by name id. *)
Fixpoint insert_by_name (p : plugin) (l : list plugin) : list plugin :=
  match l with
  | [] => [p]
  | q :: l' => if N.leb (p_name p) (p_name q) then p :: l else q :: insert_by_name p l'
  end.
Definition sort_by_name (l : list plugin) : list plugin := fold_right insert_by_name [] l.

Definition from_names (t : table) (names : list N) : option (list plugin) :=
  option_map sort_by_name (from_names_acc t names []).

(* ------------------------------------------------------------------ ExtractorFromName *)
Definition from_name (t : table) (name : N) : option plugin :=
  match lookup t name with
  | Some [p] => if N.eqb (p_name p) name then Some p else None   (* not an exact name *)
  | _ => None                                                    (* unknown / not an exact name *)
  end.

(* ------------------------------------------------------------------ ScanConfig *)
Record config := mkConfig { cfg_fs : list plugin; cfg_sa : list plugin; cfg_det : list plugin }.

Definition memN (n : N) (l : list N) : bool := existsb (N.eqb n) l.

(* inner loop over d.RequiredExtractors(); state = (enabled set, fs list, sa list) *)
Fixpoint enable_names (fsn san : table) (req : list N) (st : list N * list plugin * list plugin)
  : option (list N * list plugin * list plugin) :=
  match req with
  | [] => Some st
  | e :: req' =>
      let '(en, fs, sa) := st in
      if memN e en then enable_names fsn san req' st
      else match from_name fsn e, from_name san e with
           | None, None => None                   (* required extractor not present in list.go *)
           | ex, stex =>
               enable_names fsn san req'
                 (e :: en,
                  match ex with Some p => fs ++ [p] | None => fs end,
                  match stex with Some p => sa ++ [p] | None => sa end)
           end
  end.

Fixpoint enable_dets (fsn san : table) (dets : list plugin) (st : list N * list plugin * list plugin)
  : option (list N * list plugin * list plugin) :=
  match dets with
  | [] => Some st
  | d :: dets' =>
      match enable_names fsn san (p_required d) st with
      | None => None
      | Some st' => enable_dets fsn san dets' st'
      end
  end.

Definition enable_required_extractors (fsn san : table) (cfg : config) : option config :=
  match enable_dets fsn san (cfg_det cfg)
          (map p_name (cfg_fs cfg) ++ map p_name (cfg_sa cfg), cfg_fs cfg, cfg_sa cfg) with
  | None => None
  | Some (_, fs, sa) => Some (mkConfig fs sa (cfg_det cfg))
  end.

Definition cfg_plugins (cfg : config) : list plugin := cfg_fs cfg ++ cfg_sa cfg ++ cfg_det cfg.

(* errors.Join(errs...) is nil iff there is no error *)
Definition validate_plugin_requirements (cfg : config) (c : caps) : bool :=
  forallb (fun p => validate_requirements (p_req p) c) (cfg_plugins cfg).

(* what Scan does before anything else: EnableRequiredExtractors, then ValidatePluginRequirements *)
Inductive prep := PrepOk | PrepMissingExtractor | PrepRequirements.
Definition prep_eqb (a b : prep) : bool :=
  match a, b with PrepOk, PrepOk | PrepMissingExtractor, PrepMissingExtractor | PrepRequirements, PrepRequirements => true | _, _ => false end.
Definition scan_prep (fsn san : table) (cfg : config) (c : caps) : prep :=
  match enable_required_extractors fsn san cfg with
  | None => PrepMissingExtractor
  | Some cfg' => if validate_plugin_requirements cfg' c then PrepOk else PrepRequirements
  end.

(* the configuration "everything the lists offer for this environment" *)
Definition filtered_config (r : registry) (c : caps) : config :=
  mkConfig (from_capabilities (r_fs_all r) c) (from_capabilities (r_sa_all r) c) (from_capabilities (r_det_all r) c).

(* ------------------------------------------------------------------ registry-level specs (booleans) *)
Fixpoint nodupN (l : list N) : bool :=
  match l with [] => true | a :: l' => negb (memN a l') && nodupN l' end.

Definition kinds : list kind := [KFs; KSa; KDet].

(* plugin names are unique inside one plugin list (All of one kind) *)
Definition names_unique_in (r : registry) (k : kind) : bool := nodupN (map p_name (flat (all_of r k))).
(* ... and over all three lists together *)
Definition names_unique_globally (r : registry) : bool :=
  nodupN (flat_map (fun k => map p_name (flat (all_of r k))) kinds).

(* keys of a table are pairwise different (a Go map guarantees it; checked on the dump) *)
Definition keys_unique (t : table) : bool := nodupN (map e_key t).

(* every key of the name table resolves (no error) and only to registered plugins of that kind *)
Definition plugin_in (p : plugin) (ps : list plugin) : bool := existsb (plugin_eqb p) ps.
Definition key_resolves (r : registry) (k : kind) (key : N) : bool :=
  match from_names (names_of r k) [key] with
  | Some ps => forallb (fun p => plugin_in p (flat (all_of r k))) ps
  | None => false
  end.
Definition every_name_resolves_b (r : registry) : bool :=
  forallb (fun k => forallb (fun e => key_resolves r k (e_key e)) (names_of r k)) kinds.

(* resolving a plugin's own name gives exactly that plugin: through the list function for all three
   kinds, and through ExtractorFromName for the two extractor kinds *)
Definition own_name_ok (r : registry) (k : kind) (p : plugin) : bool :=
  (match from_names (names_of r k) [p_name p] with Some [q] => plugin_eqb p q | _ => false end)
  && (match k with
      | KDet => true
      | _ => match from_name (names_of r k) (p_name p) with Some q => plugin_eqb p q | None => false end
      end).
Definition own_name_resolves_b (r : registry) : bool :=
  forallb (fun k => forallb (own_name_ok r k) (flat (all_of r k))) kinds.

(* every extractor named by a registered detector can be enabled: starting from no extractor at
   all, EnableRequiredExtractors succeeds and afterwards every required name is among the enabled
   extractors *)
Definition required_enableable_for (r : registry) (d : plugin) : bool :=
  match enable_required_extractors (r_fs_names r) (r_sa_names r) (mkConfig [] [] [d]) with
  | None => false
  | Some cfg => forallb (fun e => memN e (map p_name (cfg_fs cfg) ++ map p_name (cfg_sa cfg))) (p_required d)
  end.
Definition required_enableable_b (r : registry) : bool :=
  forallb (required_enableable_for r) (flat (r_det_all r)).

(* FromCapabilities output validates, per kind and as a whole configuration *)
Definition from_caps_validates_b (r : registry) (cs : list caps) : bool :=
  forallb (fun c => validate_plugin_requirements (filtered_config r c) c) cs.

(* the complete preparation Scan performs on the filtered configuration succeeds *)
Definition filtered_scan_prep_ok (r : registry) (c : caps) : bool :=
  prep_eqb (scan_prep (r_fs_names r) (r_sa_names r) (filtered_config r c) c) PrepOk.
Definition filtered_scan_prep_b (r : registry) (cs : list caps) : bool :=
  forallb (filtered_scan_prep_ok r) cs.

(* domain for the last statement: environments in which every required extractor of an enabled
   (= capability-compatible) detector is itself capability-compatible *)
Definition required_compatible (r : registry) (c : caps) : bool :=
  forallb (fun d =>
    forallb (fun e =>
      forallb (fun k => match from_name (names_of r k) e with
                        | Some p => validate_requirements (p_req p) c
                        | None => true end) [KFs; KSa])
      (p_required d))
    (from_capabilities (r_det_all r) c).

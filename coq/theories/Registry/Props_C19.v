(* C19 - Capability filtering and plugin name resolution are consistent.
   Only statements here; proofs are in Proofs.v.

   Two kinds of theorems:
   * LOGIC theorems hold for every plugin list / every registry / every capability tuple.
   * DATA theorems speak about `the_registry` of Generated_Registry.v, which is re-generated from the
     plugin lists of /repo on every run of the check.  Their bound is the registry itself: they
     quantify over every plugin of flat (all_of the_registry k), every entry of the name tables
     names_of the_registry k, k in {KFs, KSa, KDet}, and every value of the capability record
     (all_caps: 5 OS x 3 network x 2 x 2 = 60 tuples, proved complete in all_caps_complete).  They
     are decided by vm_compute over that complete finite product. *)
From Coq Require Import List NArith ZArith Bool.
From Scalibr Require Import Registry.Plugin Registry.Generated_Registry Registry.Proofs.
Import ListNotations.
Open Scope N_scope.

(* ---------------------------------------------------------------- LOGIC *)

(* the validator accepts exactly when the environment satisfies the stated requirements *)
Theorem validate_iff_satisfies : forall req c, validate_requirements req c = satisfies req c.
Proof. exact validate_is_satisfies. Qed.
Print Assumptions validate_iff_satisfies.

(* filtering keeps exactly the plugins whose requirements the environment satisfies (order kept) *)
Theorem filter_keeps_exactly_valid : forall ps c,
  filter_by_capabilities ps c = filter (fun p => satisfies (p_req p) c) ps
  /\ forall p, In p (filter_by_capabilities ps c) <-> In p ps /\ satisfies (p_req p) c = true.
Proof. intros ps c. split; [apply filter_is_spec | intros p; apply filter_keeps_exactly_valid_lemma]. Qed.
Print Assumptions filter_keeps_exactly_valid.

(* the filter does not modify its input: after any history of calls on one list, every call still
   returns the filter of the ORIGINAL list for its own capability tuple *)
Theorem filter_does_not_modify_input : forall ps c1 c2,
  snd (filter_call ps c1) = ps
  /\ fst (filter_call (snd (filter_call ps c1)) c2) = filter (fun p => satisfies (p_req p) c2) ps.
Proof. intros ps c1 c2. split; [reflexivity | apply filter_is_spec]. Qed.
Print Assumptions filter_does_not_modify_input.

(* ... so a configuration made of filtered lists never fails requirement validation, and validation
   succeeds exactly for configurations all of whose plugins are satisfied *)
Theorem filtered_config_validates : forall fs sa det c,
  validate_plugin_requirements
    (mkConfig (filter_by_capabilities fs c) (filter_by_capabilities sa c) (filter_by_capabilities det c)) c = true.
Proof. exact filtered_config_validates_lemma. Qed.
Print Assumptions filtered_config_validates.

Theorem validation_succeeds_iff_all_satisfied : forall cfg c,
  validate_plugin_requirements cfg c = true <-> forall p, In p (cfg_plugins cfg) -> satisfies (p_req p) c = true.
Proof. exact validate_cfg_iff. Qed.
Print Assumptions validation_succeeds_iff_all_satisfied.

(* for every registry: FromCapabilities x 3 validates *)
Theorem filter_from_capabilities_validates : forall (r : registry) c,
  validate_plugin_requirements (filtered_config r c) c = true.
Proof. intros r c. apply filtered_config_validates_lemma. Qed.
Print Assumptions filter_from_capabilities_validates.

(* a list of names resolves iff each of them is a key of the name table *)
Theorem from_names_resolves_iff : forall t ns,
  from_names t ns <> None <-> (forall n, In n ns -> In n (map e_key t)).
Proof. exact from_names_resolves_iff_lemma. Qed.
Print Assumptions from_names_resolves_iff.

(* whenever EnableRequiredExtractors succeeds, every extractor required by a configured detector is
   enabled afterwards and nothing that was enabled is lost or reordered *)
Theorem enable_required_sound : forall fsn san cfg cfg',
  enable_required_extractors fsn san cfg = Some cfg' ->
  cfg_det cfg' = cfg_det cfg
  /\ (exists x, cfg_fs cfg' = cfg_fs cfg ++ x) /\ (exists y, cfg_sa cfg' = cfg_sa cfg ++ y)
  /\ (forall d e, In d (cfg_det cfg) -> In e (p_required d) ->
        In e (map p_name (cfg_fs cfg') ++ map p_name (cfg_sa cfg'))).
Proof. exact enable_required_sound_lemma. Qed.
Print Assumptions enable_required_sound.

(* ... and it adds NO NEW DUPLICATES: what it appends to either extractor list has pairwise different
   names, none of which was enabled in the input configuration (an extractor required by several
   detectors is enabled once); so duplicate-free extractor lists stay duplicate-free *)
Theorem enable_required_no_new_duplicates : forall fsn san cfg cfg',
  enable_required_extractors fsn san cfg = Some cfg' ->
  (exists x y, cfg_fs cfg' = cfg_fs cfg ++ x /\ cfg_sa cfg' = cfg_sa cfg ++ y
     /\ NoDup (map p_name x) /\ NoDup (map p_name y)
     /\ (forall n, In n (map p_name x) \/ In n (map p_name y) ->
           ~ In n (map p_name (cfg_fs cfg) ++ map p_name (cfg_sa cfg))))
  /\ (NoDup (map p_name (cfg_fs cfg)) -> NoDup (map p_name (cfg_fs cfg')))
  /\ (NoDup (map p_name (cfg_sa cfg)) -> NoDup (map p_name (cfg_sa cfg'))).
Proof.
  intros fsn san cfg cfg' H. split; [exact (enable_required_no_new_duplicates_lemma _ _ _ _ H)|].
  exact (enable_required_keeps_nodup_lemma _ _ _ _ H).
Qed.
Print Assumptions enable_required_no_new_duplicates.

(* ---------------------------------------------------------------- DATA (bound: the registry) *)

(* plugin names are unique: inside each of the three lists and over all of them together *)
Theorem names_unique :
  (forall k, NoDup (map p_name (flat (all_of the_registry k))))
  /\ NoDup (map p_name (flat (r_fs_all the_registry)) ++ map p_name (flat (r_sa_all the_registry))
            ++ map p_name (flat (r_det_all the_registry))).
Proof. split; [exact names_unique_lemma | exact names_unique_globally_lemma]. Qed.
Print Assumptions names_unique.

(* every advertised plugin or group name resolves, and to registered plugins of that kind only *)
Theorem every_name_resolves : forall k e,
  In e (names_of the_registry k) ->
  exists ps, from_names (names_of the_registry k) [e_key e] = Some ps
             /\ forall p, In p ps -> In p (flat (all_of the_registry k)).
Proof. exact every_name_resolves_lemma. Qed.
Print Assumptions every_name_resolves.

(* resolving a plugin's own name returns that plugin (list function: all kinds; exact-name function:
   both extractor kinds - the detector list has no such function) *)
Theorem own_name_resolves_to_self : forall k p,
  In p (flat (all_of the_registry k)) ->
  from_names (names_of the_registry k) [p_name p] = Some [p]
  /\ (k <> KDet -> from_name (names_of the_registry k) (p_name p) = Some p).
Proof. exact own_name_resolves_lemma. Qed.
Print Assumptions own_name_resolves_to_self.

(* every extractor a registered detector declares as required can be enabled automatically: for ANY
   configuration whose detectors are registered ones (any number, order, repetition; any extractors
   already enabled) EnableRequiredExtractors succeeds and afterwards all required names are enabled *)
Theorem required_extractors_enableable : forall cfg,
  (forall d, In d (cfg_det cfg) -> In d (flat (r_det_all the_registry))) ->
  exists cfg', enable_required_extractors (r_fs_names the_registry) (r_sa_names the_registry) cfg = Some cfg'
    /\ cfg_det cfg' = cfg_det cfg
    /\ (exists x, cfg_fs cfg' = cfg_fs cfg ++ x) /\ (exists y, cfg_sa cfg' = cfg_sa cfg ++ y)
    /\ (forall d e, In d (cfg_det cfg) -> In e (p_required d) ->
          In e (map p_name (cfg_fs cfg') ++ map p_name (cfg_sa cfg'))).
Proof. exact required_extractors_enableable_lemma. Qed.
Print Assumptions required_extractors_enableable.

(* a scan configured from the filtered set passes the whole preparation Scan performs
   (EnableRequiredExtractors, then ValidatePluginRequirements), for every capability tuple: the
   automatically enabled extractors are compatible with the environment too *)
Theorem filtered_scan_never_fails_validation : forall c,
  scan_prep (r_fs_names the_registry) (r_sa_names the_registry) (filtered_config the_registry c) c = PrepOk.
Proof. exact filtered_scan_prep_lemma. Qed.
Print Assumptions filtered_scan_never_fails_validation.

(* ---------------------------------------------------------------- non-vacuity *)
(* the registry is populated, the name tables are strictly larger than the plugin lists (group names) *)
Example registry_populated :
  forallb (fun k => negb (Nat.eqb (length (flat (all_of the_registry k))) 0)
                    && Nat.ltb (length (all_of the_registry k)) (length (names_of the_registry k))) kinds = true.
Proof. vm_compute. reflexivity. Qed.

(* filtering is not constant: in each kind some environment keeps a proper, non-empty part *)
Example filter_is_selective :
  forallb (fun k => existsb (fun c =>
     let l := from_capabilities (all_of the_registry k) c in
     negb (Nat.eqb (length l) 0) && Nat.ltb (length l) (length (flat (all_of the_registry k)))) env_caps) kinds = true.
Proof. vm_compute. reflexivity. Qed.

(* some detector really requires an extractor, and enabling adds it *)
Example enabling_adds_something :
  existsb (fun d => match enable_required_extractors (r_fs_names the_registry) (r_sa_names the_registry) (mkConfig [] [] [d]) with
                    | Some cfg => negb (Nat.eqb (length (cfg_fs cfg) + length (cfg_sa cfg)) 0)
                    | None => false end) (flat (r_det_all the_registry)) = true.
Proof. vm_compute. reflexivity. Qed.

(* validation of the complete plugin set fails somewhere and succeeds nowhere trivially: the
   everything-enabled configuration is rejected in every documented environment *)
Example all_plugins_never_validate :
  forallb (fun c => negb (validate_plugin_requirements
     (mkConfig (flat (r_fs_all the_registry)) (flat (r_sa_all the_registry)) (flat (r_det_all the_registry))) c)) env_caps = true.
Proof. vm_compute. reflexivity. Qed.

(* the validator distinguishes: OSUnix is satisfied by Linux and Mac only; an online-only plugin is
   rejected offline with the matching reason *)
Example validator_examples :
  map (fun o => validate_requirements (mkCaps OSUnix NetAny false false) (mkCaps o NetOffline false false)) all_os
    = [false; true; false; true; false]
  /\ validate_errs (mkCaps OSLinux NetOnline true true) (mkCaps OSWindows NetOffline false false)
    = [EOtherOS; ENeedsNet; ENeedsDirectFS; ENotRunningSystem].
Proof. vm_compute. split; reflexivity. Qed.

(* C19 - lemmas and proofs.  Logic lemmas hold for every registry / plugin list; the data lemmas are
   computed (vm_compute) over the generated registry. *)
From Coq Require Import List NArith ZArith Bool Lia.
From Scalibr Require Import Registry.Plugin Registry.Generated_Registry.
Import ListNotations.
Open Scope N_scope.

(* ------------------------------------------------------------------ decidable equalities *)
Lemma os_eqb_eq a b : os_eqb a b = true <-> a = b.
Proof. destruct a, b; cbn; split; intros H; try reflexivity; discriminate H. Qed.
Lemma net_eqb_eq a b : net_eqb a b = true <-> a = b.
Proof. destruct a, b; cbn; split; intros H; try reflexivity; discriminate H. Qed.
Lemma kind_eqb_eq a b : kind_eqb a b = true <-> a = b.
Proof. destruct a, b; cbn; split; intros H; try reflexivity; discriminate H. Qed.
Lemma caps_eqb_eq a b : caps_eqb a b = true <-> a = b.
Proof.
  destruct a as [o n d r], b as [o' n' d' r']. unfold caps_eqb. cbn [c_os c_net c_dfs c_run].
  rewrite !andb_true_iff, os_eqb_eq, net_eqb_eq, !Bool.eqb_true_iff. split.
  - intros [[[-> ->] ->] ->]. reflexivity.
  - intros H. injection H as -> -> -> ->. auto.
Qed.
Lemma list_eqb_eq {A} (eqb : A -> A -> bool) :
  (forall x y, eqb x y = true <-> x = y) -> forall l1 l2, list_eqb eqb l1 l2 = true <-> l1 = l2.
Proof.
  intros E. induction l1 as [|a l1 IH]; destruct l2 as [|b l2]; cbn; split; intros H; try reflexivity; try discriminate H.
  - apply andb_true_iff in H as [H1 H2]. apply E in H1. apply IH in H2. congruence.
  - injection H as -> ->. apply andb_true_iff. split; [apply E | apply IH]; reflexivity.
Qed.
Lemma plugin_eqb_eq a b : plugin_eqb a b = true <-> a = b.
Proof.
  destruct a as [k n v q r], b as [k' n' v' q' r']. unfold plugin_eqb. cbn [p_kind p_name p_version p_req p_required].
  rewrite !andb_true_iff, kind_eqb_eq, N.eqb_eq, Z.eqb_eq, caps_eqb_eq, (list_eqb_eq N.eqb N.eqb_eq). split.
  - intros [[[[-> ->] ->] ->] ->]. reflexivity.
  - intros H. injection H as -> -> -> -> ->. auto.
Qed.

Lemma memN_In n l : memN n l = true <-> In n l.
Proof.
  unfold memN. rewrite existsb_exists. split.
  - intros [x [H1 H2]]. apply N.eqb_eq in H2. subst. exact H1.
  - intros H. exists n. split; [exact H | apply N.eqb_refl].
Qed.

Lemma nodupN_NoDup l : nodupN l = true <-> NoDup l.
Proof.
  induction l as [|a l IH]; cbn.
  - split; [constructor | reflexivity].
  - rewrite andb_true_iff, negb_true_iff, IH. split.
    + intros [H1 H2]. constructor; [|exact H2]. intros HI. apply memN_In in HI. congruence.
    + intros H. inversion H as [|? ? H1 H2]; subst. split; [|exact H2].
      destruct (memN a l) eqn:E; [|reflexivity]. apply memN_In in E. contradiction.
Qed.

(* ------------------------------------------------------------------ the capability space is finite *)
Lemma all_caps_complete : forall c, In c all_caps.
Proof. intros [[] [] [] []]; vm_compute; tauto. Qed.

Lemma env_caps_complete : forall c, c_os c <> OSUnix -> c_net c <> NetAny -> In c env_caps.
Proof.
  intros c H1 H2. unfold env_caps. apply filter_In. split; [apply all_caps_complete|].
  unfold is_env. destruct c as [[] [] ? ?]; cbn in *; try reflexivity; congruence.
Qed.

(* a boolean statement checked on all_caps holds for every capability tuple *)
Lemma forall_caps (P : caps -> bool) : forallb P all_caps = true -> forall c, P c = true.
Proof. intros H c. rewrite forallb_forall in H. apply H, all_caps_complete. Qed.

(* ------------------------------------------------------------------ validator = "requirements satisfied" *)
Lemma validate_is_satisfies : forall req c, validate_requirements req c = satisfies req c.
Proof. intros [[] [] [] []] [[] [] [] []]; reflexivity. Qed.

(* ------------------------------------------------------------------ filter *)
Lemma filter_is_spec ps c :
  filter_by_capabilities ps c = filter (fun p => satisfies (p_req p) c) ps.
Proof.
  unfold filter_by_capabilities. apply filter_ext. intros p. apply validate_is_satisfies.
Qed.

Lemma filter_keeps_exactly_valid_lemma ps c p :
  In p (filter_by_capabilities ps c) <-> In p ps /\ satisfies (p_req p) c = true.
Proof. rewrite filter_is_spec. apply filter_In. Qed.

Lemma validate_cfg_iff cfg c :
  validate_plugin_requirements cfg c = true <-> forall p, In p (cfg_plugins cfg) -> satisfies (p_req p) c = true.
Proof.
  unfold validate_plugin_requirements. rewrite forallb_forall. split; intros H p Hp.
  - rewrite <- validate_is_satisfies. apply H, Hp.
  - rewrite validate_is_satisfies. apply H, Hp.
Qed.

Lemma filtered_config_validates_lemma fs sa det c :
  validate_plugin_requirements
    (mkConfig (filter_by_capabilities fs c) (filter_by_capabilities sa c) (filter_by_capabilities det c)) c = true.
Proof.
  apply validate_cfg_iff. intros p Hp. unfold cfg_plugins in Hp. cbn [cfg_fs cfg_sa cfg_det] in Hp.
  rewrite !in_app_iff in Hp. destruct Hp as [H | [H | H]]; apply filter_keeps_exactly_valid_lemma in H; apply H.
Qed.

(* ------------------------------------------------------------------ name tables *)
Lemma lookup_Some_key t key ps : lookup t key = Some ps -> exists e, In e t /\ e_key e = key /\ e_plugins e = ps.
Proof.
  induction t as [|e t IH]; cbn; [discriminate|].
  destruct (N.eqb (e_key e) key) eqn:E.
  - intros H. injection H as <-. apply N.eqb_eq in E. exists e. auto.
  - intros H. destruct (IH H) as [e' [H1 H2]]. exists e'. auto.
Qed.

Lemma lookup_None_key t key : lookup t key = None <-> ~ In key (map e_key t).
Proof.
  induction t as [|e t IH]; cbn; [tauto|].
  destruct (N.eqb (e_key e) key) eqn:E.
  - apply N.eqb_eq in E. split; [discriminate | intros H; exfalso; apply H; auto].
  - apply N.eqb_neq in E. rewrite IH. tauto.
Qed.

(* a list of names resolves iff every one of them is a key of the table *)
Lemma from_names_acc_resolves t : forall ns acc,
  from_names_acc t ns acc <> None <-> (forall n, In n ns -> In n (map e_key t)).
Proof.
  induction ns as [|n ns IH]; intros acc; cbn [from_names_acc].
  - split; [intros _ n [] | discriminate].
  - destruct (lookup t n) as [ps|] eqn:E.
    + rewrite IH. split.
      * intros H m [<- | Hm]; [|apply H, Hm].
        destruct (lookup_Some_key _ _ _ E) as [e [H1 [H2 _]]]. rewrite <- H2. apply in_map, H1.
      * intros H m Hm. apply H. right. exact Hm.
    + split; [intros H; exfalso; apply H; reflexivity|].
      intros H. apply lookup_None_key in E. exfalso. apply E, H. left. reflexivity.
Qed.

Lemma from_names_resolves_iff_lemma t ns :
  from_names t ns <> None <-> (forall n, In n ns -> In n (map e_key t)).
Proof.
  unfold from_names. rewrite <- (from_names_acc_resolves t ns []).
  destruct (from_names_acc t ns []); cbn; split; intros H; congruence.
Qed.

Lemma from_name_exact t n p : from_name t n = Some p -> p_name p = n.
Proof.
  unfold from_name. destruct (lookup t n) as [[|q [|? ?]]|]; try discriminate.
  destruct (N.eqb (p_name q) n) eqn:E; [|discriminate]. intros H. injection H as <-. apply N.eqb_eq, E.
Qed.

(* ------------------------------------------------------------------ EnableRequiredExtractors *)
Definition en_state := (list N * list plugin * list plugin)%type.
Definition st_names (st : en_state) : list N := let '(_, fs, sa) := st in map p_name fs ++ map p_name sa.
Definition st_en (st : en_state) : list N := let '(en, _, _) := st in en.
(* invariant: every name marked enabled is the name of an enabled extractor *)
Definition st_inv (st : en_state) : Prop := forall n, In n (st_en st) -> In n (st_names st).
(* st' extends st: marks and extractor lists only grow, old lists are prefixes *)
Definition st_ext (st st' : en_state) : Prop :=
  let '(en, fs, sa) := st in let '(en', fs', sa') := st' in
  (forall n, In n en -> In n en') /\ (exists x, fs' = fs ++ x) /\ (exists y, sa' = sa ++ y).

Lemma st_ext_refl st : st_ext st st.
Proof. destruct st as [[en fs] sa]. cbn. repeat split; auto; exists []; rewrite app_nil_r; reflexivity. Qed.
Lemma st_ext_trans a b c : st_ext a b -> st_ext b c -> st_ext a c.
Proof.
  destruct a as [[e1 f1] s1], b as [[e2 f2] s2], c as [[e3 f3] s3]. cbn.
  intros [H1 [[x ->] [y ->]]] [H2 [[x' ->] [y' ->]]]. repeat split.
  - auto.
  - exists (x ++ x'). rewrite app_assoc. reflexivity.
  - exists (y ++ y'). rewrite app_assoc. reflexivity.
Qed.

Lemma enable_names_sound fsn san : forall req st st',
  enable_names fsn san req st = Some st' -> st_inv st ->
  st_inv st' /\ st_ext st st' /\ (forall e, In e req -> In e (st_en st')).
Proof.
  induction req as [|e req IH]; intros st st' H Hinv.
  - cbn in H. injection H as <-. repeat split; [exact Hinv | apply st_ext_refl | intros e []].
  - destruct st as [[en fs] sa]. cbn [enable_names] in H.
    destruct (memN e en) eqn:M.
    + destruct (IH _ _ H Hinv) as [I1 [I2 I3]]. repeat split; [exact I1 | exact I2 |].
      intros x [<- | Hx]; [|apply I3, Hx].
      apply memN_In in M. destruct st' as [[en' fs'] sa']. cbn in I2 |- *. apply I2, M.
    + set (ex := from_name fsn e) in *. set (stex := from_name san e) in *.
      assert (Hnext : exists st1, st1 = (e :: en, match ex with Some p => fs ++ [p] | None => fs end,
                                         match stex with Some p => sa ++ [p] | None => sa end)
                                  /\ enable_names fsn san req st1 = Some st'
                                  /\ (ex <> None \/ stex <> None)).
      { destruct ex as [p|] eqn:E1; destruct stex as [q|] eqn:E2; try discriminate H;
          (eexists; split; [reflexivity|split; [exact H|]]); [left|left|right]; discriminate. }
      destruct Hnext as [st1 [-> [Hrun Hsome]]].
      assert (Hinv1 : st_inv (e :: en, match ex with Some p => fs ++ [p] | None => fs end,
                               match stex with Some p => sa ++ [p] | None => sa end)).
      { intros n Hn. cbn in Hn. cbn [st_names]. destruct Hn as [<- | Hn].
        - apply in_app_iff. destruct Hsome as [Hs | Hs].
          + left. destruct ex as [p|] eqn:E1; [|congruence]. rewrite map_app. apply in_app_iff. right.
            cbn. left. apply (from_name_exact fsn). exact E1.
          + right. destruct stex as [q|] eqn:E2; [|congruence]. rewrite map_app. apply in_app_iff. right.
            cbn. left. apply (from_name_exact san). exact E2.
        - specialize (Hinv n Hn). cbn in Hinv. apply in_app_iff in Hinv. apply in_app_iff.
          destruct Hinv as [Hi | Hi]; [left | right].
          + destruct ex; [rewrite map_app; apply in_app_iff; left|]; exact Hi.
          + destruct stex; [rewrite map_app; apply in_app_iff; left|]; exact Hi. }
      destruct (IH _ _ Hrun Hinv1) as [I1 [I2 I3]]. repeat split; [exact I1 | |].
      * eapply st_ext_trans; [|exact I2]. cbn. repeat split.
        -- intros n Hn. right. exact Hn.
        -- destruct ex; [eexists; reflexivity | exists []; rewrite app_nil_r; reflexivity].
        -- destruct stex; [eexists; reflexivity | exists []; rewrite app_nil_r; reflexivity].
      * intros x [<- | Hx]; [|apply I3, Hx].
        destruct st' as [[en' fs'] sa']. cbn in I2 |- *. apply I2. left. reflexivity.
Qed.

Lemma enable_dets_sound fsn san : forall dets st st',
  enable_dets fsn san dets st = Some st' -> st_inv st ->
  st_inv st' /\ st_ext st st' /\ (forall d e, In d dets -> In e (p_required d) -> In e (st_en st')).
Proof.
  induction dets as [|d dets IH]; intros st st' H Hinv.
  - cbn in H. injection H as <-. repeat split; [exact Hinv | apply st_ext_refl | intros ? ? []].
  - cbn [enable_dets] in H. destruct (enable_names fsn san (p_required d) st) as [st1|] eqn:E; [|discriminate].
    destruct (enable_names_sound _ _ _ _ _ E Hinv) as [J1 [J2 J3]].
    destruct (IH _ _ H J1) as [I1 [I2 I3]]. repeat split; [exact I1 | eapply st_ext_trans; eassumption |].
    intros d' e [<- | Hd] He; [|eapply I3; eassumption].
    specialize (J3 e He). destruct st1 as [[e1 f1] s1], st' as [[e2 f2] s2]. cbn in I2, J3 |- *. apply I2, J3.
Qed.

(* whenever EnableRequiredExtractors succeeds: everything a configured detector requires is enabled
   afterwards, and the previously enabled extractors are kept as a prefix *)
Lemma enable_required_sound_lemma fsn san cfg cfg' :
  enable_required_extractors fsn san cfg = Some cfg' ->
  cfg_det cfg' = cfg_det cfg
  /\ (exists x, cfg_fs cfg' = cfg_fs cfg ++ x) /\ (exists y, cfg_sa cfg' = cfg_sa cfg ++ y)
  /\ (forall d e, In d (cfg_det cfg) -> In e (p_required d) ->
        In e (map p_name (cfg_fs cfg') ++ map p_name (cfg_sa cfg'))).
Proof.
  unfold enable_required_extractors.
  destruct (enable_dets fsn san (cfg_det cfg) _) as [[[en fs] sa]|] eqn:E; [|discriminate].
  intros H. injection H as <-. cbn [cfg_det cfg_fs cfg_sa].
  assert (Hinv : st_inv (map p_name (cfg_fs cfg) ++ map p_name (cfg_sa cfg), cfg_fs cfg, cfg_sa cfg)).
  { intros n Hn. exact Hn. }
  destruct (enable_dets_sound _ _ _ _ _ E Hinv) as [I1 [I2 I3]]. cbn in I2. destruct I2 as [_ [Hx Hy]].
  repeat split; [exact Hx | exact Hy |]. intros d e Hd He. apply (I1 e). cbn. eapply I3; eassumption.
Qed.

(* no new duplicates: what EnableRequiredExtractors appends has pairwise different names (per list) and none
   of them was enabled before.  fresh_inv en0 fs0 sa0 st: st extends (fs0, sa0) by x, y with that property. *)
Definition fresh_inv (en0 : list N) (fs0 sa0 : list plugin) (st : en_state) : Prop :=
  let '(en, fs, sa) := st in
  exists x y, fs = fs0 ++ x /\ sa = sa0 ++ y /\ NoDup (map p_name x) /\ NoDup (map p_name y)
    /\ (forall n, In n (map p_name x) \/ In n (map p_name y) -> In n en /\ ~ In n en0)
    /\ (forall n, In n en0 -> In n en).

Lemma NoDup_snoc (l : list N) a : NoDup l -> ~ In a l -> NoDup (l ++ [a]).
Proof.
  intros H Ha. induction H as [|b l Hb Hl IH]; cbn; [constructor; [intros []|constructor]|].
  constructor.
  - rewrite in_app_iff. intros [H1 | [H1 | []]]; [contradiction|]. subst. apply Ha. left. reflexivity.
  - apply IH. intros H1. apply Ha. right. exact H1.
Qed.

Definition at_most (e : N) (o : list plugin) : Prop := o = [] \/ exists p, o = [p] /\ p_name p = e.

Lemma names_snoc_opt (x : list plugin) e o :
  at_most e o -> NoDup (map p_name x) -> ~ In e (map p_name x) ->
  NoDup (map p_name (x ++ o)) /\ (forall n, In n (map p_name (x ++ o)) -> In n (map p_name x) \/ n = e).
Proof.
  intros [-> | [p [-> <-]]] Hn He.
  - rewrite app_nil_r. split; [exact Hn | intros n H; left; exact H].
  - rewrite map_app. cbn [map]. split; [apply NoDup_snoc; assumption|].
    intros n H. apply in_app_iff in H as [H | [<- | []]]; [left; exact H | right; reflexivity].
Qed.

Lemma fresh_step en0 fs0 sa0 en x y e ox oy :
  fresh_inv en0 fs0 sa0 (en, fs0 ++ x, sa0 ++ y) -> NoDup (map p_name x) -> NoDup (map p_name y) ->
  (forall n, In n (map p_name x) \/ In n (map p_name y) -> In n en /\ ~ In n en0) ->
  (forall n, In n en0 -> In n en) -> ~ In e en -> at_most e ox -> at_most e oy ->
  fresh_inv en0 fs0 sa0 (e :: en, (fs0 ++ x) ++ ox, (sa0 ++ y) ++ oy).
Proof.
  intros _ Nx Ny Hxy Hen He Ox Oy.
  assert (Hx : ~ In e (map p_name x)) by (intros Hi; apply He, (Hxy e (or_introl Hi))).
  assert (Hy : ~ In e (map p_name y)) by (intros Hi; apply He, (Hxy e (or_intror Hi))).
  assert (He0 : ~ In e en0) by (intros Hi; apply He, Hen, Hi).
  destruct (names_snoc_opt x e ox Ox Nx Hx) as [Nx' Ix]. destruct (names_snoc_opt y e oy Oy Ny Hy) as [Ny' Iy].
  exists (x ++ ox), (y ++ oy). rewrite <- !app_assoc.
  split; [reflexivity|]. split; [reflexivity|]. split; [exact Nx'|]. split; [exact Ny'|]. split.
  - intros n [H | H]; [apply Ix in H | apply Iy in H]; destruct H as [H | ->].
    + destruct (Hxy n (or_introl H)) as [A B]. split; [right; exact A | exact B].
    + split; [left; reflexivity | exact He0].
    + destruct (Hxy n (or_intror H)) as [A B]. split; [right; exact A | exact B].
    + split; [left; reflexivity | exact He0].
  - intros n Hn. right. apply Hen, Hn.
Qed.

Lemma enable_names_fresh fsn san en0 fs0 sa0 : forall req st st',
  enable_names fsn san req st = Some st' -> fresh_inv en0 fs0 sa0 st -> fresh_inv en0 fs0 sa0 st'.
Proof.
  induction req as [|e req IH]; intros st st' H Hinv.
  - cbn in H. injection H as <-. exact Hinv.
  - destruct st as [[en fs] sa]. cbn [enable_names] in H.
    destruct (memN e en) eqn:M; [exact (IH _ _ H Hinv)|].
    assert (He : ~ In e en) by (intros Hi; apply memN_In in Hi; congruence).
    pose proof Hinv as Hinv0. destruct Hinv as [x [y [-> [-> [Nx [Ny [Hxy Hen]]]]]]].
    assert (Ostep : forall ox oy, at_most e ox -> at_most e oy ->
              fresh_inv en0 fs0 sa0 (e :: en, (fs0 ++ x) ++ ox, (sa0 ++ y) ++ oy)).
    { intros ox oy Ox Oy. eapply fresh_step; eassumption. }
    destruct (from_name fsn e) as [p|] eqn:E1; destruct (from_name san e) as [q|] eqn:E2; try discriminate H;
      apply (IH _ _ H).
    + apply Ostep; right; eexists; (split; [reflexivity | eapply from_name_exact; eassumption]).
    + specialize (Ostep [p] []). rewrite app_nil_r in Ostep. apply Ostep; [right; eexists; split; [reflexivity | eapply from_name_exact; eassumption] | left; reflexivity].
    + specialize (Ostep [] [q]). rewrite app_nil_r in Ostep. apply Ostep; [left; reflexivity | right; eexists; split; [reflexivity | eapply from_name_exact; eassumption]].
Qed.

Lemma enable_dets_fresh fsn san en0 fs0 sa0 : forall dets st st',
  enable_dets fsn san dets st = Some st' -> fresh_inv en0 fs0 sa0 st -> fresh_inv en0 fs0 sa0 st'.
Proof.
  induction dets as [|d dets IH]; intros st st' H Hinv.
  - cbn in H. injection H as <-. exact Hinv.
  - cbn [enable_dets] in H. destruct (enable_names fsn san (p_required d) st) as [st1|] eqn:E; [|discriminate].
    apply (IH _ _ H). eapply enable_names_fresh; eassumption.
Qed.

Lemma enable_required_no_new_duplicates_lemma fsn san cfg cfg' :
  enable_required_extractors fsn san cfg = Some cfg' ->
  exists x y, cfg_fs cfg' = cfg_fs cfg ++ x /\ cfg_sa cfg' = cfg_sa cfg ++ y
    /\ NoDup (map p_name x) /\ NoDup (map p_name y)
    /\ (forall n, In n (map p_name x) \/ In n (map p_name y) ->
          ~ In n (map p_name (cfg_fs cfg) ++ map p_name (cfg_sa cfg))).
Proof.
  unfold enable_required_extractors.
  destruct (enable_dets fsn san (cfg_det cfg) _) as [[[en fs] sa]|] eqn:E; [|discriminate].
  intros H. injection H as <-. cbn [cfg_fs cfg_sa].
  assert (Hinv : fresh_inv (map p_name (cfg_fs cfg) ++ map p_name (cfg_sa cfg)) (cfg_fs cfg) (cfg_sa cfg)
                   (map p_name (cfg_fs cfg) ++ map p_name (cfg_sa cfg), cfg_fs cfg, cfg_sa cfg)).
  { exists [], []. rewrite !app_nil_r. split; [reflexivity|]. split; [reflexivity|]. split; [constructor|]. split; [constructor|].
    split; [intros n [[] | []] | intros n Hn; exact Hn]. }
  pose proof (enable_dets_fresh _ _ _ _ _ _ _ _ E Hinv) as [x [y [-> [-> [Nx [Ny [Hxy _]]]]]]].
  exists x, y. repeat split; try assumption. intros n Hn. apply (Hxy n Hn).
Qed.

(* in particular: duplicate-free extractor lists stay duplicate-free *)
Lemma NoDup_app_fresh (l x : list N) : NoDup l -> NoDup x -> (forall n, In n x -> ~ In n l) -> NoDup (l ++ x).
Proof.
  intros Hl Hx Hd. induction Hl as [|a l Ha Hl IH]; [exact Hx|]. cbn. constructor.
  - rewrite in_app_iff. intros [H | H]; [contradiction|]. apply (Hd a H). left. reflexivity.
  - apply IH. intros n Hn Hin. apply (Hd n Hn). right. exact Hin.
Qed.

Lemma enable_required_keeps_nodup_lemma fsn san cfg cfg' :
  enable_required_extractors fsn san cfg = Some cfg' ->
  (NoDup (map p_name (cfg_fs cfg)) -> NoDup (map p_name (cfg_fs cfg')))
  /\ (NoDup (map p_name (cfg_sa cfg)) -> NoDup (map p_name (cfg_sa cfg'))).
Proof.
  intros H. destruct (enable_required_no_new_duplicates_lemma _ _ _ _ H) as [x [y [-> [-> [Nx [Ny Hd]]]]]].
  split; intros Hn; rewrite map_app; apply NoDup_app_fresh; try assumption.
  - intros n Hx Hin. apply (Hd n (or_introl Hx)). apply in_app_iff. left. exact Hin.
  - intros n Hy Hin. apply (Hd n (or_intror Hy)). apply in_app_iff. right. exact Hin.
Qed.

(* success: it fails only if some required name is an exact name in neither extractor table *)
Definition resolvable (fsn san : table) (e : N) : bool :=
  match from_name fsn e, from_name san e with None, None => false | _, _ => true end.

Lemma enable_names_complete fsn san : forall req st,
  (forall e, In e req -> resolvable fsn san e = true) -> enable_names fsn san req st <> None.
Proof.
  induction req as [|e req IH]; intros st H; [destruct st; discriminate|].
  destruct st as [[en fs] sa]. cbn [enable_names].
  assert (Hr : forall x, In x req -> resolvable fsn san x = true) by (intros x Hx; apply H; right; exact Hx).
  destruct (memN e en); [apply IH, Hr|].
  specialize (H e (or_introl eq_refl)). unfold resolvable in H.
  destruct (from_name fsn e), (from_name san e); try discriminate H; apply IH, Hr.
Qed.

Lemma enable_dets_complete fsn san : forall dets st,
  (forall d e, In d dets -> In e (p_required d) -> resolvable fsn san e = true) -> enable_dets fsn san dets st <> None.
Proof.
  induction dets as [|d dets IH]; intros st H; [discriminate|]. cbn [enable_dets].
  destruct (enable_names fsn san (p_required d) st) as [st1|] eqn:E.
  - apply IH. intros d' e Hd He. eapply H; [right; exact Hd | exact He].
  - exfalso. eapply enable_names_complete; [|exact E]. intros e He. eapply H; [left; reflexivity | exact He].
Qed.

Lemma enable_required_complete_lemma fsn san cfg :
  (forall d e, In d (cfg_det cfg) -> In e (p_required d) -> resolvable fsn san e = true) ->
  enable_required_extractors fsn san cfg <> None.
Proof.
  intros H. unfold enable_required_extractors.
  destruct (enable_dets fsn san (cfg_det cfg) _) as [[[en fs] sa]|] eqn:E; [discriminate|].
  exfalso. eapply enable_dets_complete; [exact H | exact E].
Qed.

(* ------------------------------------------------------------------ data: the generated registry *)
Definition R := the_registry.

Lemma data_names_unique : forallb (names_unique_in R) kinds = true.
Proof. vm_compute. reflexivity. Qed.
Lemma data_names_unique_globally : names_unique_globally R = true.
Proof. vm_compute. reflexivity. Qed.
Lemma data_every_name_resolves : every_name_resolves_b R = true.
Proof. vm_compute. reflexivity. Qed.
Lemma data_own_name_resolves : own_name_resolves_b R = true.
Proof. vm_compute. reflexivity. Qed.
Lemma data_required_resolvable :
  forallb (fun d => forallb (resolvable (r_fs_names R) (r_sa_names R)) (p_required d)) (flat (r_det_all R)) = true.
Proof. vm_compute. reflexivity. Qed.
Lemma data_required_enableable : required_enableable_b R = true.
Proof. vm_compute. reflexivity. Qed.
Lemma data_filtered_scan_prep : filtered_scan_prep_b R all_caps = true.
Proof. vm_compute. reflexivity. Qed.
Lemma data_required_compatible : forallb (required_compatible R) all_caps = true.
Proof. vm_compute. reflexivity. Qed.

Lemma In_kinds k : In k kinds.
Proof. destruct k; cbn; tauto. Qed.

Lemma plugin_in_In p ps : plugin_in p ps = true <-> In p ps.
Proof.
  unfold plugin_in. rewrite existsb_exists. split.
  - intros [q [H1 H2]]. apply plugin_eqb_eq in H2. subst. exact H1.
  - intros H. exists p. split; [exact H | apply plugin_eqb_eq; reflexivity].
Qed.

Lemma names_unique_lemma k : NoDup (map p_name (flat (all_of R k))).
Proof.
  pose proof data_names_unique as H. rewrite forallb_forall in H. apply nodupN_NoDup. apply (H k (In_kinds k)).
Qed.

Lemma names_unique_globally_lemma :
  NoDup (map p_name (flat (r_fs_all R)) ++ map p_name (flat (r_sa_all R)) ++ map p_name (flat (r_det_all R))).
Proof.
  pose proof data_names_unique_globally as H. apply nodupN_NoDup in H.
  unfold names_unique_globally, kinds in H. cbn [flat_map all_of] in H. rewrite app_nil_r in H. exact H.
Qed.

Lemma every_name_resolves_lemma k e :
  In e (names_of R k) ->
  exists ps, from_names (names_of R k) [e_key e] = Some ps /\ forall p, In p ps -> In p (flat (all_of R k)).
Proof.
  intros He. pose proof data_every_name_resolves as H. unfold every_name_resolves_b in H.
  rewrite forallb_forall in H. specialize (H k (In_kinds k)). rewrite forallb_forall in H. specialize (H e He).
  unfold key_resolves in H. destruct (from_names (names_of R k) [e_key e]) as [ps|]; [|discriminate].
  exists ps. split; [reflexivity|]. rewrite forallb_forall in H. intros p Hp. apply plugin_in_In, H, Hp.
Qed.

Lemma own_name_resolves_lemma k p :
  In p (flat (all_of R k)) ->
  from_names (names_of R k) [p_name p] = Some [p]
  /\ (k <> KDet -> from_name (names_of R k) (p_name p) = Some p).
Proof.
  intros Hp. pose proof data_own_name_resolves as H. unfold own_name_resolves_b in H.
  rewrite forallb_forall in H. specialize (H k (In_kinds k)). rewrite forallb_forall in H. specialize (H p Hp).
  unfold own_name_ok in H. apply andb_true_iff in H as [H1 H2]. split.
  - destruct (from_names (names_of R k) [p_name p]) as [[|q [|? ?]]|]; try discriminate.
    apply plugin_eqb_eq in H1. subst. reflexivity.
  - intros Hk. destruct k; [| |congruence];
      (destruct (from_name _ (p_name p)) as [q|]; [|discriminate]; apply plugin_eqb_eq in H2; subst; reflexivity).
Qed.

Lemma required_extractors_enableable_lemma cfg :
  (forall d, In d (cfg_det cfg) -> In d (flat (r_det_all R))) ->
  exists cfg', enable_required_extractors (r_fs_names R) (r_sa_names R) cfg = Some cfg'
    /\ cfg_det cfg' = cfg_det cfg
    /\ (exists x, cfg_fs cfg' = cfg_fs cfg ++ x) /\ (exists y, cfg_sa cfg' = cfg_sa cfg ++ y)
    /\ (forall d e, In d (cfg_det cfg) -> In e (p_required d) ->
          In e (map p_name (cfg_fs cfg') ++ map p_name (cfg_sa cfg'))).
Proof.
  intros Hreg.
  assert (Hc : enable_required_extractors (r_fs_names R) (r_sa_names R) cfg <> None).
  { apply enable_required_complete_lemma. intros d e Hd He.
    pose proof data_required_resolvable as H. rewrite forallb_forall in H. specialize (H d (Hreg d Hd)).
    rewrite forallb_forall in H. apply H, He. }
  destruct (enable_required_extractors (r_fs_names R) (r_sa_names R) cfg) as [cfg'|] eqn:E; [|congruence].
  exists cfg'. split; [reflexivity|]. apply (enable_required_sound_lemma _ _ _ _ E).
Qed.

Lemma filtered_scan_prep_lemma c :
  scan_prep (r_fs_names R) (r_sa_names R) (filtered_config R c) c = PrepOk.
Proof.
  pose proof (forall_caps (filtered_scan_prep_ok R) data_filtered_scan_prep c) as H.
  unfold filtered_scan_prep_ok in H. destruct (scan_prep _ _ _ _); try discriminate H; reflexivity.
Qed.

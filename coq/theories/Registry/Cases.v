(* C19 - evaluation of the observed cases (harness/cmd/registry -observe) against model and spec.
   No proofs here. *)
From Coq Require Import List NArith ZArith Bool.
From Scalibr Require Import Registry.Plugin Registry.Generated_Registry.
Import ListNotations.
Open Scope N_scope.

Definition R := the_registry.

(* plugins are referred to by their index in flat (all_of R kind) *)
Definition plug_at (k : kind) (i : N) : option plugin := nth_error (flat (all_of R k)) (N.to_nat i).
Fixpoint plugs_at (k : kind) (ix : list N) : option (list plugin) :=
  match ix with
  | [] => Some []
  | i :: ix' => match plug_at k i, plugs_at k ix' with
                | Some p, Some ps => Some (p :: ps)
                | _, _ => None
                end
  end.

Inductive rcase :=
| CValidateRaw (req c : caps) (obs : bool)
| CValidate (k : kind) (i : N) (c : caps) (obs : bool)
| CFilter (k : kind) (input : list N) (c : caps) (obs : list N)              (* names, in output order *)
| CFromCaps (k : kind) (c : caps) (obs : list N)                            (* names, sorted *)
| CFromNames (k : kind) (names : list N) (obs : option (list N))            (* names, sorted *)
| CFromName (k : kind) (name : N) (obs : option plugin)
| CEnable (fs sa det : list N) (fake : list (list N)) (obs : option (list N * list N))
| CValidateCfg (fs sa det : list N) (c : caps) (obs : bool)
| CScanPrep (c : caps) (only : option N) (obs : prep)
(* histories on shared inputs: one list object filtered twice; intact = the caller's slice equals its pre-call copy *)
| CFilter2 (k : kind) (input : list N) (c1 c2 : caps) (obs1 : list N) (intact1 : bool) (obs2 : list N) (intact2 : bool)
| CFromNames2 (k : kind) (names : list N) (obs1 obs2 : option (list N)) (intact : bool)
| CEnableTwice (fs sa det : list N) (fake : list (list N)) (obs1 obs2 : option (list N * list N)) (intact : bool).

Definition names (ps : list plugin) : list N := map p_name ps.
Definition lN_eqb := list_eqb N.eqb.

(* sorted copy of a name list (the harness sorts the strings; ids are numbered in string order) *)
Fixpoint insN (a : N) (l : list N) : list N :=
  match l with [] => [a] | b :: l' => if N.leb a b then a :: l else b :: insN a l' end.
Definition sortN (l : list N) : list N := fold_right insN [] l.

Definition fake_det (i : nat) (req : list N) : plugin :=
  mkPlugin KDet (1000 + N.of_nat i) 7 (mkCaps OSAny NetAny false false) req.
Fixpoint fake_dets (i : nat) (f : list (list N)) : list plugin :=
  match f with [] => [] | r :: f' => fake_det i r :: fake_dets (S i) f' end.

Definition mk_cfg (fs sa det : list N) (fake : list (list N)) : option config :=
  match plugs_at KFs fs, plugs_at KSa sa, plugs_at KDet det with
  | Some a, Some b, Some d => Some (mkConfig a b (d ++ fake_dets 0 fake))
  | _, _, _ => None
  end.

Definition prep_cfg (c : caps) (only : option N) : config :=
  let cfg := filtered_config R c in
  match only with
  | None => cfg
  | Some n => mkConfig (cfg_fs cfg) (cfg_sa cfg) (filter (fun d => N.eqb (p_name d) n) (cfg_det cfg))
  end.

(* ---------------------------------------------------------------- model = observed ? *)
Definition case_model_ok (cs : rcase) : bool :=
  match cs with
  | CValidateRaw req c obs => Bool.eqb (validate_requirements req c) obs
  | CValidate k i c obs =>
      match plug_at k i with Some p => Bool.eqb (validate_requirements (p_req p) c) obs | None => false end
  | CFilter k input c obs =>
      match plugs_at k input with Some ps => lN_eqb (names (filter_by_capabilities ps c)) obs | None => false end
  | CFromCaps k c obs => lN_eqb (sortN (names (from_capabilities (all_of R k) c))) obs
  | CFromNames k ns obs => option_eqb lN_eqb (option_map names (from_names (names_of R k) ns)) obs
  | CFromName k n obs => option_eqb plugin_eqb (from_name (names_of R k) n) obs
  | CEnable fs sa det fake obs =>
      match mk_cfg fs sa det fake with
      | Some cfg =>
          option_eqb (fun a b => lN_eqb (fst a) (fst b) && lN_eqb (snd a) (snd b))
            (option_map (fun c' => (names (cfg_fs c'), names (cfg_sa c')))
               (enable_required_extractors (r_fs_names R) (r_sa_names R) cfg)) obs
      | None => false
      end
  | CValidateCfg fs sa det c obs =>
      match mk_cfg fs sa det [] with
      | Some cfg => Bool.eqb (validate_plugin_requirements cfg c) obs
      | None => false
      end
  | CScanPrep c only obs => prep_eqb (scan_prep (r_fs_names R) (r_sa_names R) (prep_cfg c only) c) obs
  | CFilter2 k input c1 c2 obs1 i1 obs2 i2 =>
      match plugs_at k input with
      | Some ps =>
          (* the model's filter is a pure function: (result, caller's list afterwards) = filter_call *)
          let '(r1, ps1) := filter_call ps c1 in
          let '(r2, ps2) := filter_call ps1 c2 in
          lN_eqb (names r1) obs1 && Bool.eqb (list_eqb plugin_eqb ps1 ps) i1
          && lN_eqb (names r2) obs2 && Bool.eqb (list_eqb plugin_eqb ps2 ps) i2
      | None => false
      end
  | CFromNames2 k ns obs1 obs2 intact =>
      let m := option_map names (from_names (names_of R k) ns) in
      option_eqb lN_eqb m obs1 && option_eqb lN_eqb m obs2 && intact
  | CEnableTwice fs sa det fake obs1 obs2 intact =>
      match mk_cfg fs sa det fake with
      | Some cfg =>
          let view := option_map (fun c' => (names (cfg_fs c'), names (cfg_sa c'))) in
          let pe := option_eqb (fun a b => lN_eqb (fst a) (fst b) && lN_eqb (snd a) (snd b)) in
          let r1 := enable_required_extractors (r_fs_names R) (r_sa_names R) cfg in
          let r2 := match r1 with Some c1 => enable_required_extractors (r_fs_names R) (r_sa_names R) c1 | None => None end in
          pe (view r1) obs1 && pe (view r2) obs2 && intact
      | None => false
      end
  end.

(* ---------------------------------------------------------------- spec on the observed output *)
(* the oracle: what the property says about the value the implementation returned (uses `satisfies`,
   the declarative reading of the requirements, never validate_requirements) *)
Definition sat (c : caps) (p : plugin) : bool := satisfies (p_req p) c.

Fixpoint is_key (t : table) (n : N) : bool :=
  match t with [] => false | e :: t' => N.eqb (e_key e) n || is_key t' n end.
Definition own_names (k : kind) : list N := names (flat (all_of R k)).
Definition plugin_named (k : kind) (n : N) : option plugin :=
  find (fun p => N.eqb (p_name p) n) (flat (all_of R k)).

(* no new duplicates: what was appended to either list has pairwise different names, none enabled before *)
Definition no_new_dups (cfg : config) (f s : list N) : bool :=
  let before := names (cfg_fs cfg) ++ names (cfg_sa cfg) in
  let x := skipn (length (cfg_fs cfg)) f in
  let y := skipn (length (cfg_sa cfg)) s in
  nodupN x && nodupN y && forallb (fun n => negb (memN n before)) (x ++ y).

Definition case_spec_ok (cs : rcase) : bool :=
  match cs with
  | CValidateRaw req c obs => Bool.eqb obs (satisfies req c)
  | CValidate k i c obs =>
      match plug_at k i with Some p => Bool.eqb obs (sat c p) | None => false end
  | CFilter k input c obs =>
      (* exactly the satisfied ones, order kept *)
      match plugs_at k input with Some ps => lN_eqb obs (names (filter (sat c) ps)) | None => false end
  | CFromCaps k c obs =>
      (* exactly the registered plugins of the kind whose requirements are satisfied *)
      forallb (fun p => Bool.eqb (memN (p_name p) obs) (sat c p)) (flat (all_of R k))
      && forallb (fun n => memN n (own_names k)) obs && nodupN obs
  | CFromNames k ns obs =>
      (* every registered name resolves; unknown names are an error; a plugin's own name gives that plugin *)
      match obs with
      | Some l => forallb (is_key (names_of R k)) ns && forallb (fun n => memN n (own_names k)) l && nodupN l
                  && match ns with [n] => if memN n (own_names k) then lN_eqb l [n] else true | _ => true end
      | None => negb (forallb (is_key (names_of R k)) ns)
      end
  | CFromName k n obs =>
      (* a plugin's own name returns that plugin; anything returned carries the requested name *)
      match plugin_named k n, obs with
      | Some p, Some q => plugin_eqb p q
      | Some _, None => false
      | None, Some _ => false
      | None, None => true
      end
  | CEnable fs sa det fake obs =>
      match mk_cfg fs sa det fake, obs with
      | Some cfg, Some (f, s) =>
          (* everything required by some enabled detector is enabled afterwards; what was enabled stays *)
          forallb (fun d => forallb (fun e => memN e (f ++ s)) (p_required d)) (cfg_det cfg)
          && lN_eqb (firstn (length (cfg_fs cfg)) f) (names (cfg_fs cfg))
          && lN_eqb (firstn (length (cfg_sa cfg)) s) (names (cfg_sa cfg))
          && no_new_dups cfg f s
      | Some cfg, None =>
          (* may fail only if some required name is no exact extractor name in either list *)
          existsb (fun d => existsb (fun e => negb (memN e (own_names KFs)) && negb (memN e (own_names KSa))) (p_required d)) (cfg_det cfg)
      | None, _ => false
      end
  | CValidateCfg fs sa det c obs =>
      match mk_cfg fs sa det [] with
      | Some cfg => Bool.eqb obs (forallb (sat c) (cfg_plugins cfg))
      | None => false
      end
  | CScanPrep c only obs =>
      (* a scan configured from the filtered set never fails requirement validation (no refutation on
         file, so the oracle claims it for every capability tuple) *)
      prep_eqb obs PrepOk
  | CFilter2 k input c1 c2 obs1 i1 obs2 i2 =>
      (* every call, whatever was done with the list before, keeps exactly the satisfied plugins of the ORIGINAL
         list, and leaves the caller's list alone *)
      match plugs_at k input with
      | Some ps => lN_eqb obs1 (names (filter (sat c1) ps)) && i1 && lN_eqb obs2 (names (filter (sat c2) ps)) && i2
      | None => false
      end
  | CFromNames2 k ns obs1 obs2 intact =>
      option_eqb lN_eqb obs1 obs2 && intact
      && match obs1 with Some _ => forallb (is_key (names_of R k)) ns | None => negb (forallb (is_key (names_of R k)) ns) end
  | CEnableTwice fs sa det fake obs1 obs2 intact =>
      (* idempotent, inputs untouched, no new duplicates *)
      option_eqb (fun a b => lN_eqb (fst a) (fst b) && lN_eqb (snd a) (snd b)) obs1 obs2 && intact
      && match mk_cfg fs sa det fake, obs1 with Some cfg, Some (f, s) => no_new_dups cfg f s | _, _ => true end
  end.

Fixpoint bad_indices {A} (ok : A -> bool) (l : list A) (i : N) : list N :=
  match l with
  | [] => []
  | a :: l' => if ok a then bad_indices ok l' (i + 1) else i :: bad_indices ok l' (i + 1)
  end.

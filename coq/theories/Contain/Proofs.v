(* C06 proofs about the model in Model.v (file-system level).  Path-algebra lemmas are in
   PathBytesProofs.v. *)
From Coq Require Import List NArith ZArith Bool Lia.
From Scalibr Require Import Contain.PathBytes Contain.PathBytesProofs Contain.Model.
Import ListNotations.
Open Scope N_scope.

(* ------------------------------------------------------------------ assoc lists *)
Lemma assoc_remove_same fs p : assoc (fs_remove fs p) p = None.
Proof.
  induction fs as [|[q n] r IH]; cbn; [reflexivity|].
  destruct (segs_eqb q p) eqn:E; [exact IH|]. cbn. rewrite E. exact IH.
Qed.

Lemma assoc_remove_other fs p q : q <> p -> assoc (fs_remove fs p) q = assoc fs q.
Proof.
  intros H. induction fs as [|[k n] r IH]; cbn; [reflexivity|].
  destruct (segs_eqb k p) eqn:E.
  - apply segs_eqb_eq in E. subst k.
    assert (E2 : segs_eqb p q = false) by (apply segs_eqb_false; congruence).
    rewrite E2. exact IH.
  - cbn. rewrite IH. reflexivity.
Qed.

Lemma lookup_set_same fs p n : p <> [] -> lookup (fs_set fs p n) p = Some n.
Proof.
  intros H. unfold lookup, fs_set. destruct p; [contradiction|]. cbn [assoc].
  rewrite segs_eqb_refl. reflexivity.
Qed.

Lemma lookup_set_other fs p n q : q <> p -> lookup (fs_set fs p n) q = lookup fs q.
Proof.
  intros H. unfold lookup, fs_set. destruct q; [reflexivity|]. cbn [assoc].
  assert (E : segs_eqb p (s :: q) = false) by (apply segs_eqb_false; congruence).
  rewrite E. apply assoc_remove_other. exact H.
Qed.

Lemma lookup_remove_other fs p q : q <> p -> lookup (fs_remove fs p) q = lookup fs q.
Proof.
  intros H. unfold lookup. destruct q; [reflexivity|]. apply assoc_remove_other. exact H.
Qed.

Lemma lookup_remove_same fs p : p <> [] -> lookup (fs_remove fs p) p = None.
Proof. intros H. unfold lookup. destruct p; [contradiction|]. apply assoc_remove_same. Qed.

(* ------------------------------------------------------------------ walk equations *)
Definition walk_cons_rhs (k : nat) (g : bool) (fs : fsmap) (fl : bool) (cur : path) (c : seg) (rest : list seg) : option path :=
  if beq c [] || beq c s_dot then walk k g fs fl cur rest
  else if beq c s_dotdot then walk k g fs fl (removelast cur) rest
  else if NAME_MAX <? blen c then None
  else
    let p := cur ++ [c] in
    if g && (PATH_MAX1 <? plen p) then None else
    match lookup fs p with
    | None => None
    | Some NDir => walk k g fs fl p rest
    | Some (NFile _ _) => if is_nil rest then Some p else None
    | Some (NLink t) =>
        if is_nil rest && negb fl then Some p
        else match k with
             | O => None
             | S k' => walk k' g fs fl (if is_abs t then [] else cur) (split_slash t ++ rest)
             end
    end.

Lemma walk_nil k g fs fl cur : walk k g fs fl cur [] = Some cur.
Proof. destruct k; reflexivity. Qed.

Lemma walk_cons k g fs fl cur c rest : walk k g fs fl cur (c :: rest) = walk_cons_rhs k g fs fl cur c rest.
Proof. destruct k; reflexivity. Qed.

Lemma walk_skip_empty k g fs fl cur rest : walk k g fs fl cur ([] :: rest) = walk k g fs fl cur rest.
Proof. rewrite walk_cons. reflexivity. Qed.

(* ------------------------------------------------------------------ physical directories *)
Lemma phys_dir_app fs : forall a pre b,
  phys_dir fs pre (a ++ b) = true -> phys_dir fs pre a = true /\ phys_dir fs (pre ++ a) b = true.
Proof.
  induction a as [|c a IH]; intros pre b H; cbn in *.
  - rewrite app_nil_r. auto.
  - destruct (lookup fs (pre ++ [c])) as [[| |]|] eqn:E; try discriminate.
    apply IH in H as [H1 H2]. rewrite <- app_assoc in H2. auto.
Qed.

Lemma phys_dir_last fs : forall a pre c, phys_dir fs pre (a ++ [c]) = true -> lookup fs (pre ++ a ++ [c]) = Some NDir.
Proof.
  intros a pre c H. apply phys_dir_app in H as [_ H]. cbn in H.
  destruct (lookup fs ((pre ++ a) ++ [c])) as [[| |]|] eqn:E; try discriminate.
  rewrite <- app_assoc in E. exact E.
Qed.

Lemma phys_dir_lookup fs ds l x : phys_dir fs [] ds = true -> ds = l ++ x -> lookup fs l = Some NDir.
Proof.
  intros H E. induction l as [|a l' _] using rev_ind; [reflexivity|].
  subst ds. apply phys_dir_app in H as [H _].
  apply phys_dir_last in H. exact H.
Qed.

Lemma phys_dir_ext fs fs' : forall rest pre,
  (forall a b, rest = a ++ b -> a <> [] -> lookup fs' (pre ++ a) = lookup fs (pre ++ a)) ->
  phys_dir fs pre rest = true -> phys_dir fs' pre rest = true.
Proof.
  induction rest as [|c rest IH]; intros pre Hx H; cbn in *; [reflexivity|].
  rewrite (Hx [c] rest eq_refl) by discriminate.
  destruct (lookup fs (pre ++ [c])) as [[| |]|]; try discriminate.
  apply IH; [|exact H]. intros a b E Ha. rewrite <- !app_assoc.
  apply (Hx (c :: a) b); [rewrite E; reflexivity | discriminate].
Qed.

(* walking down a chain of real directories *)
Lemma walk_phys_prefix k g fs fl : forall suf pre x q,
  phys_dir fs pre suf = true -> Forall proper suf ->
  walk k g fs fl pre (suf ++ x) = Some q -> walk k g fs fl (pre ++ suf) x = Some q.
Proof.
  induction suf as [|c suf IH]; intros pre x q Hp Hs Hw.
  - rewrite app_nil_r. exact Hw.
  - inversion Hs as [|? ? Hc Hs']; subst. cbn [app] in Hw. rewrite walk_cons in Hw.
    unfold walk_cons_rhs in Hw. rewrite (proper_not_skip c Hc), (proper_not_dotdot c Hc) in Hw.
    destruct (NAME_MAX <? blen c); [discriminate|]. cbn zeta in Hw.
    destruct (g && (PATH_MAX1 <? plen (pre ++ [c]))); [discriminate|].
    cbn [phys_dir] in Hp.
    destruct (lookup fs (pre ++ [c])) as [[| |]|] eqn:E; try discriminate.
    apply IH in Hw; [|exact Hp|exact Hs']. rewrite <- app_assoc in Hw. exact Hw.
Qed.

Lemma no_dotdot_app a b : no_dotdot (a ++ b) = no_dotdot a && no_dotdot b.
Proof. apply forallb_app. Qed.

Lemma no_dotdot_cons c r : no_dotdot (c :: r) = negb (beq c s_dotdot) && no_dotdot r.
Proof. reflexivity. Qed.

Lemma no_dotdot_removelast l : no_dotdot l = true -> no_dotdot (removelast l) = true.
Proof.
  intros H. induction l as [|x r _] using rev_ind; [reflexivity|].
  rewrite removelast_last. rewrite no_dotdot_app in H. apply andb_true_iff in H as [H _]. exact H.
Qed.

Lemma proper_no_dotdot l : Forall proper l -> no_dotdot l = true.
Proof.
  intros H. apply forallb_forall. intros x Hx. rewrite Forall_forall in H.
  rewrite (proper_not_dotdot x (H x Hx)). reflexivity.
Qed.

(* ------------------------------------------------------------------ the zone below ds *)
Section Zone.
  Variable ds : path.
  Hypothesis ds_proper : Forall proper ds.

  Definition LinkOK (fs : fsmap) : Prop :=
    forall p t, seg_prefix ds p = true -> lookup fs p = Some (NLink t) -> link_target_safe ds t = true.
  Definition Inv (fs : fsmap) : Prop := phys_dir fs [] ds = true /\ LinkOK fs.
  Definition Only (fs fs' : fsmap) : Prop := forall p, seg_prefix ds p = false -> lookup fs' p = lookup fs p.

  Lemma Only_refl fs : Only fs fs.
  Proof. intros p _. reflexivity. Qed.
  Lemma Only_trans a b c : Only a b -> Only b c -> Only a c.
  Proof. intros H1 H2 p Hp. rewrite (H2 p Hp). apply H1. exact Hp. Qed.

  Definition WZ (k : nat) : Prop :=
    forall g fs fl comps cur q, Inv fs -> seg_prefix ds cur = true -> no_dotdot comps = true ->
      walk k g fs fl cur comps = Some q -> seg_prefix ds q = true.

  Lemma walk_zone_step k : (forall k', k = S k' -> WZ k') -> WZ k.
  Proof.
    intros Hk g fs fl comps. induction comps as [|c rest IH]; intros cur q HI Hin Hnd Hw.
    - rewrite walk_nil in Hw. injection Hw as <-. exact Hin.
    - rewrite no_dotdot_cons in Hnd. apply andb_true_iff in Hnd as [Hc Hnd]. apply negb_true_iff in Hc.
      rewrite walk_cons in Hw. unfold walk_cons_rhs in Hw. rewrite Hc in Hw.
      destruct (beq c [] || beq c s_dot); [eapply IH; eauto|].
      destruct (NAME_MAX <? blen c); [discriminate|]. cbn zeta in Hw.
      destruct (g && (PATH_MAX1 <? plen (cur ++ [c]))); [discriminate|].
      assert (Hp : seg_prefix ds (cur ++ [c]) = true) by (apply seg_prefix_app_r; exact Hin).
      destruct (lookup fs (cur ++ [c])) as [[| cid sz | t]|] eqn:E; try discriminate.
      + eapply IH; eauto.
      + destruct (is_nil rest); [|discriminate]. injection Hw as <-. exact Hp.
      + destruct (is_nil rest && negb fl); [injection Hw as <-; exact Hp|].
        destruct k as [|k']; [discriminate|].
        destruct HI as [Hphys HL]. pose proof (HL _ _ Hp E) as Hsafe.
        unfold link_target_safe in Hsafe. apply andb_true_iff in Hsafe as [Hnt Habs].
        destruct (is_abs t) eqn:Ea.
        * cbn [negb orb] in Habs. apply seg_prefix_spec in Habs as [y Hy].
          rewrite Hy in Hw. cbn [app] in Hw. rewrite walk_skip_empty in Hw.
          rewrite <- app_assoc in Hw. apply walk_phys_prefix in Hw; [|exact Hphys|exact ds_proper].
          cbn [app] in Hw. eapply (Hk k' eq_refl); [split; eassumption | apply seg_prefix_refl | | exact Hw].
          rewrite Hy in Hnt. change (([] :: ds) ++ y) with ([] :: (ds ++ y)) in Hnt.
          rewrite no_dotdot_cons, no_dotdot_app in Hnt. apply andb_true_iff in Hnt as [_ Hnt]. apply andb_true_iff in Hnt as [_ Hnt].
          rewrite no_dotdot_app, Hnt, Hnd. reflexivity.
        * eapply (Hk k' eq_refl); [split; eassumption | exact Hin | | exact Hw].
          rewrite no_dotdot_app, Hnt, Hnd. reflexivity.
  Qed.

  Lemma walk_zone k : WZ k.
  Proof.
    induction k as [|k IH]; apply walk_zone_step.
    - intros k' E. discriminate.
    - intros k' E. injection E as <-. exact IH.
  Qed.

  (* lists of components that name a prefix of ds, or ds followed by components without ".." *)
  Definition zl (l : list seg) : Prop :=
    (exists x, ds = l ++ x) \/ (exists cs, l = ds ++ cs /\ no_dotdot cs = true).

  Lemma zl_prefix a b : zl (a ++ b) -> zl a.
  Proof.
    intros [[x H]|[cs [H Hnd]]].
    - left. exists (b ++ x). rewrite H, app_assoc. reflexivity.
    - apply app_eq_app in H as [m [[H1 H2]|[H1 H2]]].
      + right. exists m. split; [exact H1|]. rewrite H2, no_dotdot_app in Hnd.
        apply andb_true_iff in Hnd as [Hnd _]. exact Hnd.
      + left. exists m. exact H1.
  Qed.

  Lemma inside_not_proper_prefix p l x : seg_prefix ds p = true -> ds = l ++ x -> p = l -> x = [].
  Proof.
    intros Hp E ->. apply seg_prefix_spec in Hp as [y Hy]. rewrite E in Hy.
    rewrite <- app_assoc in Hy. rewrite <- (app_nil_r l) in Hy at 1. apply app_inv_head in Hy.
    symmetry in Hy. apply app_eq_nil in Hy as [Hy _]. exact Hy.
  Qed.

  (* setting a node at a place inside ds that is not an existing directory *)
  Lemma set_inside fs p n :
    Inv fs -> seg_prefix ds p = true -> lookup fs p <> Some NDir ->
    (forall t, n = NLink t -> link_target_safe ds t = true) ->
    Inv (fs_set fs p n) /\ Only fs (fs_set fs p n).
  Proof.
    intros [Hphys HL] Hp Hnd Hn. split; [split|].
    - eapply phys_dir_ext; [|exact Hphys]. intros a b E Ha. cbn [app].
      apply lookup_set_other. intros ->. apply Hnd. eapply phys_dir_lookup; eauto.
    - intros q t Hq Hlk. destruct (segs_eqb q p) eqn:E.
      + apply segs_eqb_eq in E. subst q. rewrite lookup_set_same in Hlk.
        * injection Hlk as ->. apply Hn. reflexivity.
        * intros ->. apply Hnd. reflexivity.
      + apply segs_eqb_false in E. rewrite lookup_set_other in Hlk by exact E. eapply HL; eauto.
    - intros q Hq. apply lookup_set_other. intros ->. congruence.
  Qed.

  Lemma strict_below_spec : forall d p, strict_below d p = true <-> exists y, y <> [] /\ p = d ++ y.
  Proof.
    induction d as [|a d IH]; intros p; cbn.
    - destruct p; split; try discriminate; auto.
      + intros [y [Hy E]]. subst. contradiction.
      + intros _. exists (s :: p). split; [discriminate|reflexivity].
    - destruct p as [|b p]; [split; [discriminate|intros [y [_ E]]; discriminate]|].
      rewrite andb_true_iff, beq_eq, IH. split.
      + intros [-> [y [Hy ->]]]. exists y. auto.
      + intros [y [Hy E]]. injection E as -> ->. split; [reflexivity|exists y; auto].
  Qed.

  Lemma remove_inside fs p :
    Inv fs -> strict_below ds p = true -> Inv (fs_remove fs p) /\ Only fs (fs_remove fs p).
  Proof.
    intros [Hphys HL] Hp. apply strict_below_spec in Hp as [y [Hy ->]]. split; [split|].
    - eapply phys_dir_ext; [|exact Hphys]. intros a b E Ha. cbn [app].
      apply lookup_remove_other. intros Ea. rewrite E in Ea.
      rewrite <- app_assoc in Ea. rewrite <- (app_nil_r a) in Ea at 1. apply app_inv_head in Ea.
      symmetry in Ea. apply app_eq_nil in Ea as [_ Ea]. contradiction.
    - intros q t Hq Hlk. destruct (segs_eqb q (ds ++ y)) eqn:E.
      + apply segs_eqb_eq in E. subst q. rewrite lookup_remove_same in Hlk; [discriminate|].
        destruct ds; [exact Hy|discriminate].
      + apply segs_eqb_false in E. rewrite lookup_remove_other in Hlk by exact E. eapply HL; eauto.
    - intros q Hq. apply lookup_remove_other. intros ->. rewrite seg_prefix_app in Hq. discriminate.
  Qed.

  (* ---------------------------------------------------------------- system calls in the zone *)
  Lemma kcreate_at_zone fs s l p :
    Inv fs -> split_slash s = [] :: l -> zl l -> kcreate_at fs s = Some p ->
    seg_prefix ds p = true \/ lookup fs p = Some NDir.
  Proof.
    intros HI Hs Hz H. unfold kcreate_at in H.
    destruct (negb (is_abs s)); [discriminate|].
    destruct (PATH_MAX1 <? blen s); [discriminate|].
    rewrite Hs in H. cbn zeta in H.
    destruct l as [|l0 lr] eqn:El.
    { cbn in H. discriminate. }
    rewrite <- El in *. assert (Hne : l <> []) by (rewrite El; discriminate).
    assert (Hlast : @last seg ([] :: l) [] = last l []) by (rewrite El; reflexivity).
    assert (Hrl : @removelast seg ([] :: l) = [] :: removelast l) by (rewrite El; reflexivity).
    rewrite Hlast, Hrl in H. clear Hlast Hrl.
    destruct (beq (last l []) [] || beq (last l []) s_dot || beq (last l []) s_dotdot); [discriminate|].
    destruct (NAME_MAX <? blen (last l [])); [discriminate|].
    rewrite walk_skip_empty in H.
    destruct (walk KERNEL_LINKS false fs true [] (removelast l)) as [pp|] eqn:Hw; [|discriminate].
    destruct (lookup fs pp) as [[| |]|] eqn:Hpp; try discriminate. injection H as <-.
    pose proof (app_removelast_last [] Hne) as Hl.
    destruct HI as [Hphys HL].
    assert (Hprefix : forall x, ds = l ++ x -> seg_prefix ds (pp ++ [last l []]) = true \/ lookup fs (pp ++ [last l []]) = Some NDir).
    { intros x Hx. right.
      assert (Hph : phys_dir fs [] (removelast l) = true).
      { rewrite Hx, Hl, <- app_assoc in Hphys. apply phys_dir_app in Hphys as [Hp1 _]. exact Hp1. }
      assert (Hpr : Forall proper (removelast l)).
      { rewrite Hx, Hl, <- app_assoc in ds_proper. apply Forall_app in ds_proper as [Hp1 _]. exact Hp1. }
      rewrite <- (app_nil_r (removelast l)) in Hw. apply walk_phys_prefix in Hw; [|exact Hph|exact Hpr].
      rewrite walk_nil in Hw. injection Hw as <-. cbn [app].
      match goal with |- lookup fs ?x = _ => replace x with l by (apply app_removelast_last; exact Hne) end.
      exact (phys_dir_lookup fs ds l x Hphys Hx). }
    destruct Hz as [[x Hx]|[cs [Hcs Hnd]]]; [eapply Hprefix; eauto|].
    destruct cs as [|c0 cr] eqn:Ecs.
    { apply (Hprefix []). rewrite Hcs, app_nil_r. rewrite app_nil_r. reflexivity. }
    rewrite <- Ecs in *. assert (Hcne : cs <> []) by (rewrite Ecs; discriminate).
    left. rewrite Hcs in Hw. rewrite removelast_app in Hw by exact Hcne.
    apply walk_phys_prefix in Hw; [|exact Hphys|exact ds_proper]. cbn [app] in Hw.
    apply seg_prefix_app_r.
    eapply (walk_zone KERNEL_LINKS); [split; eassumption | apply seg_prefix_refl | | exact Hw].
    apply no_dotdot_removelast. exact Hnd.
  Qed.

  Lemma kmkdir_zone fs s l fs' :
    Inv fs -> split_slash s = [] :: l -> zl l -> kmkdir fs s = Some fs' -> Inv fs' /\ Only fs fs'.
  Proof.
    intros HI Hs Hz H. unfold kmkdir in H.
    destruct (kcreate_at fs s) as [p|] eqn:Hc; [|discriminate].
    destruct (lookup fs p) eqn:Hp; [discriminate|]. injection H as <-.
    destruct (kcreate_at_zone _ _ _ _ HI Hs Hz Hc) as [Hin|Hd]; [|congruence].
    apply set_inside; auto; [congruence | intros t Ht; discriminate].
  Qed.

  Lemma ksymlink_zone fs tgt s l fs' :
    Inv fs -> split_slash s = [] :: l -> zl l -> link_target_safe ds tgt = true ->
    ksymlink fs tgt s = Some fs' -> Inv fs' /\ Only fs fs'.
  Proof.
    intros HI Hs Hz Hsafe H. unfold ksymlink in H.
    destruct (is_nil tgt || (PATH_MAX1 <? blen tgt)); [discriminate|].
    destruct (kcreate_at fs s) as [p|] eqn:Hc; [|discriminate].
    destruct (lookup fs p) eqn:Hp; [discriminate|]. injection H as <-.
    destruct (kcreate_at_zone _ _ _ _ HI Hs Hz Hc) as [Hin|Hd]; [|congruence].
    apply set_inside; auto; [congruence | intros t [= <-]; exact Hsafe].
  Qed.

  Lemma kwalk_zone fs s l q fl :
    Inv fs -> split_slash s = [] :: l -> zl l -> kwalk fs s fl = Some q ->
    seg_prefix ds q = true \/ lookup fs q = Some NDir.
  Proof.
    intros HI Hs Hz H. unfold kwalk in H.
    destruct (negb (is_abs s)); [discriminate|]. destruct (PATH_MAX1 <? blen s); [discriminate|].
    rewrite Hs, walk_skip_empty in H. destruct HI as [Hphys HL].
    destruct Hz as [[x Hx]|[cs [Hcs Hnd]]].
    - right. rewrite <- (app_nil_r l) in H.
      assert (Hph : phys_dir fs [] l = true).
      { rewrite Hx in Hphys. apply phys_dir_app in Hphys as [Hp1 _]. exact Hp1. }
      assert (Hpr : Forall proper l).
      { rewrite Hx in ds_proper. apply Forall_app in ds_proper as [Hp1 _]. exact Hp1. }
      apply walk_phys_prefix in H; [|exact Hph|exact Hpr]. rewrite walk_nil in H. injection H as <-.
      cbn [app]. exact (phys_dir_lookup fs ds l x Hphys Hx).
    - left. rewrite Hcs in H. apply walk_phys_prefix in H; [|exact Hphys|exact ds_proper]. cbn [app] in H.
      eapply (walk_zone KERNEL_LINKS); [split; eassumption | apply seg_prefix_refl | exact Hnd | exact H].
  Qed.

  Lemma kwrite_zone fs s l cid size fs' :
    Inv fs -> split_slash s = [] :: l -> zl l -> kwrite fs s cid size = Some fs' -> Inv fs' /\ Only fs fs'.
  Proof.
    intros HI Hs Hz H. unfold kwrite in H.
    destruct (kcreate_at fs s) as [p|] eqn:Hc; [|discriminate].
    pose proof (kcreate_at_zone _ _ _ _ HI Hs Hz Hc) as Hp.
    destruct (lookup fs p) as [[| c0 s0 | t]|] eqn:El; try discriminate.
    - injection H as <-. destruct Hp as [Hp|Hp]; [|congruence].
      apply set_inside; auto; [congruence | intros t Ht; discriminate].
    - destruct (kwalk fs s true) as [q|] eqn:Hq; [|discriminate].
      destruct (lookup fs q) as [[| c1 s1 | t1]|] eqn:Elq; try discriminate. injection H as <-.
      destruct (kwalk_zone _ _ _ _ _ HI Hs Hz Hq) as [Hin|Hd]; [|congruence].
      apply set_inside; auto; [congruence | intros t' Ht; discriminate].
    - injection H as <-. destruct Hp as [Hp|Hp]; [|congruence].
      apply set_inside; auto; [congruence | intros t Ht; discriminate].
  Qed.

  Lemma mk_prefixes_zone : forall rest pre1 fs fs' ok,
    Inv fs -> zl (pre1 ++ rest) -> Forall noslash (pre1 ++ rest) ->
    mk_prefixes fs ([] :: pre1) rest = (fs', ok) -> Inv fs' /\ Only fs fs'.
  Proof.
    induction rest as [|c rest IH]; intros pre1 fs fs' ok HI Hz Hn H.
    - cbn in H. injection H as <- _. split; [exact HI|apply Only_refl].
    - cbn [mk_prefixes] in H.
      assert (Hz' : zl ((pre1 ++ [c]) ++ rest)) by (rewrite <- app_assoc; exact Hz).
      assert (Hn' : Forall noslash ((pre1 ++ [c]) ++ rest)) by (rewrite <- app_assoc; exact Hn).
      change (([] :: pre1) ++ [c]) with ([] :: (pre1 ++ [c])) in H.
      destruct (beq c []); [eapply IH; eauto|].
      assert (Hsp : split_slash (join_slash ([] :: pre1 ++ [c])) = [] :: (pre1 ++ [c])).
      { apply split_join; [discriminate|]. constructor; [intros []|].
        apply Forall_app in Hn' as [Hn1 _]. exact Hn1. }
      assert (Hzp : zl (pre1 ++ [c])) by (eapply zl_prefix; exact Hz').
      destruct (kstat fs (join_slash ([] :: pre1 ++ [c]))) as [[| |]|].
      + eapply IH; eauto.
      + injection H as <- _. split; [exact HI|apply Only_refl].
      + injection H as <- _. split; [exact HI|apply Only_refl].
      + destruct (kmkdir fs (join_slash ([] :: pre1 ++ [c]))) as [fs1|] eqn:Hm.
        * destruct (kmkdir_zone _ _ _ _ HI Hsp Hzp Hm) as [HI1 HO1].
          destruct (IH _ _ _ _ HI1 Hz' Hn' H) as [HI2 HO2].
          split; [exact HI2 | eapply Only_trans; eauto].
        * injection H as <- _. split; [exact HI|apply Only_refl].
  Qed.

  Lemma mkdir_all_zone fs s l fs' ok :
    Inv fs -> split_slash s = [] :: l -> zl l -> mkdir_all fs s = (fs', ok) -> Inv fs' /\ Only fs fs'.
  Proof.
    intros HI Hs Hz H. unfold mkdir_all in H.
    destruct (negb (is_abs s)).
    - injection H as <- _. split; [exact HI|apply Only_refl].
    - rewrite Hs in H. cbn [tl] in H.
      eapply (mk_prefixes_zone l []); eauto.
      pose proof (split_noslash_in s) as Hns. rewrite Hs in Hns.
      apply Forall_forall. intros x Hx. apply Hns. right. exact Hx.
  Qed.

  Lemma mkdir_all_root fs : mkdir_all fs [SL] = (fs, true).
  Proof. reflexivity. Qed.
End Zone.

(* ------------------------------------------------------------------ unpack.go inside D *)
Lemma filter_proper l : Forall proper (filter properb l).
Proof. apply Forall_forall. intros x Hx. apply filter_In in Hx as [_ Hx]. exact Hx. Qed.

Lemma filter_split_noslash s : Forall noslash (filter properb (split_slash s)).
Proof.
  apply Forall_forall. intros x Hx. apply filter_In in Hx as [Hx _]. exact (split_noslash_in s x Hx).
Qed.

Lemma split_full_zone ds cs :
  Forall proper cs -> Forall noslash (ds ++ cs) ->
  exists l, split_slash (render true (ds ++ cs)) = [] :: l /\ zl ds l.
Proof.
  intros Hp Hn. rewrite split_render_true by exact Hn.
  destruct (ds ++ cs) as [|x r] eqn:E.
  - exists [[]]. split; [reflexivity|]. apply app_eq_nil in E as [-> ->].
    right. exists [[]]. split; reflexivity.
  - exists (x :: r). split; [reflexivity|]. right. exists cs. split; [symmetry; exact E|].
    apply proper_no_dotdot. exact Hp.
Qed.

Lemma mkdir_all_dir_zone ds fs cs fs' ok :
  Forall proper ds -> Inv ds fs -> Forall proper cs -> Forall noslash (ds ++ cs) ->
  mkdir_all fs (dir_of (render true (ds ++ cs))) = (fs', ok) -> Inv ds fs' /\ Only ds fs fs'.
Proof.
  intros Hds HI Hp Hn H.
  destruct (ds ++ cs) as [|x0 r0] eqn:E0.
  { change (dir_of (render true [])) with [SL] in H. assert (Hr : (fs', ok) = (fs, true)) by (rewrite <- H; apply mkdir_all_root). injection Hr as -> _.
    split; [exact HI|apply Only_refl]. }
  assert (Hne : ds ++ cs <> []) by (rewrite E0; discriminate). rewrite <- E0 in *. clear E0 x0 r0.
  destruct (exists_last Hne) as (L' & x & El).
  assert (Hpall : Forall proper (ds ++ cs)) by (apply Forall_app; split; assumption).
  rewrite El in H, Hpall, Hn. rewrite dir_of_render_true in H by assumption.
  apply Forall_app in Hn as [HnL _]. apply Forall_app in Hpall as [HpL _].
  destruct L' as [|y0 r1] eqn:EL.
  { change (render true []) with [SL] in H. assert (Hr : (fs', ok) = (fs, true)) by (rewrite <- H; apply mkdir_all_root). injection Hr as -> _.
    split; [exact HI|apply Only_refl]. }
  rewrite <- EL in *.
  assert (Hz : zl ds L').
  { apply (zl_prefix ds L' [x]). rewrite <- El. right. exists cs. split; [reflexivity|].
    apply proper_no_dotdot. exact Hp. }
  eapply mkdir_all_zone; eauto.
  rewrite split_render_true by exact HnL. rewrite EL. rewrite <- EL. reflexivity.
Qed.

Lemma render_true_safe ds cs :
  Forall proper ds -> Forall proper cs -> Forall noslash (ds ++ cs) ->
  link_target_safe ds (render true (ds ++ cs)) = true.
Proof.
  intros Hds Hp Hn. unfold link_target_safe. rewrite split_render_true by exact Hn.
  apply andb_true_iff. split.
  - destruct (ds ++ cs) as [|x r] eqn:E; [reflexivity|]. rewrite <- E.
    rewrite no_dotdot_cons. cbn [beq negb andb]. apply proper_no_dotdot. apply Forall_app. split; assumption.
  - cbn [is_abs render negb orb]. rewrite N.eqb_refl. cbn [negb orb].
    destruct (ds ++ cs) as [|x r] eqn:E.
    + apply app_eq_nil in E as [-> _]. reflexivity.
    + rewrite <- E. cbn [seg_prefix beq andb]. apply seg_prefix_app.
Qed.

Lemma all_dotdot_head (l : list seg) :
  Forall (fun c => c = s_dotdot) l -> l <> [] -> exists r, l = s_dotdot :: r.
Proof. intros H Hne. destruct l as [|x r]; [contradiction|]. inversion H; subst. exists r. reflexivity. Qed.

Lemma clean_leading_dotdot name :
  no_dotdot (csegs name) = false -> clean name = s_dotdot \/ has_prefix (clean name) DDS = true.
Proof.
  intros H. pose proof (csegs_shape name) as Hs. apply shape_split in Hs as (n & u & E & Hn & Hu & Hr).
  assert (Ec : csegs name = rev u ++ rev n).
  { rewrite <- (rev_involutive (csegs name)), E, rev_app_distr. reflexivity. }
  destruct u as [|u0 u'].
  - exfalso. cbn in Ec. rewrite Ec in H. rewrite proper_no_dotdot in H; [discriminate|]. apply Forall_rev. exact Hn.
  - assert (Habs : is_abs name = false).
    { destruct (is_abs name); [specialize (Hr eq_refl); discriminate|reflexivity]. }
    assert (Hru : Forall (fun c => c = s_dotdot) (rev (u0 :: u'))) by (apply Forall_rev; exact Hu).
    destruct (all_dotdot_head _ Hru) as [r Er].
    { intros E0. apply (f_equal (@length seg)) in E0. rewrite rev_length in E0. discriminate. }
    rewrite clean_render, Habs, Ec, Er. cbn [app render].
    destruct (r ++ rev n) as [|y t]; [left; reflexivity|right].
    change (join_slash (s_dotdot :: y :: t)) with (DOT :: DOT :: SL :: join_slash (y :: t)). reflexivity.
Qed.

Section UnpackD.
  Variable cfg : ucfg.
  Variable req : bytes -> bool.
  Hypothesis dir_ok : clean_abs (u_dir cfg).
  Let ds := csegs (u_dir cfg).

  Lemma ds_proper' : Forall proper ds.
  Proof. apply csegs_abs_proper. apply dir_ok. Qed.
  Lemma ds_noslash' : Forall noslash ds.
  Proof. apply csegs_noslash. Qed.

  Lemma not_skipped_no_dotdot name :
    beq (clean name) s_dotdot || has_prefix (clean name) DDS = false -> no_dotdot (csegs name) = true.
  Proof.
    intros H. destruct (no_dotdot (csegs name)) eqn:E; [reflexivity|].
    apply orb_false_iff in H as [H1 H2].
    destruct (clean_leading_dotdot name E) as [Ec|Ec].
    - rewrite Ec, beq_refl in H1. discriminate.
    - congruence.
  Qed.

  Lemma full_path_zone name :
    beq (clean name) s_dotdot || has_prefix (clean name) DDS = false ->
    exists cs, Forall proper cs /\ Forall noslash (ds ++ cs) /\
               join2 (u_dir cfg) (clean name) = render true (ds ++ cs).
  Proof.
    intros H0. pose proof (not_skipped_no_dotdot name H0) as H.
    exists (filter properb (split_slash (clean name))). split; [apply filter_proper|]. split.
    - apply Forall_app. split; [apply ds_noslash'|apply filter_split_noslash].
    - apply join2_zone; [exact dir_ok | apply clean_nonempty | apply clean_no_dotdot; exact H].
  Qed.

  Lemma unpack_entry_zone final fs tg e st' err :
    Inv ds fs -> entry_in_D e = true ->
    unpack_entry cfg req final (fs, tg) e = (st', err) -> Inv ds (fst st') /\ Only ds fs (fst st').
  Proof.
    intros HI HD H. pose proof ds_proper' as Hdp.
    assert (Hsame : Inv ds fs /\ Only ds fs fs) by (split; [exact HI|apply Only_refl]).
    unfold entry_in_D in HD. rename HD into HDl.
    unfold unpack_entry in H. cbn zeta in H.
    destruct (u_max cfg <? e_size e)%Z; [injection H as <- _; exact Hsame|].
    destruct (beq (clean (e_name e)) s_dotdot || has_prefix (clean (e_name e)) DDS) eqn:Hskip;
      [injection H as <- _; exact Hsame|].
    destruct (full_path_zone (e_name e) Hskip) as (cs & Hcp & Hcn & Hfull).
    rewrite Hfull in H.
    destruct (is_some (klstat fs (render true (ds ++ cs)))); [injection H as <- _; exact Hsame|].
    destruct (negb (required req tg (render true (ds ++ cs)) (clean (e_name e)))); [injection H as <- _; exact Hsame|].
    destruct (split_full_zone ds cs Hcp Hcn) as (l & Hsl & Hzl).
    destruct (path_outside_base fs (u_dir cfg) (render true (ds ++ cs))); [injection H as <- _; exact Hsame|].
    destruct (e_type e) eqn:Ety; try (injection H as <- _; exact Hsame).
    - (* regular file *)
      destruct (mkdir_all fs (dir_of (render true (ds ++ cs)))) as [fs1 ok] eqn:Hm.
      destruct (mkdir_all_dir_zone ds fs cs fs1 ok Hdp HI Hcp Hcn Hm) as [HI1 HO1].
      destruct (negb ok); [injection H as <- _; split; assumption|].
      destruct (kwrite fs1 (render true (ds ++ cs)) (e_cid e) (e_size e)) as [fs2|] eqn:Hw.
      + injection H as <- _. destruct (kwrite_zone ds Hdp _ _ _ _ _ _ HI1 Hsl Hzl Hw) as [HI2 HO2].
        split; [exact HI2 | eapply Only_trans; eauto].
      + injection H as <- _. split; assumption.
    - (* symlink *)
      destruct (mkdir_all fs (dir_of (render true (ds ++ cs)))) as [fs1 ok] eqn:Hm.
      destruct (mkdir_all_dir_zone ds fs cs fs1 ok Hdp HI Hcp Hcn Hm) as [HI1 HO1].
      destruct (negb ok && u_err_return cfg); [injection H as <- _; split; assumption|].
      destruct (target_outside_root (u_marker cfg) (clean (e_name e)) (e_link e)); [injection H as <- _; split; assumption|].
      destruct (u_ignore cfg).
      { destruct (kread fs1 (u_cwd cfg) _) as [[cid sz]|]; [|injection H as <- _; split; assumption].
        match type of H with context [kwrite fs1 ?s ?c ?z] => destruct (kwrite fs1 s c z) as [fs2|] eqn:Hw end;
          [|injection H as <- _; split; assumption].
        injection H as <- _. destruct (kwrite_zone ds Hdp _ _ _ _ _ _ HI1 Hsl Hzl Hw) as [HI2 HO2].
        split; [exact HI2 | eapply Only_trans; eauto]. }
      match type of H with context [ksymlink fs1 ?t ?s] => destruct (ksymlink fs1 t s) as [fs2|] eqn:Hk end.
      + injection H as <- _.
        assert (Hsafe : link_target_safe ds (if is_abs (e_link e) then join2 (u_dir cfg) (e_link e) else e_link e) = true).
        { destruct (is_abs (e_link e)) eqn:Ea.
          - rewrite join2_zone; [| exact dir_ok | intros E; rewrite E in Ea; discriminate | exact HDl].
            apply render_true_safe; [exact Hdp | apply filter_proper |].
            apply Forall_app. split; [apply ds_noslash'|apply filter_split_noslash].
          - unfold link_target_safe. rewrite Ea. fold (no_dotdot (split_slash (e_link e))) in HDl.
            rewrite HDl. reflexivity. }
        destruct (ksymlink_zone ds Hdp _ _ _ _ _ HI1 Hsl Hzl Hsafe Hk) as [HI2 HO2].
        split; [exact HI2 | eapply Only_trans; eauto].
      + injection H as <- _. split; assumption.
    - (* hard link entry: same code path *)
      destruct (mkdir_all fs (dir_of (render true (ds ++ cs)))) as [fs1 ok] eqn:Hm.
      destruct (mkdir_all_dir_zone ds fs cs fs1 ok Hdp HI Hcp Hcn Hm) as [HI1 HO1].
      destruct (negb ok && u_err_return cfg); [injection H as <- _; split; assumption|].
      destruct (target_outside_root (u_marker cfg) (clean (e_name e)) (e_link e)); [injection H as <- _; split; assumption|].
      destruct (u_ignore cfg).
      { destruct (kread fs1 (u_cwd cfg) _) as [[cid sz]|]; [|injection H as <- _; split; assumption].
        match type of H with context [kwrite fs1 ?s ?c ?z] => destruct (kwrite fs1 s c z) as [fs2|] eqn:Hw end;
          [|injection H as <- _; split; assumption].
        injection H as <- _. destruct (kwrite_zone ds Hdp _ _ _ _ _ _ HI1 Hsl Hzl Hw) as [HI2 HO2].
        split; [exact HI2 | eapply Only_trans; eauto]. }
      match type of H with context [ksymlink fs1 ?t ?s] => destruct (ksymlink fs1 t s) as [fs2|] eqn:Hk end.
      + injection H as <- _.
        assert (Hsafe : link_target_safe ds (if is_abs (e_link e) then join2 (u_dir cfg) (e_link e) else e_link e) = true).
        { destruct (is_abs (e_link e)) eqn:Ea.
          - rewrite join2_zone; [| exact dir_ok | intros E; rewrite E in Ea; discriminate | exact HDl].
            apply render_true_safe; [exact Hdp | apply filter_proper |].
            apply Forall_app. split; [apply ds_noslash'|apply filter_split_noslash].
          - unfold link_target_safe. rewrite Ea. fold (no_dotdot (split_slash (e_link e))) in HDl.
            rewrite HDl. reflexivity. }
        destruct (ksymlink_zone ds Hdp _ _ _ _ _ HI1 Hsl Hzl Hsafe Hk) as [HI2 HO2].
        split; [exact HI2 | eapply Only_trans; eauto].
      + injection H as <- _. split; assumption.
  Qed.
End UnpackD.

Section UnpackD2.
  Variable cfg : ucfg.
  Variable req : bytes -> bool.
  Hypothesis dir_ok : clean_abs (u_dir cfg).
  Let ds := csegs (u_dir cfg).

  Lemma unpack_pass_zone final : forall es fs tg st' err,
    Inv ds fs -> entries_in_D es = true ->
    unpack_pass cfg req final (fs, tg) es = (st', err) -> Inv ds (fst st') /\ Only ds fs (fst st').
  Proof.
    induction es as [|e es IH]; intros fs tg st' err HI HD H.
    - cbn in H. injection H as <- _. split; [exact HI|apply Only_refl].
    - cbn [unpack_pass] in H. unfold entries_in_D in HD. cbn [forallb] in HD. apply andb_true_iff in HD as [He HD].
      destruct (unpack_entry cfg req final (fs, tg) e) as [[fs1 tg1] err1] eqn:E1.
      destruct (unpack_entry_zone cfg req dir_ok final fs tg e _ _ HI He E1) as [HI1 HO1]. cbn [fst] in *.
      destruct err1.
      + injection H as <- _. split; assumption.
      + destruct (IH fs1 tg1 st' err HI1 HD H) as [HI2 HO2].
        split; [exact HI2 | eapply Only_trans; eauto].
  Qed.

  Lemma unpack_passes_zone : forall n es fs tg st' err,
    Inv ds fs -> entries_in_D es = true ->
    unpack_passes n cfg req (fs, tg) es = (st', err) -> Inv ds (fst st') /\ Only ds fs (fst st').
  Proof.
    induction n as [|n IH]; intros es fs tg st' err HI HD H.
    - cbn in H. injection H as <- _. split; [exact HI|apply Only_refl].
    - cbn [unpack_passes] in H.
      destruct (unpack_pass cfg req match n with O => true | _ => false end (fs, tg) es) as [[fs1 tg1] err1] eqn:E1.
      destruct (unpack_pass_zone _ es fs tg _ _ HI HD E1) as [HI1 HO1]. cbn [fst] in *.
      destruct err1.
      + injection H as <- _. split; assumption.
      + destruct (IH es fs1 tg1 st' err HI1 HD H) as [HI2 HO2].
        split; [exact HI2 | eapply Only_trans; eauto].
  Qed.

  Lemma pinsert_in x l y : In y (pinsert x l) -> y = x \/ In y l.
  Proof.
    induction l as [|z r IH]; cbn.
    - intros [<-|[]]. auto.
    - destruct (path_leb (fst x) (fst z)); cbn.
      + intros [<-|H]; auto.
      + intros [<-|H]; [right; left; reflexivity|]. apply IH in H as [H|H]; auto.
  Qed.

  Lemma psort_in l y : In y (psort l) -> In y l.
  Proof.
    induction l as [|x r IH]; cbn; [auto|]. intros H. apply pinsert_in in H as [->|H]; auto.
  Qed.

  Lemma links_below_in fs root p t : In (p, t) (links_below fs root) -> strict_below root p = true.
  Proof.
    induction fs as [|[q n] r IH]; cbn; [intros []|].
    destruct n; auto. destruct (strict_below root q) eqn:E; auto.
    intros [[= <- <-]|H]; auto.
  Qed.

  Lemma remove_obsolete_zone fs fs' err :
    Inv ds fs -> remove_obsolete fs (u_dir cfg) = (fs', err) -> Inv ds fs' /\ Only ds fs fs'.
  Proof.
    intros HI H. pose proof (ds_proper' cfg dir_ok) as Hdp. fold ds in Hdp.
    assert (Hsame : Inv ds fs /\ Only ds fs fs) by (split; [exact HI|apply Only_refl]).
    destruct (clean_abs_render _ dir_ok) as (Hr & _ & Hn). fold ds in Hr, Hn.
    assert (Hwalk : forall fl q, kwalk fs (u_dir cfg) fl = Some q -> q = ds).
    { intros fl q Hq. unfold kwalk in Hq.
      destruct (negb (is_abs (u_dir cfg))); [discriminate|]. destruct (PATH_MAX1 <? blen (u_dir cfg)); [discriminate|].
      rewrite Hr, split_render_true in Hq by exact Hn. rewrite walk_skip_empty in Hq.
      destruct HI as [Hphys _].
      destruct ds as [|d0 dr] eqn:Eds.
      - rewrite walk_skip_empty, walk_nil in Hq. injection Hq as <-. reflexivity.
      - rewrite <- Eds in *. rewrite <- (app_nil_r ds) in Hq.
        apply walk_phys_prefix in Hq; [|exact Hphys|exact Hdp]. rewrite walk_nil in Hq. injection Hq as <-. reflexivity. }
    unfold remove_obsolete in H.
    destruct (eval_symlinks fs (u_dir cfg)) as [rr|]; [|injection H as <- _; exact Hsame].
    unfold klstat in H. destruct (kwalk fs (u_dir cfg) false) as [q|] eqn:Hq; [|injection H as <- _; exact Hsame].
    pose proof (Hwalk _ _ Hq) as ->.
    assert (Hd : lookup fs ds = Some NDir).
    { destruct HI as [Hphys _]. eapply phys_dir_lookup; [exact Hphys|]. symmetry. apply app_nil_r. }
    rewrite Hd in H. injection H as <- _.
    (* the fold only removes links strictly below ds *)
    assert (Hall : forall (w : path -> bytes) l, (forall p t, In (p, t) l -> strict_below ds p = true) ->
              forall fs0, Inv ds fs0 ->
              let f := (fun (fs'0 : fsmap) (pt : path * bytes) => obsolete_step rr fs'0 (fst pt) (w (fst pt)) (snd pt)) in
              Inv ds (fold_left f l fs0) /\ Only ds fs0 (fold_left f l fs0)).
    { intros w. induction l as [|[p t] l IHl]; intros Hl fs0 HI0 f.
      - cbn. split; [exact HI0|apply Only_refl].
      - cbn [fold_left]. assert (Hp : strict_below ds p = true) by (eapply Hl; left; reflexivity).
        assert (Hstep : Inv ds (f fs0 (p, t)) /\ Only ds fs0 (f fs0 (p, t))).
        { unfold f, obsolete_step. cbn [fst snd].
          match goal with |- context [if ?c then fs0 else _] => destruct c end;
            [split; [exact HI0|apply Only_refl]|].
          apply remove_inside; assumption. }
        destruct Hstep as [HI1 HO1].
        destruct (IHl (fun p' t' Hin => Hl p' t' (or_intror Hin)) _ HI1) as [HI2 HO2].
        split; [exact HI2 | eapply Only_trans; eauto]. }
    apply (Hall (fun p => join_slash (clean (u_dir cfg) :: skipn (length ds) p))); [|exact HI].
    intros p t Hin. apply psort_in in Hin. eapply links_below_in; eauto.
  Qed.

  Theorem unpack_all_zone fs es :
    Inv ds fs -> entries_in_D es = true ->
    Inv ds (fst (unpack_all cfg req fs es)) /\ Only ds fs (fst (unpack_all cfg req fs es)).
  Proof.
    intros HI HD. unfold unpack_all.
    destruct (unpack_passes (u_passes cfg) cfg req (fs, []) es) as [[fs1 tg1] err1] eqn:E1.
    destruct (unpack_passes_zone _ _ _ _ _ _ HI HD E1) as [HI1 HO1]. cbn [fst] in *.
    destruct (remove_obsolete fs1 (u_dir cfg)) as [fs2 err2] eqn:E2.
    destruct (remove_obsolete_zone _ _ _ HI1 E2) as [HI2 HO2]. cbn [fst].
    split; [exact HI2 | eapply Only_trans; eauto].
  Qed.
End UnpackD2.

Lemma links_safe_LinkOK ds fs : links_safe ds fs = true -> LinkOK ds fs.
Proof.
  intros H p t Hp Hl. unfold lookup in Hl. destruct p as [|p0 pr]; [discriminate|].
  unfold links_safe in H. rewrite forallb_forall in H.
  assert (Hin : exists q, In (q, NLink t) fs /\ q = p0 :: pr).
  { clear H Hp. induction fs as [|[q n] r IH]; cbn in Hl; [discriminate|].
    destruct (segs_eqb q (p0 :: pr)) eqn:E.
    - injection Hl as ->. apply segs_eqb_eq in E. exists q. split; [left; reflexivity|exact E].
    - destruct (IH Hl) as (q' & Hin & Eq). exists q'. split; [right; exact Hin|exact Eq]. }
  destruct Hin as (q & Hin & ->). specialize (H _ Hin). cbn in H. rewrite Hp in H. exact H.
Qed.

Lemma links_resolve_inside_of_Inv ds fs : Forall proper ds -> Inv ds fs -> links_resolve_inside ds fs = true.
Proof.
  intros Hdp HI. unfold links_resolve_inside. apply forallb_forall. intros [p n] Hin. cbn [fst snd].
  destruct n; try reflexivity.
  destruct (seg_prefix ds p && no_dotdot p) eqn:E; [|reflexivity].
  apply andb_true_iff in E as [Hp Hnd].
  destruct (walk KERNEL_LINKS false fs true [] p) as [q|] eqn:Hw; [|reflexivity].
  apply seg_prefix_spec in Hp as [y ->]. destruct HI as [Hphys HL].
  apply walk_phys_prefix in Hw; [|exact Hphys|exact Hdp]. cbn [app] in Hw.
  eapply (walk_zone ds Hdp KERNEL_LINKS); [split; eassumption | apply seg_prefix_refl | | exact Hw].
  rewrite no_dotdot_app in Hnd. apply andb_true_iff in Hnd as [_ Hnd]. exact Hnd.
Qed.

Lemma unpack_contained_on_D_lemma cfg req fs es :
  clean_abs (u_dir cfg) ->
  phys_dir fs [] (csegs (u_dir cfg)) = true -> links_safe (csegs (u_dir cfg)) fs = true ->
  entries_in_D es = true ->
  forall p, lookup fs p <> lookup (fst (unpack_all cfg req fs es)) p -> seg_prefix (csegs (u_dir cfg)) p = true.
Proof.
  intros Hd Hphys Hls HD p Hne.
  destruct (unpack_all_zone cfg req Hd fs es (conj Hphys (links_safe_LinkOK _ _ Hls)) HD) as [_ HO].
  destruct (seg_prefix (csegs (u_dir cfg)) p) eqn:E; [reflexivity|].
  exfalso. apply Hne. symmetry. apply HO. exact E.
Qed.

Lemma unpack_links_inside_on_D_lemma cfg req fs es :
  clean_abs (u_dir cfg) ->
  phys_dir fs [] (csegs (u_dir cfg)) = true -> links_safe (csegs (u_dir cfg)) fs = true ->
  entries_in_D es = true ->
  links_resolve_inside (csegs (u_dir cfg)) (fst (unpack_all cfg req fs es)) = true.
Proof.
  intros Hd Hphys Hls HD.
  destruct (unpack_all_zone cfg req Hd fs es (conj Hphys (links_safe_LinkOK _ _ Hls)) HD) as [HI _].
  apply links_resolve_inside_of_Inv; [apply csegs_abs_proper; apply Hd | exact HI].
Qed.

(* ------------------------------------------------------------------ image.go: layer scanning *)
Lemma layer_target_contained_lemma d name real :
  clean_abs d -> layer_target d name = Some real ->
  exists cs, Forall proper cs /\ Forall noslash cs /\ real = render true (csegs d ++ cs).
Proof.
  intros Hd H. unfold layer_target in H.
  destruct (no_dotdot (csegs name)) eqn:Hnd.
  - destruct (has_prefix (clean name) DDS); [discriminate|].
    destruct (beq (base_of (clean name)) s_dot || beq (base_of (clean name)) s_dotdot); [discriminate|].
    injection H as <-. exists (filter properb (split_slash (clean name))).
    split; [apply filter_proper|]. split; [apply filter_split_noslash|].
    apply join2_zone; [exact Hd | apply clean_nonempty | apply clean_no_dotdot; exact Hnd].
  - destruct (clean_leading_dotdot name Hnd) as [E|E].
    + rewrite E in H. cbn in H. discriminate.
    + rewrite E in H. discriminate.
Qed.

Lemma render_clean_abs L : Forall proper L -> Forall noslash L ->
  clean_abs (render true L) /\ csegs (render true L) = L.
Proof.
  intros Hp Hn. pose proof (csegs_render_true L Hp Hn) as E. split; [|exact E].
  split; [reflexivity|]. rewrite clean_render, E. reflexivity.
Qed.

Section LayerZone.
  Variable E : path.
  Hypothesis E_proper : Forall proper E.
  Hypothesis E_noslash : Forall noslash E.

  Definition layer_dir_ok (d : bytes) : Prop :=
    exists nm, proper nm /\ noslash nm /\ d = render true (E ++ [nm]).

  Lemma layer_real_zone d name real :
    layer_dir_ok d -> layer_target d name = Some real ->
    exists cs, Forall proper cs /\ Forall noslash (E ++ cs) /\ real = render true (E ++ cs).
  Proof.
    intros (nm & Hp & Hn & ->) H.
    assert (HpL : Forall proper (E ++ [nm])) by (apply Forall_app; split; [exact E_proper|constructor; auto]).
    assert (HnL : Forall noslash (E ++ [nm])) by (apply Forall_app; split; [exact E_noslash|constructor; auto]).
    destruct (render_clean_abs _ HpL HnL) as [Hca Hcs].
    destruct (layer_target_contained_lemma _ _ _ Hca H) as (cs & Hcp & Hcn & ->).
    rewrite Hcs. exists (nm :: cs). rewrite <- app_assoc. cbn [app]. split; [constructor; auto|]. split; [|reflexivity].
    apply Forall_app. split; [exact E_noslash|constructor; auto].
  Qed.

  Lemma layer_entry_zone cfg fs vt e st' err :
    layer_dir_ok (l_dir cfg) -> Inv E fs ->
    layer_entry cfg (fs, vt) e = (st', err) -> Inv E (fst st') /\ Only E fs (fst st').
  Proof.
    intros Hd HI H.
    assert (Hsame : Inv E fs /\ Only E fs fs) by (split; [exact HI|apply Only_refl]).
    unfold layer_entry in H. cbn zeta in H.
    destruct (layer_target (l_dir cfg) (e_name e)) as [real|] eqn:Ht; [|injection H as <- _; exact Hsame].
    destruct (layer_real_zone _ _ _ Hd Ht) as (cs & Hcp & Hcn & ->).
    destruct (split_full_zone E cs Hcp Hcn) as (l & Hsl & Hzl).
    match type of H with context [is_some (vget vt ?vp)] => destruct (is_some (vget vt vp)) end;
      [injection H as <- _; exact Hsame|].
    destruct (e_type e).
    - (* regular *)
      destruct (mkdir_all fs (dir_of (render true (E ++ cs)))) as [fs1 good] eqn:Hm.
      destruct (mkdir_all_dir_zone E fs cs fs1 good E_proper HI Hcp Hcn Hm) as [HI1 HO1].
      destruct (negb good); [injection H as <- _; split; assumption|].
      match type of H with context [kwrite fs1 ?s ?c ?z] => destruct (kwrite fs1 s c z) as [fs2|] eqn:Hw end.
      + destruct (kwrite_zone E E_proper _ _ _ _ _ _ HI1 Hsl Hzl Hw) as [HI2 HO2].
        destruct (file_exposed (l_max cfg) (e_size e)); injection H as <- _;
          (split; [exact HI2 | eapply Only_trans; eauto]).
      + injection H as <- _. split; assumption.
    - (* directory *)
      destruct (kstat fs (render true (E ++ cs))); [injection H as <- _; exact Hsame|].
      destruct (mkdir_all fs (render true (E ++ cs))) as [fs1 good] eqn:Hm.
      destruct (mkdir_all_zone E E_proper _ _ _ _ _ HI Hsl Hzl Hm) as [HI1 HO1].
      destruct good; injection H as <- _; split; assumption.
    - destruct (is_nil (e_link e)); [injection H as <- _; exact Hsame|].
      destruct (target_outside_root _ _ _); injection H as <- _; exact Hsame.
    - destruct (is_nil (e_link e)); [injection H as <- _; exact Hsame|].
      destruct (target_outside_root _ _ _); injection H as <- _; exact Hsame.
    - injection H as <- _; exact Hsame.
  Qed.

  Lemma layer_entries_zone cfg : forall es fs vt st' err,
    layer_dir_ok (l_dir cfg) -> Inv E fs ->
    layer_entries cfg (fs, vt) es = (st', err) -> Inv E (fst st') /\ Only E fs (fst st').
  Proof.
    induction es as [|e es IH]; intros fs vt st' err Hd HI H.
    - cbn in H. injection H as <- _. split; [exact HI|apply Only_refl].
    - cbn [layer_entries] in H.
      destruct (layer_entry cfg (fs, vt) e) as [[fs1 vt1] err1] eqn:E1.
      destruct (layer_entry_zone _ _ _ _ _ _ Hd HI E1) as [HI1 HO1]. cbn [fst] in *.
      destruct err1.
      + injection H as <- _. split; assumption.
      + destruct (IH fs1 vt1 st' err Hd HI1 H) as [HI2 HO2]. split; [exact HI2 | eapply Only_trans; eauto].
  Qed.

  Lemma layer_run_zone cfg fs es fs' err :
    layer_dir_ok (l_dir cfg) -> Inv E fs -> layer_run cfg fs es = (fs', err) -> Inv E fs' /\ Only E fs fs'.
  Proof.
    intros Hd HI H. unfold layer_run in H.
    assert (H0 : forall fs0, match kmkdir fs (l_dir cfg) with
                             | Some fs'0 => Some fs'0
                             | None => match klstat fs (l_dir cfg) with Some _ => Some fs | None => None end
                             end = Some fs0 -> Inv E fs0 /\ Only E fs fs0).
    { intros fs0 H0. destruct (kmkdir fs (l_dir cfg)) as [fsm|] eqn:Hm.
      - injection H0 as <-. destruct Hd as (nm & Hp & Hn & Ed).
        eapply (kmkdir_zone E E_proper _ _ (E ++ [nm])); eauto.
        + rewrite Ed, split_render_true.
          * destruct (E ++ [nm]) eqn:EE; [destruct E; discriminate|reflexivity].
          * apply Forall_app. split; [exact E_noslash|constructor; auto].
        + right. exists [nm]. split; [reflexivity|]. rewrite no_dotdot_cons, (proper_not_dotdot nm Hp). reflexivity.
      - destruct (klstat fs (l_dir cfg)); [|discriminate]. injection H0 as <-. split; [exact HI|apply Only_refl]. }
    destruct (match kmkdir fs (l_dir cfg) with
              | Some fs'0 => Some fs'0
              | None => match klstat fs (l_dir cfg) with Some _ => Some fs | None => None end
              end) as [fs0|]; [|injection H as <- _; split; [exact HI|apply Only_refl]].
    destruct (H0 fs0 eq_refl) as [HI0 HO0].
    destruct (layer_entries cfg (fs0, [([], (false, true))]) es) as [[fs1 vt1] err1] eqn:E1.
    injection H as <- _.
    destruct (layer_entries_zone cfg es fs0 _ _ _ Hd HI0 E1) as [HI1 HO1]. cbn [fst] in *.
    split; [exact HI1 | eapply Only_trans; eauto].
  Qed.

  Lemma image_layers_zone max marker : forall ls fs fs' err,
    (forall d es, In (d, es) ls -> layer_dir_ok d) -> Inv E fs ->
    image_layers max marker fs ls = (fs', err) -> Inv E fs' /\ Only E fs fs'.
  Proof.
    induction ls as [|[d es] ls IH]; intros fs fs' err Hds HI H.
    - cbn in H. injection H as <- _. split; [exact HI|apply Only_refl].
    - cbn [image_layers] in H.
      destruct (layer_run {| l_dir := d; l_max := max; l_marker := marker |} fs es) as [fs1 err1] eqn:E1.
      assert (Hd : layer_dir_ok (l_dir {| l_dir := d; l_max := max; l_marker := marker |})).
      { cbn. eapply Hds. left. reflexivity. }
      destruct (layer_run_zone _ _ _ _ _ Hd HI E1) as [HI1 HO1].
      destruct err1.
      + injection H as <- _. split; assumption.
      + destruct (IH fs1 fs' err (fun d' es' Hin => Hds d' es' (or_intror Hin)) HI1 H) as [HI2 HO2].
        split; [exact HI2 | eapply Only_trans; eauto].
  Qed.
End LayerZone.

(* ------------------------------------------------------------------ CleanUp *)
Lemma assoc_cleanup_outside fs e p : seg_prefix e p = false -> assoc (cleanup fs e) p = assoc fs p.
Proof.
  intros H. induction fs as [|[q n] r IH]; cbn; [reflexivity|].
  destruct (seg_prefix e q) eqn:Eq; cbn.
  - destruct (segs_eqb q p) eqn:E; [apply segs_eqb_eq in E; subst; congruence|exact IH].
  - destruct (segs_eqb q p); [reflexivity|exact IH].
Qed.

Lemma assoc_cleanup_inside fs e p : seg_prefix e p = true -> assoc (cleanup fs e) p = None.
Proof.
  intros H. induction fs as [|[q n] r IH]; cbn; [reflexivity|].
  destruct (seg_prefix e q) eqn:Eq; cbn; [exact IH|].
  destruct (segs_eqb q p) eqn:E; [apply segs_eqb_eq in E; subst; congruence|exact IH].
Qed.

Lemma cleanup_removes_all_lemma fs e p :
  e <> [] ->
  (seg_prefix e p = true -> lookup (cleanup fs e) p = None) /\
  (seg_prefix e p = false -> lookup (cleanup fs e) p = lookup fs p).
Proof.
  intros He. split; intros H.
  - destruct p as [|p0 pr]; [destruct e; [contradiction|discriminate]|].
    unfold lookup. apply assoc_cleanup_inside. exact H.
  - destruct p as [|p0 pr]; [reflexivity|]. unfold lookup. apply assoc_cleanup_outside. exact H.
Qed.

(* ------------------------------------------------------------------ the whole image load *)
Lemma phys_dir_snoc fs : forall a pre x,
  phys_dir fs pre a = true -> lookup fs (pre ++ a ++ [x]) = Some NDir -> phys_dir fs pre (a ++ [x]) = true.
Proof.
  induction a as [|c a IH]; intros pre x H Hl; cbn in *.
  - rewrite Hl. reflexivity.
  - destruct (lookup fs (pre ++ [c])) as [[| |]|]; try discriminate.
    apply IH; [exact H|]. rewrite <- app_assoc. exact Hl.
Qed.

Lemma kcreate_at_phys fs s l' x p :
  split_slash s = [] :: (l' ++ [x]) -> phys_dir fs [] l' = true -> Forall proper l' ->
  kcreate_at fs s = Some p -> p = l' ++ [x].
Proof.
  intros Hs Hph Hpr H. unfold kcreate_at in H.
  destruct (negb (is_abs s)); [discriminate|]. destruct (PATH_MAX1 <? blen s); [discriminate|].
  rewrite Hs in H. cbn zeta in H.
  assert (Hlast : @last seg ([] :: l' ++ [x]) [] = x).
  { change ([] :: l' ++ [x]) with (([] :: l') ++ [x]). apply last_last. }
  assert (Hrl : @removelast seg ([] :: l' ++ [x]) = [] :: l').
  { change ([] :: l' ++ [x]) with (([] :: l') ++ [x]). apply removelast_last. }
  rewrite Hlast, Hrl in H.
  destruct (beq x [] || beq x s_dot || beq x s_dotdot); [discriminate|].
  destruct (NAME_MAX <? blen x); [discriminate|].
  rewrite walk_skip_empty in H.
  destruct (walk KERNEL_LINKS false fs true [] l') as [pp|] eqn:Hw; [|discriminate].
  rewrite <- (app_nil_r l') in Hw. apply walk_phys_prefix in Hw; [|exact Hph|exact Hpr].
  rewrite walk_nil in Hw. injection Hw as <-. cbn [app] in H.
  destruct (lookup fs l') as [[| |]|]; try discriminate. injection H as <-. reflexivity.
Qed.

Section ImageRun.
  Variables (extract : bytes) (max : Z) (marker : bytes) (fs : fsmap) (ls : list (bytes * list entry)).
  Hypothesis extract_ok : clean_abs extract.
  Let E := csegs extract.
  Hypothesis tmp_phys : phys_dir fs [] (removelast E) = true.
  Hypothesis fresh : forall p, seg_prefix E p = true -> lookup fs p = None.
  Hypothesis dirs_ok : forall d es, In (d, es) ls -> layer_dir_ok E d.

  Lemma E_nonempty : E <> [].
  Proof. intros H. specialize (fresh []). rewrite H in fresh. specialize (fresh eq_refl). discriminate. Qed.

  Lemma image_run_zone : Only E fs (fst (image_run extract max marker fs ls)).
  Proof.
    destruct (clean_abs_render _ extract_ok) as (Hr & Hp & Hn). fold E in Hr, Hp, Hn.
    pose proof E_nonempty as Hne.
    unfold image_run. destruct (kmkdir fs extract) as [fs0|] eqn:Hm; [|apply Only_refl].
    (* the new directory is exactly E *)
    unfold kmkdir in Hm. destruct (kcreate_at fs extract) as [p|] eqn:Hc; [|discriminate].
    destruct (lookup fs p) eqn:Hlp; [discriminate|]. injection Hm as <-.
    destruct (exists_last Hne) as (E' & x & EE).
    assert (Hp' : Forall proper E') by (rewrite EE in Hp; apply Forall_app in Hp as [Hp' _]; exact Hp').
    assert (HphE' : phys_dir fs [] E' = true) by (rewrite EE, removelast_last in tmp_phys; exact tmp_phys).
    assert (Hpe : p = E).
    { rewrite EE. eapply kcreate_at_phys; eauto.
      rewrite Hr, split_render_true by exact Hn. rewrite EE. destruct E'; reflexivity. }
    subst p.
    assert (HI0 : Inv E (fs_set fs E NDir)).
    { split.
      - rewrite EE at 2. apply phys_dir_snoc.
        + eapply phys_dir_ext; [|exact HphE']. intros a b Eab Ha. cbn [app].
          apply lookup_set_other. intros Eq. rewrite Eab, Eq in EE.
          apply (f_equal (@length seg)) in EE. rewrite !app_length in EE. cbn in EE. lia.
        + cbn [app]. rewrite <- EE. apply lookup_set_same. exact Hne.
      - intros q t Hq Hl. destruct (segs_eqb q E) eqn:Eq.
        + apply segs_eqb_eq in Eq. subst q. rewrite lookup_set_same in Hl by exact Hne. discriminate.
        + apply segs_eqb_false in Eq. rewrite lookup_set_other in Hl by exact Eq.
          rewrite (fresh q Hq) in Hl. discriminate. }
    assert (HO0 : Only E fs (fs_set fs E NDir)).
    { intros q Hq. apply lookup_set_other. intros ->. rewrite seg_prefix_refl in Hq. discriminate. }
    destruct (image_layers max marker (fs_set fs E NDir) ls) as [fs1 err] eqn:E1.
    destruct (image_layers_zone E Hp Hn max marker ls _ _ _ dirs_ok HI0 E1) as [HI1 HO1].
    destruct err; cbn [fst].
    - fold E. intros q Hq. rewrite (proj2 (cleanup_removes_all_lemma fs1 E q Hne) Hq).
      rewrite (HO1 q Hq). apply HO0. exact Hq.
    - eapply Only_trans; eauto.
  Qed.

  Lemma image_run_contained_lemma :
    forall p, lookup fs p <> lookup (fst (image_run extract max marker fs ls)) p -> seg_prefix E p = true.
  Proof.
    intros p Hne. destruct (seg_prefix E p) eqn:Ep; [reflexivity|].
    exfalso. apply Hne. symmetry. apply image_run_zone. exact Ep.
  Qed.

  Lemma image_cleanup_restores_lemma :
    forall p, lookup (cleanup (fst (image_run extract max marker fs ls)) E) p = lookup fs p.
  Proof.
    intros p. pose proof E_nonempty as Hne.
    destruct (cleanup_removes_all_lemma (fst (image_run extract max marker fs ls)) E p Hne) as [Hin Hout].
    destruct (seg_prefix E p) eqn:Ep.
    - rewrite (Hin eq_refl). symmetry. apply fresh. exact Ep.
    - rewrite (Hout eq_refl). apply image_run_zone. exact Ep.
  Qed.
End ImageRun.

(* boolean forms of the hypotheses *)
Lemma nothing_at_or_below_spec fs e :
  nothing_at_or_below fs e = true -> e <> [] -> forall p, seg_prefix e p = true -> lookup fs p = None.
Proof.
  intros H He p Hp. destruct p as [|p0 pr]; [destruct e; [contradiction|discriminate]|].
  unfold lookup. unfold nothing_at_or_below in H. rewrite forallb_forall in H.
  induction fs as [|[q n] r IH]; [reflexivity|]. cbn [assoc].
  destruct (segs_eqb q (p0 :: pr)) eqn:E.
  - apply segs_eqb_eq in E. subst q. specialize (H _ (or_introl eq_refl)). cbn in H. rewrite Hp in H. discriminate.
  - apply IH. intros x Hx. apply H. right. exact Hx.
Qed.

Lemma layer_dirs_okb_spec e ls :
  layer_dirs_okb e ls = true -> forall d es, In (d, es) ls -> layer_dir_ok e d.
Proof.
  intros H d es Hin. unfold layer_dirs_okb in H. rewrite forallb_forall in H. specialize (H _ Hin).
  cbn [fst] in H. unfold layer_dir_okb in H. apply andb_true_iff in H as [H Hs]. apply andb_true_iff in H as [Hd Hp].
  apply beq_eq in Hd. exists (last (csegs d) []). split; [exact Hp|]. split; [|exact Hd].
  intros Hin'. apply negb_true_iff in Hs.
  assert (E : existsb (N.eqb SL) (last (csegs d) []) = true) by (apply existsb_exists; exists SL; split; [exact Hin'|apply N.eqb_refl]).
  congruence.
Qed.

Lemma layer_write_contained_lemma d name real :
  clean_abs d -> layer_target d name = Some real ->
  clean_abs real /\ seg_prefix (csegs d) (csegs real) = true.
Proof.
  intros Hd H. destruct (layer_target_contained_lemma _ _ _ Hd H) as (cs & Hp & Hn & ->).
  destruct (clean_abs_render d Hd) as (_ & Hdp & Hdn).
  assert (HpL : Forall proper (csegs d ++ cs)) by (apply Forall_app; split; assumption).
  assert (HnL : Forall noslash (csegs d ++ cs)) by (apply Forall_app; split; assumption).
  destruct (render_clean_abs _ HpL HnL) as [Hca Hcs]. split; [exact Hca|].
  rewrite Hcs. apply seg_prefix_app.
Qed.

Lemma image_load_contained_lemma extract max marker fs ls :
  clean_abs extract ->
  phys_dir fs [] (removelast (csegs extract)) = true ->
  nothing_at_or_below fs (csegs extract) = true -> csegs extract <> [] ->
  layer_dirs_okb (csegs extract) ls = true ->
  (forall p, lookup fs p <> lookup (fst (image_run extract max marker fs ls)) p -> seg_prefix (csegs extract) p = true) /\
  (forall p, lookup (cleanup (fst (image_run extract max marker fs ls)) (csegs extract)) p = lookup fs p).
Proof.
  intros He Hph Hfresh Hne Hdirs.
  pose proof (nothing_at_or_below_spec _ _ Hfresh Hne) as Hf.
  pose proof (layer_dirs_okb_spec _ _ Hdirs) as Hd.
  split.
  - apply image_run_contained_lemma; assumption.
  - apply image_cleanup_restores_lemma; assumption.
Qed.

(* ------------------------------------------------------------------ TargetOutsideRoot *)
Lemma has_prefix_refl m : has_prefix m m = true.
Proof. induction m as [|c m IH]; cbn; [reflexivity|]. rewrite N.eqb_refl. exact IH. Qed.

Lemma contains_refl m : contains m m = true.
Proof. destruct m; cbn; [reflexivity|]. rewrite N.eqb_refl, has_prefix_refl. reflexivity. Qed.

Lemma contains_unfold s m : contains s m = has_prefix s m || match s with [] => false | _ :: s' => contains s' m end.
Proof. destruct s; reflexivity. Qed.

Lemma has_prefix_cross_slash : forall m x rest, noslash m ->
  has_prefix (x ++ SL :: rest) m = true -> has_prefix x m = true.
Proof.
  induction m as [|c m IH]; intros x rest Hm H; [destruct x; reflexivity|].
  destruct x as [|a x'].
  - cbn [app has_prefix] in H. apply andb_true_iff in H as [H _]. apply N.eqb_eq in H. exfalso. apply Hm. left. symmetry. exact H.
  - cbn [app has_prefix] in H |- *. apply andb_true_iff in H as [H1 H2]. rewrite H1. cbn [andb].
    eapply IH; [|exact H2]. intros Hin. apply Hm. right. exact Hin.
Qed.

Lemma contains_cross_slash m : noslash m -> m <> [] -> forall x rest,
  contains x m = false -> contains rest m = false -> contains (x ++ SL :: rest) m = false.
Proof.
  intros Hm Hne. induction x as [|a x IH]; intros rest Hx Hr.
  - cbn [app]. rewrite contains_unfold. rewrite Hr, orb_false_r.
    destruct (has_prefix (SL :: rest) m) eqn:E; [|reflexivity].
    change (SL :: rest) with ([] ++ SL :: rest) in E. apply has_prefix_cross_slash in E; [|exact Hm].
    destruct m; [contradiction|discriminate].
  - rewrite contains_unfold in Hx. apply orb_false_iff in Hx as [Hx1 Hx2].
    cbn [app]. rewrite contains_unfold. rewrite (IH rest Hx2 Hr), orb_false_r.
    destruct (has_prefix (a :: x ++ SL :: rest) m) eqn:E; [|reflexivity].
    change (a :: x ++ SL :: rest) with ((a :: x) ++ SL :: rest) in E.
    apply has_prefix_cross_slash in E; [|exact Hm]. congruence.
Qed.

Lemma contains_join m : noslash m -> m <> [] -> forall l,
  (forall c, In c l -> contains c m = false) -> l <> [] -> contains (join_slash l) m = false.
Proof.
  intros Hm Hne. induction l as [|x r IH]; intros Hl Hlne; [contradiction|].
  destruct r as [|y r'].
  - cbn. apply Hl. left. reflexivity.
  - change (join_slash (x :: y :: r')) with (x ++ SL :: join_slash (y :: r')).
    apply contains_cross_slash; auto.
    + apply Hl. left. reflexivity.
    + apply IH; [|discriminate]. intros c Hc. apply Hl. right. exact Hc.
Qed.

Definition marker_fresh (m pth target : bytes) : bool :=
  properb m && negb (existsb (N.eqb SL) m) && negb (contains s_dot m) &&
  forallb (fun c => negb (contains c m)) (split_slash (dir_of pth) ++ split_slash target).

Section Marker.
  Variable m : seg.
  Hypothesis m_proper : proper m.

  (* the marker at the bottom of the stack either survives below a stack that behaves exactly as
     if it started empty and never needed "..", or it is popped and never comes back *)
  Lemma marker_fold : forall comps stk0,
    Forall proper stk0 -> ~ In m comps -> ~ In m stk0 ->
    (clean_fold false (stk0 ++ [m]) comps = clean_fold false stk0 comps ++ [m] /\
     Forall proper (clean_fold false stk0 comps)) \/
    ~ In m (clean_fold false (stk0 ++ [m]) comps).
  Proof.
    induction comps as [|c comps IH]; intros stk0 Hp Hnc Hns.
    - left. split; [reflexivity|exact Hp].
    - assert (Hnc' : ~ In m comps) by (intros H; apply Hnc; right; exact H).
      assert (Hcm : c <> m) by (intros ->; apply Hnc; left; reflexivity).
      change (clean_fold false (stk0 ++ [m]) (c :: comps)) with (clean_fold false (clean_step false (stk0 ++ [m]) c) comps).
      change (clean_fold false stk0 (c :: comps)) with (clean_fold false (clean_step false stk0 c) comps).
      destruct (beq c [] || beq c s_dot) eqn:E1.
      { assert (EA : clean_step false (stk0 ++ [m]) c = stk0 ++ [m]) by (unfold clean_step; rewrite E1; reflexivity).
        assert (EB : clean_step false stk0 c = stk0) by (unfold clean_step; rewrite E1; reflexivity).
        rewrite EA, EB. apply IH; assumption. }
      destruct (beq c s_dotdot) eqn:E2.
      + destruct stk0 as [|t s'].
        * assert (EA : clean_step false ([] ++ [m]) c = []).
          { unfold clean_step. rewrite E1, E2. cbn [app]. rewrite (proper_not_dotdot m m_proper). reflexivity. }
          rewrite EA. right. intros Hin. apply clean_fold_in in Hin as [Hin|[]]. contradiction.
        * inversion Hp as [|? ? Ht Hs']; subst.
          assert (EA : clean_step false ((t :: s') ++ [m]) c = s' ++ [m]).
          { unfold clean_step. rewrite E1, E2. cbn [app]. rewrite (proper_not_dotdot t Ht). reflexivity. }
          assert (EB : clean_step false (t :: s') c = s').
          { unfold clean_step. rewrite E1, E2. rewrite (proper_not_dotdot t Ht). reflexivity. }
          rewrite EA, EB.
          apply IH; [exact Hs' | exact Hnc' | intros H; apply Hns; right; exact H].
      + assert (EA : clean_step false (stk0 ++ [m]) c = (c :: stk0) ++ [m]) by (unfold clean_step; rewrite E1, E2; reflexivity).
        assert (EB : clean_step false stk0 c = c :: stk0) by (unfold clean_step; rewrite E1, E2; reflexivity).
        rewrite EA, EB. apply IH; [|exact Hnc'|].
        * constructor; [|exact Hp]. unfold proper, properb. rewrite E1, E2. reflexivity.
        * intros [H|H]; [contradiction|]. apply Hns. exact H.
  Qed.
End Marker.

Lemma clean_fold_trailing_empty r stk a : clean_fold r stk (a ++ [[]]) = clean_fold r stk a.
Proof. rewrite clean_fold_app. reflexivity. Qed.

Lemma target_outside_root_sound_lemma (m : seg) pth target :
  marker_fresh m pth target = true ->
  target_outside_root m pth target = false -> lexically_inside pth target = true.
Proof.
  intros Hf H. unfold marker_fresh in Hf.
  apply andb_true_iff in Hf as [Hf Hcomps]. apply andb_true_iff in Hf as [Hf Hdot].
  apply andb_true_iff in Hf as [Hmp Hms]. apply negb_true_iff in Hdot. apply negb_true_iff in Hms.
  assert (Hm : proper m) by exact Hmp.
  assert (Hmn : noslash m).
  { intros Hin. assert (E : existsb (N.eqb SL) m = true) by (apply existsb_exists; exists SL; split; [exact Hin|apply N.eqb_refl]). congruence. }
  assert (Hmne : m <> []) by (apply proper_nonempty; exact Hm).
  rewrite forallb_forall in Hcomps.
  assert (Hnotin : forall comps, (forall c, In c comps -> In c (split_slash (dir_of pth) ++ split_slash target)) -> ~ In m comps).
  { intros comps Hsub Hin. specialize (Hcomps m (Hsub m Hin)). rewrite contains_refl in Hcomps. discriminate. }
  (* common core: a string m/rest whose components (after m) are comps *)
  assert (Hcore : forall s comps,
            (forall c, In c comps -> In c (split_slash (dir_of pth) ++ split_slash target)) ->
            s <> [] -> split_slash s = comps ->
            contains (clean (m ++ SL :: s)) m = true -> no_dotdot (clean_fold false [] comps) = true).
  { intros s comps Hsub Hsne Hs Hc.
    assert (Habs : is_abs (m ++ SL :: s) = false).
    { destruct m as [|m0 m']; [contradiction|]. cbn. apply N.eqb_neq. intros ->. apply Hmn. left. reflexivity. }
    rewrite clean_render, Habs in Hc. unfold csegs in Hc. rewrite Habs, split_app_slash, clean_fold_app in Hc.
    rewrite (split_of_noslash m Hmn), Hs in Hc.
    assert (E1 : clean_fold false [] [m] = [] ++ [m]).
    { rewrite clean_fold_proper by (constructor; [exact Hm|constructor]). reflexivity. }
    rewrite E1 in Hc.
    destruct (marker_fold m Hm comps [] (Forall_nil _) (Hnotin comps Hsub) (fun x => x)) as [[E2 Hp]|Hno].
    - apply proper_no_dotdot. exact Hp.
    - exfalso. set (stk := clean_fold false ([] ++ [m]) comps) in *.
      assert (Hall : forall c, In c (rev stk) -> contains c m = false).
      { intros c Hin. apply in_rev in Hin. pose proof Hin as Hin'.
        apply clean_fold_in in Hin' as [Hin'|[<-|[]]]; [|contradiction].
        specialize (Hcomps c (Hsub c Hin')). apply negb_true_iff in Hcomps. exact Hcomps. }
      unfold render in Hc. destruct (rev stk) as [|x t] eqn:Er; [congruence|].
      rewrite contains_join in Hc; auto; discriminate. }
  unfold target_outside_root in H. unfold lexically_inside, lex_comps.
  destruct (is_abs target) eqn:Ea.
  - apply negb_false_iff in H.
    assert (Htne : target <> []) by (intros ->; discriminate).
    unfold join2 in H. destruct m as [|m0 m'] eqn:Em; [contradiction|]. rewrite <- Em in *.
    destruct target as [|t0 t'] eqn:Et; [contradiction|]. rewrite <- Et in *.
    eapply (Hcore target); eauto. intros c Hc. apply in_or_app. right. exact Hc.
  - apply negb_false_iff in H.
    assert (Hdne : dir_of pth <> []) by apply clean_nonempty.
    unfold join3 in H. destruct m as [|m0 m'] eqn:Em; [contradiction|]. rewrite <- Em in *.
    destruct (dir_of pth) as [|d0 d'] eqn:Ed; [contradiction|]. rewrite <- Ed in *.
    destruct target as [|t0 t'] eqn:Et.
    + unfold join2 in H. rewrite Em in H. rewrite <- Em in H. rewrite Ed in H. rewrite <- Ed in H.
      change (split_slash []) with [@nil N]. rewrite clean_fold_trailing_empty.
      eapply (Hcore (dir_of pth)); eauto. intros c Hc. apply in_or_app. left. exact Hc.
    + rewrite <- Et in *.
      eapply (Hcore (dir_of pth ++ SL :: target)); eauto.
      * intros E. apply app_eq_nil in E as [E _]. contradiction.
      * apply split_app_slash.
Qed.

(* ------------------------------------------------------------------ witnesses (vm_compute) *)
Module W.
  Definition b_x : seg := [120].
  Definition b_target : seg := [116;97;114;103;101;116].
  Definition b_evil : seg := [116;97;114;103;101;116;45;101;118;105;108].
  Definition marker : bytes :=
    [48;48;48;48;48;48;48;48;45;48;48;48;48;45;52;48;48;48;45;56;48;48;48;45;48;48;48;48;48;48;48;48;48;48;48;48].
  Definition dirS : bytes := SL :: b_x ++ SL :: b_target.          (* "/x/target" *)
  Definition ds : path := [b_x; b_target].
  Definition fs0 : fsmap := [([b_x], NDir); ([b_x; b_target], NDir)].
  Definition cfg : ucfg :=
    {| u_dir := dirS; u_max := 1000; u_passes := 3; u_err_return := false; u_ignore := false; u_cwd := []; u_marker := marker |}.
  Definition reg (n : bytes) : entry := {| e_name := n; e_type := TReg; e_link := []; e_size := 1; e_cid := 7 |}.
  Definition sym (n t : bytes) : entry := {| e_name := n; e_type := TSym; e_link := t; e_size := 0; e_cid := 0 |}.
  (* "../target-evil/f" *)
  Definition es_prefix : list entry := [reg ([46;46;47] ++ b_evil ++ [47;102])].
  (* "../../out/g" *)
  Definition es_mkdir : list entry := [reg [46;46;47;46;46;47;111;117;116;47;103]].
  (* "s" -> ".", "a/t" -> "../s/.." *)
  Definition es_link : list entry := [sym [115] [46]; sym [97;47;116] [46;46;47;115;47;46;46]].
  (* the two links, then "a/t/target-evil/f": a write through the escaped link *)
  Definition es_link_write : list entry :=
    es_link ++ [reg ([97;47;116;47] ++ b_evil ++ [47;102])].
  Definition all_req (_ : bytes) := true.
End W.

Definition only_regular (es : list entry) : bool :=
  forallb (fun e => match e_type e with TReg => true | _ => false end) es.

Definition file_outside (d : path) (a b : fsmap) : bool :=
  existsb (fun pn : path * node =>
             match snd pn with
             | NFile _ _ => negb (seg_prefix d (fst pn)) && negb (is_some (lookup a (fst pn)))
             | _ => false
             end) b.

Definition no_new_file (a b : fsmap) : bool :=
  forallb (fun pn : path * node =>
             match snd pn with
             | NFile _ _ => is_some (lookup a (fst pn))
             | _ => true
             end) b.

(* regression (fix c7e8b5e1): the former witnesses "../target-evil/f" and "../../out/g" now leave
   the file system untouched *)
Lemma unpack_prefix_confusion_fixed_lemma :
  unpack_all W.cfg W.all_req W.fs0 W.es_prefix = (W.fs0, false) /\
  unpack_all W.cfg W.all_req W.fs0 W.es_mkdir = (W.fs0, false).
Proof. vm_compute. split; reflexivity. Qed.

(* regression (fixes 05026580 + 7b96bcf8): the former link-escape witnesses.  "a/t" -> "../s/.."
   is removed by the final sweep, nothing is created outside, the run succeeds *)
Lemma unpack_link_escape_fixed_lemma :
  let r1 := unpack_all W.cfg W.all_req W.fs0 W.es_link in
  let r2 := unpack_all W.cfg W.all_req W.fs0 W.es_link_write in
  snd r1 = false /\ snd r2 = false /\
  all_changes_inside W.ds W.fs0 (fst r1) = true /\ links_resolve_inside W.ds (fst r1) = true /\
  all_changes_inside W.ds W.fs0 (fst r2) = true /\ links_resolve_inside W.ds (fst r2) = true /\
  lookup (fst r1) (W.ds ++ [[97]; [116]]) = None /\ lookup (fst r1) (W.ds ++ [[115]]) = Some (NLink [46]).
Proof. vm_compute. repeat split; reflexivity. Qed.

(* archives without link entries are contained at full strength: a corollary of D *)
Lemma no_links_in_D es : forallb (fun e => negb (is_link_entry e)) es = true -> entries_in_D es = true.
Proof.
  intros H. unfold entries_in_D. apply forallb_forall. intros e He. rewrite forallb_forall in H.
  specialize (H e He). unfold is_link_entry in H. unfold entry_in_D. destruct (e_type e); try reflexivity; discriminate.
Qed.

Lemma unpack_contained_without_links_lemma cfg req fs es :
  clean_abs (u_dir cfg) ->
  phys_dir fs [] (csegs (u_dir cfg)) = true -> links_safe (csegs (u_dir cfg)) fs = true ->
  forallb (fun e => negb (is_link_entry e)) es = true ->
  forall p, lookup fs p <> lookup (fst (unpack_all cfg req fs es)) p -> seg_prefix (csegs (u_dir cfg)) p = true.
Proof.
  intros Hd Hp Hl Hn. apply unpack_contained_on_D_lemma; auto. apply no_links_in_D. exact Hn.
Qed.

(* C06 - no filesystem side effects outside the directories designated for them.
   Only statements here; proofs are in Proofs.v / PathBytesProofs.v. *)
From Coq Require Import List NArith ZArith Bool.
From Scalibr Require Import Contain.PathBytes Contain.PathBytesProofs Contain.Model Contain.Proofs Contain.FullProofs Contain.LexProofs.
Import ListNotations.
Open Scope N_scope.

(* ================= image.go (layer scanning): holds for ALL entry names ================= *)

(* fillChainLayersWithFilesFromTar: whatever the entry name, if the zip-slip filter lets it
   through, the real path written to is absolute, canonical and is dirPath or below it
   (segment-wise, not string-wise) *)
Theorem layer_write_contained : forall dirPath name real,
  clean_abs dirPath -> layer_target dirPath name = Some real ->
  clean_abs real /\ seg_prefix (csegs dirPath) (csegs real) = true.
Proof. exact layer_write_contained_lemma. Qed.
Print Assumptions layer_write_contained.

(* FromV1Image on the file system: for ALL layers / entries / orders / limits, with a fresh
   ExtractDir (os.MkdirTemp) whose parent chain consists of real directories, every path whose
   state differs afterwards is ExtractDir or below; and CleanUp restores the initial state
   exactly (also when the load failed half-way) *)
Theorem layer_run_contained : forall extract max marker fs ls,
  clean_abs extract ->
  phys_dir fs [] (removelast (csegs extract)) = true ->
  nothing_at_or_below fs (csegs extract) = true -> csegs extract <> [] ->
  layer_dirs_okb (csegs extract) ls = true ->
  (forall p, lookup fs p <> lookup (fst (image_run extract max marker fs ls)) p ->
             seg_prefix (csegs extract) p = true) /\
  (forall p, lookup (cleanup (fst (image_run extract max marker fs ls)) (csegs extract)) p = lookup fs p).
Proof. exact image_load_contained_lemma. Qed.
Print Assumptions layer_run_contained.

(* Image.CleanUp = RemoveAll(ExtractDir): nothing at or below e survives, nothing else changes *)
Theorem cleanup_removes_all : forall fs e p, e <> [] ->
  (seg_prefix e p = true -> lookup (cleanup fs e) p = None) /\
  (seg_prefix e p = false -> lookup (cleanup fs e) p = lookup fs p).
Proof. exact cleanup_removes_all_lemma. Qed.
Print Assumptions cleanup_removes_all.

(* ================= symlink.TargetOutsideRoot ================= *)
(* when it answers "inside" (and the uuid marker is fresh), the target taken lexically never
   climbs above the root.  (Lexically only: see unpack_link_escape_refuted.) *)
Theorem target_outside_root_sound : forall (marker : seg) pth target,
  marker_fresh marker pth target = true ->
  target_outside_root marker pth target = false -> lexically_inside pth target = true.
Proof. exact target_outside_root_sound_lemma. Qed.
Print Assumptions target_outside_root_sound.

(* ================= unpack.go (after fixes c7e8b5e1, 05026580, 7b96bcf8) ================= *)
(* FULL STRENGTH: any entry names, any link targets, any types, order, number of passes, requirer,
   size limit, error strategy; also when a pass fails.  Hypotheses: the target is a clean absolute
   path whose prefixes are real directories and which lstat()s / resolves within the OS limits; the
   initial state is a well-formed tree (wf_fsb).  Nothing is assumed about links that already
   exist below the target. *)

(* every path whose state differs after UnpackSquashedFromTarball is the target or below it *)
Theorem unpack_contained : forall cfg req fs es,
  clean_abs (u_dir cfg) -> wf_fsb fs = true -> phys_dir fs [] (csegs (u_dir cfg)) = true ->
  is_some (klstat fs (u_dir cfg)) = true -> is_some (eval_symlinks fs (u_dir cfg)) = true ->
  forall p, lookup fs p <> lookup (fst (unpack_all cfg req fs es)) p ->
            seg_prefix (csegs (u_dir cfg)) p = true.
Proof. exact unpack_contained_lemma. Qed.
Print Assumptions unpack_contained.

(* no symlink left below the target resolves to a location outside it *)
Theorem unpack_links_inside : forall cfg req fs es,
  clean_abs (u_dir cfg) -> wf_fsb fs = true -> phys_dir fs [] (csegs (u_dir cfg)) = true ->
  is_some (klstat fs (u_dir cfg)) = true -> is_some (eval_symlinks fs (u_dir cfg)) = true ->
  links_resolve_inside (csegs (u_dir cfg)) (fst (unpack_all cfg req fs es)) = true.
Proof. exact unpack_links_inside_lemma. Qed.
Print Assumptions unpack_links_inside.

(* D2: no entry name passes through the name of a link entry (link targets UNRESTRICTED: ".." is
   allowed as long as TargetOutsideRoot accepts it) and there is no link below the target initially.
   Then the lexical path IS the physical path: every link below the target after unpack_all sits
   exactly at target ++ (segments of the cleaned name of a link entry) and stores that entry's target
   (absolute ones re-rooted) ... *)
Theorem unpack_lexical_is_physical : forall cfg req fs es,
  clean_abs (u_dir cfg) -> wf_fsb fs = true -> phys_dir fs [] (csegs (u_dir cfg)) = true ->
  is_some (klstat fs (u_dir cfg)) = true -> is_some (eval_symlinks fs (u_dir cfg)) = true ->
  names_avoid_links es = true -> no_links_below (csegs (u_dir cfg)) fs = true ->
  forall p t, strict_below (csegs (u_dir cfg)) p = true ->
    lookup (fst (unpack_all cfg req fs es)) p = Some (NLink t) ->
    exists l, In l es /\ is_link_entry l = true /\ p = csegs (u_dir cfg) ++ csegs (e_name l) /\
              t = stored cfg l /\ target_outside_root (u_marker cfg) (clean (e_name l)) (e_link l) = false.
Proof. exact unpack_lexical_is_physical_lemma. Qed.
Print Assumptions unpack_lexical_is_physical.

(* ... and therefore (with target_outside_root_sound, uuid markers fresh) every kept link's stored
   target, read lexically from the link's own directory, stays inside the target: the theorem behind
   the kept-link oracle the check claims outside D *)
Theorem unpack_links_inside_on_D2 : forall cfg req fs es,
  clean_abs (u_dir cfg) -> wf_fsb fs = true -> phys_dir fs [] (csegs (u_dir cfg)) = true ->
  is_some (klstat fs (u_dir cfg)) = true -> is_some (eval_symlinks fs (u_dir cfg)) = true ->
  names_avoid_links es = true -> no_links_below (csegs (u_dir cfg)) fs = true -> markers_fresh cfg es = true ->
  links_lexically_inside (csegs (u_dir cfg)) (fst (unpack_all cfg req fs es)) = true.
Proof. exact unpack_links_inside_on_D2_lemma. Qed.
Print Assumptions unpack_links_inside_on_D2.

(* The earlier domain-restricted forms (no ".." in link targets; they do not need wf_fsb and
   describe the behaviour even without the final sweep) are kept: *)
Theorem unpack_contained_on_D : forall cfg req fs es,
  clean_abs (u_dir cfg) ->
  phys_dir fs [] (csegs (u_dir cfg)) = true -> links_safe (csegs (u_dir cfg)) fs = true ->
  entries_in_D es = true ->
  forall p, lookup fs p <> lookup (fst (unpack_all cfg req fs es)) p ->
            seg_prefix (csegs (u_dir cfg)) p = true.
Proof. exact unpack_contained_on_D_lemma. Qed.
Print Assumptions unpack_contained_on_D.

Theorem unpack_links_inside_on_D : forall cfg req fs es,
  clean_abs (u_dir cfg) ->
  phys_dir fs [] (csegs (u_dir cfg)) = true -> links_safe (csegs (u_dir cfg)) fs = true ->
  entries_in_D es = true ->
  links_resolve_inside (csegs (u_dir cfg)) (fst (unpack_all cfg req fs es)) = true.
Proof. exact unpack_links_inside_on_D_lemma. Qed.
Print Assumptions unpack_links_inside_on_D.

(* regression of the fixed defects: the former witnesses leave the file system untouched *)
Example unpack_former_witnesses_fixed :
  unpack_all W.cfg W.all_req W.fs0 W.es_prefix = (W.fs0, false) /\
  unpack_all W.cfg W.all_req W.fs0 W.es_mkdir = (W.fs0, false).
Proof. exact unpack_prefix_confusion_fixed_lemma. Qed.

(* ... and the former link-escape witnesses ("s" -> ".", "a/t" -> "../s/..", then
   "a/t/target-evil/f"): the escaping link is swept, nothing is created outside *)
Example unpack_former_link_witnesses_fixed :
  let r1 := unpack_all W.cfg W.all_req W.fs0 W.es_link in
  let r2 := unpack_all W.cfg W.all_req W.fs0 W.es_link_write in
  snd r1 = false /\ snd r2 = false /\
  all_changes_inside W.ds W.fs0 (fst r1) = true /\ links_resolve_inside W.ds (fst r1) = true /\
  all_changes_inside W.ds W.fs0 (fst r2) = true /\ links_resolve_inside W.ds (fst r2) = true /\
  lookup (fst r1) (W.ds ++ [[97]; [116]]) = None /\ lookup (fst r1) (W.ds ++ [[115]]) = Some (NLink [46]).
Proof. exact unpack_link_escape_fixed_lemma. Qed.

(* ================= non-vacuity ================= *)
Definition str_a : bytes := [97].
(* entries inside D that exercise directories, relative and absolute links and write-through:
   "a/b/f", "l" -> "a", "l/g", "abs" -> "/a/b", "abs/h", "/x/./y", "./a//b/k", and (skipped by
   the code, allowed by D) "../target-evil/f", "a/../../x" *)
Definition ex_entries : list entry :=
  [ W.reg [97;47;98;47;102];
    W.sym [108] [97];
    W.reg [108;47;103];
    W.sym [97;98;115] [47;97;47;98];
    W.reg [97;98;115;47;104];
    W.reg [47;120;47;46;47;121];
    W.reg [46;47;97;47;47;98;47;107];
    W.reg ([46;46;47] ++ W.b_evil ++ [47;102]);
    W.reg [97;47;46;46;47;46;46;47;120] ].

Example unpack_full_hypotheses_hold :
  clean_abs (u_dir W.cfg) /\ wf_fsb W.fs0 = true /\ phys_dir W.fs0 [] (csegs (u_dir W.cfg)) = true /\
  is_some (klstat W.fs0 (u_dir W.cfg)) = true /\ is_some (eval_symlinks W.fs0 (u_dir W.cfg)) = true.
Proof. vm_compute. repeat split; reflexivity. Qed.

(* D2 with ".." in link targets: "a/b/l" -> "../c" (kept if a/c exists), "a/c/f", "k" -> "a/./b/../c/f" *)
Definition ex_d2 : list entry :=
  [ W.reg [97;47;99;47;102];
    W.sym [97;47;98;47;108] [46;46;47;99];
    W.sym [107] [97;47;46;47;98;47;46;46;47;99;47;102] ].

Example unpack_D2_hypotheses_hold :
  names_avoid_links ex_d2 = true /\ no_links_below (csegs (u_dir W.cfg)) W.fs0 = true /\
  markers_fresh W.cfg ex_d2 = true /\ entries_in_D ex_d2 = false.
Proof. vm_compute. repeat split; reflexivity. Qed.

Example unpack_D2_run_is_nontrivial :
  let fs' := fst (unpack_all W.cfg W.all_req W.fs0 ex_d2) in
  lookup fs' (W.ds ++ [[97]; [98]; [108]]) = Some (NLink [46;46;47;99]) /\
  lookup fs' (W.ds ++ [[107]]) = Some (NLink [97;47;46;47;98;47;46;46;47;99;47;102]) /\
  links_lexically_inside W.ds fs' = true /\ links_resolve_inside W.ds fs' = true.
Proof. vm_compute. repeat split; reflexivity. Qed.

Example unpack_D_hypotheses_hold :
  clean_abs (u_dir W.cfg) /\ phys_dir W.fs0 [] (csegs (u_dir W.cfg)) = true /\
  links_safe (csegs (u_dir W.cfg)) W.fs0 = true /\ entries_in_D ex_entries = true.
Proof. vm_compute. repeat split; reflexivity. Qed.

(* ... and the run really creates 5 files, 2 links and 3 new directories, all below /x/target, with
   "l/g" landing in a/g and "abs/h" in a/b/h *)
Example unpack_D_run_is_nontrivial :
  let fs' := fst (unpack_all W.cfg W.all_req W.fs0 ex_entries) in
  length fs' = 12%nat /\ snd (unpack_all W.cfg W.all_req W.fs0 ex_entries) = false /\
  lookup fs' (W.ds ++ [[97]; [103]]) = Some (NFile 7 1) /\
  lookup fs' (W.ds ++ [[97]; [98]; [104]]) = Some (NFile 7 1) /\
  lookup fs' (W.ds ++ [[97;98;115]]) = Some (NLink (W.dirS ++ [47;97;47;98])) /\
  all_changes_inside W.ds W.fs0 fs' = true /\ links_resolve_inside W.ds fs' = true.
Proof. vm_compute. repeat split; reflexivity. Qed.

(* layer writer: "/../a//./b/" lands in dirPath/a/b; "a/../../x" and ".." are filtered out *)
Example layer_target_examples :
  layer_target W.dirS [47;46;46;47;97;47;47;46;47;98;47] = Some (W.dirS ++ [47;97;47;98]) /\
  layer_target W.dirS [97;47;46;46;47;46;46;47;120] = None /\
  layer_target W.dirS [46;46] = None /\
  layer_target W.dirS [46;46;46;47;46;46;97] = Some (W.dirS ++ [47;46;46;46;47;46;46;97]).
Proof. vm_compute. repeat split; reflexivity. Qed.

(* image load: /tmp exists, ExtractDir /tmp/E is fresh, one layer with a file below a directory,
   a filtered "../evil", and a symlink (never materialised) *)
Definition ex_tmp : seg := [116;109;112].
Definition ex_extract : bytes := [47;116;109;112;47;69].
Definition ex_layers : list (bytes * list entry) :=
  [ (ex_extract ++ [47;108;48], [ W.reg [97;47;102]; W.reg [46;46;47;101;118;105;108]; W.sym [115] [46;46;47;46;46] ]) ].

Example image_hypotheses_hold :
  clean_abs ex_extract /\ phys_dir [([ex_tmp], NDir)] [] (removelast (csegs ex_extract)) = true /\
  nothing_at_or_below [([ex_tmp], NDir)] (csegs ex_extract) = true /\
  layer_dirs_okb (csegs ex_extract) ex_layers = true.
Proof. vm_compute. repeat split; reflexivity. Qed.

Example image_run_is_nontrivial :
  let r := image_run ex_extract 100 W.marker [([ex_tmp], NDir)] ex_layers in
  snd r = false /\ length (fst r) = 5%nat /\
  lookup (fst r) [ex_tmp; [69]; [108;48]; [97]; [102]] = Some (NFile 7 1).
Proof. vm_compute. repeat split; reflexivity. Qed.

(* TargetOutsideRoot: "a/t" -> "../s/.." is accepted (lexically inside), "a/t" -> "../.." is not *)
Example target_outside_root_examples :
  marker_fresh W.marker [97;47;116] [46;46;47;115;47;46;46] = true /\
  target_outside_root W.marker [97;47;116] [46;46;47;115;47;46;46] = false /\
  target_outside_root W.marker [97;47;116] [46;46;47;46;46] = true /\
  target_outside_root W.marker [97] [47;46;46;47;120] = true.
Proof. vm_compute. repeat split; reflexivity. Qed.

(* C06 - no filesystem side effects outside the directories designated for them.
   Only statements here; proofs are in Proofs.v / PathBytesProofs.v. *)
From Coq Require Import List NArith ZArith Bool.
From Scalibr Require Import Contain.PathBytes Contain.PathBytesProofs Contain.Model Contain.Proofs.
Import ListNotations.
Open Scope N_scope.

(* ================= image.go (layer scanning): holds for ALL entry names ================= *)

(* fillChainLayersWithFilesFromTar: whatever the entry name, if the zip-slip filter lets it
   through, the real path written to is absolute, canonical and is dirPath or below it
   (segment-wise, not string-wise) *)
Theorem layer_write_contained : forall dirPath name real,
  clean_abs dirPath -> layer_target dirPath name = Some real ->
  clean_abs real /\ seg_prefix (csegs dirPath) (csegs real) = true.
Proof. exact layer_write_contained_lemma. Qed.
Print Assumptions layer_write_contained.

(* FromV1Image on the file system: for ALL layers / entries / orders / limits, with a fresh
   ExtractDir (os.MkdirTemp) whose parent chain consists of real directories, every path whose
   state differs afterwards is ExtractDir or below; and CleanUp restores the initial state
   exactly (also when the load failed half-way) *)
Theorem layer_run_contained : forall extract max marker fs ls,
  clean_abs extract ->
  phys_dir fs [] (removelast (csegs extract)) = true ->
  nothing_at_or_below fs (csegs extract) = true -> csegs extract <> [] ->
  layer_dirs_okb (csegs extract) ls = true ->
  (forall p, lookup fs p <> lookup (fst (image_run extract max marker fs ls)) p ->
             seg_prefix (csegs extract) p = true) /\
  (forall p, lookup (cleanup (fst (image_run extract max marker fs ls)) (csegs extract)) p = lookup fs p).
Proof. exact image_load_contained_lemma. Qed.
Print Assumptions layer_run_contained.

(* Image.CleanUp = RemoveAll(ExtractDir): nothing at or below e survives, nothing else changes *)
Theorem cleanup_removes_all : forall fs e p, e <> [] ->
  (seg_prefix e p = true -> lookup (cleanup fs e) p = None) /\
  (seg_prefix e p = false -> lookup (cleanup fs e) p = lookup fs p).
Proof. exact cleanup_removes_all_lemma. Qed.
Print Assumptions cleanup_removes_all.

(* ================= symlink.TargetOutsideRoot ================= *)
(* when it answers "inside" (and the uuid marker is fresh), the target taken lexically never
   climbs above the root.  (Lexically only: see unpack_link_escape_refuted.) *)
Theorem target_outside_root_sound : forall (marker : seg) pth target,
  marker_fresh marker pth target = true ->
  target_outside_root marker pth target = false -> lexically_inside pth target = true.
Proof. exact target_outside_root_sound_lemma. Qed.
Print Assumptions target_outside_root_sound.

(* ================= unpack.go (behaviour after fix c7e8b5e1) ================= *)
(* Positive theorems on the domain D: no link target contains a ".." component.  Entry NAMES are
   unrestricted ("..", "../target-evil/f", "a/../../x", absolute, empty segments, long ...): the
   code now skips every cleaned name that climbs before it creates anything, and the base check is
   path-wise.  The target is a clean absolute path whose prefixes are real directories, and links
   already below it are harmless.  Any number of entries, any order, any types, any number of
   passes, any requirer, any size limit. *)
Theorem unpack_contained_on_D : forall cfg req fs es,
  clean_abs (u_dir cfg) ->
  phys_dir fs [] (csegs (u_dir cfg)) = true -> links_safe (csegs (u_dir cfg)) fs = true ->
  entries_in_D es = true ->
  forall p, lookup fs p <> lookup (fst (unpack_all cfg req fs es)) p ->
            seg_prefix (csegs (u_dir cfg)) p = true.
Proof. exact unpack_contained_on_D_lemma. Qed.
Print Assumptions unpack_contained_on_D.

(* in particular, at full strength for every archive without symlink / hard-link entries: this is
   the statement the former witnesses "../target-evil/f" (prefix confusion) and "../../out/g"
   (directories created before the check) refuted *)
Theorem unpack_contained_without_links : forall cfg req fs es,
  clean_abs (u_dir cfg) ->
  phys_dir fs [] (csegs (u_dir cfg)) = true -> links_safe (csegs (u_dir cfg)) fs = true ->
  forallb (fun e => negb (is_link_entry e)) es = true ->
  forall p, lookup fs p <> lookup (fst (unpack_all cfg req fs es)) p ->
            seg_prefix (csegs (u_dir cfg)) p = true.
Proof. exact unpack_contained_without_links_lemma. Qed.
Print Assumptions unpack_contained_without_links.

Theorem unpack_links_inside_on_D : forall cfg req fs es,
  clean_abs (u_dir cfg) ->
  phys_dir fs [] (csegs (u_dir cfg)) = true -> links_safe (csegs (u_dir cfg)) fs = true ->
  entries_in_D es = true ->
  links_resolve_inside (csegs (u_dir cfg)) (fst (unpack_all cfg req fs es)) = true.
Proof. exact unpack_links_inside_on_D_lemma. Qed.
Print Assumptions unpack_links_inside_on_D.

(* regression of the fixed defects: the former witnesses leave the file system untouched *)
Example unpack_former_witnesses_fixed :
  unpack_all W.cfg W.all_req W.fs0 W.es_prefix = (W.fs0, false) /\
  unpack_all W.cfg W.all_req W.fs0 W.es_mkdir = (W.fs0, false).
Proof. exact unpack_prefix_confusion_fixed_lemma. Qed.

(* ... and the former link-escape witnesses ("s" -> ".", "a/t" -> "../s/..", then
   "a/t/target-evil/f"): the escaping link is swept, nothing is created outside *)
Example unpack_former_link_witnesses_fixed :
  let r1 := unpack_all W.cfg W.all_req W.fs0 W.es_link in
  let r2 := unpack_all W.cfg W.all_req W.fs0 W.es_link_write in
  snd r1 = false /\ snd r2 = false /\
  all_changes_inside W.ds W.fs0 (fst r1) = true /\ links_resolve_inside W.ds (fst r1) = true /\
  all_changes_inside W.ds W.fs0 (fst r2) = true /\ links_resolve_inside W.ds (fst r2) = true /\
  lookup (fst r1) (W.ds ++ [[97]; [116]]) = None /\ lookup (fst r1) (W.ds ++ [[115]]) = Some (NLink [46]).
Proof. exact unpack_link_escape_fixed_lemma. Qed.

(* ================= non-vacuity ================= *)
Definition str_a : bytes := [97].
(* entries inside D that exercise directories, relative and absolute links and write-through:
   "a/b/f", "l" -> "a", "l/g", "abs" -> "/a/b", "abs/h", "/x/./y", "./a//b/k", and (skipped by
   the code, allowed by D) "../target-evil/f", "a/../../x" *)
Definition ex_entries : list entry :=
  [ W.reg [97;47;98;47;102];
    W.sym [108] [97];
    W.reg [108;47;103];
    W.sym [97;98;115] [47;97;47;98];
    W.reg [97;98;115;47;104];
    W.reg [47;120;47;46;47;121];
    W.reg [46;47;97;47;47;98;47;107];
    W.reg ([46;46;47] ++ W.b_evil ++ [47;102]);
    W.reg [97;47;46;46;47;46;46;47;120] ].

Example unpack_D_hypotheses_hold :
  clean_abs (u_dir W.cfg) /\ phys_dir W.fs0 [] (csegs (u_dir W.cfg)) = true /\
  links_safe (csegs (u_dir W.cfg)) W.fs0 = true /\ entries_in_D ex_entries = true.
Proof. vm_compute. repeat split; reflexivity. Qed.

(* ... and the run really creates 5 files, 2 links and 3 new directories, all below /x/target, with
   "l/g" landing in a/g and "abs/h" in a/b/h *)
Example unpack_D_run_is_nontrivial :
  let fs' := fst (unpack_all W.cfg W.all_req W.fs0 ex_entries) in
  length fs' = 12%nat /\ snd (unpack_all W.cfg W.all_req W.fs0 ex_entries) = false /\
  lookup fs' (W.ds ++ [[97]; [103]]) = Some (NFile 7 1) /\
  lookup fs' (W.ds ++ [[97]; [98]; [104]]) = Some (NFile 7 1) /\
  lookup fs' (W.ds ++ [[97;98;115]]) = Some (NLink (W.dirS ++ [47;97;47;98])) /\
  all_changes_inside W.ds W.fs0 fs' = true /\ links_resolve_inside W.ds fs' = true.
Proof. vm_compute. repeat split; reflexivity. Qed.

(* layer writer: "/../a//./b/" lands in dirPath/a/b; "a/../../x" and ".." are filtered out *)
Example layer_target_examples :
  layer_target W.dirS [47;46;46;47;97;47;47;46;47;98;47] = Some (W.dirS ++ [47;97;47;98]) /\
  layer_target W.dirS [97;47;46;46;47;46;46;47;120] = None /\
  layer_target W.dirS [46;46] = None /\
  layer_target W.dirS [46;46;46;47;46;46;97] = Some (W.dirS ++ [47;46;46;46;47;46;46;97]).
Proof. vm_compute. repeat split; reflexivity. Qed.

(* image load: /tmp exists, ExtractDir /tmp/E is fresh, one layer with a file below a directory,
   a filtered "../evil", and a symlink (never materialised) *)
Definition ex_tmp : seg := [116;109;112].
Definition ex_extract : bytes := [47;116;109;112;47;69].
Definition ex_layers : list (bytes * list entry) :=
  [ (ex_extract ++ [47;108;48], [ W.reg [97;47;102]; W.reg [46;46;47;101;118;105;108]; W.sym [115] [46;46;47;46;46] ]) ].

Example image_hypotheses_hold :
  clean_abs ex_extract /\ phys_dir [([ex_tmp], NDir)] [] (removelast (csegs ex_extract)) = true /\
  nothing_at_or_below [([ex_tmp], NDir)] (csegs ex_extract) = true /\
  layer_dirs_okb (csegs ex_extract) ex_layers = true.
Proof. vm_compute. repeat split; reflexivity. Qed.

Example image_run_is_nontrivial :
  let r := image_run ex_extract 100 W.marker [([ex_tmp], NDir)] ex_layers in
  snd r = false /\ length (fst r) = 5%nat /\
  lookup (fst r) [ex_tmp; [69]; [108;48]; [97]; [102]] = Some (NFile 7 1).
Proof. vm_compute. repeat split; reflexivity. Qed.

(* TargetOutsideRoot: "a/t" -> "../s/.." is accepted (lexically inside), "a/t" -> "../.." is not *)
Example target_outside_root_examples :
  marker_fresh W.marker [97;47;116] [46;46;47;115;47;46;46] = true /\
  target_outside_root W.marker [97;47;116] [46;46;47;115;47;46;46] = false /\
  target_outside_root W.marker [97;47;116] [46;46;47;46;46] = true /\
  target_outside_root W.marker [97] [47;46;46;47;120] = true.
Proof. vm_compute. repeat split; reflexivity. Qed.

(* C06: on entry lists whose names never pass through the name of a link entry (D2), the lexical
   path of every link equals its physical path throughout unpack_all, and every link that is kept
   has a stored target that stays inside the target directory when read lexically. *)
From Coq Require Import List NArith ZArith Bool Lia.
From Scalibr Require Import Contain.PathBytes Contain.PathBytesProofs Contain.Model Contain.Proofs Contain.FullProofs.
Import ListNotations.
Open Scope N_scope.

(* a walk along a path on which nothing is a link is lexical *)
Lemma walk_nolink_lexical g fs fl : forall k x cur q,
  (forall y z, x = y ++ z -> y <> [] -> forall t, lookup fs (cur ++ y) <> Some (NLink t)) ->
  Forall proper x -> walk k g fs fl cur x = Some q -> q = cur ++ x.
Proof.
  intros k x. induction x as [|c x IH]; intros cur q Hnl Hp H.
  - rewrite walk_nil in H. injection H as <-. rewrite app_nil_r. reflexivity.
  - inversion Hp as [|? ? Hc Hx]; subst. rewrite walk_cons in H. unfold walk_cons_rhs in H.
    rewrite (proper_not_skip c Hc), (proper_not_dotdot c Hc) in H.
    destruct (NAME_MAX <? blen c); [discriminate|]. cbn zeta in H.
    destruct (g && (PATH_MAX1 <? plen (cur ++ [c]))); [discriminate|].
    destruct (lookup fs (cur ++ [c])) as [[| cid sz | t]|] eqn:E; try discriminate.
    + apply IH in H; [|intros y z Ex Hy t; rewrite <- app_assoc; apply (Hnl ([c] ++ y) z); [rewrite Ex; reflexivity|discriminate]|exact Hx].
      rewrite H, <- app_assoc. reflexivity.
    + destruct (is_nil x) eqn:En; [|discriminate]. destruct x; [|discriminate]. injection H as <-. reflexivity.
    + exfalso. eapply (Hnl [c] x); [reflexivity|discriminate|exact E].
Qed.

Lemma filter_split_render r l : Forall proper l -> Forall noslash l ->
  filter properb (split_slash (render r l)) = l.
Proof.
  intros Hp Hn.
  assert (Hf : filter properb l = l).
  { clear Hn. induction l as [|x l IH]; [reflexivity|]. inversion Hp; subst. cbn. rewrite H1, IH by assumption. reflexivity. }
  destruct r.
  - rewrite split_render_true by exact Hn. destruct l; [reflexivity|]. cbn [filter]. exact Hf.
  - unfold render. destruct l as [|x t]; [reflexivity|]. rewrite split_join; [exact Hf|discriminate|exact Hn].
Qed.

Lemma csegs_proper_of_no_dotdot name : no_dotdot (csegs name) = true -> Forall proper (csegs name).
Proof.
  intros H. pose proof (csegs_shape name) as Hs. apply shape_split in Hs as (n & u & E & Hn & Hu & _).
  destruct u as [|u0 u'].
  - rewrite app_nil_r in E. apply Forall_rev in Hn. rewrite <- E, rev_involutive in Hn. exact Hn.
  - exfalso. apply no_dotdot_In in H. apply H. inversion Hu; subst. apply in_rev. rewrite E.
    apply in_or_app. right. left. reflexivity.
Qed.

Section Lex.
  Variable cfg : ucfg.
  Variable req : bytes -> bool.
  Variable es : list entry.
  Hypothesis dir_ok : clean_abs (u_dir cfg).
  Hypothesis Havoid : names_avoid_links es = true.
  Let ds := csegs (u_dir cfg).

  Definition not_skipped (e : entry) : Prop :=
    (beq (clean (e_name e)) s_dotdot || has_prefix (clean (e_name e)) DDS) = false.

  (* a link that sits exactly where a link entry names it, with that entry's (re-rooted) target *)
  Definition placed (p : path) (t : bytes) : Prop :=
    exists l, In l es /\ is_link_entry l = true /\ not_skipped l /\
              target_outside_root (u_marker cfg) (clean (e_name l)) (e_link l) = false /\
              t = stored cfg l /\ csegs (e_name l) <> [] /\ p = ds ++ csegs (e_name l).

  Definition LP (fs : fsmap) : Prop :=
    forall p t, strict_below ds p = true -> lookup fs p = Some (NLink t) -> placed p t.

  Lemma zone_cs e cs : not_skipped e -> Forall okseg cs ->
    join2 (u_dir cfg) (clean (e_name e)) = render true (ds ++ cs) -> cs = csegs (e_name e).
  Proof.
    intros Hns Hcs Hj.
    destruct (full_path_zone cfg dir_ok (e_name e) Hns) as (cs' & Hp' & Hn' & Hj').
    pose proof (not_skipped_no_dotdot (e_name e) Hns) as Hnd.
    assert (Ecs' : exists c2, join2 (u_dir cfg) (clean (e_name e)) = render true (ds ++ c2) /\ c2 = csegs (e_name e) /\ Forall okseg c2).
    { exists (filter properb (split_slash (clean (e_name e)))).
      split; [apply join2_zone; [exact dir_ok|apply clean_nonempty|apply clean_no_dotdot; exact Hnd]|].
      assert (E : filter properb (split_slash (clean (e_name e))) = csegs (e_name e)).
      { rewrite clean_render. apply filter_split_render; [apply csegs_proper_of_no_dotdot; exact Hnd|apply csegs_noslash]. }
      split; [exact E|]. rewrite E. apply Forall_forall. intros x Hx. split.
      - pose proof (csegs_proper_of_no_dotdot _ Hnd) as Hp. rewrite Forall_forall in Hp. auto.
      - pose proof (csegs_noslash (e_name e)) as Hn. rewrite Forall_forall in Hn. auto. }
    destruct Ecs' as (c2 & Hj2 & <- & Hc2). rewrite Hj in Hj2.
    apply render_inj in Hj2; [apply app_inv_head in Hj2; exact Hj2| |];
      apply Forall_app; split; auto; apply (ds_ok cfg dir_ok).
  Qed.

  Lemma avoid_spec e l : In e es -> In l es -> is_link_entry l = true -> csegs (e_name l) <> [] ->
    strict_below (csegs (e_name l)) (csegs (e_name e)) = true -> False.
  Proof.
    intros He Hl Hlk Hne Hs. unfold names_avoid_links in Havoid. rewrite forallb_forall in Havoid.
    specialize (Havoid e He). rewrite forallb_forall in Havoid. specialize (Havoid l Hl).
    rewrite Hlk, Hs in Havoid. destruct (csegs (e_name l)); [contradiction|discriminate].
  Qed.

  Lemma entry_LP final fs tg e st' err :
    In e es -> INV cfg fs -> LP fs -> unpack_entry cfg req final (fs, tg) e = (st', err) -> LP (fst st').
  Proof.
    intros He HI HLP H. pose proof (ds_ok cfg dir_ok) as Hds. fold ds in Hds.
    destruct (unpack_entry_full cfg req dir_ok final fs tg e st' err HI H) as (_ & _ & _ & HNL).
    intros p t Hs Hl. destruct (HNL p t Hl) as [Hold|Hnew]; [apply HLP; assumption|].
    destruct Hnew as (Hlk & Hns & Htor & -> & cs & m1 & m2 & last & r & Hcs & Hj & Ecs & Hr & ->).
    fold ds in Hj, Hr.
    pose proof (zone_cs e cs Hns Hcs Hj) as Ecs2.
    destruct HI as (W & Hphys & _). fold ds in Hphys.
    assert (Hm1 : Forall okseg m1).
    { rewrite Ecs in Hcs. apply Forall_app in Hcs as [Hc _]. apply Forall_app in Hc as [Hc _]. exact Hc. }
    assert (Er : r = ds ++ m1).
    { apply (walk_nolink_lexical _ _ _ _ _ _ _) in Hr.
      - exact Hr.
      - intros y z Ey Hy t0 Hlk0. cbn [app] in Hlk0.
        apply app_eq_app in Ey as [w [[E1 E2]|[E1 E2]]].
        + (* y inside ds *)
          rewrite (phys_dir_lookup fs ds y w Hphys E1) in Hlk0. discriminate.
        + (* y reaches beyond ds: y = ds ++ w, w a prefix of m1 *)
          destruct w as [|w0 wr].
          * rewrite app_nil_r in E1. subst y.
            rewrite (phys_dir_lookup fs ds ds [] Hphys (eq_sym (app_nil_r ds))) in Hlk0. discriminate.
          * subst y. assert (Hsb : strict_below ds (ds ++ w0 :: wr) = true)
              by (apply strict_below_spec; exists (w0 :: wr); split; [discriminate|reflexivity]).
            destruct (HLP _ _ Hsb Hlk0) as (l & Hinl & Hlkl & _ & _ & _ & Hnel & El).
            apply app_inv_head in El.
            eapply (avoid_spec e l He Hinl Hlkl Hnel). rewrite <- El, <- Ecs2, Ecs, E2.
            apply strict_below_spec. exists (z ++ m2 ++ [last]). split; [destruct z; destruct m2; discriminate|].
            rewrite <- !app_assoc. reflexivity.
      - apply okseg_proper. apply Forall_app. split; [exact Hds|exact Hm1]. }
    exists e. split; [exact He|]. split; [exact Hlk|]. split; [exact Hns|]. split; [exact Htor|]. split; [reflexivity|].
    rewrite <- Ecs2. split; [rewrite Ecs; destruct (m1 ++ m2); discriminate|].
    rewrite Er, Ecs, <- !app_assoc. reflexivity.
  Qed.

  Lemma pass_LP final : forall es' fs tg st' err,
    incl es' es -> INV cfg fs -> LP fs -> unpack_pass cfg req final (fs, tg) es' = (st', err) ->
    INV cfg (fst st') /\ LP (fst st').
  Proof.
    induction es' as [|e es' IH]; intros fs tg st' err Hinc HI HLP H.
    - cbn in H. injection H as <- _. auto.
    - cbn [unpack_pass] in H.
      destruct (unpack_entry cfg req final (fs, tg) e) as [[fs1 tg1] err1] eqn:E1.
      assert (He : In e es) by (apply Hinc; left; reflexivity).
      pose proof (entry_LP final fs tg e _ _ He HI HLP E1) as HLP1.
      destruct (unpack_entry_full cfg req dir_ok final fs tg e _ _ HI E1) as (HI1 & _). cbn [fst] in *.
      destruct err1; [injection H as <- _; auto|].
      eapply IH; eauto. intros x Hx. apply Hinc. right. exact Hx.
  Qed.

  Lemma passes_LP : forall n fs tg st' err,
    INV cfg fs -> LP fs -> unpack_passes n cfg req (fs, tg) es = (st', err) -> INV cfg (fst st') /\ LP (fst st').
  Proof.
    induction n as [|n IH]; intros fs tg st' err HI HLP H.
    - cbn in H. injection H as <- _. auto.
    - cbn [unpack_passes] in H.
      destruct (unpack_pass cfg req match n with O => true | _ => false end (fs, tg) es) as [[fs1 tg1] err1] eqn:E1.
      destruct (pass_LP _ es fs tg _ _ (incl_refl es) HI HLP E1) as (HI1 & HLP1). cbn [fst] in *.
      destruct err1; [injection H as <- _; auto|]. eapply IH; eauto.
  Qed.

  Lemma all_LP fs : INV cfg fs -> LP fs -> LP (fst (unpack_all cfg req fs es)) /\ WF (fst (unpack_all cfg req fs es)).
  Proof.
    intros HI HLP. unfold unpack_all.
    destruct (unpack_passes (u_passes cfg) cfg req (fs, []) es) as [[fs1 tg1] err1] eqn:E1.
    destruct (passes_LP _ _ _ _ _ HI HLP E1) as (HI1 & HLP1). cbn [fst] in *.
    destruct (remove_obsolete fs1 (u_dir cfg)) as [fs2 err2] eqn:E2.
    destruct (remove_obsolete_full cfg dir_ok _ _ _ HI1 E2) as (_ & W2 & _ & _ & Hle). cbn [fst].
    split; [|exact W2]. intros p t Hs Hl. apply HLP1; [exact Hs|]. apply Hle. exact Hl.
  Qed.

  Lemma LP_initial fs : no_links_below ds fs = true -> LP fs.
  Proof.
    intros H p t Hs Hl. exfalso. unfold no_links_below in H. rewrite forallb_forall in H.
    assert (Hp : p <> []) by (intros ->; destruct ds; discriminate).
    specialize (H _ (lookup_In fs p _ Hp Hl)). cbn [fst snd] in H.
    apply strict_below_spec in Hs as (y & _ & ->). rewrite seg_prefix_app in H. discriminate.
  Qed.
End Lex.

(* ------------------------------------------------------------------ path algebra of kept links *)
Lemma dotdot_sticks : forall comps stk, In s_dotdot stk -> In s_dotdot (clean_fold false stk comps).
Proof.
  induction comps as [|c comps IH]; intros stk H; [exact H|]. cbn. apply IH. unfold clean_step.
  destruct (beq c [] || beq c s_dot); [exact H|]. destruct (beq c s_dotdot) eqn:E.
  - destruct stk as [|t s]; [destruct H|]. destruct (beq t s_dotdot) eqn:Et; [right; exact H|].
    destruct H as [H|H]; [subst t; rewrite beq_refl in Et; discriminate|exact H].
  - right. exact H.
Qed.

Lemma rooted_stack base : forall comps stk0,
  Forall proper stk0 -> no_dotdot (clean_fold false stk0 comps) = true ->
  clean_fold true (stk0 ++ base) comps = clean_fold false stk0 comps ++ base.
Proof.
  induction comps as [|c comps IH]; intros stk0 Hp H; [reflexivity|].
  change (clean_fold false stk0 (c :: comps)) with (clean_fold false (clean_step false stk0 c) comps) in *.
  change (clean_fold true (stk0 ++ base) (c :: comps)) with (clean_fold true (clean_step true (stk0 ++ base) c) comps).
  unfold clean_step in *. destruct (beq c [] || beq c s_dot) eqn:E1; [apply IH; assumption|].
  destruct (beq c s_dotdot) eqn:E2.
  - destruct stk0 as [|t s].
    + exfalso. apply no_dotdot_In in H. apply H. apply dotdot_sticks. apply beq_eq in E2. subst c. left. reflexivity.
    + inversion Hp as [|? ? Ht Hs]; subst. cbn [app]. rewrite (proper_not_dotdot t Ht) in *. apply IH; assumption.
  - change (c :: stk0 ++ base) with ((c :: stk0) ++ base). apply IH; [|exact H].
    constructor; [|exact Hp]. unfold proper, properb. rewrite E1, E2. reflexivity.
Qed.

Lemma upto_last_slash_noslash x : noslash x -> upto_last_slash x = [].
Proof.
  induction x as [|a x IH]; intros H; [reflexivity|]. cbn.
  rewrite existsb_slash_noslash by (intros Hin; apply H; right; exact Hin).
  destruct (a =? SL) eqn:E; [|reflexivity]. apply N.eqb_eq in E. subst. exfalso. apply H. left. reflexivity.
Qed.

(* the directory of a cleaned name, re-split, folds like the name's segments without the last *)
Lemma lex_fold_dir r0 l x X : Forall proper (l ++ [x]) -> Forall noslash (l ++ [x]) ->
  clean_fold false [] (split_slash (dir_of (render r0 (l ++ [x]))) ++ X) = clean_fold false [] (l ++ X).
Proof.
  intros Hp Hn. pose proof Hp as Hp0. pose proof Hn as Hn0.
  apply Forall_app in Hp as [Hpl Hpx]. apply Forall_app in Hn as [Hnl Hnx].
  inversion Hnx as [|? ? Hx _]; subst. inversion Hpx as [|? ? Hxp _]; subst.
  destruct r0.
  - rewrite dir_of_render_true by assumption. rewrite split_render_true by exact Hnl.
    cbn [app]. rewrite clean_fold_skip_empty. destruct l; [cbn [app]; rewrite clean_fold_skip_empty|]; reflexivity.
  - unfold render. destruct l as [|y l'].
    + cbn [app join_slash]. unfold dir_of. rewrite upto_last_slash_noslash by exact Hx. reflexivity.
    + assert (El : (y :: l') ++ [x] <> []) by discriminate.
      destruct ((y :: l') ++ [x]) as [|z zs] eqn:Ez; [contradiction|]. rewrite <- Ez.
      rewrite join_slash_snoc by discriminate. unfold dir_of. rewrite upto_last_slash_app by exact Hx.
      assert (Hjn : join_slash (y :: l') <> []) by (apply join_nonempty; [discriminate|exact Hpl]).
      assert (Habs : is_abs (join_slash (y :: l') ++ [SL]) = false).
      { inversion Hpl as [|? ? Hyp _]; subst. inversion Hnl as [|? ? Hyn _]; subst.
        destruct y as [|y0 y']; [exfalso; exact (proper_nonempty [] Hyp eq_refl)|].
        destruct l'; cbn; apply N.eqb_neq; intros ->; apply Hyn; left; reflexivity. }
      assert (Ecs : csegs (join_slash (y :: l') ++ [SL]) = y :: l').
      { unfold csegs. rewrite Habs.
        change (join_slash (y :: l') ++ [SL]) with (join_slash (y :: l') ++ SL :: []).
        rewrite split_app_slash, split_join by (try discriminate; exact Hnl).
        rewrite clean_fold_app. rewrite (clean_fold_proper false (y :: l') [] Hpl).
        cbn [split_slash clean_fold fold_left clean_step beq orb]. rewrite app_nil_r, rev_involutive. reflexivity. }
      rewrite clean_render, Habs, Ecs. unfold render. rewrite split_join by (try discriminate; exact Hnl). reflexivity.
Qed.

Lemma join2_nonempty a b : a <> [] -> b <> [] -> join2 a b = clean (a ++ SL :: b).
Proof. destruct a; [contradiction|]. destruct b; [contradiction|]. reflexivity. Qed.

Lemma is_abs_app a b : a <> [] -> is_abs (a ++ b) = is_abs a.
Proof. destruct a; [contradiction|]. reflexivity. Qed.

Section LexInside.
  Variable cfg : ucfg.
  Hypothesis dir_ok : clean_abs (u_dir cfg).
  Let ds := csegs (u_dir cfg).

  Lemma placed_lex name link :
    (beq (clean name) s_dotdot || has_prefix (clean name) DDS) = false -> csegs name <> [] ->
    lexically_inside (clean name) link = true ->
    kept_link_lexically_inside ds (ds ++ csegs name) (stored cfg {| e_name := name; e_type := TSym; e_link := link; e_size := 0%Z; e_cid := 0 |}) = true.
  Proof.
    intros Hns Hne Hlex. pose proof (ds_ok cfg dir_ok) as Hds. fold ds in Hds.
    pose proof (not_skipped_no_dotdot name Hns) as Hnd.
    pose proof (csegs_proper_of_no_dotdot name Hnd) as Hcp. pose proof (csegs_noslash name) as Hcn.
    unfold stored. cbn [e_link]. unfold kept_link_lexically_inside, lexically_inside, lex_comps in *.
    destruct (is_abs link) eqn:Ea.
    - (* absolute target, re-rooted: Join(dir, link) *)
      assert (Hl : link <> []) by (intros ->; discriminate).
      destruct dir_ok as [Hda Hdc].
      assert (Hdn : u_dir cfg <> []) by (intros E; rewrite E in Hda; discriminate).
      rewrite join2_nonempty by assumption.
      assert (Habs : is_abs (u_dir cfg ++ SL :: link) = true) by (rewrite is_abs_app by exact Hdn; exact Hda).
      rewrite clean_render, Habs. change (is_abs (render true (csegs (u_dir cfg ++ SL :: link)))) with true. cbn iota.
      rewrite csegs_render_true; [|apply csegs_abs_proper; exact Habs|apply csegs_noslash].
      unfold csegs at 1. rewrite Habs, split_app_slash, clean_fold_app.
      assert (E : clean_fold true [] (split_slash (u_dir cfg)) = rev ds).
      { unfold ds, csegs. rewrite rev_involutive, Hda. reflexivity. }
      rewrite E. rewrite <- (app_nil_l (rev ds)). rewrite (rooted_stack (rev ds) _ [] (Forall_nil _) Hlex).
      rewrite rev_app_distr, rev_involutive. apply seg_prefix_app.
    - (* relative target, stored verbatim *)
      destruct (exists_last Hne) as (l & x & Ecs). rewrite Ecs in *.
      assert (Er : skipn (length ds) (removelast (ds ++ l ++ [x])) = l).
      { rewrite app_assoc, removelast_last, skipn_app, skipn_all, Nat.sub_diag. reflexivity. }
      rewrite Er. rewrite clean_render, Ecs in Hlex. rewrite lex_fold_dir in Hlex by assumption. rewrite Ea. exact Hlex.
  Qed.
End LexInside.

(* ------------------------------------------------------------------ final forms *)
Definition markers_fresh (cfg : ucfg) (es : list entry) : bool :=
  forallb (fun l => negb (is_link_entry l) || marker_fresh (u_marker cfg) (clean (e_name l)) (e_link l)) es.

Lemma unpack_lexical_is_physical_lemma cfg req fs es :
  clean_abs (u_dir cfg) -> wf_fsb fs = true -> phys_dir fs [] (csegs (u_dir cfg)) = true ->
  is_some (klstat fs (u_dir cfg)) = true -> is_some (eval_symlinks fs (u_dir cfg)) = true ->
  names_avoid_links es = true -> no_links_below (csegs (u_dir cfg)) fs = true ->
  forall p t, strict_below (csegs (u_dir cfg)) p = true ->
    lookup (fst (unpack_all cfg req fs es)) p = Some (NLink t) ->
    exists l, In l es /\ is_link_entry l = true /\ p = csegs (u_dir cfg) ++ csegs (e_name l) /\
              t = stored cfg l /\ target_outside_root (u_marker cfg) (clean (e_name l)) (e_link l) = false.
Proof.
  intros Hd Hwf Hphys Hk He Hav Hnl p t Hs Hl.
  assert (HI : INV cfg fs) by (split; [apply wf_fsb_spec; exact Hwf|split; [exact Hphys|split; [exact Hk|exact He]]]).
  destruct (all_LP cfg req es Hd Hav fs HI (LP_initial cfg es fs Hnl)) as [HLP _].
  destruct (HLP p t Hs Hl) as (l & Hin & Hlk & _ & Htor & Et & _ & Ep).
  exists l. auto.
Qed.

Lemma unpack_links_inside_on_D2_lemma cfg req fs es :
  clean_abs (u_dir cfg) -> wf_fsb fs = true -> phys_dir fs [] (csegs (u_dir cfg)) = true ->
  is_some (klstat fs (u_dir cfg)) = true -> is_some (eval_symlinks fs (u_dir cfg)) = true ->
  names_avoid_links es = true -> no_links_below (csegs (u_dir cfg)) fs = true -> markers_fresh cfg es = true ->
  links_lexically_inside (csegs (u_dir cfg)) (fst (unpack_all cfg req fs es)) = true.
Proof.
  intros Hd Hwf Hphys Hk He Hav Hnl Hfresh.
  assert (HI : INV cfg fs) by (split; [apply wf_fsb_spec; exact Hwf|split; [exact Hphys|split; [exact Hk|exact He]]]).
  destruct (all_LP cfg req es Hd Hav fs HI (LP_initial cfg es fs Hnl)) as [HLP W2].
  set (fs2 := fst (unpack_all cfg req fs es)) in *. set (ds := csegs (u_dir cfg)) in *.
  unfold links_lexically_inside. apply forallb_forall. intros [p n] Hin. cbn [fst snd].
  destruct n as [| |t]; try reflexivity.
  destruct (strict_below ds p) eqn:Hs; [|reflexivity].
  assert (Hp : p <> []) by (intros ->; destruct ds; discriminate).
  pose proof (In_lookup fs2 p _ (wf_nodup _ W2) Hp Hin) as Hl.
  destruct (HLP p t Hs Hl) as (l & Hinl & Hlk & Hns & Htor & -> & Hne & ->).
  unfold markers_fresh in Hfresh. rewrite forallb_forall in Hfresh. specialize (Hfresh l Hinl).
  rewrite Hlk in Hfresh. cbn [negb orb] in Hfresh.
  pose proof (target_outside_root_sound_lemma _ _ _ Hfresh Htor) as Hlex.
  pose proof (placed_lex cfg Hd (e_name l) (e_link l) Hns Hne Hlex) as Hk2.
  exact Hk2.
Qed.

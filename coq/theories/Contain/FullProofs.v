(* C06: full-strength theorems for unpack.go after fixes 05026580 (containment check before any
   creation, on the deepest existing ancestor) and 7b96bcf8 (final sweep of escaping links). *)
From Coq Require Import List NArith ZArith Bool Lia.
From Scalibr Require Import Contain.PathBytes Contain.PathBytesProofs Contain.Model Contain.Proofs.
Import ListNotations.
Open Scope N_scope.

(* ------------------------------------------------------------------ generic walk facts *)
Definition fs_le (a b : fsmap) : Prop := forall p n, lookup a p = Some n -> lookup b p = Some n.

Lemma fs_le_refl a : fs_le a a.
Proof. intros p n H. exact H. Qed.
Lemma fs_le_trans a b c : fs_le a b -> fs_le b c -> fs_le a c.
Proof. intros H1 H2 p n H. apply H2, H1, H. Qed.

(* a walk that succeeds keeps succeeding, with the same result, when nodes are added *)
Lemma walk_sub g fl a b : fs_le a b -> forall k comps cur q,
  walk k g a fl cur comps = Some q -> walk k g b fl cur comps = Some q.
Proof.
  intros Hle. induction k as [|k IHk]; intros comps; induction comps as [|c rest IH]; intros cur q H;
    try (rewrite walk_nil in *; exact H);
    rewrite walk_cons in *; unfold walk_cons_rhs in *;
    (destruct (beq c [] || beq c s_dot); [apply IH; exact H|]);
    (destruct (beq c s_dotdot); [apply IH; exact H|]);
    (destruct (NAME_MAX <? blen c); [discriminate|]); cbn zeta in *;
    (destruct (g && (PATH_MAX1 <? plen (cur ++ [c]))); [discriminate|]);
    destruct (lookup a (cur ++ [c])) as [n|] eqn:E; try discriminate;
    rewrite (Hle _ _ E); destruct n as [| cid sz | t].
  - apply IH; exact H.
  - exact H.
  - destruct (is_nil rest && negb fl); [exact H|discriminate].
  - apply IH; exact H.
  - exact H.
  - destruct (is_nil rest && negb fl); [exact H|]. apply IHk. exact H.
Qed.

(* more link budget does not hurt *)
Lemma walk_budget g fs fl : forall k k' comps cur q, (k <= k')%nat ->
  walk k g fs fl cur comps = Some q -> walk k' g fs fl cur comps = Some q.
Proof.
  induction k as [|k IHk]; intros k' comps; induction comps as [|c rest IH]; intros cur q Hk H;
    try (rewrite walk_nil in *; exact H);
    rewrite walk_cons in *; unfold walk_cons_rhs in *;
    (destruct (beq c [] || beq c s_dot); [apply IH; assumption|]);
    (destruct (beq c s_dotdot); [apply IH; assumption|]);
    (destruct (NAME_MAX <? blen c); [discriminate|]); cbn zeta in *;
    (destruct (g && (PATH_MAX1 <? plen (cur ++ [c]))); [discriminate|]);
    destruct (lookup fs (cur ++ [c])) as [[| cid sz | t]|] eqn:E; try discriminate.
  - apply IH; assumption.
  - exact H.
  - destruct (is_nil rest && negb fl); [exact H|discriminate].
  - apply IH; assumption.
  - exact H.
  - destruct (is_nil rest && negb fl); [exact H|].
    destruct k' as [|k'']; [lia|]. apply IHk; [lia|exact H].
Qed.

(* the result does not depend on the budget or on the Go-side length check *)
Lemma walk_det fs fl : forall k g k' g' comps cur q q',
  walk k g fs fl cur comps = Some q -> walk k' g' fs fl cur comps = Some q' -> q = q'.
Proof.
  induction k as [|k IHk]; intros g k' g' comps; induction comps as [|c rest IH]; intros cur q q' H H';
    try (rewrite walk_nil in *; congruence);
    rewrite walk_cons in *; unfold walk_cons_rhs in *;
    (destruct (beq c [] || beq c s_dot); [eapply IH; eassumption|]);
    (destruct (beq c s_dotdot); [eapply IH; eassumption|]);
    (destruct (NAME_MAX <? blen c); [discriminate|]); cbn zeta in *;
    (destruct (g && (PATH_MAX1 <? plen (cur ++ [c]))); [discriminate|]);
    (destruct (g' && (PATH_MAX1 <? plen (cur ++ [c]))); [discriminate|]);
    destruct (lookup fs (cur ++ [c])) as [[| cid sz | t]|] eqn:E; try discriminate.
  - eapply IH; eassumption.
  - destruct (is_nil rest); congruence.
  - destruct (is_nil rest && negb fl); [congruence|discriminate].
  - eapply IH; eassumption.
  - destruct (is_nil rest); congruence.
  - destruct (is_nil rest && negb fl); [congruence|].
    destruct k' as [|k'']; [discriminate|]. eapply IHk; eassumption.
Qed.

(* a successful walk over a ++ b (b not empty) factors through the resolution of a *)
Lemma walk_split g fs fl b : b <> [] -> forall k a cur q,
  walk k g fs fl cur (a ++ b) = Some q ->
  exists pp, walk k g fs true cur a = Some pp /\ walk k g fs fl pp b = Some q.
Proof.
  intros Hb. induction k as [|k IHk]; intros a; induction a as [|c rest IH]; intros cur q H;
    try (cbn [app] in H; exists cur; rewrite walk_nil; split; [reflexivity|exact H]);
    cbn [app] in H; rewrite walk_cons in H; rewrite walk_cons; unfold walk_cons_rhs in *;
    (destruct (beq c [] || beq c s_dot); [apply IH; exact H|]);
    (destruct (beq c s_dotdot); [apply IH; exact H|]);
    (destruct (NAME_MAX <? blen c); [discriminate|]); cbn zeta in *;
    (destruct (g && (PATH_MAX1 <? plen (cur ++ [c]))); [discriminate|]);
    destruct (lookup fs (cur ++ [c])) as [[| cid sz | t]|] eqn:E; try discriminate.
  - apply IH; exact H.
  - destruct (is_nil (rest ++ b)) eqn:En; [|discriminate].
    destruct rest; [destruct b; [contradiction|discriminate]|discriminate].
  - assert (En : is_nil (rest ++ b) = false) by (destruct rest; [destruct b; [contradiction|reflexivity]|reflexivity]).
    rewrite En in H. cbn [andb] in H. discriminate.
  - apply IH; exact H.
  - destruct (is_nil (rest ++ b)) eqn:En; [|discriminate].
    destruct rest; [destruct b; [contradiction|discriminate]|discriminate].
  - assert (En : is_nil (rest ++ b) = false) by (destruct rest; [destruct b; [contradiction|reflexivity]|reflexivity]).
    rewrite En in H. cbn [andb] in H. rewrite andb_false_r.
    rewrite app_assoc in H. apply IHk in H as (pp & H1 & H2).
    exists pp. split; [exact H1|]. eapply walk_budget; [|exact H2]. lia.
Qed.

(* follow-last success implies no-follow success *)
Lemma walk_follow_nofollow g fs : forall k comps cur q,
  walk k g fs true cur comps = Some q -> exists q', walk k g fs false cur comps = Some q'.
Proof.
  induction k as [|k IHk]; intros comps; induction comps as [|c rest IH]; intros cur q H;
    try (rewrite walk_nil in *; eauto);
    rewrite walk_cons in *; unfold walk_cons_rhs in *;
    (destruct (beq c [] || beq c s_dot); [eapply IH; exact H|]);
    (destruct (beq c s_dotdot); [eapply IH; exact H|]);
    (destruct (NAME_MAX <? blen c); [discriminate|]); cbn zeta in *;
    (destruct (g && (PATH_MAX1 <? plen (cur ++ [c]))); [discriminate|]);
    destruct (lookup fs (cur ++ [c])) as [[| cid sz | t]|] eqn:E; try discriminate.
  - eapply IH; exact H.
  - destruct (is_nil rest); [eauto|discriminate].
  - rewrite andb_false_r in H. discriminate.
  - eapply IH; exact H.
  - destruct (is_nil rest); [eauto|discriminate].
  - rewrite andb_false_r in H. destruct (is_nil rest) eqn:En; cbn [andb negb]; [eauto|].
    eapply IHk. exact H.
Qed.

(* the last, proper component without following: budget-free, one lookup *)
Lemma walk_single_nofollow k g fs pp c :
  proper c ->
  walk k g fs false pp [c] =
  if NAME_MAX <? blen c then None
  else if g && (PATH_MAX1 <? plen (pp ++ [c])) then None
  else match lookup fs (pp ++ [c]) with Some _ => Some (pp ++ [c]) | None => None end.
Proof.
  intros Hc. rewrite walk_cons. unfold walk_cons_rhs.
  rewrite (proper_not_skip c Hc), (proper_not_dotdot c Hc).
  destruct (NAME_MAX <? blen c); [reflexivity|]. cbn zeta.
  destruct (g && (PATH_MAX1 <? plen (pp ++ [c]))); [reflexivity|].
  destruct (lookup fs (pp ++ [c])) as [[| cid sz | t]|]; try reflexivity; rewrite walk_nil; reflexivity.
Qed.

(* resolving a (to a directory) and then looking at one more component without following *)
Lemma walk_compose_nofollow g fs c : proper c -> forall k a cur pp,
  walk k g fs true cur a = Some pp -> lookup fs pp = Some NDir ->
  walk k g fs false cur (a ++ [c]) = walk k g fs false pp [c].
Proof.
  intros Hc. induction k as [|k IHk]; intros a; induction a as [|x rest IH]; intros cur pp H Hd;
    try (rewrite walk_nil in H; injection H as <-; reflexivity);
    cbn [app]; rewrite walk_cons in H; rewrite (walk_cons _ _ _ _ _ x); unfold walk_cons_rhs in *;
    (destruct (beq x [] || beq x s_dot); [apply IH; assumption|]);
    (destruct (beq x s_dotdot); [apply IH; assumption|]);
    (destruct (NAME_MAX <? blen x); [discriminate|]); cbn zeta in *;
    (destruct (g && (PATH_MAX1 <? plen (cur ++ [x]))); [discriminate|]);
    destruct (lookup fs (cur ++ [x])) as [[| cid sz | t]|] eqn:E; try discriminate.
  - apply IH; assumption.
  - destruct (is_nil rest); [|discriminate]. injection H as <-. congruence.
  - rewrite andb_false_r in H. discriminate.
  - apply IH; assumption.
  - destruct (is_nil rest); [|discriminate]. injection H as <-. congruence.
  - rewrite andb_false_r in H.
    assert (En : is_nil (rest ++ [c]) = false) by (destruct rest; reflexivity).
    rewrite En. cbn [andb]. rewrite app_assoc.
    rewrite (IHk _ _ _ H Hd). rewrite !walk_single_nofollow by exact Hc. reflexivity.
Qed.

(* ------------------------------------------------------------------ well-formed states *)
Definition okseg (c : seg) : Prop := proper c /\ noslash c.

Record WF (fs : fsmap) : Prop := {
  wf_tree : forall p c n, lookup fs (p ++ [c]) = Some n -> lookup fs p = Some NDir;
  wf_keys : forall p n, p <> [] -> lookup fs p = Some n -> Forall okseg p;
  wf_nodup : NoDup (map fst fs)
}.

Lemma In_remove fs p q n : In (q, n) (fs_remove fs p) <-> In (q, n) fs /\ q <> p.
Proof.
  induction fs as [|[k m] r IH]; cbn; [tauto|].
  destruct (segs_eqb k p) eqn:E.
  - apply segs_eqb_eq in E. subst k. rewrite IH. split.
    + intros [H1 H2]. auto.
    + intros [[H|H] H2]; [injection H as -> _; contradiction|auto].
  - apply segs_eqb_false in E. cbn. rewrite IH. split.
    + intros [H|[H1 H2]]; [injection H as <- <-; auto|auto].
    + intros [[H|H] H2]; auto.
Qed.

Lemma NoDup_remove fs p : NoDup (map fst fs) -> NoDup (map fst (fs_remove fs p)).
Proof.
  induction fs as [|[k m] r IH]; cbn; intros H; [constructor|].
  inversion H as [|? ? Hk Hr]; subst. destruct (segs_eqb k p); [auto|]. cbn. constructor; [|auto].
  intros Hin. apply Hk. apply in_map_iff in Hin as ([q n] & Eq & Hin). cbn in Eq. subst q.
  apply In_remove in Hin as [Hin _]. apply in_map_iff. exists (k, n). auto.
Qed.

Lemma NoDup_set fs p n : NoDup (map fst fs) -> NoDup (map fst (fs_set fs p n)).
Proof.
  intros H. unfold fs_set. cbn. constructor; [|apply NoDup_remove; exact H].
  intros Hin. apply in_map_iff in Hin as ([q m] & Eq & Hin). cbn in Eq. subst q.
  apply In_remove in Hin as [_ Hne]. contradiction.
Qed.

Lemma lookup_In fs p n : p <> [] -> lookup fs p = Some n -> In (p, n) fs.
Proof.
  intros Hp H. unfold lookup in H. destruct p; [contradiction|].
  induction fs as [|[k m] r IH]; cbn in H; [discriminate|].
  destruct (segs_eqb k (s :: p)) eqn:E.
  - apply segs_eqb_eq in E. injection H as ->. subst k. left. reflexivity.
  - right. apply IH. exact H.
Qed.

Lemma In_lookup fs p n : NoDup (map fst fs) -> p <> [] -> In (p, n) fs -> lookup fs p = Some n.
Proof.
  intros Hnd Hp Hin. unfold lookup. destruct p; [contradiction|].
  induction fs as [|[k m] r IH]; [destruct Hin|]. cbn in Hnd. inversion Hnd as [|? ? Hk Hr]; subst.
  cbn. destruct Hin as [E|Hin].
  - injection E as -> ->. rewrite segs_eqb_refl. reflexivity.
  - destruct (segs_eqb k (s :: p)) eqn:E; [|auto].
    apply segs_eqb_eq in E. subst k. exfalso. apply Hk. apply in_map_iff. exists (s :: p, n). auto.
Qed.

Lemma WF_below_none fs p y : WF fs -> lookup fs p = None -> lookup fs (p ++ y) = None.
Proof.
  intros W Hp. induction y as [|c y IH] using rev_ind; [rewrite app_nil_r; exact Hp|].
  destruct (lookup fs (p ++ y ++ [c])) eqn:E; [|reflexivity].
  rewrite app_assoc in E. apply (wf_tree fs W) in E. congruence.
Qed.

Lemma WF_set fs pp c n :
  WF fs -> lookup fs pp = Some NDir -> okseg c ->
  (lookup fs (pp ++ [c]) = None \/ (n <> NDir /\ exists x, lookup fs (pp ++ [c]) = Some x /\ x <> NDir)) ->
  WF (fs_set fs (pp ++ [c]) n).
Proof.
  intros W Hpp Hc Hfresh.
  assert (Hne : pp ++ [c] <> []) by (destruct pp; discriminate).
  assert (Hppne : pp <> pp ++ [c]).
  { intros E. apply (f_equal (@length seg)) in E. rewrite app_length in E. cbn in E. lia. }
  assert (Hnotdir : lookup fs (pp ++ [c]) <> Some NDir).
  { destruct Hfresh as [H|[_ (x & H & Hx)]]; congruence. }
  split.
  - intros x d m Hl. destruct (segs_eqb (x ++ [d]) (pp ++ [c])) eqn:E.
    + apply segs_eqb_eq in E. apply app_inj_tail in E as [-> ->].
      rewrite lookup_set_other by exact Hppne. exact Hpp.
    + apply segs_eqb_false in E. rewrite lookup_set_other in Hl by exact E.
      pose proof (wf_tree fs W _ _ _ Hl) as Hx.
      rewrite lookup_set_other; [exact Hx|]. intros ->. congruence.
  - intros x m Hx Hl. destruct (segs_eqb x (pp ++ [c])) eqn:E.
    + apply segs_eqb_eq in E. subst x. apply Forall_app. split; [|constructor; [exact Hc|constructor]].
      destruct pp as [|p0 pr]; [constructor|]. eapply (wf_keys fs W); [discriminate|exact Hpp].
    + apply segs_eqb_false in E. rewrite lookup_set_other in Hl by exact E. eapply (wf_keys fs W); eauto.
  - apply NoDup_set. exact (wf_nodup fs W).
Qed.

Lemma WF_remove_link fs p t : WF fs -> lookup fs p = Some (NLink t) -> WF (fs_remove fs p).
Proof.
  intros W Hp.
  assert (Hne : p <> []) by (intros ->; discriminate).
  split.
  - intros x d m Hl. destruct (segs_eqb (x ++ [d]) p) eqn:E.
    + apply segs_eqb_eq in E. subst p. rewrite lookup_remove_same in Hl by exact Hne. discriminate.
    + apply segs_eqb_false in E. rewrite lookup_remove_other in Hl by exact E.
      pose proof (wf_tree fs W _ _ _ Hl) as Hx.
      rewrite lookup_remove_other; [exact Hx|]. intros ->. congruence.
  - intros x m Hx Hl. destruct (segs_eqb x p) eqn:E.
    + apply segs_eqb_eq in E. subst x. rewrite lookup_remove_same in Hl by exact Hne. discriminate.
    + apply segs_eqb_false in E. rewrite lookup_remove_other in Hl by exact E. eapply (wf_keys fs W); eauto.
  - apply NoDup_remove. exact (wf_nodup fs W).
Qed.

(* results of walks are made of good segments *)
Lemma walk_good g fs fl : WF fs -> forall k comps cur q,
  Forall okseg cur -> walk k g fs fl cur comps = Some q -> Forall okseg q.
Proof.
  intros W. induction k as [|k IHk]; intros comps; induction comps as [|c rest IH]; intros cur q Hcur H;
    try (rewrite walk_nil in H; injection H as <-; exact Hcur);
    rewrite walk_cons in H; unfold walk_cons_rhs in H;
    (destruct (beq c [] || beq c s_dot); [eapply IH; eassumption|]);
    (destruct (beq c s_dotdot); [eapply IH; [|exact H]; apply Forall_forall; intros x Hx; rewrite Forall_forall in Hcur; apply Hcur; clear -Hx; induction cur as [|a l IHl]; [destruct Hx| destruct l; [destruct Hx|destruct Hx as [<-|Hx]; [left; reflexivity|right; apply IHl; exact Hx]]]|]);
    (destruct (NAME_MAX <? blen c); [discriminate|]); cbn zeta in H;
    (destruct (g && (PATH_MAX1 <? plen (cur ++ [c]))); [discriminate|]);
    destruct (lookup fs (cur ++ [c])) as [[| cid sz | t]|] eqn:E; try discriminate;
    assert (Hp : Forall okseg (cur ++ [c])) by (eapply (wf_keys fs W); [destruct cur; discriminate|exact E]).
  - eapply IH; eassumption.
  - destruct (is_nil rest); [injection H as <-; exact Hp|discriminate].
  - destruct (is_nil rest && negb fl); [injection H as <-; exact Hp|discriminate].
  - eapply IH; eassumption.
  - destruct (is_nil rest); [injection H as <-; exact Hp|discriminate].
  - destruct (is_nil rest && negb fl); [injection H as <-; exact Hp|].
    eapply IHk; [|exact H]. destruct (is_abs t); [constructor|exact Hcur].
Qed.

(* ------------------------------------------------------------------ system calls on rendered paths *)
Definition kw (fs : fsmap) (l : list seg) : option path := walk KERNEL_LINKS false fs true [] l.

Lemma okseg_proper l : Forall okseg l -> Forall proper l.
Proof. intros H. eapply Forall_impl; [|exact H]. intros a [Ha _]. exact Ha. Qed.
Lemma okseg_noslash l : Forall okseg l -> Forall noslash l.
Proof. intros H. eapply Forall_impl; [|exact H]. intros a [_ Ha]. exact Ha. Qed.

Lemma split_render_ne l : Forall noslash l -> l <> [] -> split_slash (render true l) = [] :: l.
Proof. intros Hn Hne. rewrite split_render_true by exact Hn. destruct l; [contradiction|reflexivity]. Qed.

Lemma join_render l : l <> [] -> join_slash ([] :: l) = render true l.
Proof. destruct l; [contradiction|reflexivity]. Qed.

Lemma last_snoc (l : list seg) c : last (l ++ [c]) [] = c.
Proof. apply last_last. Qed.

Lemma kcreate_at_render fs l c p : Forall okseg (l ++ [c]) ->
  kcreate_at fs (render true (l ++ [c])) = Some p ->
  exists pp, kw fs l = Some pp /\ lookup fs pp = Some NDir /\ p = pp ++ [c] /\
             (NAME_MAX <? blen c) = false /\ (PATH_MAX1 <? blen (render true (l ++ [c]))) = false.
Proof.
  intros Hok H. unfold kcreate_at in H.
  destruct (negb (is_abs (render true (l ++ [c])))); [discriminate|].
  destruct (PATH_MAX1 <? blen (render true (l ++ [c]))) eqn:Epm; [discriminate|].
  rewrite split_render_ne in H by (try (apply okseg_noslash; exact Hok); destruct l; discriminate).
  cbn zeta in H.
  assert (Hlast : @last seg ([] :: l ++ [c]) [] = c).
  { change ([] :: l ++ [c]) with (([] :: l) ++ [c]). apply last_last. }
  assert (Hrl : @removelast seg ([] :: l ++ [c]) = [] :: l).
  { change ([] :: l ++ [c]) with (([] :: l) ++ [c]). apply removelast_last. }
  rewrite Hlast, Hrl in H.
  destruct (beq c [] || beq c s_dot || beq c s_dotdot); [discriminate|].
  destruct (NAME_MAX <? blen c) eqn:Enm; [discriminate|].
  rewrite walk_skip_empty in H. fold (kw fs l) in H.
  destruct (kw fs l) as [pp|]; [|discriminate].
  destruct (lookup fs pp) as [[| |]|] eqn:Epp; try discriminate. injection H as <-.
  exists pp. repeat split; auto.
Qed.

Lemma klstat_render fs l c : Forall okseg (l ++ [c]) ->
  klstat fs (render true (l ++ [c])) =
  if PATH_MAX1 <? blen (render true (l ++ [c])) then None
  else match walk KERNEL_LINKS false fs false [] (l ++ [c]) with Some p => lookup fs p | None => None end.
Proof.
  intros Hok. unfold klstat, kwalk. change (is_abs (render true (l ++ [c]))) with true. cbn [negb].
  destruct (PATH_MAX1 <? blen (render true (l ++ [c]))); [reflexivity|].
  rewrite split_render_ne by (try (apply okseg_noslash; exact Hok); destruct l; discriminate).
  rewrite walk_skip_empty. reflexivity.
Qed.

(* what does not lstat cannot be in the way of a creation at the same name *)
Lemma create_fresh fs l c p : Forall okseg (l ++ [c]) ->
  klstat fs (render true (l ++ [c])) = None -> kcreate_at fs (render true (l ++ [c])) = Some p ->
  lookup fs p = None.
Proof.
  intros Hok Hl Hc. destruct (kcreate_at_render _ _ _ _ Hok Hc) as (pp & Hw & Hpp & -> & Hnm & Hpm).
  rewrite klstat_render in Hl by exact Hok. rewrite Hpm in Hl.
  assert (Hpc : proper c). { apply Forall_app in Hok as [_ Hc']. inversion Hc' as [|? ? [Hp _] _]. exact Hp. }
  unfold kw in Hw. rewrite (walk_compose_nofollow _ _ _ Hpc _ _ _ _ Hw Hpp) in Hl.
  rewrite walk_single_nofollow in Hl by exact Hpc. rewrite Hnm in Hl. cbn [andb] in Hl.
  destruct (lookup fs (pp ++ [c])) eqn:E; [|reflexivity]. rewrite E in Hl. discriminate.
Qed.

Lemma klstat_none_kstat_none fs l c : WF fs -> Forall okseg (l ++ [c]) ->
  klstat fs (render true (l ++ [c])) = None -> kstat fs (render true (l ++ [c])) = None.
Proof.
  intros W Hok Hl. destruct (kstat fs (render true (l ++ [c]))) as [n|] eqn:Hs; [|reflexivity]. exfalso.
  assert (Hpc : proper c). { apply Forall_app in Hok as [_ Hc']. inversion Hc' as [|? ? [Hp _] _]. exact Hp. }
  rewrite klstat_render in Hl by exact Hok.
  unfold kstat, kwalk in Hs. change (is_abs (render true (l ++ [c]))) with true in Hs. cbn [negb] in Hs.
  destruct (PATH_MAX1 <? blen (render true (l ++ [c]))); [discriminate|].
  rewrite split_render_ne in Hs by (try (apply okseg_noslash; exact Hok); destruct l; discriminate).
  rewrite walk_skip_empty in Hs.
  destruct (walk KERNEL_LINKS false fs true [] (l ++ [c])) as [q|] eqn:Hw; [|discriminate].
  apply walk_split in Hw as (pp & H1 & H2); [|discriminate].
  assert (Hex : exists x, lookup fs (pp ++ [c]) = Some x /\ (NAME_MAX <? blen c) = false).
  { rewrite walk_cons in H2. unfold walk_cons_rhs in H2.
    rewrite (proper_not_skip c Hpc), (proper_not_dotdot c Hpc) in H2.
    destruct (NAME_MAX <? blen c); [discriminate|]. cbn zeta in H2. cbn [andb] in H2.
    destruct (lookup fs (pp ++ [c])) as [x|]; [eauto|discriminate]. }
  destruct Hex as (x & Hx & Hnm).
  pose proof (wf_tree fs W _ _ _ Hx) as Hpp.
  rewrite (walk_compose_nofollow _ _ _ Hpc _ _ _ _ H1 Hpp) in Hl.
  rewrite walk_single_nofollow in Hl by exact Hpc. rewrite Hnm, Hx in Hl. cbn [andb] in Hl. congruence.
Qed.

(* a region in which only directories exist is walked lexically *)
Lemma walk_in_region g fs fl F : (forall y, lookup fs (F ++ y) = None \/ lookup fs (F ++ y) = Some NDir) ->
  forall k x y q, Forall proper x -> walk k g fs fl (F ++ y) x = Some q -> q = F ++ y ++ x.
Proof.
  intros HR k x. induction x as [|d x IH]; intros y q Hp H.
  - rewrite walk_nil in H. injection H as <-. rewrite app_nil_r. reflexivity.
  - inversion Hp as [|? ? Hd Hx]; subst. rewrite walk_cons in H. unfold walk_cons_rhs in H.
    rewrite (proper_not_skip d Hd), (proper_not_dotdot d Hd) in H.
    destruct (NAME_MAX <? blen d); [discriminate|]. cbn zeta in H.
    destruct (g && (PATH_MAX1 <? plen ((F ++ y) ++ [d]))); [discriminate|].
    rewrite <- app_assoc in H. destruct (HR (y ++ [d])) as [E|E]; rewrite E in H; [discriminate|].
    rewrite app_assoc in H. rewrite <- (app_assoc F y [d]) in H. apply IH in H; [|exact Hx].
    rewrite H, <- !app_assoc. reflexivity.
Qed.

(* ------------------------------------------------------------------ MkdirAll below a checked ancestor *)
Section Track.
  Variables (fs0 : fsmap) (A : list seg) (r : path).
  Hypothesis W0 : WF fs0.
  Hypothesis HA : Forall okseg A.
  Hypothesis Hr : walk GO_LINKS true fs0 true [] A = Some r.

  Lemma resolve_A fs pp : fs_le fs0 fs -> kw fs A = Some pp -> pp = r.
  Proof.
    intros Hle Hk. pose proof (walk_sub true true _ _ Hle _ _ _ _ Hr) as Hr'.
    unfold kw in Hk. eapply walk_det; eassumption.
  Qed.

  Lemma within_A_exists fs a c z pp :
    A = a ++ c :: z -> fs_le fs0 fs -> kw fs a = Some pp -> lookup fs (pp ++ [c]) <> None.
  Proof.
    intros EA Hle Hk. pose proof Hr as Hr'. rewrite EA in Hr'.
    apply walk_split in Hr' as (pp0 & H1 & H2); [|discriminate].
    assert (Hc : proper c).
    { rewrite EA in HA. apply Forall_app in HA as [_ HA']. inversion HA' as [|? ? [Hp _] _]. exact Hp. }
    rewrite walk_cons in H2. unfold walk_cons_rhs in H2.
    rewrite (proper_not_skip c Hc), (proper_not_dotdot c Hc) in H2.
    destruct (NAME_MAX <? blen c); [discriminate|]. cbn zeta in H2.
    destruct (true && (PATH_MAX1 <? plen (pp0 ++ [c]))); [discriminate|].
    destruct (lookup fs0 (pp0 ++ [c])) as [x|] eqn:E; [|discriminate].
    pose proof (walk_sub true true _ _ Hle _ _ _ _ H1) as H1'.
    unfold kw in Hk. assert (pp = pp0) by (eapply walk_det; eassumption). subst pp0.
    rewrite (Hle _ _ E). discriminate.
  Qed.

  Lemma kmkdir_within_A fs a c z :
    A = a ++ c :: z -> fs_le fs0 fs -> kmkdir fs (render true (a ++ [c])) = None.
  Proof.
    intros EA Hle. unfold kmkdir.
    destruct (kcreate_at fs (render true (a ++ [c]))) as [p|] eqn:Hc; [|reflexivity].
    assert (Hok : Forall okseg (a ++ [c])).
    { rewrite EA in HA. apply Forall_app in HA as [Ha HA']. inversion HA'; subst. apply Forall_app. split; [exact Ha|constructor; auto]. }
    destruct (kcreate_at_render _ _ _ _ Hok Hc) as (pp & Hw & _ & -> & _).
    pose proof (within_A_exists fs a c z pp EA Hle Hw) as Hne.
    destruct (lookup fs (pp ++ [c])); [reflexivity|contradiction].
  Qed.

  (* phase 1: the components that make up A: nothing is created *)
  Lemma mkp_phase1 rest : forall a done z fs' ok,
    A = done ++ a ++ z ->
    mk_prefixes fs0 ([] :: done) (a ++ rest) = (fs', ok) ->
    (fs' = fs0 /\ ok = false) \/ mk_prefixes fs0 ([] :: done ++ a) rest = (fs', ok).
  Proof.
    induction a as [|c a IH]; intros done z fs' ok EA H.
    - right. rewrite app_nil_r. exact H.
    - cbn [app mk_prefixes] in H. change (([] :: done) ++ [c]) with ([] :: (done ++ [c])) in H.
      assert (Hc : okseg c).
      { rewrite EA in HA. apply Forall_app in HA as [_ HA']. inversion HA'; subst. assumption. }
      assert (Ec : beq c [] = false).
      { destruct Hc as [Hp _]. pose proof (proper_not_skip c Hp) as E. apply orb_false_iff in E as [E _]. exact E. }
      rewrite Ec in H. rewrite join_render in H by (destruct done; discriminate).
      assert (EA' : A = (done ++ [c]) ++ a ++ z) by (rewrite EA, <- app_assoc; reflexivity).
      destruct (kstat fs0 (render true (done ++ [c]))) as [[| |]|].
      + apply (IH (done ++ [c]) z) in H; [|exact EA']. rewrite <- app_assoc in H. exact H.
      + left. injection H as <- <-. auto.
      + left. injection H as <- <-. auto.
      + rewrite (kmkdir_within_A fs0 done c (a ++ z)) in H; [|exact EA|apply fs_le_refl].
        left. injection H as <- <-. auto.
  Qed.

  (* phases 2 and 3: the first missing component c and what follows it *)
  Variable c : seg.
  Hypothesis Hc : okseg c.
  Hypothesis Hnone : klstat fs0 (render true (A ++ [c])) = None.
  Let F := r ++ [c].

  Record Reg (fs : fsmap) : Prop := {
    reg_le : fs_le fs0 fs;
    reg_wf : WF fs;
    reg_only : forall p, seg_prefix F p = false -> lookup fs p = lookup fs0 p;
    reg_dirs : forall y, lookup fs (F ++ y) = None \/ lookup fs (F ++ y) = Some NDir;
    reg_fresh : lookup fs0 F = None
  }.

  Lemma HAc : Forall okseg (A ++ [c]).
  Proof. apply Forall_app. split; [exact HA|constructor; [exact Hc|constructor]]. Qed.

  Lemma Reg_mkdir fs x d fs2 :
    Reg fs -> Forall okseg x -> okseg d ->
    kmkdir fs (render true (A ++ c :: x ++ [d])) = Some fs2 -> Reg fs2.
  Proof.
    intros R Hx Hd H. unfold kmkdir in H.
    destruct (kcreate_at fs (render true (A ++ c :: x ++ [d]))) as [p|] eqn:Hcr; [|discriminate].
    destruct (lookup fs p) eqn:Hp; [discriminate|]. injection H as <-.
    assert (Hok : Forall okseg ((A ++ c :: x) ++ [d])).
    { apply Forall_app. split; [apply Forall_app; split; [exact HA|constructor; assumption]|constructor; auto]. }
    replace (A ++ c :: x ++ [d]) with ((A ++ c :: x) ++ [d]) in Hcr by (rewrite <- app_assoc; reflexivity).
    destruct (kcreate_at_render _ _ _ _ Hok Hcr) as (pp & Hw & Hpp & -> & _).
    unfold kw in Hw. apply walk_split in Hw as (pa & H1 & H2); [|discriminate].
    pose proof (resolve_A fs pa (reg_le fs R) H1) as ->.
    assert (Epp : pp = F ++ x).
    { rewrite walk_cons in H2. unfold walk_cons_rhs in H2. destruct Hc as [Hcp _].
      rewrite (proper_not_skip c Hcp), (proper_not_dotdot c Hcp) in H2.
      destruct (NAME_MAX <? blen c); [discriminate|]. cbn zeta in H2. cbn [andb] in H2.
      destruct (reg_dirs fs R []) as [E|E]; rewrite app_nil_r in E; fold F in H2; rewrite E in H2; [discriminate|].
      rewrite <- (app_nil_r F) in H2. apply (walk_in_region _ _ _ F (reg_dirs fs R)) in H2; [|apply okseg_proper; exact Hx].
      rewrite H2. reflexivity. }
    subst pp.
    split.
    - intros q n Hq. rewrite lookup_set_other; [apply (reg_le fs R); exact Hq|].
      intros ->. rewrite (reg_le fs R _ _ Hq) in Hp. discriminate.
    - apply WF_set; [exact (reg_wf fs R)|exact Hpp|exact Hd|left; exact Hp].
    - intros q Hq. rewrite lookup_set_other; [apply (reg_only fs R); exact Hq|].
      intros ->. rewrite <- app_assoc, seg_prefix_app in Hq. discriminate.
    - intros y. destruct (segs_eqb (F ++ y) ((F ++ x) ++ [d])) eqn:E.
      + apply segs_eqb_eq in E. rewrite E. right. apply lookup_set_same. destruct (F ++ x); discriminate.
      + apply segs_eqb_false in E. rewrite lookup_set_other by exact E. apply (reg_dirs fs R).
    - exact (reg_fresh fs R).
  Qed.

  Lemma mkp_phase3 : forall rest x fs fs' ok,
    Reg fs -> Forall okseg x -> Forall okseg rest ->
    mk_prefixes fs ([] :: A ++ c :: x) rest = (fs', ok) -> Reg fs'.
  Proof.
    induction rest as [|d rest IH]; intros x fs fs' ok R Hx Hrest H.
    - cbn in H. injection H as <- _. exact R.
    - inversion Hrest as [|? ? Hd Hrest']; subst.
      cbn [mk_prefixes] in H. change (([] :: A ++ c :: x) ++ [d]) with ([] :: ((A ++ c :: x) ++ [d])) in H.
      assert (Ed : beq d [] = false).
      { destruct Hd as [Hp _]. pose proof (proper_not_skip d Hp) as E. apply orb_false_iff in E as [E _]. exact E. }
      rewrite Ed in H. rewrite join_render in H by (destruct (A ++ c :: x); discriminate).
      assert (Enext : (A ++ c :: x) ++ [d] = A ++ c :: (x ++ [d])) by (rewrite <- app_assoc; reflexivity).
      assert (Hxd : Forall okseg (x ++ [d])) by (apply Forall_app; split; [exact Hx|constructor; auto]).
      destruct (kstat fs (render true ((A ++ c :: x) ++ [d]))) as [[| |]|].
      + rewrite Enext in H. eapply IH; eauto.
      + injection H as <- _. exact R.
      + injection H as <- _. exact R.
      + destruct (kmkdir fs (render true ((A ++ c :: x) ++ [d]))) as [fs2|] eqn:Hm.
        * rewrite Enext in H. eapply IH; [| | |exact H]; auto.
          eapply Reg_mkdir; [exact R|exact Hx|exact Hd|]. rewrite <- Enext. rewrite <- app_assoc in Hm |- *. exact Hm.
        * injection H as <- _. exact R.
  Qed.

  Lemma mkp_phase2 rest fs' ok :
    Forall okseg rest ->
    mk_prefixes fs0 ([] :: A) (c :: rest) = (fs', ok) ->
    (fs' = fs0 /\ ok = false) \/ Reg fs'.
  Proof.
    intros Hrest H. cbn [mk_prefixes] in H. change (([] :: A) ++ [c]) with ([] :: (A ++ [c])) in H.
    assert (Ec : beq c [] = false).
    { destruct Hc as [Hp _]. pose proof (proper_not_skip c Hp) as E. apply orb_false_iff in E as [E _]. exact E. }
    rewrite Ec in H. rewrite join_render in H by (destruct A; discriminate).
    rewrite (klstat_none_kstat_none fs0 A c W0 HAc Hnone) in H.
    destruct (kmkdir fs0 (render true (A ++ [c]))) as [fs1|] eqn:Hm; [|left; injection H as <- <-; auto].
    right. unfold kmkdir in Hm.
    destruct (kcreate_at fs0 (render true (A ++ [c]))) as [p|] eqn:Hcr; [|discriminate].
    destruct (lookup fs0 p) eqn:Hp; [discriminate|]. injection Hm as <-.
    destruct (kcreate_at_render _ _ _ _ HAc Hcr) as (pp & Hw & Hpp & -> & _).
    pose proof (resolve_A fs0 pp (fs_le_refl _) Hw) as ->. fold F in Hp, H.
    assert (R1 : Reg (fs_set fs0 F NDir)).
    { split.
      - intros q n Hq. rewrite lookup_set_other; [exact Hq|]. intros ->. congruence.
      - apply WF_set; [exact W0|exact Hpp|exact Hc|left; exact Hp].
      - intros q Hq. apply lookup_set_other. intros ->. rewrite seg_prefix_refl in Hq. discriminate.
      - intros y. destruct y as [|y0 yr].
        + rewrite app_nil_r. right. apply lookup_set_same. unfold F. destruct r; discriminate.
        + left. rewrite lookup_set_other.
          * apply WF_below_none; [exact W0|exact Hp].
          * intros E. rewrite <- (app_nil_r F) in E at 2. apply app_inv_head in E. discriminate.
      - exact Hp. }
    eapply (mkp_phase3 rest [] _ _ _ R1); [constructor|exact Hrest|exact H].
  Qed.
End Track.

(* ------------------------------------------------------------------ strings vs segments *)
Lemma render_inj l1 l2 : Forall okseg l1 -> Forall okseg l2 -> render true l1 = render true l2 -> l1 = l2.
Proof.
  intros H1 H2 E.
  rewrite <- (csegs_render_true l1 (okseg_proper _ H1) (okseg_noslash _ H1)).
  rewrite <- (csegs_render_true l2 (okseg_proper _ H2) (okseg_noslash _ H2)). rewrite E. reflexivity.
Qed.

Lemma clean_render_true l : Forall okseg l -> clean (render true l) = render true l.
Proof.
  intros H. rewrite clean_render. change (is_abs (render true l)) with true.
  rewrite csegs_render_true; [reflexivity|apply okseg_proper; exact H|apply okseg_noslash; exact H].
Qed.

Lemma prefix_seg_eq : forall x d R R', noslash x -> noslash d ->
  has_prefix (x ++ SL :: R) (d ++ SL :: R') = true -> x = d /\ has_prefix R R' = true.
Proof.
  induction x as [|a x IH]; intros d R R' Hx Hd H.
  - destruct d as [|b d].
    + cbn [app has_prefix] in H. rewrite N.eqb_refl in H. cbn [andb] in H. auto.
    + cbn [app has_prefix] in H. apply andb_true_iff in H as [H _]. apply N.eqb_eq in H. subst b.
      exfalso. apply Hd. left. reflexivity.
  - destruct d as [|b d].
    + cbn [app has_prefix] in H. apply andb_true_iff in H as [H _]. apply N.eqb_eq in H. subst a.
      exfalso. apply Hx. left. reflexivity.
    + cbn [app has_prefix] in H. apply andb_true_iff in H as [H1 H2]. apply N.eqb_eq in H1. subst b.
      apply IH in H2 as [-> H2]; [auto| |]; intros Hin; [apply Hx|apply Hd]; right; exact Hin.
Qed.

Lemma has_prefix_noslash_end x d : noslash x -> has_prefix x (d ++ [SL]) = false.
Proof.
  revert d. induction x as [|a x IH]; intros d Hx.
  - destruct d; reflexivity.
  - destruct d as [|b d].
    + cbn. destruct (a =? SL) eqn:E; [|reflexivity]. apply N.eqb_eq in E. subst. exfalso. apply Hx. left. reflexivity.
    + cbn [app has_prefix]. rewrite IH; [apply andb_false_r|]. intros Hin. apply Hx. right. exact Hin.
Qed.

Lemma has_prefix_in : forall p s b, has_prefix s p = true -> In b p -> In b s.
Proof.
  induction p as [|y p IH]; intros s b H Hin; [destruct Hin|].
  destruct s as [|x s]; [discriminate|]. cbn [has_prefix] in H. apply andb_true_iff in H as [H1 H2].
  apply N.eqb_eq in H1. subst y. destruct Hin as [<-|Hin]; [left; reflexivity|right; eapply IH; eauto].
Qed.

Lemma join_prefix_segs : forall ds q, ds <> [] -> Forall okseg ds -> Forall okseg q ->
  has_prefix (join_slash q) (join_slash ds ++ [SL]) = true -> seg_prefix ds q = true.
Proof.
  induction ds as [|d ds IH]; intros q Hne Hds Hq H; [contradiction|].
  inversion Hds as [|? ? [Hdp Hdn] Hds']; subst.
  destruct q as [|x q].
  - exfalso. change (join_slash []) with (@nil N) in H. destruct (join_slash (d :: ds) ++ [SL]) as [|b t] eqn:E.
    + apply app_eq_nil in E as [_ E]. discriminate.
    + cbn in H. discriminate.
  - inversion Hq as [|? ? [Hxp Hxn] Hq']; subst.
    destruct q as [|y q].
    + exfalso. cbn [join_slash] in H. apply Hxn. eapply has_prefix_in; [exact H|].
      apply in_or_app. right. left. reflexivity.
    + change (join_slash (x :: y :: q)) with (x ++ SL :: join_slash (y :: q)) in H.
      destruct ds as [|d2 ds].
      * cbn [join_slash] in H. change (d ++ [SL]) with (d ++ SL :: []) in H.
        apply prefix_seg_eq in H as [-> _]; [|exact Hxn|exact Hdn]. cbn [seg_prefix]. rewrite beq_refl. reflexivity.
      * change (join_slash (d :: d2 :: ds)) with (d ++ SL :: join_slash (d2 :: ds)) in H.
        rewrite <- app_assoc in H. cbn [app] in H.
        apply prefix_seg_eq in H as [-> H]; [|exact Hxn|exact Hdn].
        change (seg_prefix (d :: d2 :: ds) (d :: y :: q)) with (beq d d && seg_prefix (d2 :: ds) (y :: q)).
        rewrite beq_refl. cbn [andb]. apply IH; [discriminate|exact Hds'|exact Hq'|exact H].
Qed.

Lemma trim_suffix_slash_snoc s x : trim_suffix_slash (s ++ [x]) = if x =? SL then s else s ++ [x].
Proof. unfold trim_suffix_slash. rewrite rev_unit. destruct (x =? SL); [apply rev_involutive|reflexivity]. Qed.

Lemma join_last_byte : forall l, l <> [] -> Forall okseg l -> exists s x, join_slash l = s ++ [x] /\ x <> SL.
Proof.
  induction l as [|d l IH]; intros Hne Hl; [contradiction|]. inversion Hl as [|? ? [Hdp Hdn] Hl']; subst.
  destruct l as [|d2 l].
  - cbn. destruct (exists_last (proper_nonempty d Hdp)) as (s & x & ->). exists s, x. split; [reflexivity|].
    intros ->. apply Hdn. apply in_or_app. right. left. reflexivity.
  - destruct (IH ltac:(discriminate) Hl') as (s & x & E & Hx).
    change (join_slash (d :: d2 :: l)) with (d ++ SL :: join_slash (d2 :: l)). rewrite E.
    exists (d ++ SL :: s), x. split; [rewrite <- app_assoc; reflexivity|exact Hx].
Qed.

Lemma str_inside_render ds q : Forall okseg ds -> Forall okseg q ->
  str_inside (render true q) (render true ds) = true -> seg_prefix ds q = true.
Proof.
  intros Hds Hq H. unfold str_inside in H. apply orb_true_iff in H as [H|H].
  - apply beq_eq in H. apply render_inj in H; auto. subst. apply seg_prefix_refl.
  - destruct ds as [|d ds]; [reflexivity|].
    destruct (join_last_byte (d :: ds) ltac:(discriminate) Hds) as (s & x & E & Hx).
    unfold render in H. rewrite E in H.
    change (SL :: s ++ [x]) with ((SL :: s) ++ [x]) in H. rewrite trim_suffix_slash_snoc in H.
    apply N.eqb_neq in Hx. rewrite Hx in H. cbn [app has_prefix] in H. rewrite N.eqb_refl in H. cbn [andb] in H.
    rewrite <- E in H. apply join_prefix_segs; auto. discriminate.
Qed.

Lemma eval_symlinks_render fs l : Forall okseg l ->
  eval_symlinks fs (render true l) =
  match walk GO_LINKS true fs true [] l with Some p => Some (render true p) | None => None end.
Proof.
  intros Hl. unfold eval_symlinks. change (is_abs (render true l)) with true. cbn [negb].
  rewrite split_render_true by (apply okseg_noslash; exact Hl). rewrite walk_skip_empty.
  destruct l; [rewrite walk_skip_empty|]; reflexivity.
Qed.

Lemma render_len l : (length l <= length (render true l))%nat.
Proof.
  unfold render. cbn [length]. induction l as [|x l IH]; [cbn; lia|].
  destruct l as [|y l]; [cbn; lia|].
  change (join_slash (x :: y :: l)) with (x ++ SL :: join_slash (y :: l)). rewrite app_length. cbn [length] in *. lia.
Qed.

(* ------------------------------------------------------------------ the ancestor loop *)
Lemma existing_ancestor_spec fs ds : Forall okseg ds -> forall m n,
  Forall okseg m -> (length m < n)%nat ->
  exists m1 m2, m = m1 ++ m2 /\
    existing_ancestor n fs (render true ds) (render true (ds ++ m)) = render true (ds ++ m1) /\
    (m1 <> [] -> is_some (klstat fs (render true (ds ++ m1))) = true) /\
    (forall c m2', m2 = c :: m2' -> klstat fs (render true ((ds ++ m1) ++ [c])) = None).
Proof.
  intros Hds m. induction m as [|x m IH] using rev_ind; intros n Hm Hn.
  - exists [], []. destruct n as [|n]; [lia|]. cbn [existing_ancestor]. rewrite !app_nil_r, beq_refl.
    repeat split; try reflexivity; [intros H; contradiction|intros c m2' E; discriminate].
  - apply Forall_app in Hm as [Hm Hx]. destruct n as [|n]; [lia|]. cbn [existing_ancestor].
    assert (Hall : Forall okseg (ds ++ m ++ [x])) by (repeat (apply Forall_app; split); auto).
    assert (Eb : beq (render true (ds ++ m ++ [x])) (render true ds) = false).
    { apply beq_false. intros E. apply render_inj in E; auto.
      rewrite <- (app_nil_r ds) in E at 2. apply app_inv_head in E. destruct m; discriminate. }
    rewrite Eb. destruct (is_some (klstat fs (render true (ds ++ m ++ [x])))) eqn:Ek.
    + exists (m ++ [x]), []. rewrite app_nil_r. repeat split; auto. intros c m2' E; discriminate.
    + assert (Hall' : Forall okseg ((ds ++ m) ++ [x])) by (rewrite <- app_assoc; exact Hall).
      rewrite app_assoc. rewrite dir_of_render_true; [|apply okseg_proper; exact Hall'|apply okseg_noslash; exact Hall'].
      rewrite app_length in Hn. cbn in Hn.
      destruct (IH n Hm ltac:(lia)) as (m1 & m2 & E & Ha & H1 & H2).
      exists m1, (m2 ++ [x]). split; [rewrite E, <- app_assoc; reflexivity|]. split; [exact Ha|]. split; [exact H1|].
      intros c m2' E2. destruct m2 as [|c0 m2].
      * cbn in E2. injection E2 as <- <-. rewrite app_nil_r in E. subst m1.
        rewrite <- app_assoc. destruct (klstat fs (render true (ds ++ m ++ [x]))); [discriminate|reflexivity].
      * cbn in E2. injection E2 as <- <-. eapply H2. reflexivity.
Qed.

(* ------------------------------------------------------------------ one entry, full strength *)
Lemma klstat_le a b s n : fs_le a b -> klstat a s = Some n -> klstat b s = Some n.
Proof.
  intros Hle H. unfold klstat, kwalk in *.
  destruct (negb (is_abs s)); [discriminate|]. destruct (PATH_MAX1 <? blen s); [discriminate|].
  destruct (walk KERNEL_LINKS false a false [] (split_slash s)) as [p|] eqn:E; [|discriminate].
  rewrite (walk_sub _ _ _ _ Hle _ _ _ _ E). apply Hle. exact H.
Qed.

Lemma phys_dir_le a b ds : fs_le a b -> phys_dir a [] ds = true -> phys_dir b [] ds = true.
Proof.
  intros Hle H. assert (G : forall rest pre, phys_dir a pre rest = true -> phys_dir b pre rest = true).
  { induction rest as [|c rest IH]; intros pre Hp; cbn in *; [reflexivity|].
    destruct (lookup a (pre ++ [c])) as [[| |]|] eqn:E; try discriminate.
    rewrite (Hle _ _ E). apply IH. exact Hp. }
  apply G. exact H.
Qed.

Lemma seg_prefix_false_trans d r p : seg_prefix d r = true -> seg_prefix d p = false -> seg_prefix r p = false.
Proof.
  intros H1 H2. destruct (seg_prefix r p) eqn:E; [|reflexivity].
  rewrite (seg_prefix_trans _ _ _ H1 E) in H2. discriminate.
Qed.

Lemma join_slash_app l x : l <> [] -> x <> [] -> join_slash (l ++ x) = join_slash l ++ SL :: join_slash x.
Proof.
  induction l as [|a l IH]; intros Hl Hx; [contradiction|].
  destruct l as [|b l].
  - cbn [app]. destruct x; [contradiction|reflexivity].
  - change ((a :: b :: l) ++ x) with (a :: (b :: l) ++ x).
    change (join_slash (a :: (b :: l) ++ x)) with (a ++ SL :: join_slash ((b :: l) ++ x)).
    rewrite IH by (try discriminate; exact Hx).
    change (join_slash (a :: b :: l)) with (a ++ SL :: join_slash (b :: l)). rewrite <- app_assoc. reflexivity.
Qed.

Lemma render_len_app l x : l <> [] -> (length (render true l) <= length (render true (l ++ x)))%nat.
Proof.
  intros Hl. destruct x as [|x0 x]; [rewrite app_nil_r; lia|].
  unfold render. rewrite join_slash_app by (auto; discriminate). cbn [length]. rewrite app_length. lia.
Qed.

Section Guarded.
  Variables (fs : fsmap) (A : list seg) (r : path) (m2 : list seg).
  Hypothesis W0 : WF fs.
  Hypothesis HA : Forall okseg A.
  Hypothesis Hm2 : Forall okseg m2.
  Hypothesis Hr : walk GO_LINKS true fs true [] A = Some r.
  Hypothesis Hmiss : forall c m2', m2 = c :: m2' -> klstat fs (render true (A ++ [c])) = None.

  Definition after_mkdir (fs1 : fsmap) : Prop :=
    fs1 = fs \/ (exists c m2', m2 = c :: m2' /\ Reg fs r c fs1).

  Lemma guarded_mkdir fs1 ok : mkdir_all fs (render true (A ++ m2)) = (fs1, ok) -> after_mkdir fs1.
  Proof.
    intros H. destruct (A ++ m2) as [|x0 l0] eqn:EL.
    - change (render true []) with [SL] in H. rewrite mkdir_all_root in H. injection H as <- _. left. reflexivity.
    - rewrite <- EL in *. assert (Hne : A ++ m2 <> []) by (rewrite EL; discriminate). clear EL x0 l0.
      unfold mkdir_all in H. change (is_abs (render true (A ++ m2))) with true in H. cbn [negb] in H.
      rewrite split_render_ne in H; [|apply okseg_noslash; apply Forall_app; auto|exact Hne]. cbn [tl] in H.
      change [[]] with ([] :: (@nil seg)) in H.
      apply (mkp_phase1 fs A r HA Hr m2 A [] []) in H; [|rewrite app_nil_r; reflexivity].
      destruct H as [[-> _]|H]; [left; reflexivity|].
      cbn [app] in H. destruct m2 as [|c m2'] eqn:Em.
      + cbn in H. injection H as <- _. left. reflexivity.
      + inversion Hm2 as [|? ? Hc Hm2']; subst.
        apply (mkp_phase2 fs A r W0 HA Hr c Hc (Hmiss c m2' eq_refl)) in H; [|exact Hm2'].
        destruct H as [[-> _]|R]; [left; reflexivity|].
        right. exists c, m2'. auto.
  Qed.

  Lemma after_mkdir_facts fs1 ds : seg_prefix ds r = true -> after_mkdir fs1 ->
    WF fs1 /\ fs_le fs fs1 /\ (forall p, seg_prefix ds p = false -> lookup fs1 p = lookup fs p) /\
    (forall p t, lookup fs1 p = Some (NLink t) -> lookup fs p = Some (NLink t)).
  Proof.
    intros Hin [->|(c & m2' & _ & R)].
    - split; [exact W0|]. split; [apply fs_le_refl|]. split; [reflexivity|auto].
    - split; [exact (reg_wf _ _ _ _ R)|]. split; [exact (reg_le _ _ _ _ R)|]. split.
      + intros p Hp. apply (reg_only _ _ _ _ R). eapply seg_prefix_false_trans; [|exact Hp].
        apply seg_prefix_app_r. exact Hin.
      + intros p t Hl. destruct (seg_prefix (r ++ [c]) p) eqn:E.
        * apply seg_prefix_spec in E as [y ->]. destruct (reg_dirs _ _ _ _ R y) as [H|H]; congruence.
        * rewrite <- (reg_only _ _ _ _ R p E). exact Hl.
  Qed.

  Lemma create_loc fs1 last p :
    okseg last -> after_mkdir fs1 ->
    klstat fs (render true ((A ++ m2) ++ [last])) = None ->
    kcreate_at fs1 (render true ((A ++ m2) ++ [last])) = Some p ->
    exists pp, p = pp ++ [last] /\ lookup fs1 pp = Some NDir /\ seg_prefix r p = true /\
               (lookup fs1 p = None \/ lookup fs1 p = Some NDir) /\ pp = r ++ m2.
  Proof.
    intros Hl Haf Hlst Hc.
    assert (Hok : Forall okseg ((A ++ m2) ++ [last])).
    { apply Forall_app. split; [apply Forall_app; auto|constructor; auto]. }
    destruct (kcreate_at_render _ _ _ _ Hok Hc) as (pp & Hw & Hpp & -> & Hnm & Hpm).
    exists pp. split; [reflexivity|]. split; [exact Hpp|].
    destruct Haf as [->|(c & m2' & Em & R)].
    - destruct m2 as [|c m2'] eqn:Em.
      + rewrite app_nil_r in *.
        pose proof (resolve_A fs A r Hr fs pp (fs_le_refl _) Hw) as ->.
        split; [apply seg_prefix_app|]. split; [left; eapply create_fresh; eauto|reflexivity].
      + (* MkdirAll gave up before creating anything although a component is missing: then the parent
           of the new entry cannot be resolved *)
        exfalso. inversion Hm2 as [|? ? [Hcp Hcn] Hm2']; subst.
        unfold kw in Hw. apply walk_split in Hw as (pa & H1 & H2); [|discriminate].
        pose proof (resolve_A fs A r Hr fs pa (fs_le_refl _) H1) as ->.
        rewrite walk_cons in H2. unfold walk_cons_rhs in H2.
        rewrite (proper_not_skip c Hcp), (proper_not_dotdot c Hcp) in H2.
        destruct (NAME_MAX <? blen c) eqn:Enc; [discriminate|]. cbn zeta in H2. cbn [andb] in H2.
        destruct (lookup fs (r ++ [c])) as [x|] eqn:Ex; [|discriminate].
        pose proof (Hmiss c m2' eq_refl) as Hk.
        assert (HAc : Forall okseg (A ++ [c])) by (apply Forall_app; split; [exact HA|constructor; [split; auto|constructor]]).
        rewrite klstat_render in Hk by exact HAc.
        assert (Hpm' : (PATH_MAX1 <? blen (render true (A ++ [c]))) = false).
        { apply N.ltb_ge. apply N.ltb_ge in Hpm. unfold blen in *.
          assert (Hlen : (length (render true (A ++ [c])) <= length (render true ((A ++ c :: m2') ++ [last])))%nat).
          { replace ((A ++ c :: m2') ++ [last]) with ((A ++ [c]) ++ (m2' ++ [last])) by (rewrite <- !app_assoc; reflexivity).
            apply render_len_app. destruct A; discriminate. }
          lia. }
        rewrite Hpm' in Hk.
        pose proof (wf_tree fs W0 _ _ _ Ex) as Hrd.
        rewrite (walk_compose_nofollow _ _ _ Hcp _ _ _ _ H1 Hrd) in Hk.
        rewrite walk_single_nofollow in Hk by exact Hcp. rewrite Enc, Ex in Hk. cbn [andb] in Hk. congruence.
    - subst m2. unfold kw in Hw. apply walk_split in Hw as (pa & H1 & H2); [|discriminate].
      pose proof (resolve_A fs A r Hr fs1 pa (reg_le _ _ _ _ R) H1) as ->.
      inversion Hm2 as [|? ? [Hcp Hcn] Hm2']; subst.
      rewrite walk_cons in H2. unfold walk_cons_rhs in H2.
      rewrite (proper_not_skip c Hcp), (proper_not_dotdot c Hcp) in H2.
      destruct (NAME_MAX <? blen c); [discriminate|]. cbn zeta in H2. cbn [andb] in H2.
      pose proof (reg_dirs _ _ _ _ R) as HR.
      destruct (HR []) as [E|E]; rewrite app_nil_r in E; rewrite E in H2; [discriminate|].
      rewrite <- (app_nil_r (r ++ [c])) in H2.
      apply (walk_in_region _ _ _ (r ++ [c]) HR) in H2; [|apply okseg_proper; exact Hm2'].
      subst pp. cbn [app]. split; [|split].
      + rewrite <- !app_assoc. apply seg_prefix_app.
      + rewrite <- app_assoc. apply HR.
      + rewrite <- app_assoc. reflexivity.
  Qed.
End Guarded.

Section Full.
  Variable cfg : ucfg.
  Variable req : bytes -> bool.
  Hypothesis dir_ok : clean_abs (u_dir cfg).
  Let ds := csegs (u_dir cfg).

  Definition INV (fs : fsmap) : Prop :=
    WF fs /\ phys_dir fs [] ds = true /\ is_some (klstat fs (u_dir cfg)) = true /\
    is_some (eval_symlinks fs (u_dir cfg)) = true.

  Lemma ds_ok : Forall okseg ds.
  Proof.
    destruct (clean_abs_render _ dir_ok) as (_ & Hp & Hn). fold ds in Hp, Hn.
    apply Forall_forall. intros x Hx. rewrite Forall_forall in Hp, Hn. split; auto.
  Qed.

  Lemma dir_render : u_dir cfg = render true ds.
  Proof. destruct (clean_abs_render _ dir_ok) as (E & _). exact E. Qed.

  Lemma INV_le a b : fs_le a b -> WF b -> INV a -> INV b.
  Proof.
    intros Hle Wb (_ & Hp & Hk & He). split; [exact Wb|]. split; [eapply phys_dir_le; eauto|]. split.
    - destruct (klstat a (u_dir cfg)) eqn:E; [|discriminate]. rewrite (klstat_le _ _ _ _ Hle E). reflexivity.
    - unfold eval_symlinks in *. destruct (negb (is_abs (u_dir cfg))); [discriminate|].
      destruct (walk GO_LINKS true a true [] (split_slash (u_dir cfg))) eqn:E; [|discriminate].
      rewrite (walk_sub _ _ _ _ Hle _ _ _ _ E). reflexivity.
  Qed.

  Lemma guard_setup fs cs :
    INV fs -> Forall okseg cs ->
    klstat fs (render true (ds ++ cs)) = None ->
    path_outside_base fs (u_dir cfg) (render true (ds ++ cs)) = false ->
    exists m last m1 m2 r, cs = (m1 ++ m2) ++ [last] /\ m = m1 ++ m2 /\
      walk GO_LINKS true fs true [] (ds ++ m1) = Some r /\ seg_prefix ds r = true /\
      (forall c m2', m2 = c :: m2' -> klstat fs (render true ((ds ++ m1) ++ [c])) = None).
  Proof.
    intros (W & Hphys & Hex & Hev) Hcs Hlst Hpob. pose proof ds_ok as Hds.
    destruct cs as [|c0 cs0] eqn:Ecs.
    { rewrite app_nil_r, <- dir_render in Hlst. rewrite Hlst in Hex. discriminate. }
    rewrite <- Ecs in *. assert (Hne : cs <> []) by (rewrite Ecs; discriminate). clear Ecs c0 cs0.
    destruct (exists_last Hne) as (m & last & ->). apply Forall_app in Hcs as [Hm Hlast].
    unfold path_outside_base in Hpob.
    destruct dir_ok as [_ Hclean]. rewrite Hclean, dir_render in Hpob.
    assert (Hall : Forall okseg ((ds ++ m) ++ [last])) by (repeat (apply Forall_app; split); auto).
    rewrite (app_assoc ds m [last]) in Hpob.
    rewrite dir_of_render_true in Hpob; [|apply okseg_proper; exact Hall|apply okseg_noslash; exact Hall].
    assert (Hfuel : (length m < S (length (render true ((ds ++ m) ++ [last]))))%nat).
    { pose proof (render_len ((ds ++ m) ++ [last])) as Hl.
      assert (El : length ((ds ++ m) ++ [last]) = (length ds + length m + 1)%nat) by (rewrite !app_length; reflexivity). lia. }
    destruct (existing_ancestor_spec fs ds Hds m _ Hm Hfuel) as (m1 & m2 & Em & Ha & Hex1 & Hmiss).
    rewrite Ha in Hpob.
    assert (Hm1 : Forall okseg (ds ++ m1)).
    { rewrite Em in Hm. apply Forall_app in Hm as [Hm1 _]. apply Forall_app. auto. }
    destruct (negb (is_some (klstat fs (render true (ds ++ m1)))) && beq (render true (ds ++ m1)) (render true ds)) eqn:Eb.
    { exfalso. apply andb_true_iff in Eb as [E1 E2]. apply beq_eq in E2. apply render_inj in E2; auto.
      rewrite <- (app_nil_r ds) in E2 at 2. apply app_inv_head in E2. subst m1.
      rewrite app_nil_r, <- dir_render in E1. rewrite Hex in E1. discriminate. }
    rewrite eval_symlinks_render in Hpob by exact Hm1.
    destruct (walk GO_LINKS true fs true [] (ds ++ m1)) as [rr|] eqn:Hw; [|discriminate].
    apply negb_false_iff in Hpob.
    assert (Hrr : Forall okseg rr) by (eapply walk_good; [exact W|constructor|exact Hw]).
    rewrite clean_render_true in Hpob by exact Hrr.
    exists m, last, m1, m2, rr. rewrite <- Em. repeat split; auto.
    apply str_inside_render; auto.
  Qed.

  Lemma set_fresh fs pp c n :
    WF fs -> lookup fs pp = Some NDir -> okseg c -> lookup fs (pp ++ [c]) = None ->
    seg_prefix ds (pp ++ [c]) = true ->
    WF (fs_set fs (pp ++ [c]) n) /\ fs_le fs (fs_set fs (pp ++ [c]) n) /\ Only ds fs (fs_set fs (pp ++ [c]) n).
  Proof.
    intros W Hpp Hc Hf Hin. split; [apply WF_set; auto|]. split.
    - intros q x Hq. rewrite lookup_set_other; [exact Hq|]. intros ->. congruence.
    - intros q Hq. apply lookup_set_other. intros ->. congruence.
  Qed.

  (* the link an entry may add: where it physically ends up and what it stores *)
  Definition stored (e : entry) : bytes :=
    if is_abs (e_link e) then join2 (u_dir cfg) (e_link e) else e_link e.

  Definition NewLink (fs : fsmap) (e : entry) (p : path) (t : bytes) : Prop :=
    is_link_entry e = true /\
    (beq (clean (e_name e)) s_dotdot || has_prefix (clean (e_name e)) DDS) = false /\
    target_outside_root (u_marker cfg) (clean (e_name e)) (e_link e) = false /\ t = stored e /\
    exists cs m1 m2 last r, Forall okseg cs /\ join2 (u_dir cfg) (clean (e_name e)) = render true (ds ++ cs) /\
      cs = (m1 ++ m2) ++ [last] /\ walk GO_LINKS true fs true [] (ds ++ m1) = Some r /\ p = (r ++ m2) ++ [last].

  Definition NL (fs fs' : fsmap) (e : entry) : Prop :=
    forall p t, lookup fs' p = Some (NLink t) -> lookup fs p = Some (NLink t) \/ NewLink fs e p t.

  Lemma unpack_entry_full final fs tg e st' err :
    INV fs -> unpack_entry cfg req final (fs, tg) e = (st', err) ->
    INV (fst st') /\ Only ds fs (fst st') /\ fs_le fs (fst st') /\ NL fs (fst st') e.
  Proof.
    intros HI H. pose proof ds_ok as Hds.
    assert (Hsame : INV fs /\ Only ds fs fs /\ fs_le fs fs /\ NL fs fs e).
    { split; [exact HI|]. split; [apply Only_refl|]. split; [apply fs_le_refl|]. intros p t Hl. left. exact Hl. }
    unfold unpack_entry in H. cbn zeta in H.
    destruct (u_max cfg <? e_size e)%Z; [injection H as <- _; exact Hsame|].
    destruct (beq (clean (e_name e)) s_dotdot || has_prefix (clean (e_name e)) DDS) eqn:Hskip;
      [injection H as <- _; exact Hsame|].
    destruct (full_path_zone cfg dir_ok (e_name e) Hskip) as (cs & Hcp & Hcn & Hfull). fold ds in Hcn, Hfull.
    pose proof Hfull as Hfull0. rewrite Hfull in H.
    assert (Hcs : Forall okseg cs).
    { apply Forall_app in Hcn as [_ Hcn]. apply Forall_forall. intros x Hx. rewrite Forall_forall in Hcp, Hcn. split; auto. }
    destruct (klstat fs (render true (ds ++ cs))) eqn:Hlst; [injection H as <- _; exact Hsame|]. cbn [is_some] in H.
    destruct (negb (required req tg (render true (ds ++ cs)) (clean (e_name e)))); [injection H as <- _; exact Hsame|].
    destruct (path_outside_base fs (u_dir cfg) (render true (ds ++ cs))) eqn:Hpob; [injection H as <- _; exact Hsame|].
    destruct (guard_setup fs cs HI Hcs Hlst Hpob) as (m & last & m1 & m2 & r & Ecs & Em & Hr & Hin & Hmiss).
    destruct HI as (W & Hphys & Hex & Hev).
    assert (Hm12 : Forall okseg (m1 ++ m2) /\ okseg last).
    { rewrite Ecs in Hcs. apply Forall_app in Hcs as [H1 H2]. inversion H2; subst. auto. }
    destruct Hm12 as [Hm12 Hlast]. apply Forall_app in Hm12 as [Hm1 Hm2].
    assert (HA : Forall okseg (ds ++ m1)) by (apply Forall_app; auto).
    assert (Edir : dir_of (render true (ds ++ cs)) = render true ((ds ++ m1) ++ m2)).
    { rewrite Ecs. rewrite (app_assoc ds). rewrite dir_of_render_true.
      - rewrite <- !app_assoc. reflexivity.
      - apply okseg_proper. repeat (apply Forall_app; split); auto.
      - apply okseg_noslash. repeat (apply Forall_app; split); auto. }
    assert (Efull : render true (ds ++ cs) = render true (((ds ++ m1) ++ m2) ++ [last])).
    { rewrite Ecs, <- !app_assoc. reflexivity. }
    rewrite Edir in H. rewrite Efull in H, Hlst.
    assert (Hmk : forall fs1, after_mkdir fs r m2 fs1 -> INV fs1 /\ Only ds fs fs1 /\ fs_le fs fs1 /\ NL fs fs1 e).
    { intros fs1 Haf.
      destruct (after_mkdir_facts fs r m2 W fs1 ds Hin Haf) as (W1 & Hle1 & Ho1 & Hl1).
      split; [|split; [exact Ho1|split; [exact Hle1|]]].
      - apply (INV_le fs); auto. split; [exact W|split; [exact Hphys|split; [exact Hex|exact Hev]]].
      - intros p t Hl. left. apply Hl1. exact Hl. }
    assert (Hfin : forall fs1 p, after_mkdir fs r m2 fs1 ->
              kcreate_at fs1 (render true (((ds ++ m1) ++ m2) ++ [last])) = Some p ->
              forall n, lookup fs1 p = None ->
              (forall t, n = NLink t -> NewLink fs e p t) ->
              INV (fs_set fs1 p n) /\ Only ds fs (fs_set fs1 p n) /\ fs_le fs (fs_set fs1 p n) /\ NL fs (fs_set fs1 p n) e).
    { intros fs1 p Haf Hc n Hnone Hnew.
      destruct (after_mkdir_facts fs r m2 W fs1 ds Hin Haf) as (W1 & Hle1 & Ho1 & Hl1).
      destruct (create_loc fs (ds ++ m1) r m2 W HA Hm2 Hr Hmiss fs1 last p Hlast Haf Hlst Hc) as (pp & -> & Hpp & Hinp & _ & _).
      destruct (set_fresh fs1 pp last n W1 Hpp Hlast Hnone (seg_prefix_trans _ _ _ Hin Hinp)) as (W2 & Hle2 & Ho2).
      split; [|split; [|split]].
      - apply (INV_le fs); [eapply fs_le_trans; eauto|exact W2|split; [exact W|split; [exact Hphys|split; [exact Hex|exact Hev]]]].
      - intros q Hq. rewrite (Ho2 q Hq). apply Ho1. exact Hq.
      - eapply fs_le_trans; eauto.
      - intros q t Hl. destruct (segs_eqb q (pp ++ [last])) eqn:E.
        + apply segs_eqb_eq in E. subst q. rewrite lookup_set_same in Hl by (destruct pp; discriminate).
          injection Hl as ->. right. apply Hnew. reflexivity.
        + apply segs_eqb_false in E. rewrite lookup_set_other in Hl by exact E. left. apply Hl1. exact Hl. }
    assert (Hlink : forall fs1 ok st2 err2, is_link_entry e = true ->
              target_outside_root (u_marker cfg) (clean (e_name e)) (e_link e) = false ->
              mkdir_all fs (render true ((ds ++ m1) ++ m2)) = (fs1, ok) ->
              (match ksymlink fs1 (stored e) (render true (((ds ++ m1) ++ m2) ++ [last])) with
               | Some fs2 => ((fs2, st2), false)
               | None => ((fs1, st2), err2)
               end) = (st', err) ->
              INV (fst st') /\ Only ds fs (fst st') /\ fs_le fs (fst st') /\ NL fs (fst st') e).
    { intros fs1 ok st2 err2 Hle Htor Hm Hk.
      pose proof (guarded_mkdir fs (ds ++ m1) r m2 W HA Hm2 Hr Hmiss fs1 ok Hm) as Haf.
      destruct (ksymlink fs1 (stored e) (render true (((ds ++ m1) ++ m2) ++ [last]))) as [fs2|] eqn:Hks;
        [|injection Hk as <- _; exact (Hmk _ Haf)].
      injection Hk as <- _. cbn [fst]. unfold ksymlink in Hks.
      match type of Hks with (if ?c then _ else _) = _ => destruct c; [discriminate|] end.
      destruct (kcreate_at fs1 (render true (((ds ++ m1) ++ m2) ++ [last]))) as [p|] eqn:Hc; [|discriminate].
      destruct (lookup fs1 p) eqn:Hn; [discriminate|]. injection Hks as <-. eapply Hfin; eauto.
      intros t [= <-].
      destruct (create_loc fs (ds ++ m1) r m2 W HA Hm2 Hr Hmiss fs1 last p Hlast Haf Hlst Hc) as (pp & Ep & _ & _ & _ & Epp).
      split; [exact Hle|]. split; [exact Hskip|]. split; [exact Htor|]. split; [reflexivity|].
      exists cs, m1, m2, last, r. split; [exact Hcs|]. split; [exact Hfull0|]. split; [exact Ecs|]. split; [exact Hr|].
      rewrite Ep, Epp. reflexivity. }
    assert (Hwrite : forall fs1 ok cid sz st2 err2,
              mkdir_all fs (render true ((ds ++ m1) ++ m2)) = (fs1, ok) ->
              (match kwrite fs1 (render true (((ds ++ m1) ++ m2) ++ [last])) cid sz with
               | Some fs2 => ((fs2, st2), false)
               | None => ((fs1, st2), err2)
               end) = (st', err) ->
              INV (fst st') /\ Only ds fs (fst st') /\ fs_le fs (fst st') /\ NL fs (fst st') e).
    { intros fs1 ok cid sz st2 err2 Hm Hk.
      pose proof (guarded_mkdir fs (ds ++ m1) r m2 W HA Hm2 Hr Hmiss fs1 ok Hm) as Haf.
      destruct (kwrite fs1 (render true (((ds ++ m1) ++ m2) ++ [last])) cid sz) as [fs2|] eqn:Hw;
        [|injection Hk as <- _; exact (Hmk _ Haf)].
      injection Hk as <- _. cbn [fst]. unfold kwrite in Hw.
      destruct (kcreate_at fs1 (render true (((ds ++ m1) ++ m2) ++ [last]))) as [p|] eqn:Hc; [|discriminate].
      destruct (create_loc fs (ds ++ m1) r m2 W HA Hm2 Hr Hmiss fs1 last p Hlast Haf Hlst Hc) as (pp & Ep & Hpp & Hinp & [Hn|Hd] & _).
      + rewrite Hn in Hw. injection Hw as <-. eapply Hfin; eauto. intros t Ht. discriminate.
      + rewrite Hd in Hw. discriminate. }
    destruct (e_type e) eqn:Ety; try (injection H as <- _; exact Hsame).
    - (* regular *)
      destruct (mkdir_all fs (render true ((ds ++ m1) ++ m2))) as [fs1 ok] eqn:Hm.
      destruct (negb ok);
        [injection H as <- _; exact (Hmk _ (guarded_mkdir fs (ds ++ m1) r m2 W HA Hm2 Hr Hmiss fs1 ok Hm))|].
      eapply Hwrite; eauto.
    - (* symlink *)
      destruct (mkdir_all fs (render true ((ds ++ m1) ++ m2))) as [fs1 ok] eqn:Hm.
      destruct (negb ok && u_err_return cfg);
        [injection H as <- _; exact (Hmk _ (guarded_mkdir fs (ds ++ m1) r m2 W HA Hm2 Hr Hmiss fs1 ok Hm))|].
      destruct (target_outside_root (u_marker cfg) (clean (e_name e)) (e_link e)) eqn:Htor;
        [injection H as <- _; exact (Hmk _ (guarded_mkdir fs (ds ++ m1) r m2 W HA Hm2 Hr Hmiss fs1 ok Hm))|].
      destruct (u_ignore cfg).
      { destruct (kread fs1 (u_cwd cfg) _) as [[cid sz]|];
          [|injection H as <- _; exact (Hmk _ (guarded_mkdir fs (ds ++ m1) r m2 W HA Hm2 Hr Hmiss fs1 ok Hm))].
        eapply Hwrite; eauto. }
      eapply Hlink; eauto. unfold is_link_entry. rewrite Ety. reflexivity.
    - (* hard link entry: same code path *)
      destruct (mkdir_all fs (render true ((ds ++ m1) ++ m2))) as [fs1 ok] eqn:Hm.
      destruct (negb ok && u_err_return cfg);
        [injection H as <- _; exact (Hmk _ (guarded_mkdir fs (ds ++ m1) r m2 W HA Hm2 Hr Hmiss fs1 ok Hm))|].
      destruct (target_outside_root (u_marker cfg) (clean (e_name e)) (e_link e)) eqn:Htor;
        [injection H as <- _; exact (Hmk _ (guarded_mkdir fs (ds ++ m1) r m2 W HA Hm2 Hr Hmiss fs1 ok Hm))|].
      destruct (u_ignore cfg).
      { destruct (kread fs1 (u_cwd cfg) _) as [[cid sz]|];
          [|injection H as <- _; exact (Hmk _ (guarded_mkdir fs (ds ++ m1) r m2 W HA Hm2 Hr Hmiss fs1 ok Hm))].
        eapply Hwrite; eauto. }
      eapply Hlink; eauto. unfold is_link_entry. rewrite Ety. reflexivity.
  Qed.

  Lemma unpack_pass_full final : forall es fs tg st' err,
    INV fs -> unpack_pass cfg req final (fs, tg) es = (st', err) ->
    INV (fst st') /\ Only ds fs (fst st') /\ fs_le fs (fst st').
  Proof.
    induction es as [|e es IH]; intros fs tg st' err HI H.
    - cbn in H. injection H as <- _. split; [exact HI|]. split; [apply Only_refl|apply fs_le_refl].
    - cbn [unpack_pass] in H.
      destruct (unpack_entry cfg req final (fs, tg) e) as [[fs1 tg1] err1] eqn:E1.
      destruct (unpack_entry_full final fs tg e _ _ HI E1) as (HI1 & HO1 & HL1 & _). cbn [fst] in *.
      destruct err1; [injection H as <- _; auto|].
      destruct (IH fs1 tg1 st' err HI1 H) as (HI2 & HO2 & HL2).
      split; [exact HI2|]. split; [eapply Only_trans; eauto|eapply fs_le_trans; eauto].
  Qed.

  Lemma unpack_passes_full : forall n es fs tg st' err,
    INV fs -> unpack_passes n cfg req (fs, tg) es = (st', err) ->
    INV (fst st') /\ Only ds fs (fst st') /\ fs_le fs (fst st').
  Proof.
    induction n as [|n IH]; intros es fs tg st' err HI H.
    - cbn in H. injection H as <- _. split; [exact HI|]. split; [apply Only_refl|apply fs_le_refl].
    - cbn [unpack_passes] in H.
      destruct (unpack_pass cfg req match n with O => true | _ => false end (fs, tg) es) as [[fs1 tg1] err1] eqn:E1.
      destruct (unpack_pass_full _ es fs tg _ _ HI E1) as (HI1 & HO1 & HL1). cbn [fst] in *.
      destruct err1; [injection H as <- _; auto|].
      destruct (IH es fs1 tg1 st' err HI1 H) as (HI2 & HO2 & HL2).
      split; [exact HI2|]. split; [eapply Only_trans; eauto|eapply fs_le_trans; eauto].
  Qed.

  (* ---------------------------------------------------------------- the final sweep *)
  Lemma root_walk fs k g fl q :
    phys_dir fs [] ds = true -> walk k g fs fl [] (split_slash (u_dir cfg)) = Some q -> q = ds.
  Proof.
    intros Hphys H. pose proof ds_ok as Hds. rewrite dir_render in H.
    rewrite split_render_true in H by (apply okseg_noslash; exact Hds). rewrite walk_skip_empty in H.
    destruct ds as [|d0 dr] eqn:Eds.
    - rewrite walk_skip_empty, walk_nil in H. injection H as <-. reflexivity.
    - rewrite <- Eds in *. rewrite <- (app_nil_r ds) in H.
      apply walk_phys_prefix in H; [|exact Hphys|apply okseg_proper; exact Hds].
      rewrite walk_nil in H. injection H as <-. reflexivity.
  Qed.

  Definition Kept (fsx : fsmap) (p : path) : Prop :=
    exists fsk q, fs_le fsx fsk /\ walk GO_LINKS true fsk true [] p = Some q /\ seg_prefix ds q = true.

  Definition Swept (fsx : fsmap) (p : path) : Prop := lookup fsx p = None \/ Kept fsx p.

  Lemma Swept_le a b p : fs_le a b -> Swept b p -> Swept a p.
  Proof.
    intros Hle [H|(fsk & q & H1 & H2 & H3)].
    - left. destruct (lookup a p) eqn:E; [|reflexivity]. rewrite (Hle _ _ E) in H. discriminate.
    - right. exists fsk, q. split; [eapply fs_le_trans; eauto|auto].
  Qed.

  Lemma fs_le_remove fs p : fs_le (fs_remove fs p) fs.
  Proof.
    intros q n H. destruct (segs_eqb q p) eqn:E.
    - apply segs_eqb_eq in E. subst q. destruct p as [|p0 pr]; [exact H|].
      rewrite lookup_remove_same in H by discriminate. discriminate.
    - apply segs_eqb_false in E. rewrite lookup_remove_other in H by exact E. exact H.
  Qed.

  Lemma WF_remove_gen fs p : WF fs -> (lookup fs p = None \/ exists t, lookup fs p = Some (NLink t)) -> WF (fs_remove fs p).
  Proof.
    intros W [Hn|[t Hl]]; [|eapply WF_remove_link; eauto].
    assert (Hsame : forall q, lookup (fs_remove fs p) q = lookup fs q).
    { intros q. destruct (segs_eqb q p) eqn:E.
      - apply segs_eqb_eq in E. subst q. destruct p as [|p0 pr]; [reflexivity|].
        rewrite lookup_remove_same by discriminate. symmetry. exact Hn.
      - apply segs_eqb_false in E. apply lookup_remove_other. exact E. }
    split.
    - intros x c n H. rewrite Hsame in *. eapply (wf_tree fs W); eauto.
    - intros x n Hx H. rewrite Hsame in H. eapply (wf_keys fs W); eauto.
    - apply NoDup_remove. exact (wf_nodup fs W).
  Qed.

  Record SB (fs1 fsc : fsmap) : Prop := {
    sb_le : fs_le fsc fs1;
    sb_wf : WF fsc;
    sb_phys : phys_dir fsc [] ds = true;
    sb_only : Only ds fs1 fsc
  }.

  Lemma wpath_eval fsc y : phys_dir fsc [] ds = true -> Forall okseg y -> y <> [] ->
    eval_symlinks fsc (join_slash (clean (u_dir cfg) :: skipn (length ds) (ds ++ y))) =
    match walk GO_LINKS true fsc true [] (ds ++ y) with Some q => Some (render true q) | None => None end.
  Proof.
    intros Hphys Hy Hne. pose proof ds_ok as Hds.
    assert (Es : skipn (length ds) (ds ++ y) = y).
    { rewrite skipn_app, skipn_all, Nat.sub_diag. reflexivity. }
    rewrite Es. destruct dir_ok as [_ Hclean]. rewrite Hclean, dir_render.
    destruct y as [|y0 yr]; [contradiction|].
    change (join_slash (render true ds :: y0 :: yr)) with (render true ds ++ SL :: join_slash (y0 :: yr)).
    unfold eval_symlinks. change (is_abs (render true ds ++ SL :: join_slash (y0 :: yr))) with true. cbn [negb].
    rewrite split_app_slash, split_render_true by (apply okseg_noslash; exact Hds).
    rewrite split_join; [|discriminate|apply okseg_noslash; exact Hy].
    cbn [app]. rewrite walk_skip_empty.
    destruct ds as [|d0 dr]; [cbn [app]; rewrite walk_skip_empty|]; reflexivity.
  Qed.

  Lemma sweep_step rr fs1 fsc y t :
    SB fs1 fsc -> rr = render true ds -> Forall okseg y -> y <> [] ->
    (lookup fsc (ds ++ y) = None \/ lookup fsc (ds ++ y) = Some (NLink t)) ->
    let fs' := obsolete_step rr fsc (ds ++ y) (join_slash (clean (u_dir cfg) :: skipn (length ds) (ds ++ y))) t in
    SB fs1 fs' /\ fs_le fs' fsc /\ Swept fs' (ds ++ y).
  Proof.
    intros S Err Hy Hne Hl fs'. pose proof ds_ok as Hds. unfold fs', obsolete_step.
    rewrite (wpath_eval fsc y (sb_phys _ _ S) Hy Hne).
    match goal with |- context [if ?c then fsc else _] => destruct c eqn:Ekeep end.
    - split; [exact S|]. split; [apply fs_le_refl|]. right.
      destruct (kstat fsc _); [|discriminate].
      destruct (walk GO_LINKS true fsc true [] (ds ++ y)) as [q|] eqn:Hw; [|discriminate].
      exists fsc, q. split; [apply fs_le_refl|]. split; [exact Hw|].
      subst rr. apply str_inside_render; [exact Hds| |exact Ekeep].
      eapply walk_good; [exact (sb_wf _ _ S)|constructor|exact Hw].
    - assert (Hp : ds ++ y <> []) by (destruct ds; [exact Hne|discriminate]).
      split; [|split; [apply fs_le_remove|left; apply lookup_remove_same; exact Hp]].
      split.
      + eapply fs_le_trans; [apply fs_le_remove|exact (sb_le _ _ S)].
      + apply WF_remove_gen; [exact (sb_wf _ _ S)|]. destruct Hl as [H|H]; [left; exact H|right; eauto].
      + eapply phys_dir_ext; [|exact (sb_phys _ _ S)]. intros a b E Ha. cbn [app].
        apply lookup_remove_other. intros Ea. rewrite E in Ea. rewrite <- app_assoc in Ea.
        rewrite <- (app_nil_r a) in Ea at 1. apply app_inv_head in Ea. symmetry in Ea.
        apply app_eq_nil in Ea as [_ Ea]. contradiction.
      + intros q Hq. rewrite lookup_remove_other; [apply (sb_only _ _ S); exact Hq|].
        intros ->. rewrite seg_prefix_app in Hq. discriminate.
  Qed.

  Lemma sweep_fold rr fs1 : rr = render true ds -> forall l fsc,
    SB fs1 fsc ->
    (forall p t, In (p, t) l -> exists y, p = ds ++ y /\ y <> [] /\ Forall okseg y /\ lookup fs1 p = Some (NLink t)) ->
    let f := (fun (fs' : fsmap) (pt : path * bytes) =>
                obsolete_step rr fs' (fst pt) (join_slash (clean (u_dir cfg) :: skipn (length ds) (fst pt))) (snd pt)) in
    SB fs1 (fold_left f l fsc) /\ fs_le (fold_left f l fsc) fsc /\
    (forall p t, In (p, t) l -> Swept (fold_left f l fsc) p).
  Proof.
    intros Err. induction l as [|[p t] l IH]; intros fsc S Hl f.
    - cbn. split; [exact S|]. split; [apply fs_le_refl|]. intros p t [].
    - cbn [fold_left]. destruct (Hl p t (or_introl eq_refl)) as (y & -> & Hne & Hy & Hlk).
      assert (Hcur : lookup fsc (ds ++ y) = None \/ lookup fsc (ds ++ y) = Some (NLink t)).
      { destruct (lookup fsc (ds ++ y)) eqn:E; [|left; reflexivity]. right.
        rewrite (sb_le _ _ S _ _ E) in Hlk. congruence. }
      destruct (sweep_step rr fs1 fsc y t S Err Hy Hne Hcur) as (S1 & Hle1 & Hsw1).
      unfold f at 2. cbn [fst snd].
      destruct (IH _ S1 (fun p' t' Hin => Hl p' t' (or_intror Hin))) as (S2 & Hle2 & Hsw2).
      split; [exact S2|]. split; [eapply fs_le_trans; eauto|].
      intros p' t' [E|Hin].
      + injection E as <- <-. eapply Swept_le; [exact Hle2|exact Hsw1].
      + apply (Hsw2 p' t' Hin).
  Qed.

  Lemma pinsert_in_rev x l y : y = x \/ In y l -> In y (pinsert x l).
  Proof.
    induction l as [|z r IH]; cbn.
    - intros [->|[]]. left. reflexivity.
    - destruct (path_leb (fst x) (fst z)); cbn.
      + intros [->|H]; auto.
      + intros [->|[->|H]]; auto.
  Qed.

  Lemma psort_in_rev l y : In y l -> In y (psort l).
  Proof.
    induction l as [|x r IH]; cbn; [auto|]. intros [->|H]; apply pinsert_in_rev; auto.
  Qed.

  Lemma links_below_in_rev fs root p t : In (p, NLink t) fs -> strict_below root p = true -> In (p, t) (links_below fs root).
  Proof.
    induction fs as [|[q n] r IH]; cbn; [auto|]. intros [E|Hin] Hs.
    - injection E as -> ->. rewrite Hs. left. reflexivity.
    - destruct n; auto. destruct (strict_below root q); [right|]; auto.
  Qed.

  Lemma links_below_in' fs root p t : In (p, t) (links_below fs root) -> In (p, NLink t) fs /\ strict_below root p = true.
  Proof.
    induction fs as [|[q n] r IH]; cbn; [intros []|].
    destruct n; try (intros H; apply IH in H as [H1 H2]; auto).
    destruct (strict_below root q) eqn:E.
    - intros [[= <- <-]|H]; [auto|]. apply IH in H as [H1 H2]. auto.
    - intros H. apply IH in H as [H1 H2]. auto.
  Qed.

  Definition SP (fs2 : fsmap) : Prop :=
    forall p t q, lookup fs2 p = Some (NLink t) -> strict_below ds p = true ->
                  walk KERNEL_LINKS false fs2 true [] p = Some q -> seg_prefix ds q = true.

  Lemma remove_obsolete_full fs1 fs2 err :
    INV fs1 -> remove_obsolete fs1 (u_dir cfg) = (fs2, err) ->
    Only ds fs1 fs2 /\ WF fs2 /\ SP fs2 /\ phys_dir fs2 [] ds = true /\ fs_le fs2 fs1.
  Proof.
    intros (W & Hphys & Hex & Hev) H. pose proof ds_ok as Hds.
    unfold remove_obsolete in H.
    destruct (eval_symlinks fs1 (u_dir cfg)) as [rr|] eqn:Erv; [|discriminate].
    assert (Err : rr = render true ds).
    { unfold eval_symlinks in Erv. destruct (negb (is_abs (u_dir cfg))); [discriminate|].
      destruct (walk GO_LINKS true fs1 true [] (split_slash (u_dir cfg))) as [q|] eqn:Hw; [|discriminate].
      apply root_walk in Hw; [|exact Hphys]. subst q. injection Erv as <-. reflexivity. }
    unfold klstat in H, Hex.
    destruct (kwalk fs1 (u_dir cfg) false) as [q|] eqn:Hq; [|discriminate].
    assert (q = ds).
    { unfold kwalk in Hq. destruct (negb (is_abs (u_dir cfg))); [discriminate|].
      destruct (PATH_MAX1 <? blen (u_dir cfg)); [discriminate|]. eapply root_walk; eauto. }
    subst q.
    assert (Hd : lookup fs1 ds = Some NDir) by (eapply phys_dir_lookup; [exact Hphys|symmetry; apply app_nil_r]).
    rewrite Hd in H.
    assert (E2 : fs2 = fold_left (fun (fs' : fsmap) (pt : path * bytes) =>
                obsolete_step rr fs' (fst pt) (join_slash (clean (u_dir cfg) :: skipn (length ds) (fst pt))) (snd pt))
                (psort (links_below fs1 ds)) fs1) by (injection H as <- _; reflexivity).
    clear H. rewrite E2. clear E2 fs2.
    assert (S0 : SB fs1 fs1) by (split; [apply fs_le_refl|exact W|exact Hphys|apply Only_refl]).
    pose proof (sweep_fold rr fs1 Err (psort (links_below fs1 ds)) fs1 S0) as Hf.
    assert (Hl : forall p t, In (p, t) (psort (links_below fs1 ds)) ->
              exists y, p = ds ++ y /\ y <> [] /\ Forall okseg y /\ lookup fs1 p = Some (NLink t)).
    { intros p t Hin. apply psort_in in Hin. apply links_below_in' in Hin as [Hin Hs].
      apply strict_below_spec in Hs as (y & Hy & ->). exists y. split; [reflexivity|]. split; [exact Hy|].
      assert (Hp : ds ++ y <> []) by (destruct ds; [exact Hy|discriminate]).
      pose proof (In_lookup fs1 _ _ (wf_nodup fs1 W) Hp Hin) as Hlk. split; [|exact Hlk].
      pose proof (wf_keys fs1 W _ _ Hp Hlk) as Hk. apply Forall_app in Hk as [_ Hk]. exact Hk. }
    destruct (Hf Hl) as (S2 & Hle2 & Hsw). cbv zeta in S2, Hle2, Hsw.
    split; [exact (sb_only _ _ S2)|]. split; [exact (sb_wf _ _ S2)|]. split; [|split; [exact (sb_phys _ _ S2)|exact (sb_le _ _ S2)]].
    intros p t q Hlk Hs Hw.
    assert (Hp : p <> []) by (intros ->; destruct ds; discriminate).
    pose proof (sb_le _ _ S2 _ _ Hlk) as Hlk1.
    pose proof (lookup_In fs1 p _ Hp Hlk1) as Hin.
    pose proof (psort_in_rev _ _ (links_below_in_rev fs1 ds p t Hin Hs)) as Hin2.
    destruct (Hsw p t Hin2) as [Hn|(fsk & q0 & Hlek & Hwk & Hq0)]; [congruence|].
    pose proof (walk_sub false true _ _ Hlek _ _ _ _ Hw) as Hw'.
    rewrite (walk_det _ _ _ _ _ _ _ _ _ _ Hw' Hwk). exact Hq0.
  Qed.

  Theorem unpack_all_full fs es :
    INV fs ->
    Only ds fs (fst (unpack_all cfg req fs es)) /\ WF (fst (unpack_all cfg req fs es)) /\
    SP (fst (unpack_all cfg req fs es)) /\ phys_dir (fst (unpack_all cfg req fs es)) [] ds = true.
  Proof.
    intros HI. unfold unpack_all.
    destruct (unpack_passes (u_passes cfg) cfg req (fs, []) es) as [[fs1 tg1] err1] eqn:E1.
    destruct (unpack_passes_full _ _ _ _ _ _ HI E1) as (HI1 & HO1 & HL1). cbn [fst] in *.
    destruct (remove_obsolete fs1 (u_dir cfg)) as [fs2 err2] eqn:E2.
    destruct (remove_obsolete_full _ _ _ HI1 E2) as (HO2 & W2 & SP2 & P2 & _). cbn [fst].
    split; [eapply Only_trans; eauto|]. split; [exact W2|]. split; [exact SP2|exact P2].
  Qed.
End Full.

(* ------------------------------------------------------------------ boolean hypotheses, final forms *)
Definition oksegb (c : seg) : bool := properb c && negb (existsb (N.eqb SL) c).

Fixpoint nodupb (l : list path) : bool :=
  match l with
  | [] => true
  | x :: r => negb (existsb (segs_eqb x) r) && nodupb r
  end.

(* a well-formed file-system state: every key is a non-empty list of proper slash-free names, its
   parent is a directory, and no key occurs twice *)
Definition wf_fsb (fs : fsmap) : bool :=
  forallb (fun pn : path * node =>
             negb (is_nil (fst pn)) && forallb oksegb (fst pn) &&
             match lookup fs (removelast (fst pn)) with Some NDir => true | _ => false end) fs &&
  nodupb (map fst fs).

Lemma oksegb_spec c : oksegb c = true -> okseg c.
Proof.
  unfold oksegb. intros H. apply andb_true_iff in H as [H1 H2]. split; [exact H1|].
  intros Hin. apply negb_true_iff in H2.
  assert (E : existsb (N.eqb SL) c = true) by (apply existsb_exists; exists SL; split; [exact Hin|apply N.eqb_refl]).
  congruence.
Qed.

Lemma nodupb_spec l : nodupb l = true -> NoDup l.
Proof.
  induction l as [|x r IH]; cbn; intros H; [constructor|].
  apply andb_true_iff in H as [H1 H2]. constructor; [|auto].
  intros Hin. apply negb_true_iff in H1.
  assert (E : existsb (segs_eqb x) r = true) by (apply existsb_exists; exists x; split; [exact Hin|apply segs_eqb_refl]).
  congruence.
Qed.

Lemma wf_fsb_spec fs : wf_fsb fs = true -> WF fs.
Proof.
  unfold wf_fsb. intros H. apply andb_true_iff in H as [H Hnd]. rewrite forallb_forall in H.
  assert (Hkey : forall p n, p <> [] -> lookup fs p = Some n ->
            Forall okseg p /\ lookup fs (removelast p) = Some NDir).
  { intros p n Hp Hl. apply lookup_In in Hl; [|exact Hp]. specialize (H _ Hl). cbn [fst] in H.
    apply andb_true_iff in H as [H H3]. apply andb_true_iff in H as [_ H2]. split.
    - apply Forall_forall. intros x Hx. rewrite forallb_forall in H2. apply oksegb_spec. auto.
    - destruct (lookup fs (removelast p)) as [[| |]|]; try discriminate. reflexivity. }
  split.
  - intros p c n Hl. destruct (Hkey (p ++ [c]) n ltac:(destruct p; discriminate) Hl) as [_ Hp].
    rewrite removelast_last in Hp. exact Hp.
  - intros p n Hp Hl. apply (Hkey p n Hp Hl).
  - apply nodupb_spec. exact Hnd.
Qed.

Lemma unpack_contained_lemma cfg req fs es :
  clean_abs (u_dir cfg) -> wf_fsb fs = true -> phys_dir fs [] (csegs (u_dir cfg)) = true ->
  is_some (klstat fs (u_dir cfg)) = true -> is_some (eval_symlinks fs (u_dir cfg)) = true ->
  forall p, lookup fs p <> lookup (fst (unpack_all cfg req fs es)) p -> seg_prefix (csegs (u_dir cfg)) p = true.
Proof.
  intros Hd Hwf Hphys Hk He p Hne.
  destruct (unpack_all_full cfg req Hd fs es (conj (wf_fsb_spec _ Hwf) (conj Hphys (conj Hk He)))) as (HO & _).
  destruct (seg_prefix (csegs (u_dir cfg)) p) eqn:E; [reflexivity|].
  exfalso. apply Hne. symmetry. apply HO. exact E.
Qed.

Lemma unpack_links_inside_lemma cfg req fs es :
  clean_abs (u_dir cfg) -> wf_fsb fs = true -> phys_dir fs [] (csegs (u_dir cfg)) = true ->
  is_some (klstat fs (u_dir cfg)) = true -> is_some (eval_symlinks fs (u_dir cfg)) = true ->
  links_resolve_inside (csegs (u_dir cfg)) (fst (unpack_all cfg req fs es)) = true.
Proof.
  intros Hd Hwf Hphys Hk He.
  destruct (unpack_all_full cfg req Hd fs es (conj (wf_fsb_spec _ Hwf) (conj Hphys (conj Hk He)))) as (_ & W2 & SP2 & P2).
  set (fs2 := fst (unpack_all cfg req fs es)) in *. set (ds := csegs (u_dir cfg)) in *.
  unfold links_resolve_inside. apply forallb_forall. intros [p n] Hin. cbn [fst snd].
  destruct n as [| |t]; try reflexivity.
  destruct (seg_prefix ds p && no_dotdot p) eqn:E; [|reflexivity]. apply andb_true_iff in E as [Hp _].
  destruct (walk KERNEL_LINKS false fs2 true [] p) as [q|] eqn:Hw; [|reflexivity].
  apply seg_prefix_spec in Hp as [y ->]. destruct y as [|y0 yr].
  - rewrite app_nil_r in *. destruct ds as [|d0 dr] eqn:Eds; [reflexivity|]. exfalso.
    assert (Hl : lookup fs2 (d0 :: dr) = Some (NLink t)).
    { apply In_lookup; [exact (wf_nodup _ W2)|discriminate|exact Hin]. }
    assert (Hd2 : lookup fs2 (d0 :: dr) = Some NDir) by (eapply phys_dir_lookup; [exact P2|symmetry; apply app_nil_r]).
    congruence.
  - assert (Hne : ds ++ y0 :: yr <> []) by (destruct ds; discriminate).
    eapply (SP2 (ds ++ y0 :: yr) t q); [|apply strict_below_spec; exists (y0 :: yr); split; [discriminate|reflexivity]|exact Hw].
    apply In_lookup; [exact (wf_nodup _ W2)|exact Hne|exact Hin].
Qed.

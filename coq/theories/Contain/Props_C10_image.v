(* C10 (image half) - an image load never exposes a layer file at or above the per-file byte
   limit in any view and never writes more than that many bytes of it to disk.
   Only statements here; proofs are in LimitProofs.v. *)
From Coq Require Import List NArith ZArith Bool.
From Scalibr Require Import Contain.PathBytes Contain.Model Contain.Limit Contain.LimitProofs.
Import ListNotations.
Open Scope Z_scope.

(* handleFile's bounded copy, for every entry size and every limit: a node is created only when
   the whole file was copied and it is strictly smaller than the limit; otherwise exactly max
   bytes were written and the entry is dropped; never more than max bytes reach the disk *)
Theorem layer_file_limit : forall max size, 0 <= size ->
  match handle_file_copy max size with
  | Kept n => n = size /\ size < max
  | LimitExceeded n => n = max /\ max <= size
  end /\ written_of (handle_file_copy max size) <= max.
Proof. exact layer_file_limit_lemma. Qed.
Print Assumptions layer_file_limit.

(* the image model of C06/C04 (Model.layer_entry) uses exactly this function *)
Theorem layer_model_uses_limit : forall max size,
  file_bytes_written max size = written_of (handle_file_copy max size) /\
  file_exposed max size = exposed_of (handle_file_copy max size).
Proof. exact model_uses_handle_file_copy. Qed.
Print Assumptions layer_model_uses_limit.

(* lifted to the loader's loop over a whole layer (any entries, names, types, order): no file on
   disk ever exceeds the limit ... *)
Theorem layer_disk_files_bounded : forall cfg es fs vt st' err,
  0 < l_max cfg -> Forall (fun e => 0 <= e_size e) es -> files_le (l_max cfg) fs ->
  layer_entries cfg (fs, vt) es = (st', err) -> files_le (l_max cfg) (fst st').
Proof. exact layer_entries_files_le. Qed.
Print Assumptions layer_disk_files_bounded.

(* ... and a regular entry enters the layer's tree (hence any view) only when it is below it *)
Theorem layer_exposes_only_below_limit : forall cfg fs vt e fs' vt' err,
  e_type e = TReg -> layer_entry cfg (fs, vt) e = ((fs', vt'), err) -> vt' <> vt ->
  e_size e < l_max cfg.
Proof. exact layer_entry_exposes_below_limit. Qed.
Print Assumptions layer_exposes_only_below_limit.

(* non-vacuity: around the boundary *)
Example limit_boundary :
  map (handle_file_copy 10) [0; 9; 10; 11; 25] =
  [Kept 0; Kept 9; LimitExceeded 10; LimitExceeded 10; LimitExceeded 10].
Proof. vm_compute. reflexivity. Qed.

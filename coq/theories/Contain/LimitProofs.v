From Coq Require Import List NArith ZArith Bool Lia.
From Scalibr Require Import Contain.PathBytes Contain.PathBytesProofs Contain.Model Contain.Proofs Contain.Limit.
Import ListNotations.
Open Scope Z_scope.

Lemma layer_file_limit_lemma max size : 0 <= size ->
  match handle_file_copy max size with
  | Kept n => n = size /\ size < max
  | LimitExceeded n => n = max /\ max <= size
  end /\ written_of (handle_file_copy max size) <= max.
Proof.
  intros Hs. unfold handle_file_copy. cbn zeta.
  destruct (Z.min size max >=? max) eqn:E; cbn [written_of]; lia.
Qed.

(* the two projections the model of image.go uses are this function *)
Lemma model_uses_handle_file_copy max size :
  file_bytes_written max size = written_of (handle_file_copy max size) /\
  file_exposed max size = exposed_of (handle_file_copy max size).
Proof.
  unfold file_bytes_written, file_exposed, handle_file_copy. cbn zeta.
  destruct (Z.min size max >=? max) eqn:E; cbn [written_of exposed_of]; split; try reflexivity; lia.
Qed.

(* ---- file-system level: no step of the layer loader leaves a file longer than max ---- *)
Lemma lookup_set_cases fs p n q x : lookup (fs_set fs p n) q = Some x -> (q = p /\ x = n) \/ lookup fs q = Some x.
Proof.
  intros H. destruct (segs_eqb q p) eqn:E.
  - apply segs_eqb_eq in E. subst q. destruct p as [|p0 pr].
    + right. exact H.
    + rewrite lookup_set_same in H by discriminate. injection H as <-. left. auto.
  - apply segs_eqb_false in E. rewrite lookup_set_other in H by exact E. right. exact H.
Qed.

Lemma files_le_set_dir m fs p : files_le m fs -> files_le m (fs_set fs p NDir).
Proof.
  intros H q c s Hl. apply lookup_set_cases in Hl as [[_ Hx]|Hl]; [discriminate|eauto].
Qed.

Lemma files_le_set_file m fs p c s : files_le m fs -> s <= m -> files_le m (fs_set fs p (NFile c s)).
Proof.
  intros H Hs q c' s' Hl. apply lookup_set_cases in Hl as [[_ Hx]|Hl]; [injection Hx as _ ->; exact Hs|eauto].
Qed.

Lemma kmkdir_files_le m fs s fs' : files_le m fs -> kmkdir fs s = Some fs' -> files_le m fs'.
Proof.
  intros H Hm. unfold kmkdir in Hm. destruct (kcreate_at fs s); [|discriminate].
  destruct (lookup fs p); [discriminate|]. injection Hm as <-. apply files_le_set_dir. exact H.
Qed.

Lemma mk_prefixes_files_le m : forall rest pre fs fs' ok,
  files_le m fs -> mk_prefixes fs pre rest = (fs', ok) -> files_le m fs'.
Proof.
  induction rest as [|c rest IH]; intros pre fs fs' ok H Hm; cbn [mk_prefixes] in Hm.
  - injection Hm as <- _. exact H.
  - destruct (beq c []); [eapply IH; eauto|].
    destruct (kstat fs (join_slash (pre ++ [c]))) as [[| |]|].
    + eapply IH; eauto.
    + injection Hm as <- _. exact H.
    + injection Hm as <- _. exact H.
    + destruct (kmkdir fs (join_slash (pre ++ [c]))) as [fs1|] eqn:Hk.
      * eapply IH; [|exact Hm]. eapply kmkdir_files_le; eauto.
      * injection Hm as <- _. exact H.
Qed.

Lemma mkdir_all_files_le m fs s fs' ok : files_le m fs -> mkdir_all fs s = (fs', ok) -> files_le m fs'.
Proof.
  intros H Hm. unfold mkdir_all in Hm. destruct (negb (is_abs s)).
  - injection Hm as <- _. exact H.
  - eapply mk_prefixes_files_le; eauto.
Qed.

Lemma kwrite_files_le m fs s c z fs' : files_le m fs -> z <= m -> kwrite fs s c z = Some fs' -> files_le m fs'.
Proof.
  intros H Hz Hw. unfold kwrite in Hw. destruct (kcreate_at fs s); [|discriminate].
  destruct (lookup fs p) as [[| c0 s0 | t]|].
  - discriminate.
  - injection Hw as <-. apply files_le_set_file; assumption.
  - destruct (kwalk fs s true); [|discriminate]. destruct (lookup fs p0) as [[| c1 s1 | t1]|]; try discriminate.
    injection Hw as <-. apply files_le_set_file; assumption.
  - injection Hw as <-. apply files_le_set_file; assumption.
Qed.

Lemma layer_entry_files_le cfg fs vt e st' err :
  0 < l_max cfg -> 0 <= e_size e -> files_le (l_max cfg) fs ->
  layer_entry cfg (fs, vt) e = (st', err) -> files_le (l_max cfg) (fst st').
Proof.
  intros Hmax Hsz H Hl. unfold layer_entry in Hl. cbn zeta in Hl.
  destruct (layer_target (l_dir cfg) (e_name e)) as [real|]; [|injection Hl as <- _; exact H].
  match type of Hl with context [is_some (vget vt ?vp)] => destruct (is_some (vget vt vp)) end;
    [injection Hl as <- _; exact H|].
  destruct (e_type e).
  - destruct (mkdir_all fs (dir_of real)) as [fs1 good] eqn:Hm.
    pose proof (mkdir_all_files_le _ _ _ _ _ H Hm) as H1.
    destruct (negb good); [injection Hl as <- _; exact H1|].
    match type of Hl with context [kwrite fs1 real ?c ?z] => destruct (kwrite fs1 real c z) as [fs2|] eqn:Hw end.
    + assert (H2 : files_le (l_max cfg) fs2).
      { eapply kwrite_files_le; [exact H1| |exact Hw].
        unfold file_bytes_written. unfold klstat. destruct (kwalk fs1 real false) as [q|]; [|lia].
        destruct (lookup fs1 q) as [[| c1 s1 | t1]|] eqn:Eq; try lia.
        pose proof (H1 _ _ _ Eq). lia. }
      destruct (file_exposed (l_max cfg) (e_size e)); injection Hl as <- _; exact H2.
    + injection Hl as <- _. exact H1.
  - destruct (kstat fs real); [injection Hl as <- _; exact H|].
    destruct (mkdir_all fs real) as [fs1 good] eqn:Hm.
    pose proof (mkdir_all_files_le _ _ _ _ _ H Hm) as H1.
    destruct good; injection Hl as <- _; exact H1.
  - destruct (is_nil (e_link e)); [injection Hl as <- _; exact H|].
    destruct (target_outside_root _ _ _); injection Hl as <- _; exact H.
  - destruct (is_nil (e_link e)); [injection Hl as <- _; exact H|].
    destruct (target_outside_root _ _ _); injection Hl as <- _; exact H.
  - injection Hl as <- _; exact H.
Qed.

(* a node for a regular entry is inserted into the layer's tree only below the limit *)
Lemma layer_entry_exposes_below_limit cfg fs vt e fs' vt' err :
  e_type e = TReg -> layer_entry cfg (fs, vt) e = ((fs', vt'), err) -> vt' <> vt ->
  e_size e < l_max cfg.
Proof.
  intros Ht Hl Hne. unfold layer_entry in Hl. cbn zeta in Hl. rewrite Ht in Hl.
  destruct (layer_target (l_dir cfg) (e_name e)) as [real|]; [|injection Hl as _ <- _; contradiction].
  match type of Hl with context [is_some (vget vt ?vp)] => destruct (is_some (vget vt vp)) end;
    [injection Hl as _ <- _; contradiction|].
  destruct (mkdir_all fs (dir_of real)) as [fs1 good].
  destruct (negb good); [injection Hl as _ <- _; contradiction|].
  match type of Hl with context [kwrite fs1 real ?c ?z] => destruct (kwrite fs1 real c z) as [fs2|] end;
    [|injection Hl as _ <- _; contradiction].
  destruct (file_exposed (l_max cfg) (e_size e)) eqn:E.
  - unfold file_exposed in E. lia.
  - injection Hl as _ <- _; contradiction.
Qed.

Lemma layer_entries_files_le cfg : forall es fs vt st' err,
  0 < l_max cfg -> Forall (fun e => 0 <= e_size e) es -> files_le (l_max cfg) fs ->
  layer_entries cfg (fs, vt) es = (st', err) -> files_le (l_max cfg) (fst st').
Proof.
  induction es as [|e es IH]; intros fs vt st' err Hmax Hsz H Hl; cbn [layer_entries] in Hl.
  - injection Hl as <- _. exact H.
  - inversion Hsz as [|? ? He Hes]; subst.
    destruct (layer_entry cfg (fs, vt) e) as [[fs1 vt1] err1] eqn:E1.
    pose proof (layer_entry_files_le _ _ _ _ _ _ Hmax He H E1) as H1. cbn [fst] in H1.
    destruct err1; [injection Hl as <- _; exact H1|]. eapply IH; eauto.
Qed.

Lemma files_leb_spec m fs : files_leb m fs = true -> files_le m fs.
Proof.
  intros H p c s Hl. unfold lookup in Hl. destruct p as [|p0 pr]; [discriminate|].
  unfold files_leb in H. rewrite forallb_forall in H.
  induction fs as [|[q n] r IH]; cbn in Hl; [discriminate|].
  destruct (segs_eqb q (p0 :: pr)).
  - injection Hl as ->. specialize (H _ (or_introl eq_refl)). cbn in H. lia.
  - apply IH; [|exact Hl]. intros x Hx. apply H. right. exact Hx.
Qed.

(* Lemmas about the byte-level path algebra of PathBytes.v. *)
From Coq Require Import List NArith Bool Lia.
From Scalibr Require Import Contain.PathBytes.
Import ListNotations.
Open Scope N_scope.

(* ------------------------------------------------------------------ equality tests *)
Lemma beq_eq a : forall b, beq a b = true <-> a = b.
Proof.
  induction a as [|x a IH]; destruct b as [|y b]; cbn; try (split; congruence).
  rewrite andb_true_iff, N.eqb_eq, IH. split; [intros [-> ->]; reflexivity | intros [= -> ->]; auto].
Qed.

Lemma beq_refl a : beq a a = true.
Proof. apply beq_eq; reflexivity. Qed.

Lemma beq_false a b : beq a b = false <-> a <> b.
Proof.
  split.
  - intros H E. apply beq_eq in E. congruence.
  - intros H. destruct (beq a b) eqn:E; [apply beq_eq in E; contradiction | reflexivity].
Qed.

Lemma segs_eqb_eq a : forall b, segs_eqb a b = true <-> a = b.
Proof.
  induction a as [|x a IH]; destruct b as [|y b]; cbn; try (split; congruence).
  rewrite andb_true_iff, beq_eq, IH. split; [intros [-> ->]; reflexivity | intros [= -> ->]; auto].
Qed.

Lemma segs_eqb_refl a : segs_eqb a a = true.
Proof. apply segs_eqb_eq; reflexivity. Qed.

Lemma segs_eqb_false a b : segs_eqb a b = false <-> a <> b.
Proof.
  split.
  - intros H E. apply segs_eqb_eq in E. congruence.
  - intros H. destruct (segs_eqb a b) eqn:E; [apply segs_eqb_eq in E; contradiction | reflexivity].
Qed.

(* ------------------------------------------------------------------ segment prefix *)
Lemma seg_prefix_spec d : forall p, seg_prefix d p = true <-> exists x, p = d ++ x.
Proof.
  induction d as [|a d IH]; intros p; cbn.
  - split; [intros _; exists p; reflexivity | auto].
  - destruct p as [|b p].
    + split; [discriminate | intros [x H]; discriminate].
    + rewrite andb_true_iff, beq_eq, IH. split.
      * intros [-> [x ->]]. exists x. reflexivity.
      * intros [x H]. injection H as -> ->. split; [reflexivity | exists x; reflexivity].
Qed.

Lemma seg_prefix_app d x : seg_prefix d (d ++ x) = true.
Proof. apply seg_prefix_spec. exists x. reflexivity. Qed.

Lemma seg_prefix_refl d : seg_prefix d d = true.
Proof. apply seg_prefix_spec. exists []. now rewrite app_nil_r. Qed.

Lemma seg_prefix_app_r d p x : seg_prefix d p = true -> seg_prefix d (p ++ x) = true.
Proof.
  intros H. apply seg_prefix_spec in H as [y ->]. rewrite <- app_assoc. apply seg_prefix_app.
Qed.

Lemma seg_prefix_trans a b c : seg_prefix a b = true -> seg_prefix b c = true -> seg_prefix a c = true.
Proof.
  intros H1 H2. apply seg_prefix_spec in H1 as [x ->]. apply seg_prefix_spec in H2 as [y ->].
  rewrite <- app_assoc. apply seg_prefix_app.
Qed.

(* ------------------------------------------------------------------ split / join *)

Lemma split_nonempty s : split_slash s <> [].
Proof.
  induction s as [|c r IH]; cbn; [discriminate|].
  destruct (c =? SL); [discriminate|]. destruct (split_slash r); discriminate.
Qed.

Lemma split_noslash_in s : forall x, In x (split_slash s) -> noslash x.
Proof.
  induction s as [|c r IH]; cbn; intros x Hx.
  - destruct Hx as [<-|[]]. intros [].
  - destruct (c =? SL) eqn:E.
    + destruct Hx as [<-|Hx]; [intros []|auto].
    + destruct (split_slash r) as [|h t] eqn:S.
      * destruct Hx as [<-|[]]. intros [H|[]]. subst. rewrite N.eqb_refl in E. discriminate.
      * destruct Hx as [<-|Hx].
        -- intros [H|H]; [subst; rewrite N.eqb_refl in E; discriminate|].
           exact (IH h (or_introl eq_refl) H).
        -- apply IH. right. exact Hx.
Qed.

Lemma split_of_noslash s : noslash s -> split_slash s = [s].
Proof.
  induction s as [|c r IH]; intros H; cbn; [reflexivity|].
  destruct (c =? SL) eqn:E.
  - apply N.eqb_eq in E. subst. exfalso. apply H. left. reflexivity.
  - rewrite IH; [reflexivity|]. intros Hr. apply H. right. exact Hr.
Qed.

Lemma split_app_slash a : forall b, split_slash (a ++ SL :: b) = split_slash a ++ split_slash b.
Proof.
  induction a as [|c r IH]; intros b; cbn.
  - reflexivity.
  - destruct (c =? SL) eqn:E.
    + rewrite IH. reflexivity.
    + rewrite IH. destruct (split_slash r) as [|h t] eqn:S.
      * exfalso. exact (split_nonempty r S).
      * reflexivity.
Qed.

Lemma split_join l : l <> [] -> Forall noslash l -> split_slash (join_slash l) = l.
Proof.
  induction l as [|x r IH]; intros Hne Hf; [contradiction|].
  inversion Hf as [|? ? Hx Hr]; subst.
  destruct r as [|y r'].
  - cbn. apply split_of_noslash. exact Hx.
  - change (join_slash (x :: y :: r')) with (x ++ SL :: join_slash (y :: r')).
    rewrite split_app_slash, split_of_noslash by exact Hx.
    rewrite IH; [reflexivity | discriminate | exact Hr].
Qed.

Lemma join_slash_cons x r : r <> [] -> join_slash (x :: r) = x ++ SL :: join_slash r.
Proof. destruct r; [contradiction | reflexivity]. Qed.

(* ------------------------------------------------------------------ Clean *)

Lemma proper_not_dotdot c : proper c -> beq c s_dotdot = false.
Proof.
  unfold proper, properb. intros H. apply negb_true_iff in H.
  apply orb_false_iff in H as [_ H]. exact H.
Qed.

Lemma proper_not_skip c : proper c -> beq c [] || beq c s_dot = false.
Proof.
  unfold proper, properb. intros H. apply negb_true_iff in H.
  apply orb_false_iff in H as [H _]. exact H.
Qed.

Lemma clean_step_proper r stk c : proper c -> clean_step r stk c = c :: stk.
Proof.
  intros H. unfold clean_step. rewrite (proper_not_skip c H), (proper_not_dotdot c H). reflexivity.
Qed.

Lemma clean_fold_app r stk a b : clean_fold r stk (a ++ b) = clean_fold r (clean_fold r stk a) b.
Proof. unfold clean_fold. apply fold_left_app. Qed.

Lemma clean_fold_proper r : forall cs stk, Forall proper cs -> clean_fold r stk cs = rev cs ++ stk.
Proof.
  induction cs as [|c cs IH]; intros stk H; cbn; [reflexivity|].
  inversion H; subst. unfold clean_fold in *. cbn. rewrite clean_step_proper by assumption.
  rewrite IH by assumption. rewrite <- app_assoc. reflexivity.
Qed.

(* components without ".." on a stack of proper names: only the proper ones are pushed *)
Lemma clean_fold_no_dotdot r : forall cs stk,
  forallb (fun c => negb (beq c s_dotdot)) cs = true ->
  clean_fold r stk cs = rev (filter properb cs) ++ stk.
Proof.
  induction cs as [|c cs IH]; intros stk H; cbn; [reflexivity|].
  cbn in H. apply andb_true_iff in H as [Hc H].
  unfold clean_fold in *. cbn [fold_left]. rewrite IH by exact H.
  unfold clean_step, properb. apply negb_true_iff in Hc. rewrite Hc.
  destruct (beq c [] || beq c s_dot) eqn:E.
  - rewrite orb_false_r. cbn. reflexivity.
  - rewrite orb_false_r. cbn. rewrite <- app_assoc. reflexivity.
Qed.

(* shape of the stack: proper names on top of a run of ".." that is empty when rooted *)
Inductive shape (r : bool) : list seg -> Prop :=
| shape_ups : forall ups, Forall (fun c => c = s_dotdot) ups -> (r = true -> ups = []) -> shape r ups
| shape_name : forall c stk, proper c -> shape r stk -> shape r (c :: stk).

Lemma shape_step r stk c : shape r stk -> shape r (clean_step r stk c).
Proof.
  intros H. unfold clean_step.
  destruct (beq c [] || beq c s_dot) eqn:E1; [exact H|].
  destruct (beq c s_dotdot) eqn:E2.
  - apply beq_eq in E2. subst c.
    destruct H as [ups Hu Hr | c' stk' Hc Hs].
    + destruct ups as [|u ups'].
      * destruct r; [apply shape_ups; auto | apply shape_ups; [repeat constructor | discriminate]].
      * inversion Hu; subst. rewrite beq_refl.
        apply shape_ups; [constructor; auto | intros Hr'; specialize (Hr Hr'); discriminate].
    + rewrite (proper_not_dotdot c' Hc). exact Hs.
  - apply shape_name; [|exact H].
    unfold proper, properb. rewrite E1, E2. reflexivity.
Qed.

Lemma shape_fold r : forall cs stk, shape r stk -> shape r (clean_fold r stk cs).
Proof.
  induction cs as [|c cs IH]; intros stk H; cbn; [exact H|].
  apply IH. apply shape_step. exact H.
Qed.

Lemma shape_nil r : shape r [].
Proof. apply shape_ups; [constructor | reflexivity]. Qed.

(* a rooted stack only holds proper names *)
Lemma shape_rooted stk : shape true stk -> Forall proper stk.
Proof.
  induction 1 as [ups Hu Hr | c stk Hc Hs IH].
  - rewrite (Hr eq_refl). constructor.
  - constructor; assumption.
Qed.

(* an unrooted stack: names ++ ups *)
Lemma shape_split r stk : shape r stk ->
  exists names ups, stk = names ++ ups /\ Forall proper names /\ Forall (fun c => c = s_dotdot) ups /\ (r = true -> ups = []).
Proof.
  induction 1 as [ups Hu Hr | c stk Hc Hs IH].
  - exists [], ups. repeat split; auto.
  - destruct IH as (n & u & -> & Hn & Hu & Hr). exists (c :: n), u. repeat split; auto.
Qed.

Lemma clean_step_in r stk c x : In x (clean_step r stk c) -> x = c \/ In x stk.
Proof.
  unfold clean_step.
  destruct (beq c [] || beq c s_dot); [auto|].
  destruct (beq c s_dotdot).
  - destruct stk as [|t stk'].
    + destruct r; cbn; [intros []|intros [<-|[]]; auto].
    + destruct (beq t s_dotdot); cbn; [intros [<-|H]; auto | intros H; right; right; exact H].
  - cbn. intros [<-|H]; auto.
Qed.

Lemma clean_fold_in r : forall cs stk x, In x (clean_fold r stk cs) -> In x cs \/ In x stk.
Proof.
  induction cs as [|c cs IH]; intros stk x H; cbn in *; [auto|].
  apply IH in H as [H|H]; [auto|].
  apply clean_step_in in H as [->|H]; auto.
Qed.

Lemma csegs_noslash s : Forall noslash (csegs s).
Proof.
  apply Forall_forall. intros x Hx. unfold csegs in Hx. apply in_rev in Hx.
  apply clean_fold_in in Hx as [Hx|[]]. exact (split_noslash_in s x Hx).
Qed.

Lemma csegs_shape s : shape (is_abs s) (rev (csegs s)).
Proof. unfold csegs. rewrite rev_involutive. apply shape_fold, shape_nil. Qed.

Lemma clean_render s : clean s = render (is_abs s) (csegs s).
Proof. destruct s; reflexivity. Qed.

Lemma csegs_abs_proper s : is_abs s = true -> Forall proper (csegs s).
Proof.
  intros H. pose proof (csegs_shape s) as Hs. rewrite H in Hs.
  apply shape_rooted in Hs. apply Forall_rev in Hs. rewrite rev_involutive in Hs. exact Hs.
Qed.

(* ------------------------------------------------------------------ rendering and re-splitting *)
Lemma proper_nonempty c : proper c -> c <> [].
Proof. intros H E. subst. discriminate. Qed.

Lemma join_nonempty l : l <> [] -> Forall proper l -> join_slash l <> [].
Proof.
  destruct l as [|x r]; [contradiction|]. intros _ H. inversion H; subst.
  destruct r; cbn.
  - apply proper_nonempty. assumption.
  - intros E. apply app_eq_nil in E as [_ E]. discriminate.
Qed.

Lemma is_abs_render_true l : is_abs (render true l) = true.
Proof. reflexivity. Qed.

Lemma split_render_true l : Forall noslash l -> split_slash (render true l) = [] :: (match l with [] => [[]] | _ => l end).
Proof.
  intros H. unfold render. cbn [split_slash]. rewrite N.eqb_refl.
  destruct l as [|x r]; [reflexivity|]. rewrite split_join; [reflexivity | discriminate | exact H].
Qed.

Lemma clean_fold_skip_empty r stk cs : clean_fold r stk ([] :: cs) = clean_fold r stk cs.
Proof. reflexivity. Qed.

Lemma csegs_render_true l : Forall proper l -> Forall noslash l -> csegs (render true l) = l.
Proof.
  intros Hp Hn. unfold csegs. rewrite is_abs_render_true, split_render_true by exact Hn.
  rewrite clean_fold_skip_empty. destruct l as [|x r].
  - reflexivity.
  - rewrite clean_fold_proper by exact Hp. rewrite app_nil_r, rev_involutive. reflexivity.
Qed.

(* a directory string that is its own Clean and absolute *)

Lemma clean_abs_render d : clean_abs d -> d = render true (csegs d) /\ Forall proper (csegs d) /\ Forall noslash (csegs d).
Proof.
  intros [Ha Hc]. rewrite clean_render, Ha in Hc. repeat split.
  - symmetry. exact Hc.
  - apply csegs_abs_proper. exact Ha.
  - apply csegs_noslash.
Qed.

(* join2 dir x for a clean absolute dir and a non-empty x whose components contain no "..":
   the result is dir's segments followed by the proper components of x *)
Lemma join2_zone d x :
  clean_abs d -> x <> [] -> forallb (fun c => negb (beq c s_dotdot)) (split_slash x) = true ->
  join2 d x = render true (csegs d ++ filter properb (split_slash x)).
Proof.
  intros Hd Hx Hnd. destruct (clean_abs_render d Hd) as (Hr & Hp & Hn).
  destruct Hd as [Ha Hc].
  assert (Hdne : d <> []) by (intros E; subst; discriminate).
  unfold join2. destruct d as [|d0 d']; [contradiction|]. destruct x as [|x0 x']; [contradiction|].
  set (dd := d0 :: d') in *. set (xx := x0 :: x') in *.
  assert (Habs : is_abs (dd ++ SL :: xx) = true) by exact Ha.
  rewrite clean_render, Habs. f_equal.
  unfold csegs at 1. rewrite Habs, split_app_slash, clean_fold_app.
  assert (E : clean_fold true [] (split_slash dd) = rev (csegs dd)).
  { unfold csegs. rewrite rev_involutive, Ha. reflexivity. }
  rewrite E, clean_fold_no_dotdot by exact Hnd.
  rewrite rev_app_distr, !rev_involutive. reflexivity.
Qed.

(* splitting a rendered clean path gives back (a superset of) its segments *)
Lemma split_render r l : Forall noslash l -> Forall proper l ->
  forall c, In c (split_slash (render r l)) -> c = [] \/ c = s_dot \/ In c l.
Proof.
  intros Hn Hp c Hc. destruct r.
  - rewrite split_render_true in Hc by exact Hn. destruct Hc as [<-|Hc]; [auto|].
    destruct l; [destruct Hc as [<-|[]]; auto | auto].
  - unfold render in Hc. destruct l as [|x t].
    + cbn in Hc. destruct Hc as [<-|[]]. auto.
    + rewrite split_join in Hc; [auto | discriminate | exact Hn].
Qed.

Lemma no_dotdot_In l : forallb (fun c => negb (beq c s_dotdot)) l = true <-> ~ In s_dotdot l.
Proof.
  rewrite forallb_forall. split.
  - intros H Hin. specialize (H _ Hin). rewrite beq_refl in H. discriminate.
  - intros H x Hx. apply negb_true_iff, beq_false. intros ->. contradiction.
Qed.

(* Clean of a name whose canonical segments have no ".." re-splits without ".." *)
Lemma clean_no_dotdot name :
  forallb (fun c => negb (beq c s_dotdot)) (csegs name) = true ->
  forallb (fun c => negb (beq c s_dotdot)) (split_slash (clean name)) = true.
Proof.
  intros H. apply no_dotdot_In. apply no_dotdot_In in H. intros Hin.
  rewrite clean_render in Hin.
  assert (Hp : Forall proper (csegs name)).
  { pose proof (csegs_shape name) as Hs. apply shape_split in Hs as (n & u & E & Hn & Hu & _).
    destruct u as [|u0 u'].
    - rewrite app_nil_r in E. apply Forall_rev in Hn. rewrite <- E, rev_involutive in Hn. exact Hn.
    - exfalso. apply H. inversion Hu; subst. apply in_rev. rewrite E. apply in_or_app. right. left. reflexivity. }
  apply (split_render _ _ (csegs_noslash name) Hp) in Hin as [E|[E|Hin]]; try discriminate. contradiction.
Qed.

Lemma clean_nonempty s : clean s <> [].
Proof.
  rewrite clean_render. unfold render. destruct (is_abs s); [discriminate|].
  pose proof (csegs_shape s) as Hs. destruct (csegs s) as [|x t] eqn:E; [discriminate|].
  assert (Hx : x <> []).
  { assert (Hin : In x (rev (x :: t))) by (apply -> in_rev; left; reflexivity).
    clear E. remember (rev (x :: t)) as stk. clear Heqstk.
    induction Hs as [ups Hu _ | c stk Hc Hs IH].
    - rewrite Forall_forall in Hu. rewrite (Hu _ Hin). discriminate.
    - destruct Hin as [<-|Hin]; [apply proper_nonempty; exact Hc | auto]. }
  destruct t; cbn.
  - exact Hx.
  - intros E'. apply app_eq_nil in E' as [_ E']. discriminate.
Qed.

(* ------------------------------------------------------------------ Dir *)
Lemma existsb_slash_noslash s : noslash s -> existsb (N.eqb SL) s = false.
Proof.
  intros H. destruct (existsb (N.eqb SL) s) eqn:E; [|reflexivity].
  apply existsb_exists in E as (x & Hx & Ex). apply N.eqb_eq in Ex. subst. contradiction.
Qed.

Lemma upto_last_slash_app a b : noslash b -> upto_last_slash (a ++ SL :: b) = a ++ [SL].
Proof.
  intros Hb. induction a as [|c r IH]; cbn.
  - rewrite existsb_slash_noslash by exact Hb. reflexivity.
  - assert (E : existsb (N.eqb SL) (r ++ SL :: b) = true).
    { apply existsb_exists. exists SL. split; [apply in_or_app; right; left; reflexivity | apply N.eqb_refl]. }
    rewrite E, IH. reflexivity.
Qed.

Lemma join_slash_snoc l x : l <> [] -> join_slash (l ++ [x]) = join_slash l ++ SL :: x.
Proof.
  induction l as [|y r IH]; intros H; [contradiction|].
  destruct r as [|z r'].
  - reflexivity.
  - change ((y :: z :: r') ++ [x]) with (y :: z :: (r' ++ [x])).
    change (join_slash (y :: z :: r' ++ [x])) with (y ++ SL :: join_slash ((z :: r') ++ [x])).
    rewrite IH by discriminate.
    change (join_slash (y :: z :: r')) with (y ++ SL :: join_slash (z :: r')).
    rewrite <- app_assoc. reflexivity.
Qed.

(* filepath.Dir of a rendered absolute clean path drops the last segment *)
Lemma dir_of_render_true l x :
  Forall proper (l ++ [x]) -> Forall noslash (l ++ [x]) ->
  dir_of (render true (l ++ [x])) = render true l.
Proof.
  intros Hp Hn. apply Forall_app in Hp as [Hpl _]. apply Forall_app in Hn as [Hnl Hnx].
  inversion Hnx as [|? ? Hx _]; subst.
  unfold dir_of, render.
  destruct l as [|y r].
  - cbn [app join_slash]. change (SL :: x) with ([] ++ SL :: x). rewrite upto_last_slash_app by exact Hx.
    reflexivity.
  - rewrite join_slash_snoc by discriminate.
    change (SL :: join_slash (y :: r) ++ SL :: x) with ((SL :: join_slash (y :: r)) ++ SL :: x).
    rewrite upto_last_slash_app by exact Hx.
    set (s := (SL :: join_slash (y :: r)) ++ [SL]).
    assert (Hs : s = render true (y :: r) ++ [SL]) by reflexivity.
    rewrite clean_render.
    assert (Ha : is_abs s = true) by reflexivity. rewrite Ha. unfold render. f_equal. f_equal.
    unfold csegs. rewrite Ha, Hs.
    change (render true (y :: r) ++ [SL]) with (render true (y :: r) ++ SL :: []).
    rewrite split_app_slash, clean_fold_app.
    rewrite split_render_true by exact Hnl. rewrite clean_fold_skip_empty.
    rewrite (clean_fold_proper true (y :: r) [] Hpl).
    cbn [split_slash clean_fold fold_left clean_step beq orb].
    rewrite app_nil_r, rev_involutive. reflexivity.
Qed.

(* C06 model: an abstract file system (physical path -> Dir | File | Link target), the kernel /
   Go-stdlib operations the anchored code uses, and the two writers:
     unpack_all  - artifact/image/unpack/unpack.go  (unpack, pathOutsideBaseDirectory,
                   symlink.TargetOutsideRoot, symlink.RemoveObsoleteSymlinks)
     layer_run   - artifact/image/layerscanning/image/image.go (fillChainLayersWithFilesFromTar,
                   handleDir / handleFile / handleSymlink)
   Definitions only; proofs are in Proofs.v.  Paths handed to the OS are byte strings; the file
   system itself is keyed by physical segment lists (root = []). *)
From Coq Require Import List NArith ZArith Bool.
From Scalibr Require Import Contain.PathBytes.
Import ListNotations.
Open Scope N_scope.

(* ------------------------------------------------------------------ file system state *)
Inductive node :=
| NDir
| NFile (cid : N) (size : Z)
| NLink (target : bytes).

Definition path := list seg.
Definition fsmap := list (path * node).

Definition node_eqb (a b : node) : bool :=
  match a, b with
  | NDir, NDir => true
  | NFile c s, NFile c' s' => (c =? c') && (s =? s')%Z
  | NLink t, NLink t' => beq t t'
  | _, _ => false
  end.

Fixpoint assoc (fs : fsmap) (p : path) : option node :=
  match fs with
  | [] => None
  | (q, n) :: r => if segs_eqb q p then Some n else assoc r p
  end.

(* the root always exists and is a directory *)
Definition lookup (fs : fsmap) (p : path) : option node :=
  match p with [] => Some NDir | _ => assoc fs p end.

Fixpoint fs_remove (fs : fsmap) (p : path) : fsmap :=
  match fs with
  | [] => []
  | (q, n) :: r => if segs_eqb q p then fs_remove r p else (q, n) :: fs_remove r p
  end.

Definition fs_set (fs : fsmap) (p : path) (n : node) : fsmap := (p, n) :: fs_remove fs p.

Definition is_nil {A} (l : list A) : bool := match l with [] => true | _ => false end.
Definition is_some {A} (o : option A) : bool := match o with Some _ => true | None => false end.

Definition NAME_MAX : N := 255.
Definition PATH_MAX1 : N := 4095.   (* longest accepted path string *)
Definition KERNEL_LINKS : nat := 40.
Definition GO_LINKS : nat := 255.

Definition plen (p : path) : N := fold_left (fun a s => a + 1 + blen s) p 0.

(* Path walk shared by the kernel (lstat/stat/open/mkdir/symlink) and by Go's
   filepath.EvalSymlinks (walkSymlinks), which differ only in the link budget [k] and in the
   length check on the partially resolved path ([gomode]: EvalSymlinks lstat()s every prefix).
   [cur] is always an existing directory (physical path).  Errors (ENOENT, ENOTDIR, ELOOP,
   ENAMETOOLONG) are collapsed to None. *)
Fixpoint walk (k : nat) (gomode : bool) (fs : fsmap) (follow_last : bool)
              (cur : path) (comps : list seg) {struct k} : option path :=
  (fix go (cur : path) (comps : list seg) {struct comps} : option path :=
     match comps with
     | [] => Some cur
     | c :: rest =>
         if beq c [] || beq c s_dot then go cur rest
         else if beq c s_dotdot then go (removelast cur) rest
         else if NAME_MAX <? blen c then None
         else
           let p := cur ++ [c] in
           if gomode && (PATH_MAX1 <? plen p) then None else
           match lookup fs p with
           | None => None
           | Some NDir => go p rest
           | Some (NFile _ _) => if is_nil rest then Some p else None
           | Some (NLink t) =>
               if is_nil rest && negb follow_last then Some p
               else match k with
                    | O => None
                    | S k' => walk k' gomode fs follow_last
                                   (if is_abs t then [] else cur) (split_slash t ++ rest)
                    end
           end
     end) cur comps.

(* kernel resolution of an absolute path string; relative strings are not modelled (the harness
   always passes an absolute target directory, so every path handed to the OS is absolute) *)
Definition kwalk (fs : fsmap) (s : bytes) (follow_last : bool) : option path :=
  if negb (is_abs s) then None
  else if PATH_MAX1 <? blen s then None
  else walk KERNEL_LINKS false fs follow_last [] (split_slash s).

Definition klstat (fs : fsmap) (s : bytes) : option node :=
  match kwalk fs s false with Some p => lookup fs p | None => None end.
Definition kstat (fs : fsmap) (s : bytes) : option node :=
  match kwalk fs s true with Some p => lookup fs p | None => None end.

(* filepath.EvalSymlinks on an absolute path: the physical path, rendered *)
Definition eval_symlinks (fs : fsmap) (s : bytes) : option bytes :=
  if negb (is_abs s) then None
  else match walk GO_LINKS true fs true [] (split_slash s) with
       | Some p => Some (render true p)
       | None => None
       end.

(* where a creating system call (mkdir / symlink / open O_CREAT) would put its new entry:
   the parent is resolved following links, the last component must be a proper name.
   (Both writers only pass cleaned paths, so trailing slashes never occur.) *)
Definition kcreate_at (fs : fsmap) (s : bytes) : option path :=
  if negb (is_abs s) then None
  else if PATH_MAX1 <? blen s then None
  else
    let comps := split_slash s in
    let lastc := last comps [] in
    if beq lastc [] || beq lastc s_dot || beq lastc s_dotdot then None
    else if NAME_MAX <? blen lastc then None
    else match walk KERNEL_LINKS false fs true [] (removelast comps) with
         | Some pp =>
             match lookup fs pp with
             | Some NDir => Some (pp ++ [lastc])
             | _ => None
             end
         | None => None
         end.

(* mkdir(2) *)
Definition kmkdir (fs : fsmap) (s : bytes) : option fsmap :=
  match kcreate_at fs s with
  | Some p => match lookup fs p with None => Some (fs_set fs p NDir) | Some _ => None end
  | None => None
  end.

(* symlink(2) *)
Definition ksymlink (fs : fsmap) (target s : bytes) : option fsmap :=
  if is_nil target || (PATH_MAX1 <? blen target) then None else
  match kcreate_at fs s with
  | Some p => match lookup fs p with None => Some (fs_set fs p (NLink target)) | Some _ => None end
  | None => None
  end.

(* open(O_CREAT|O_WRONLY[|O_TRUNC]) + write + close.  A dangling link in last position would make
   the kernel create the link's target; both writers only open paths whose last component was
   just seen not to exist, so that branch is unreachable and modelled as failure. *)
Definition kwrite (fs : fsmap) (s : bytes) (cid : N) (size : Z) : option fsmap :=
  match kcreate_at fs s with
  | Some p =>
      match lookup fs p with
      | None => Some (fs_set fs p (NFile cid size))
      | Some (NFile _ _) => Some (fs_set fs p (NFile cid size))
      | Some NDir => None
      | Some (NLink _) =>
          match kwalk fs s true with
          | Some q => match lookup fs q with
                      | Some (NFile _ _) => Some (fs_set fs q (NFile cid size))
                      | _ => None
                      end
          | None => None
          end
      end
  | None => None
  end.

(* os.MkdirAll on an absolute string.  Go stats the whole path, recurses into the parent while
   stat fails, then mkdir()s downwards; because stat success is prefix-monotone this is the
   top-down scan below (stdlib behaviour: trusted, exercised by the correspondence). *)
Fixpoint mk_prefixes (fs : fsmap) (pre : list seg) (rest : list seg) : fsmap * bool :=
  match rest with
  | [] => (fs, true)
  | c :: rest' =>
      let pre' := pre ++ [c] in
      if beq c [] then mk_prefixes fs pre' rest' else
      let s := join_slash pre' in
      match kstat fs s with
      | Some NDir => mk_prefixes fs pre' rest'
      | Some _ => (fs, false)
      | None => match kmkdir fs s with
                | Some fs' => mk_prefixes fs' pre' rest'
                | None => (fs, false)
                end
      end
  end.

Definition mkdir_all (fs : fsmap) (s : bytes) : fsmap * bool :=
  if negb (is_abs s) then (fs, false) else mk_prefixes fs [[]] (tl (split_slash s)).

(* ------------------------------------------------------------------ symlink.TargetOutsideRoot *)
(* markerDir is a fresh uuid; the model takes it as a parameter *)
Definition target_outside_root (marker pth target : bytes) : bool :=
  if is_abs target then negb (contains (join2 marker target) marker)
  else negb (contains (join3 marker (dir_of pth) target) marker).

Definition DDS : bytes := [DOT; DOT; SL].     (* "../" *)

(* ------------------------------------------------------------------ unpack.go *)
Inductive etype := TReg | TDir | TSym | THard | TOther.

Record entry := { e_name : bytes; e_type : etype; e_link : bytes; e_size : Z; e_cid : N }.

Record ucfg := {
  u_dir : bytes;          (* target directory as passed by the caller (absolute) *)
  u_max : Z;              (* MaxSizeBytes *)
  u_passes : nat;         (* MaxPass *)
  u_err_return : bool;    (* SymlinkErrStrategy = SymlinkErrReturn *)
  u_ignore : bool;        (* SymlinkResolution = SymlinkIgnore: links are replaced by copies of their targets *)
  u_cwd : path;           (* working directory of the process (SymlinkIgnore reads relative targets from it) *)
  u_marker : bytes        (* the uuid used by TargetOutsideRoot *)
}.

Fixpoint bmem (x : bytes) (l : list bytes) : bool :=
  match l with [] => false | y :: r => beq x y || bmem x r end.

Definition required (req : bytes -> bool) (tg : list bytes) (full cp : bytes) : bool :=
  existsb (fun p => req p || bmem p tg) [full; cp; join2 [SL] cp].

(* strings.TrimSuffix(s, "/") *)
Definition trim_suffix_slash (s : bytes) : bytes :=
  match rev s with
  | c :: r => if c =? SL then rev r else s
  | [] => s
  end.

(* the loop of pathOutsideBaseDirectory (fix 05026580): deepest existing ancestor of the parent
   directory, never looking above Clean(baseDir) *)
Fixpoint existing_ancestor (n : nat) (fs : fsmap) (b p : bytes) : bytes :=
  match n with
  | O => p
  | S n' =>
      if beq p b then p
      else if is_some (klstat fs p) then p
      else existing_ancestor n' fs b (dir_of p)
  end.

(* path-wise "c is b or below b" on cleaned strings *)
Definition str_inside (c b : bytes) : bool :=
  beq c b || has_prefix c (trim_suffix_slash b ++ [SL]).

(* pathOutsideBaseDirectory(baseDir, fullPath): the resolved deepest existing ancestor of the parent
   must be Clean(baseDir) itself or start with Clean(baseDir) + "/"; a baseDir that does not exist
   yet has nothing to escape through *)
Definition path_outside_base (fs : fsmap) (base full : bytes) : bool :=
  let b := clean base in
  let anc := existing_ancestor (S (length full)) fs b (dir_of full) in
  if negb (is_some (klstat fs anc)) && beq anc b then false else
  match eval_symlinks fs anc with
  | None => true
  | Some resolved => negb (str_inside (clean resolved) b)
  end.

(* os.ReadFile: the content (id, size) of the regular file a path resolves to; a relative path is
   resolved from the working directory of the process *)
Definition kread (fs : fsmap) (cwd : path) (s : bytes) : option (N * Z) :=
  if is_nil s || (PATH_MAX1 <? blen s) then None else
  match walk KERNEL_LINKS false fs true (if is_abs s then [] else cwd) (split_slash s) with
  | Some p => match lookup fs p with Some (NFile c z) => Some (c, z) | _ => None end
  | None => None
  end.

Definition ustate := (fsmap * list bytes)%type.

(* one iteration of the loop in unpack(); the bool is "unpack returns an error here" *)
Definition unpack_entry (cfg : ucfg) (req : bytes -> bool) (final : bool) (st : ustate) (e : entry) : ustate * bool :=
  let '(fs, tg) := st in
  if (u_max cfg <? e_size e)%Z then (st, false) else
  let cp := clean (e_name e) in
  (* zip-slip filter (fix c7e8b5e1): a cleaned name that still climbs is skipped before anything is created *)
  if beq cp s_dotdot || has_prefix cp DDS then (st, false) else
  let full := join2 (u_dir cfg) cp in
  if is_some (klstat fs full) then (st, false) else
  if negb (required req tg full cp) then (st, false) else
  (* fix 05026580: the containment check comes before anything is created, for every entry type *)
  if path_outside_base fs (u_dir cfg) full then (st, false) else
  match e_type e with
  | TReg =>
      let '(fs1, ok) := mkdir_all fs (dir_of full) in
      if negb ok then ((fs1, tg), true) else
      match kwrite fs1 full (e_cid e) (e_size e) with
      | Some fs2 => ((fs2, tg), false)
      | None => ((fs1, tg), true)
      end
  | TSym | THard =>
      let '(fs1, ok) := mkdir_all fs (dir_of full) in
      if negb ok && u_err_return cfg then ((fs1, tg), true) else
      let target := e_link e in
      if target_outside_root (u_marker cfg) cp target then ((fs1, tg), false) else
      let tpath := if is_abs target then join2 (u_dir cfg) target else target in
      let tg' := (if is_abs target then target else join2 (dir_of cp) target) :: tg in
      if u_ignore cfg then
        (* SymlinkIgnore: copy the target's content; a target that cannot be read is only an error
           on the final pass *)
        match kread fs1 (u_cwd cfg) tpath with
        | None => ((fs1, tg'), final && u_err_return cfg)
        | Some (cid, size) =>
            match kwrite fs1 full cid size with
            | Some fs2 => ((fs2, tg'), false)
            | None => ((fs1, tg'), u_err_return cfg)
            end
        end
      else
      match ksymlink fs1 tpath full with
      | Some fs2 => ((fs2, tg'), false)
      | None => ((fs1, tg'), u_err_return cfg)
      end
  | _ => (st, false)
  end.

Fixpoint unpack_pass (cfg : ucfg) (req : bytes -> bool) (final : bool) (st : ustate) (es : list entry) : ustate * bool :=
  match es with
  | [] => (st, false)
  | e :: r =>
      let '(st', err) := unpack_entry cfg req final st e in
      if err then (st', true) else unpack_pass cfg req final st' r
  end.

Fixpoint unpack_passes (n : nat) (cfg : ucfg) (req : bytes -> bool) (st : ustate) (es : list entry) : ustate * bool :=
  match n with
  | O => (st, false)
  | S n' =>
      (* finalPass = (pass == MaxPass-1) *)
      let '(st', err) := unpack_pass cfg req (match n' with O => true | _ => false end) st es in
      if err then (st', true) else unpack_passes n' cfg req st' es
  end.

(* --- symlink.RemoveObsoleteSymlinks: filepath.WalkDir order = lexicographic on segment lists *)
Fixpoint bytes_leb (a b : bytes) : bool :=
  match a, b with
  | [], _ => true
  | _ :: _, [] => false
  | x :: a', y :: b' => if x <? y then true else if y <? x then false else bytes_leb a' b'
  end.

Fixpoint path_leb (a b : path) : bool :=
  match a, b with
  | [], _ => true
  | _ :: _, [] => false
  | x :: a', y :: b' => if beq x y then path_leb a' b' else bytes_leb x y
  end.

Fixpoint pinsert (x : path * bytes) (l : list (path * bytes)) : list (path * bytes) :=
  match l with
  | [] => [x]
  | y :: r => if path_leb (fst x) (fst y) then x :: l else y :: pinsert x r
  end.

Definition psort (l : list (path * bytes)) : list (path * bytes) := fold_right pinsert [] l.

Fixpoint strict_below (d p : path) : bool :=
  match d, p with
  | [], _ :: _ => true
  | x :: d', y :: p' => beq x y && strict_below d' p'
  | _, _ => false
  end.

Fixpoint links_below (fs : fsmap) (root : path) : list (path * bytes) :=
  match fs with
  | [] => []
  | (p, NLink t) :: r => if strict_below root p then (p, t) :: links_below r root else links_below r root
  | _ :: r => links_below r root
  end.

(* one symlink visited by the walk (fix 7b96bcf8): kept only when its destination exists AND
   resolves to the resolved root or below it *)
Definition obsolete_step (rr : bytes) (fs' : fsmap) (p : path) (wpath : bytes) (t : bytes) : fsmap :=
  let lt := if is_abs t then t else join2 (dir_of wpath) t in
  let keep := match kstat fs' lt with
              | Some _ => match eval_symlinks fs' wpath with
                          | Some dest => str_inside dest rr
                          | None => false
                          end
              | None => false
              end in
  if keep then fs' else fs_remove fs' p.

(* returns (fs', error?) *)
Definition remove_obsolete (fs : fsmap) (dir : bytes) : fsmap * bool :=
  match eval_symlinks fs dir with
  | None => (fs, true)
  | Some rr =>
  match klstat fs dir with
  | None => (fs, true)
  | Some NDir =>
      match kwalk fs dir false with
      | Some rootp =>
          let cd := clean dir in
          (fold_left (fun fs' (pt : path * bytes) =>
                        obsolete_step rr fs' (fst pt) (join_slash (cd :: skipn (length rootp) (fst pt))) (snd pt))
                     (psort (links_below fs rootp)) fs, false)
      | None => (fs, true)
      end
  | Some (NFile _ _) => (fs, false)
  | Some (NLink t) =>
      (* WalkDir on a root that is itself a link visits only the root *)
      match kwalk fs dir false with
      | Some p => (obsolete_step rr fs p dir t, false)
      | None => (fs, false)
      end
  end
  end.

(* UnpackSquashedFromTarball on an already flattened entry list; RemoveObsoleteSymlinks is deferred,
   i.e. it also runs when a pass failed *)
Definition unpack_all (cfg : ucfg) (req : bytes -> bool) (fs : fsmap) (es : list entry) : fsmap * bool :=
  let '((fs1, _), err) := unpack_passes (u_passes cfg) cfg req (fs, []) es in
  let '(fs2, err2) := remove_obsolete fs1 (u_dir cfg) in
  (fs2, err || err2).

(* ------------------------------------------------------------------ image.go (layer scanning) *)
Definition WH : bytes := [46; 119; 104; 46].   (* ".wh." *)

Definition vtree := list (bytes * (bool * bool)).   (* pathtree of the current chain layer: key -> (isWhiteout, isDir) *)

Fixpoint vassoc (vt : vtree) (k : bytes) : option (bool * bool) :=
  match vt with
  | [] => None
  | (q, w) :: r => if beq q k then Some w else vassoc r k
  end.

(* pathtree.Get: a path that does not start with '/' falls back to the root node *)
Definition vget (vt : vtree) (vp : bytes) : option (bool * bool) :=
  match vp with
  | c :: k => if c =? SL then vassoc vt k else vassoc vt []
  | [] => vassoc vt []
  end.

(* inWhiteoutDir (after 85791d6b, 1c13035d): an ancestor without a node does not end the climb; a
   whiteout or a non-directory ancestor hides everything beneath it *)
Fixpoint in_whiteout_dir (n : nat) (vt : vtree) (fp : bytes) : bool :=
  match n with
  | O => false
  | S n' =>
      if is_nil fp then false else
      let d := dir_of fp in
      if beq fp d then false else
      match vget vt d with
      | Some (wh, isdir) => if wh || negb isdir then true else in_whiteout_dir n' vt d
      | None => in_whiteout_dir n' vt d
      end
  end.

(* fillChainLayersWithFileNode restricted to the current chain layer; Insert on a non-absolute
   path fails and is ignored *)
Definition vfill (vt : vtree) (vp : bytes) (wh isdir : bool) : vtree :=
  if is_some (vget vt vp) then vt
  else if in_whiteout_dir (S (length vp)) vt vp then vt
  else match vp with
       | c :: k => if c =? SL then (k, (wh, isdir)) :: vt else vt
       | [] => vt
       end.

(* populateEmptyDirectoryNodes *)
Definition vpopulate (vt : vtree) (vp : bytes) : vtree :=
  snd (fold_left (fun (acc : bytes * vtree) (d : seg) =>
                    let running := join2 (fst acc) d in
                    (running, if is_some (vget (snd acc) running) then snd acc else vfill (snd acc) running false true))
                 (split_slash (dir_of vp)) ([SL], vt)).

Record lcfg := {
  l_dir : bytes;      (* dirPath = ExtractDir/layer-<i> *)
  l_max : Z;          (* MaxFileBytes *)
  l_marker : bytes
}.

Definition whiteout_to_path (basename : bytes) : bytes :=
  (* basename has no '/', so path.Split gives dir = "" *)
  join2 [] (trim_prefix basename WH).

(* the real path an entry name is written to, None when the entry is filtered out *)
Definition layer_target (dirPath name : bytes) : option bytes :=
  let cp := clean name in
  if has_prefix cp DDS then None else
  let b := base_of cp in
  if beq b s_dot || beq b s_dotdot then None
  else Some (join2 dirPath cp).

Definition lstate := (fsmap * vtree)%type.

Definition file_bytes_written (max size : Z) : Z := Z.min size max.
Definition file_exposed (max size : Z) : bool := (size <? max)%Z.

(* one iteration of fillChainLayersWithFilesFromTar; bool = "returns an error" (the whole image
   load then fails and CleanUp removes ExtractDir) *)
Definition layer_entry (cfg : lcfg) (st : lstate) (e : entry) : lstate * bool :=
  let '(fs, vt) := st in
  let cp := clean (e_name e) in
  match layer_target (l_dir cfg) (e_name e) with
  | None => (st, false)
  | Some real =>
      let b := base_of cp in
      let d := dir_of cp in
      let wh := has_prefix b WH in
      let b' := if wh then whiteout_to_path b else b in
      let vp := match e_type e with
                | TDir => SL :: cp
                | _ => SL :: join2 d b'
                end in
      if is_some (vget vt vp) then (st, false) else
      let ok (fs' : fsmap) := ((fs', vfill (vpopulate vt vp) vp wh (match e_type e with TDir => true | _ => false end)), false) in
      match e_type e with
      | TDir =>
          match kstat fs real with
          | Some _ => ok fs
          | None => let '(fs1, good) := mkdir_all fs real in
                    if good then ok fs1 else ((fs1, vt), true)
          end
      | TReg =>
          let '(fs1, good) := mkdir_all fs (dir_of real) in
          if negb good then ((fs1, vt), true) else
          let written := file_bytes_written (l_max cfg) (e_size e) in
          let newsize := match klstat fs1 real with
                         | Some (NFile _ old) => Z.max old written
                         | _ => written
                         end in
          match kwrite fs1 real (e_cid e) newsize with
          | None => ((fs1, vt), true)
          | Some fs2 =>
              if file_exposed (l_max cfg) (e_size e) then ok fs2
              else ((fs2, vt), false)      (* ErrFileReadLimitExceeded: fail open, skip *)
          end
      | TSym | THard =>
          if is_nil (e_link e) then (st, true)
          else if target_outside_root (l_marker cfg) vp (e_link e) then (st, false)
          else ok fs
      | TOther => (st, false)
      end
  end.

Fixpoint layer_entries (cfg : lcfg) (st : lstate) (es : list entry) : lstate * bool :=
  match es with
  | [] => (st, false)
  | e :: r =>
      let '(st', err) := layer_entry cfg st e in
      if err then (st', true) else layer_entries cfg st' r
  end.

(* one layer: Mkdir(dirPath) (an existing directory is fine), fresh tree with the root node *)
Definition layer_run (cfg : lcfg) (fs : fsmap) (es : list entry) : fsmap * bool :=
  let fs0 := match kmkdir fs (l_dir cfg) with
             | Some fs' => Some fs'
             | None => match klstat fs (l_dir cfg) with Some _ => Some fs | None => None end
             end in
  match fs0 with
  | None => (fs, true)
  | Some fs0 =>
      let '((fs1, _), err) := layer_entries cfg (fs0, [([], (false, true))]) es in (fs1, err)
  end.

Fixpoint image_layers (max : Z) (marker : bytes) (fs : fsmap) (ls : list (bytes * list entry)) : fsmap * bool :=
  match ls with
  | [] => (fs, false)
  | (d, es) :: r =>
      let '(fs', err) := layer_run {| l_dir := d; l_max := max; l_marker := marker |} fs es in
      if err then (fs', true) else image_layers max marker fs' r
  end.

(* Image.CleanUp: os.RemoveAll(ExtractDir) *)
Definition cleanup (fs : fsmap) (e : path) : fsmap :=
  filter (fun pn : path * node => negb (seg_prefix e (fst pn))) fs.

(* FromV1Image's effect on disk: MkdirTemp (the fresh name is a parameter), the layers in
   processing order, and handleImageError's CleanUp when a layer fails *)
Definition image_run (extract : bytes) (max : Z) (marker : bytes) (fs : fsmap) (ls : list (bytes * list entry)) : fsmap * bool :=
  match kmkdir fs extract with
  | None => (fs, true)
  | Some fs0 =>
      let '(fs1, err) := image_layers max marker fs0 ls in
      if err then (cleanup fs1 (csegs extract), true) else (fs1, false)
  end.

(* ------------------------------------------------------------------ specification side *)
(* paths at which two states differ *)
Definition changed_in (a b : fsmap) : list path :=
  filter (fun p => negb (match lookup a p, lookup b p with
                         | Some x, Some y => node_eqb x y
                         | None, None => true
                         | _, _ => false
                         end)) (map fst a ++ map fst b).

Definition all_changes_inside (d : path) (a b : fsmap) : bool :=
  forallb (seg_prefix d) (changed_in a b).

Definition no_dotdot (comps : list seg) : bool := forallb (fun c => negb (beq c s_dotdot)) comps.

(* every link below d that resolves at all resolves to d or below *)
Definition links_resolve_inside (d : path) (fs : fsmap) : bool :=
  forallb (fun (pn : path * node) =>
             match snd pn with
             | NLink _ =>
                 if seg_prefix d (fst pn) && no_dotdot (fst pn) then
                   match walk KERNEL_LINKS false fs true [] (fst pn) with
                   | Some q => seg_prefix d q
                   | None => true
                   end
                 else true
             | _ => true
             end) fs.

(* every prefix of [pre ++ rest] beyond [pre] is a real directory (no link on the way) *)
Fixpoint phys_dir (fs : fsmap) (pre : path) (rest : path) : bool :=
  match rest with
  | [] => true
  | c :: r => match lookup fs (pre ++ [c]) with
              | Some NDir => phys_dir fs (pre ++ [c]) r
              | _ => false
              end
  end.

(* links that cannot lead out of d: no ".." component, absolute ones re-rooted below d *)
Definition link_target_safe (d : path) (t : bytes) : bool :=
  no_dotdot (split_slash t) && (negb (is_abs t) || seg_prefix ([] :: d) (split_slash t)).

Definition links_safe (d : path) (fs : fsmap) : bool :=
  forallb (fun pn : path * node =>
             match snd pn with
             | NLink t => negb (seg_prefix d (fst pn)) || link_target_safe d t
             | _ => true
             end) fs.

(* what TargetOutsideRoot is meant to decide: the target, taken lexically from the link's directory
   (from the root for absolute targets), never climbs above the root *)
Definition lex_comps (pth target : bytes) : list seg :=
  if is_abs target then split_slash target else split_slash (dir_of pth) ++ split_slash target.

Definition lexically_inside (pth target : bytes) : bool :=
  no_dotdot (clean_fold false [] (lex_comps pth target)).

(* hypotheses of the image-load theorems, as booleans: ExtractDir is fresh (os.MkdirTemp) and every
   layer directory is ExtractDir/<one proper segment> *)
Definition nothing_at_or_below (fs : fsmap) (e : path) : bool :=
  forallb (fun pn : path * node => negb (seg_prefix e (fst pn))) fs.

Definition layer_dir_okb (e : path) (d : bytes) : bool :=
  let nm := last (csegs d) [] in
  beq d (render true (e ++ [nm])) && properb nm && negb (existsb (N.eqb SL) nm).

Definition layer_dirs_okb (e : path) (ls : list (bytes * list entry)) : bool :=
  forallb (fun l : bytes * list entry => layer_dir_okb e (fst l)) ls.

(* ---- kept links, read lexically (claimed outside D as well) ----
   A link left below the target whose stored target, read from the link's own directory, climbs
   above the target (or an absolute one that is not below the target) must never be kept.  The only
   way the current code keeps such a link is by creating it THROUGH an earlier link (entry names
   that pass through the name of a link entry: the known "s -> ." shape), so the claim is made on
   entry lists without that shape. *)
Definition is_link_entry (e : entry) : bool :=
  match e_type e with TSym | THard => true | _ => false end.

Definition names_avoid_links (es : list entry) : bool :=
  forallb (fun e =>
             forallb (fun l => negb (is_link_entry l && negb (is_nil (csegs (e_name l))) &&
                                     strict_below (csegs (e_name l)) (csegs (e_name e)))) es) es.

Definition kept_link_lexically_inside (d : path) (p : path) (t : bytes) : bool :=
  if is_abs t then seg_prefix d (csegs t)
  else no_dotdot (clean_fold false [] (skipn (length d) (removelast p) ++ split_slash t)).

Definition links_lexically_inside (d : path) (fs : fsmap) : bool :=
  forallb (fun pn : path * node =>
             match snd pn with
             | NLink t => if strict_below d (fst pn) then kept_link_lexically_inside d (fst pn) t else true
             | _ => true
             end) fs.

Definition no_links_below (d : path) (fs : fsmap) : bool :=
  forallb (fun pn : path * node =>
             match snd pn with NLink _ => negb (seg_prefix d (fst pn)) | _ => true end) fs.

(* domain D of the positive unpack theorems: no link target contains a ".." component.  Entry
   names are unrestricted (since the fix c7e8b5e1 climbing names are skipped by the code). *)
Definition entry_in_D (e : entry) : bool :=
  match e_type e with
  | TSym | THard => no_dotdot (split_slash (e_link e))
  | _ => true
  end.

Definition entries_in_D (es : list entry) : bool := forallb entry_in_D es.

(* Byte-level path algebra: Go's path.Clean / path.Join / filepath.Dir / path.Base /
   strings.HasPrefix / strings.Contains on byte strings (list N), unix separator only.
   Definitions only (total, executable); lemmas are in PathBytesProofs.v. *)
From Coq Require Import List NArith Bool.
Import ListNotations.
Open Scope N_scope.

Definition bytes := list N.
Definition seg := list N.

Definition SL : N := 47.   (* '/' *)
Definition DOT : N := 46.  (* '.' *)
Definition s_dot : seg := [DOT].
Definition s_dotdot : seg := [DOT; DOT].

Fixpoint beq (a b : bytes) : bool :=
  match a, b with
  | [], [] => true
  | x :: a', y :: b' => (x =? y) && beq a' b'
  | _, _ => false
  end.

Fixpoint segs_eqb (a b : list seg) : bool :=
  match a, b with
  | [], [] => true
  | x :: a', y :: b' => beq x y && segs_eqb a' b'
  | _, _ => false
  end.

(* strings.Split(s, "/"): always at least one element *)
Fixpoint split_slash (s : bytes) : list seg :=
  match s with
  | [] => [[]]
  | c :: r =>
      if c =? SL then [] :: split_slash r
      else match split_slash r with
           | h :: t => (c :: h) :: t
           | [] => [[c]]
           end
  end.

(* strings.Join(l, "/") *)
Fixpoint join_slash (l : list seg) : bytes :=
  match l with
  | [] => []
  | [x] => x
  | x :: r => x ++ SL :: join_slash r
  end.

Definition is_abs (s : bytes) : bool :=
  match s with c :: _ => c =? SL | [] => false end.

(* one step of Clean's component loop; the stack is kept reversed (top first).
   Invariant: a ".." is only ever pushed on an empty stack or on another "..", so "top is .."
   is Go's "out.w <= dotdot". *)
Definition clean_step (rooted : bool) (stk : list seg) (c : seg) : list seg :=
  if beq c [] || beq c s_dot then stk
  else if beq c s_dotdot then
    match stk with
    | top :: stk' => if beq top s_dotdot then c :: stk else stk'
    | [] => if rooted then [] else [c]
    end
  else c :: stk.

Definition clean_fold (rooted : bool) (stk : list seg) (comps : list seg) : list seg :=
  fold_left (clean_step rooted) comps stk.

(* canonical segment list of a path string *)
Definition csegs (s : bytes) : list seg := rev (clean_fold (is_abs s) [] (split_slash s)).

Definition render (rooted : bool) (l : list seg) : bytes :=
  if rooted then SL :: join_slash l
  else match l with [] => s_dot | _ => join_slash l end.

(* path.Clean (= filepath.Clean on unix) *)
Definition clean (s : bytes) : bytes :=
  match s with
  | [] => s_dot
  | _ => render (is_abs s) (csegs s)
  end.

(* path.Join(a, b) (= filepath.Join on unix): empty elements are ignored *)
Definition join2 (a b : bytes) : bytes :=
  match a, b with
  | [], [] => []
  | [], _ => clean b
  | _, [] => clean a
  | _, _ => clean (a ++ SL :: b)
  end.

Definition join3 (a b c : bytes) : bytes :=
  match a with
  | [] => join2 b c
  | _ => match b with
         | [] => join2 a c
         | _ => match c with
                | [] => join2 a b
                | _ => clean (a ++ SL :: b ++ SL :: c)
                end
         end
  end.

(* path[:i+1] where i is the index of the last '/', i.e. everything up to and including it *)
Fixpoint upto_last_slash (s : bytes) : bytes :=
  match s with
  | [] => []
  | c :: r =>
      if existsb (N.eqb SL) r then c :: upto_last_slash r
      else if c =? SL then [c] else []
  end.

Fixpoint after_last_slash (s : bytes) : bytes :=
  match s with
  | [] => []
  | c :: r =>
      if existsb (N.eqb SL) r then after_last_slash r
      else if c =? SL then r else s
  end.

(* path.Dir / filepath.Dir *)
Definition dir_of (s : bytes) : bytes := clean (upto_last_slash s).

Fixpoint strip_trailing_slashes_rev (r : bytes) : bytes :=
  match r with
  | c :: r' => if c =? SL then strip_trailing_slashes_rev r' else r
  | [] => []
  end.

(* path.Base *)
Definition base_of (s : bytes) : bytes :=
  match s with
  | [] => s_dot
  | _ =>
    let t := rev (strip_trailing_slashes_rev (rev s)) in
    match t with
    | [] => [SL]
    | _ => after_last_slash t
    end
  end.

(* strings.HasPrefix(s, p) *)
Fixpoint has_prefix (s p : bytes) {struct p} : bool :=
  match p, s with
  | [], _ => true
  | y :: p', x :: s' => (x =? y) && has_prefix s' p'
  | _ :: _, [] => false
  end.

(* strings.Contains(s, p) *)
Fixpoint contains (s p : bytes) : bool :=
  has_prefix s p || match s with [] => false | _ :: s' => contains s' p end.

(* strings.TrimPrefix *)
Definition trim_prefix (s p : bytes) : bytes :=
  if has_prefix s p then skipn (length p) s else s.

(* segment-wise prefix: the containment notion ("p is dir or below dir") *)
Fixpoint seg_prefix (d p : list seg) : bool :=
  match d, p with
  | [], _ => true
  | x :: d', y :: p' => beq x y && seg_prefix d' p'
  | _ :: _, [] => false
  end.

Definition blen (s : bytes) : N := N.of_nat (length s).

(* a segment that can name a directory entry *)
Definition noslash (s : seg) : Prop := ~ In SL s.
Definition properb (c : seg) : bool := negb (beq c [] || beq c s_dot || beq c s_dotdot).
Definition proper (c : seg) : Prop := properb c = true.

(* a directory string that is absolute and its own Clean *)
Definition clean_abs (d : bytes) : Prop := is_abs d = true /\ clean d = d.

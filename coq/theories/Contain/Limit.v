(* C10, image half: the per-file byte limit of the layer-scanning image loader
   (image.go handleFile:  numBytes, err := io.Copy(f, io.LimitReader(tarReader, max));
                          if numBytes >= max || ... { return nil, ErrFileReadLimitExceeded })
   Definitions only; proofs are in LimitProofs.v. *)
From Coq Require Import List NArith ZArith Bool.
From Scalibr Require Import Contain.PathBytes Contain.Model.
Import ListNotations.
Open Scope Z_scope.

Inductive copy_result :=
| Kept (written : Z)            (* a file node is created: the file becomes visible in the views *)
| LimitExceeded (written : Z).  (* ErrFileReadLimitExceeded: fail open, entry skipped *)

(* io.LimitReader hands out at most max bytes of the size bytes the tar entry holds; io.Copy
   copies all of them *)
Definition handle_file_copy (max size : Z) : copy_result :=
  let n := Z.min size max in
  if n >=? max then LimitExceeded n else Kept n.

Definition written_of (r : copy_result) : Z := match r with Kept n | LimitExceeded n => n end.
Definition exposed_of (r : copy_result) : bool := match r with Kept _ => true | LimitExceeded _ => false end.

(* every regular file in the state is at most m bytes long *)
Definition files_le (m : Z) (fs : fsmap) : Prop :=
  forall p c s, lookup fs p = Some (NFile c s) -> s <= m.

Definition files_leb (m : Z) (fs : fsmap) : bool :=
  forallb (fun pn : path * node => match snd pn with NFile _ s => s <=? m | _ => true end) fs.

(* ---- cases protocol (harness/cmd/contain -limitmode) ---- *)
Record fcase := {
  fc_max : Z; fc_size : Z;
  fc_disk : Z;          (* size of the file found under ExtractDir, -1 when there is none *)
  fc_visible : bool;    (* Stat through the chain layer's FS succeeds *)
  fc_vsize : Z;         (* size reported by that Stat / number of bytes readable, -1 when invisible *)
  fc_corr : bool        (* false: observation of a view in which an older layer may supply the name;
                           only the oracle applies *)
}.

Definition fcase_model_ok (c : fcase) : bool :=
  negb (fc_corr c) ||
  let r := handle_file_copy (fc_max c) (fc_size c) in
  (fc_disk c =? written_of r) && Bool.eqb (fc_visible c) (exposed_of r) &&
  (if exposed_of r then fc_vsize c =? fc_size c else fc_vsize c =? -1).

(* the property itself, on the implementation's observations *)
Definition fcase_spec_ok (c : fcase) : bool :=
  (fc_disk c <=? fc_max c) && (negb (fc_visible c) || (fc_vsize c <? fc_max c)).

Fixpoint bad_idx {A} (ok : A -> bool) (l : list A) (i : nat) : list nat :=
  match l with
  | [] => []
  | x :: r => if ok x then bad_idx ok r (S i) else i :: bad_idx ok r (S i)
  end.

(* Protocol between harness/cmd/contain and the Coq side: one record per executed case, the
   model-vs-observation comparison (case_model_ok) and the spec evaluated on the implementation's
   own observed state (case_spec_ok).  Definitions only. *)
From Coq Require Import List NArith ZArith Bool.
From Scalibr Require Import Contain.PathBytes Contain.Model.
Import ListNotations.
Open Scope N_scope.

(* a fixed uuid-shaped marker; generated names never contain it (nor does a real uuid occur in them) *)
Definition MARK : bytes :=
  [48;48;48;48;48;48;48;48;45;48;48;48;48;45;52;48;48;48;45;56;48;48;48;45;48;48;48;48;48;48;48;48;48;48;48;48].

Definition fs_sub (a b : fsmap) : bool :=
  forallb (fun pn : path * node =>
             match lookup b (fst pn) with Some n => node_eqb n (snd pn) | None => false end) a.
Definition fs_eqb (a b : fsmap) : bool := fs_sub a b && fs_sub b a.

Definition opath_eqb (a b : option path) : bool :=
  match a, b with
  | Some x, Some y => segs_eqb x y
  | None, None => true
  | _, _ => false
  end.

Fixpoint bad_indices {A} (ok : A -> bool) (l : list A) (i : nat) : list nat :=
  match l with
  | [] => []
  | x :: r => if ok x then bad_indices ok r (S i) else i :: bad_indices ok r (S i)
  end.

(* ---------------------------------------------------------------- path algebra cases *)
Record pcase := {
  pc_a : bytes; pc_b : bytes;
  pc_clean : bytes;       (* path.Clean(a) *)
  pc_join : bytes;        (* path.Join(a, b) *)
  pc_dir : bytes;         (* filepath.Dir(a) *)
  pc_base : bytes;        (* path.Base(a) *)
  pc_tor : bool           (* symlink.TargetOutsideRoot(a, b) *)
}.

Definition pcase_model_ok (c : pcase) : bool :=
  beq (clean (pc_a c)) (pc_clean c) && beq (join2 (pc_a c) (pc_b c)) (pc_join c) &&
  beq (dir_of (pc_a c)) (pc_dir c) && beq (base_of (pc_a c)) (pc_base c) &&
  Bool.eqb (target_outside_root MARK (pc_a c) (pc_b c)) (pc_tor c).

(* spec, evaluated on the implementation's outputs: Clean's output is a fixpoint of Clean and its
   segments are proper names after an (unrooted only) leading run of ".."; and whenever
   TargetOutsideRoot answers "inside", the target taken lexically from the link's directory (or
   from the root for absolute targets) never climbs above the root. *)
Fixpoint proper_after_dotdots (rooted : bool) (l : list seg) : bool :=
  match l with
  | [] => true
  | c :: r => if beq c s_dotdot then negb rooted && proper_after_dotdots rooted r
              else forallb (fun x => negb (beq x [] || beq x s_dot || beq x s_dotdot)) l
  end.

Definition pcase_spec_ok (c : pcase) : bool :=
  beq (clean (pc_clean c)) (pc_clean c) &&
  match pc_clean c with
  | [] => false
  | x :: r => if (x =? SL) then proper_after_dotdots true (match r with [] => [] | _ => split_slash r end)
              else beq (pc_clean c) s_dot || proper_after_dotdots false (split_slash (pc_clean c))
  end &&
  (pc_tor c || lexically_inside (pc_a c) (pc_b c)).

(* ---------------------------------------------------------------- unpack cases *)
Record ucase := {
  uc_dir : bytes;                 (* the dir string handed to UnpackSquashed* *)
  uc_target : path;               (* physical path of the designated directory *)
  uc_max : Z; uc_passes : nat; uc_errret : bool;
  uc_ignore : bool;               (* SymlinkResolution = SymlinkIgnore *)
  uc_cwd : path;                  (* working directory of the harness process *)
  uc_squash_failed : bool;        (* UnpackSquashed: SaveToTarball failed before unpack() ran *)
  uc_init : fsmap;
  uc_entries : list entry;
  uc_obs : fsmap;                 (* snapshot after the call (whole sandbox) *)
  uc_err : bool;                  (* call returned an error *)
  uc_links : list (path * option path);  (* every link below target with filepath.EvalSymlinks *)
  uc_meta_ok : bool               (* Go-side: no mode/content/type change outside target, TMPDIR empty *)
}.

Definition uc_cfg (c : ucase) : ucfg :=
  {| u_dir := uc_dir c; u_max := uc_max c; u_passes := uc_passes c;
     u_err_return := uc_errret c; u_ignore := uc_ignore c; u_cwd := uc_cwd c; u_marker := MARK |}.

Definition uc_model (c : ucase) : fsmap * bool :=
  if uc_squash_failed c then (uc_init c, true)
  else unpack_all (uc_cfg c) (fun _ => true) (uc_init c) (uc_entries c).

Definition ucase_model_ok (c : ucase) : bool :=
  let '(fs', err) := uc_model c in
  fs_eqb fs' (uc_obs c) && Bool.eqb err (uc_err c) &&
  forallb (fun pr : path * option path =>
             opath_eqb (walk GO_LINKS true fs' true [] (fst pr)) (snd pr)) (uc_links c).

Definition ucase_spec_ok (c : ucase) : bool :=
  all_changes_inside (uc_target c) (uc_init c) (uc_obs c) &&
  forallb (fun pr : path * option path =>
             match snd pr with Some q => seg_prefix (uc_target c) q | None => true end) (uc_links c) &&
  uc_meta_ok c.

(* claimed on EVERY unpack case (inside and outside D) *)
Definition ucase_links_claimed (c : ucase) : bool :=
  names_avoid_links (uc_entries c) && no_links_below (uc_target c) (uc_init c).

Definition ucase_spec2_ok (c : ucase) : bool :=
  negb (ucase_links_claimed c) || links_lexically_inside (uc_target c) (uc_obs c).

(* claimed on EVERY unpack case: no new regular file outside the target (since fix c7e8b5e1 a file
   is only written when its resolved parent is the target or below it, path-wise) *)
Definition ucase_spec3_ok (c : ucase) : bool :=
  negb (existsb (fun pn : path * node =>
                   match snd pn with
                   | NFile _ _ => negb (seg_prefix (uc_target c) (fst pn)) &&
                                  negb (match lookup (uc_init c) (fst pn) with Some n => node_eqb n (snd pn) | None => false end)
                   | _ => false
                   end) (uc_obs c)).

Definition ucase_in_D (c : ucase) : bool :=
  entries_in_D (uc_entries c) && phys_dir (uc_init c) [] (uc_target c) && links_safe (uc_target c) (uc_init c) &&
  segs_eqb (csegs (uc_dir c)) (uc_target c) && beq (clean (uc_dir c)) (uc_dir c).

(* ---------------------------------------------------------------- image (layer scanning) cases *)
Record lcase := {
  lc_extract : bytes;             (* ExtractDir (virtual name) *)
  lc_max : Z;
  lc_init : fsmap;
  lc_layers : list (bytes * list entry);   (* (dirPath, entries) in processing order *)
  lc_obs1 : fsmap;                (* after FromV1Image / FromTarball *)
  lc_err : bool;
  lc_obs2 : fsmap;                (* after CleanUp *)
  lc_meta_ok : bool
}.

Definition lcase_model_ok (c : lcase) : bool :=
  let '(fs', err) := image_run (lc_extract c) (lc_max c) MARK (lc_init c) (lc_layers c) in
  fs_eqb fs' (lc_obs1 c) && Bool.eqb err (lc_err c) &&
  fs_eqb (cleanup fs' (csegs (lc_extract c))) (lc_obs2 c).

Definition lcase_spec_ok (c : lcase) : bool :=
  all_changes_inside (csegs (lc_extract c)) (lc_init c) (lc_obs1 c) &&
  fs_eqb (lc_init c) (lc_obs2 c) && lc_meta_ok c.

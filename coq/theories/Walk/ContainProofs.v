(* Proofs (C09): everything outside the failing directories and files is extracted as in the fault-free scan. *)
From Coq Require Import List ZArith NArith Bool Arith Lia Permutation.
From Scalibr Require Import Walk.Model Walk.Spec Walk.Sched Walk.Proofs Walk.Trace Walk.SpecProofs Walk.C01Proofs
  Walk.Invariant Walk.Faults Walk.FaultProofs Walk.ConfineProofs.
Import ListNotations.

Lemma erase_name nd : node_name (erase_faults nd) = node_name nd.
Proof. destruct nd; reflexivity. Qed.

Lemma erase_names ch : map node_name (map erase_faults ch) = map node_name ch.
Proof. rewrite map_map. apply map_ext. apply erase_name. Qed.

Lemma erase_wf : forall nd, wf_tree (erase_faults nd) = wf_tree nd.
Proof.
  induction nd as [n k s d ff|n ch df IH] using node_ind2; [reflexivity|].
  cbn [erase_faults]. rewrite !wf_tree_dir, erase_names. f_equal.
  induction ch as [|c1 ch IHc]; [reflexivity|]. inversion IH; subst. cbn [map forallb]. rewrite H1, IHc by assumption. reflexivity.
Qed.

Lemma erase_fault_free : forall nd, fault_free (erase_faults nd) = true.
Proof.
  induction nd as [n k s d ff|n ch df IH] using node_ind2; [reflexivity|].
  cbn [erase_faults]. rewrite fault_free_dir. cbn [df_clean no_df df_open df_read_at df_stat negb andb].
  induction ch as [|c1 ch IHc]; [reflexivity|]. inversion IH; subst. cbn [map forallb]. rewrite H1, IHc by assumption. reflexivity.
Qed.

Lemma filter_const {A} (g : A -> bool) (b : bool) l : (forall x, In x l -> g x = b) -> filter g l = if b then l else [].
Proof.
  induction l as [|x l IH]; intros H; [destruct b; reflexivity|]. cbn [filter]. rewrite (H x (or_introl eq_refl)).
  rewrite IH by (intros y Hy; apply H; right; exact Hy). destruct b; reflexivity.
Qed.

Lemma req_erase c e p sz ff : c_statreq c e = None \/ ff_stat ff = false -> req c e p sz ff = req c e p sz no_ff.
Proof. intros [H|H]; unfold req; rewrite H; reflexivity. Qed.

Lemma ext_events_calls_fault c p sz ff : forall es checked,
  (forall e, In e es -> c_statreq c e = None \/ ff_stat ff = false) ->
  calls (ext_events c p sz ff es checked) =
  if ff_open ff || ff_fstat ff || (negb checked && (0 <? c_max_size c)%Z && ff_stat ff) then []
  else calls (ext_events c p sz no_ff es checked).
Proof.
  induction es as [|e es IH]; intros checked HS; cbn [ext_events calls]; [destruct (_ || _); reflexivity|].
  rewrite <- (req_erase c e p sz ff) by (apply HS; left; reflexivity).
  assert (HS' : forall e', In e' es -> c_statreq c e' = None \/ ff_stat ff = false) by (intros e' H'; apply HS; right; exact H').
  destruct (req c e p sz ff); [|apply IH; exact HS'].
  cbn [ff_stat ff_open ff_fstat no_ff orb].
  destruct (0 <? c_max_size c)%Z, checked, (ff_stat ff), (c_max_size c <? sz)%Z;
    cbn [andb orb negb calls]; rewrite ?calls_app, ?IH by exact HS';
    destruct (ff_open ff), (ff_fstat ff); cbn [andb orb negb app calls]; reflexivity.
Qed.

Lemma ext_events_call_paths c p sz ff : forall es checked ep,
  In ep (calls (ext_events c p sz ff es checked)) -> snd ep = p.
Proof.
  induction es as [|e es IH]; intros checked ep; cbn [ext_events calls]; [intros []|].
  destruct (req c e p sz ff); [|apply IH].
  destruct ((0 <? c_max_size c)%Z && negb checked && (ff_stat ff || (c_max_size c <? sz)%Z)); [intros []|].
  rewrite calls_app. intros H. apply in_app_or in H as [H|H]; [|eapply IH; exact H].
  destruct (ff_open ff); [destruct H|]. destruct (ff_fstat ff); [destruct H|]. destruct H as [<-|[]]. reflexivity.
Qed.

(* every call of a scheduled subtree is on a path below the subtree's own path *)
Lemma sched_calls_paths c : forall nd q ms ep,
  wf_tree nd = true -> ~ In DOT q -> In ep (sched_calls c ms (mpath q) nd) ->
  exists s, snd ep = mpath (q ++ s) /\ ~ In DOT (q ++ s).
Proof.
  induction nd as [n k sz d ff|n ch df IH] using node_ind2; intros q ms ep WF ND Hin.
  - unfold sched_calls in Hin. cbn [schedule flat_map call_events calls] in Hin. rewrite app_nil_r in Hin.
    destruct (kind_accepted c k && _); [|destruct Hin]. apply ext_events_call_paths in Hin.
    exists []. rewrite app_nil_r. split; [exact Hin|exact ND].
  - unfold sched_calls in Hin. rewrite schedule_dir in Hin. cbn [flat_map] in Hin.
    rewrite calls_app, dir_call_calls in Hin. cbn [app] in Hin.
    rewrite wf_tree_dir in WF. apply andb_true_iff in WF as [WN WC].
    destruct (dir_decision c ms (mpath q) ch) as [| |ms']; try destruct Hin.
    destruct (df_open df); [cbn in Hin; destruct Hin|].
    assert (G : forall l ra, (forall x, In x l -> In x ch) ->
                In ep (calls (flat_map (call_events c) (sched_children c ms' (mpath q) (Dir n ch df) l ra))) ->
                exists s, snd ep = mpath (q ++ s) /\ ~ In DOT (q ++ s)).
    { induction l as [|c1 l IHl]; intros ra Sub H.
      - destruct ra as [[|k]|]; cbn in H; destruct H.
      - destruct ra as [[|k]|]; cbn [sched_children] in H; [cbn in H; destruct H| |];
          rewrite flat_map_app, calls_app in H; apply in_app_or in H as [H|H];
          try (eapply IHl; [intros x Hx; apply Sub; right; exact Hx|exact H]).
        all: assert (Hc : In c1 ch) by (apply Sub; left; reflexivity).
        all: assert (Hnm : node_name c1 <> DOT) by (apply (names_ok_not_dot _ WN); apply in_map; exact Hc).
        all: rewrite child_path_mpath in H by exact ND.
        all: rewrite Forall_forall in IH; rewrite forallb_forall in WC.
        all: destruct (IH c1 Hc (q ++ [node_name c1]) ms' ep (WC c1 Hc)) as (s & Hs & NDs);
          [intros X; apply in_app_or in X as [X|[X|[]]]; [exact (ND X)|contradiction]|exact H|].
        all: exists ([node_name c1] ++ s); rewrite app_assoc; split; [exact Hs|exact NDs]. }
    eapply G; [intros x Hx; exact Hx|exact Hin].
Qed.

Lemma spath_mpath q : ~ In DOT q -> spath (mpath q) = q.
Proof.
  intros ND. unfold spath. destruct q as [|x q]; [reflexivity|]. cbn [mpath].
  destruct (ln_eqb (x :: q) [DOT]) eqn:E; [|reflexivity]. apply ln_eqb_eq in E. inversion E; subst. exfalso. apply ND. left. reflexivity.
Qed.

(* calls of the children listed before a read failure *)
Lemma sched_children_calls c ms' p nd : forall l ra,
  calls (flat_map (call_events c) (sched_children c ms' p nd l ra)) =
  flat_map (fun c1 => sched_calls c ms' (child_path p (node_name c1)) c1)
           (match ra with None => l | Some k => firstn k l end).
Proof.
  induction l as [|c1 l IH]; intros ra.
  - destruct ra as [[|k]|]; reflexivity.
  - destruct ra as [[|k]|]; cbn [sched_children]; [reflexivity| |];
      rewrite flat_map_app, calls_app, IH; reflexivity.
Qed.

Lemma names_ok_firstn k l : names_ok l = true -> names_ok (firstn k l) = true.
Proof.
  revert l. induction k as [|k IH]; intros [|x l] H; try reflexivity.
  apply names_ok_cons in H as (H1 & H2 & H3). cbn [firstn names_ok]. rewrite (IH l H3), andb_true_r.
  apply andb_true_iff. split; [apply negb_true_iff, N.eqb_neq; exact H1|].
  apply negb_true_iff, not_true_is_false. intros E. apply existsb_exists in E as (y & Hy & E). apply N.eqb_eq in E. subst y.
  apply H2. clear -Hy. revert k Hy. induction l as [|z l IHl]; intros [|k] Hy; try destruct Hy; [left; assumption|right; eapply IHl; eassumption].
Qed.

Lemma find_child_none nm l : ~ In nm (map node_name l) -> find_child nm l = None.
Proof.
  intros H. destruct (find_child nm l) as [c1|] eqn:E; [|reflexivity]. exfalso. apply H.
  unfold find_child in E. apply find_some in E as [Hin Hn]. apply N.eqb_eq in Hn. subst nm. apply in_map. exact Hin.
Qed.

Lemma names_ok_app_disjoint a b : names_ok (a ++ b) = true -> forall x, In x b -> ~ In x a.
Proof.
  induction a as [|y a IH]; intros H x Hb Ha; [destruct Ha|]. cbn [app] in H. apply names_ok_cons in H as (H1 & H2 & H3).
  destruct Ha as [->|Ha]; [apply H2; apply in_or_app; right; exact Hb|eapply IH; eassumption].
Qed.

Lemma find_child_erase nm ch :
  find_child nm (map erase_faults ch) = option_map erase_faults (find_child nm ch).
Proof.
  induction ch as [|c1 ch IH]; [reflexivity|]. unfold find_child in *. cbn [map find]. rewrite erase_name.
  destruct (N.eqb (node_name c1) nm); [reflexivity|exact IH].
Qed.

Lemma dir_decision_erase c ms p ch :
  negb (c_gitignore c) || gi_child_ok ch = true ->
  dir_decision c ms p (map erase_faults ch) = dir_decision c ms p ch.
Proof.
  intros Q. unfold dir_decision. destruct (should_skip_dir c ms p); [reflexivity|].
  destruct (c_gitignore c); [|reflexivity]. cbn [negb orb] in Q.
  assert (E : parse_dir_gi p (map erase_faults ch) = parse_dir_gi p ch).
  { unfold parse_dir_gi, gi_child_ok in *. rewrite find_child_erase.
    destruct (find_child GI ch) as [[gn gk gs gd gff|gn gl gdf]|]; cbn [option_map erase_faults no_ff no_df ff_open df_open]; try reflexivity.
    - apply negb_true_iff in Q. rewrite Q. reflexivity.
    - apply negb_true_iff in Q. rewrite Q. reflexivity. }
  rewrite E. reflexivity.
Qed.

Lemma sched_calls_dir_gen c ms p n ch df :
  sched_calls c ms p (Dir n ch df) =
  match dir_decision c ms p ch with
  | DEnter ms' => if df_open df then []
                  else flat_map (fun c1 => sched_calls c ms' (child_path p (node_name c1)) c1) (listed ch df)
  | _ => []
  end.
Proof.
  unfold sched_calls. rewrite schedule_dir. cbn [flat_map]. rewrite calls_app, dir_call_calls. cbn [app].
  destruct (dir_decision c ms p ch); try reflexivity. destruct (df_open df); [reflexivity|].
  apply sched_children_calls.
Qed.

Lemma flat_map_map {A B C} (g : A -> B) (h : B -> list C) l : flat_map h (map g l) = flat_map (fun x => h (g x)) l.
Proof. induction l as [|x l IH]; [reflexivity|]. cbn [map flat_map]. rewrite IH. reflexivity. Qed.

Theorem contained_core c : forall nd q ms,
  tree_quiet c nd = true -> gi_readable c nd = true -> wf_tree nd = true -> ~ In DOT q ->
  sched_calls c ms (mpath q) nd =
  filter (fun ep => survives c nd (skipn (length q) (spath (snd ep)))) (sched_calls c ms (mpath q) (erase_faults nd)).
Proof.
  induction nd as [n k sz d ff|n ch df IH] using node_ind2; intros q ms Q GR WF ND.
  - (* file *)
    unfold sched_calls. cbn [erase_faults schedule flat_map call_events calls]. rewrite !app_nil_r.
    destruct (kind_accepted c k && _); [|reflexivity].
    cbn [calls]. rewrite ext_events_calls_fault.
    2:{ intros e He. cbn [tree_quiet] in Q. destruct (ff_stat ff); [|right; reflexivity]. left.
        cbn [andb] in Q. apply negb_true_iff, orb_false_iff in Q as [Q _]. unfold stat_used in Q.
        destruct (c_statreq c e) eqn:E; [|reflexivity]. exfalso.
        assert (X : existsb (fun e0 => match c_statreq c e0 with Some _ => true | None => false end) (c_exts c) = true)
          by (apply existsb_exists; exists e; split; [exact He|rewrite E; reflexivity]).
        congruence. }
    rewrite (filter_const _ (negb (ff_open ff) && negb (ff_fstat ff) && negb ((0 <? c_max_size c)%Z && ff_stat ff))).
    + cbn [negb andb]. destruct (ff_open ff), (ff_fstat ff), (0 <? c_max_size c)%Z, (ff_stat ff); reflexivity.
    + intros ep Hin. apply ext_events_call_paths in Hin. rewrite Hin, spath_mpath by exact ND.
      replace (skipn (length q) q) with (@nil N) by (symmetry; apply skipn_all). reflexivity.
  - (* directory *)
    cbn [erase_faults]. rewrite !sched_calls_dir_gen.
    rewrite tree_quiet_dir in Q. pose proof Q as QC.
    rewrite gi_readable_dir in GR. apply andb_true_iff in GR as [QG GC].
    rewrite dir_decision_erase by exact QG.
    destruct (dir_decision c ms (mpath q) ch) as [| |ms']; try reflexivity.
    rewrite wf_tree_dir in WF. apply andb_true_iff in WF as [WN WC].
    unfold listed at 2. cbn [no_df df_open df_read_at]. rewrite flat_map_map.
    (* predicate on the calls of child c1 *)
    assert (Pred : forall c1 ep, In c1 ch -> In ep (sched_calls c ms' (child_path (mpath q) (node_name c1)) (erase_faults c1)) ->
              survives c (Dir n ch df) (skipn (length q) (spath (snd ep))) =
              negb (df_open df) && match find_child (node_name c1) (listed ch df) with
                                   | Some c1' => survives c c1' (skipn (length (q ++ [node_name c1])) (spath (snd ep)))
                                   | None => false end).
    { intros c1 ep Hc Hin.
      assert (Hnm : node_name c1 <> DOT) by (apply (names_ok_not_dot _ WN); apply in_map; exact Hc).
      assert (ND1 : ~ In DOT (q ++ [node_name c1])) by (intros X; apply in_app_or in X as [X|[X|[]]]; [exact (ND X)|contradiction]).
      rewrite child_path_mpath in Hin by exact ND.
      rewrite forallb_forall in WC.
      destruct (sched_calls_paths c (erase_faults c1) (q ++ [node_name c1]) ms' ep) as (s & Hs & ND2);
        [rewrite erase_wf; apply WC; exact Hc|exact ND1|exact Hin|].
      rewrite Hs, spath_mpath by exact ND2. rewrite skipn_app_exact. rewrite <- app_assoc, skipn_app_exact.
      cbn [app survives]. reflexivity. }
    destruct (df_open df) eqn:FO.
    + (* cannot be opened: everything below is lost *)
      symmetry. rewrite filter_flat_map. apply flat_map_nil_in. intros c1 Hc. rewrite erase_name.
      rewrite (filter_const _ false); [reflexivity|]. intros ep Hin. rewrite (Pred c1 ep Hc Hin). reflexivity.
    + cbn [negb andb] in Pred. rewrite filter_flat_map.
      (* split ch into the listed part and the rest *)
      assert (Split : exists rest, ch = listed ch df ++ rest).
      { unfold listed. destruct (df_read_at df) as [k|]; [exists (skipn k ch); symmetry; apply firstn_skipn|exists []; symmetry; apply app_nil_r]. }
      destruct Split as [rest ES].
      assert (WNL : names_ok (map node_name (listed ch df)) = true).
      { unfold listed. destruct (df_read_at df) as [k|]; [|exact WN]. rewrite <- firstn_map. apply names_ok_firstn. exact WN. }
      rewrite ES at 2. rewrite flat_map_app.
      rewrite (flat_map_nil_in _ rest), app_nil_r.
      * apply flat_map_ext_in. intros c1 Hc.
        assert (Hch : In c1 ch) by (rewrite ES; apply in_or_app; left; exact Hc).
        rewrite erase_name.
        rewrite (filter_ext_in _ (fun ep => survives c c1 (skipn (length (q ++ [node_name c1])) (spath (snd ep))))).
        -- assert (Hnm : node_name c1 <> DOT) by (apply (names_ok_not_dot _ WN); apply in_map; exact Hch).
           rewrite child_path_mpath by exact ND.
           rewrite Forall_forall in IH. rewrite forallb_forall in QC, WC, GC.
           apply (IH c1 Hch (q ++ [node_name c1]) ms' (QC c1 Hch) (GC c1 Hch) (WC c1 Hch)).
           intros X; apply in_app_or in X as [X|[X|[]]]; [exact (ND X)|contradiction].
        -- intros ep Hin. rewrite (Pred c1 ep Hch Hin). rewrite (find_child_unique _ WNL c1 Hc). reflexivity.
      * intros c1 Hc.
        assert (Hch : In c1 ch) by (rewrite ES; apply in_or_app; right; exact Hc).
        rewrite erase_name. rewrite (filter_const _ false); [reflexivity|]. intros ep Hin.
        rewrite (Pred c1 ep Hch Hin). rewrite find_child_none; [reflexivity|].
        rewrite ES, map_app in WN. apply (names_ok_app_disjoint _ _ WN). apply in_map. exact Hc.
Qed.

Lemma fs_calls_quiet c t :
  c_fatal c = false -> no_limits c = true -> no_xpanic c -> c_paths c = [] -> tree_quiet c t = true ->
  node_stat_fails t = false -> fs_calls c t = sched_calls c [] [DOT] t.
Proof.
  intros F NL NP P Q S. unfold fs_calls, fs_result. rewrite run_fs_root by exact P. rewrite S.
  pose proof (quiet_all c _ F (schedule_quiet_or_fserr c t Q (s_stack init_state) [DOT])) as QA.
  destruct (walk_node_quiet c [DOT] t init_state NL NP QA) as (st & W & _ & N). rewrite W. cbn [wres_state].
  rewrite <- (ns_events st), N, ns_events, run_calls_events. reflexivity.
Qed.

Lemma tree_quiet_erase c : forall nd, tree_quiet c (erase_faults nd) = true.
Proof.
  induction nd as [n k s d ff|n ch df IH] using node_ind2.
  - reflexivity.
  - cbn [erase_faults]. rewrite tree_quiet_dir.
    induction ch as [|c1 ch IHc]; [reflexivity|]. inversion IH; subst. cbn [map forallb]. rewrite H1, IHc by assumption. reflexivity.
Qed.

Theorem faults_contained_lemma c t :
  c_fatal c = false -> no_limits c = true -> no_xpanic c -> c_paths c = [] -> tree_quiet c t = true ->
  gi_readable c t = true -> wf_tree t = true ->
  fs_calls c t = filter (fun ep => not_lost c t (snd ep)) (fs_calls c (erase_faults t)).
Proof.
  intros F NL NP P Q GR WF. unfold not_lost. destruct (node_stat_fails t) eqn:S.
  - rewrite (filter_const _ false) by reflexivity.
    unfold fs_calls, fs_result. rewrite run_fs_root by exact P. rewrite S, handle_file_fserr_result by exact NL.
    rewrite F. reflexivity.
  - rewrite (fs_calls_quiet c t F NL NP P Q S).
    rewrite (fs_calls_quiet c (erase_faults t) F NL NP P (tree_quiet_erase c t)).
    + apply (contained_core c t [] [] Q GR WF). intros [].
    + apply fault_free_stat. apply erase_fault_free.
Qed.

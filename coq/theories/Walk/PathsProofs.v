(* Proofs: explicitly requested paths are handled one after the other without interference (C01), with faults (C09);
   size limit per root (C10). *)
From Coq Require Import List ZArith NArith Bool Arith Lia Permutation.
From Scalibr Require Import Walk.Model Walk.Spec Walk.Sched Walk.Proofs Walk.Trace Walk.SpecProofs Walk.C01Proofs
  Walk.Invariant Walk.Faults Walk.FaultProofs Walk.ConfineProofs Walk.ContainProofs Walk.SubdirProofs Walk.LimitProofs.
Import ListNotations.

(* the gitignore stack walkIndividualPaths installs before walking a requested directory *)
Definition parent_stack (c : cfg) (t : node) (p : list N) : option (list (option (list N * N))) :=
  if c_gitignore c then
    match parse_parent_gitignores t p with
    | Some ms => Some ms
    | None => if c_fatal c then None else Some []
    end
  else Some [].

(* the handleFile calls one requested path causes *)
Definition path_sched (c : cfg) (t : node) (p : list N) : list hcall :=
  match lookup t p with
  | None => [HC [] p dummy_node true]
  | Some nd =>
      if node_stat_fails nd then [HC [] p dummy_node true]
      else match nd with
           | Dir _ _ _ => match parent_stack c t p with Some ms => schedule c ms p nd | None => [] end
           | File _ _ _ _ _ => [HC [] p nd false]
           end
  end.

Definition path_quiet (c : cfg) (t : node) (p : list N) : bool :=
  match parent_stack c t p with Some _ => true | None => false end && forallb (call_quiet c) (path_sched c t p).

Lemma handle_file_keeps_stack c p nd b st :
  (b = true \/ is_dir nd = false) -> s_stack (wres_state (handle_file c p nd b st)) = s_stack st.
Proof.
  intros H. unfold handle_file. pose proof (hf_prelude_stack c p b st) as PS.
  destruct (hf_prelude c p b st) as [st' sg|st2] eqn:E; [exact PS|].
  destruct H as [->|H].
  - exfalso. unfold hf_prelude in E.
    destruct ((0 <? c_max_inodes c)%Z && (c_max_inodes c <? s_inodes (inc_inodes st))%Z); [discriminate|].
    destruct (cancelled c (visit (inc_inodes st) p)); [discriminate|]. destruct (c_fatal c); discriminate.
  - destruct nd as [n k sz d ff|n ch df]; [|discriminate]. destruct (hf_file_stack c p k sz ff st2) as [S _]. congruence.
Qed.

Lemma wip_quiet c t : no_limits c = true -> no_xpanic c -> forall ps st,
  s_stack st = [] -> forallb (path_quiet c t) ps = true ->
  exists st', walk_individual_paths c t ps st = WOk st' Continue /\ s_stack st' = [] /\
              ns st' = ns (run_calls c (flat_map (path_sched c t) ps) st).
Proof.
  intros NL NP. induction ps as [|p ps IH]; intros st S Q.
  - exists st. repeat split; assumption.
  - cbn [forallb] in Q. apply andb_true_iff in Q as [Qp Q]. unfold path_quiet in Qp. apply andb_true_iff in Qp as [QS QC].
    cbn [walk_individual_paths flat_map]. rewrite run_calls_app. set (rest := flat_map (path_sched c t) ps) in *.
    unfold path_sched in QC |- *.
    assert (Single : forall nd b, (b = true \/ is_dir nd = false) -> call_quiet c (HC [] p nd b) = true ->
              exists st1 sg, handle_file c p nd b st = WOk st1 sg /\ sig_ok sg /\ s_stack st1 = [] /\
                             ns st1 = ns (run_calls c [HC [] p nd b] st)).
    { intros nd b Hb Hq. destruct (handle_file_quiet c [] p nd b st NL NP Hq) as (st1 & sg & H & SG & N).
      rewrite <- S, set_stack_same in H. exists st1, sg. split; [exact H|]. split; [exact SG|]. split; [|exact N].
      pose proof (handle_file_keeps_stack c p nd b st Hb) as K. rewrite H in K. cbn [wres_state] in K. congruence. }
    destruct (lookup t p) as [nd|] eqn:L.
    + destruct (node_stat_fails nd) eqn:SF.
      * cbn [forallb] in QC. apply andb_true_iff in QC as [QC _].
        destruct (Single dummy_node true (or_introl eq_refl) QC) as (st1 & sg & H & SG & S1 & N). rewrite H.
        destruct (IH st1 S1 Q) as (st' & W & S' & N').
        exists st'. split; [destruct sg; [exact W|exact W|contradiction]|]. split; [exact S'|].
        subst rest. rewrite N', (ns_run_calls c (flat_map (path_sched c t) ps) st1), N, <- ns_run_calls. reflexivity.
      * destruct nd as [n k sz d ff|n ch df].
        -- cbn [forallb] in QC. apply andb_true_iff in QC as [QC _].
           destruct (Single (File n k sz d ff) false (or_intror eq_refl) QC) as (st1 & sg & H & SG & S1 & N). rewrite H.
           destruct (IH st1 S1 Q) as (st' & W & S' & N').
           exists st'. split; [destruct sg; [exact W|exact W|contradiction]|]. split; [exact S'|].
           subst rest. rewrite N', (ns_run_calls c (flat_map (path_sched c t) ps) st1), N, <- ns_run_calls. reflexivity.
        -- unfold parent_stack in QS, QC |- *. 
           assert (ST : exists ms, (if c_gitignore c then match parse_parent_gitignores t p with
                                      | Some ms => Some (set_stack st ms)
                                      | None => if c_fatal c then None else Some (set_stack st []) end else Some st) = Some (set_stack st ms)
                         /\ (if c_gitignore c then match parse_parent_gitignores t p with Some ms => Some ms | None => if c_fatal c then None else Some [] end else Some []) = Some ms).
           { destruct (c_gitignore c).
             - destruct (parse_parent_gitignores t p) as [ms|]; [exists ms; split; reflexivity|].
               destruct (c_fatal c); [discriminate|]. exists []. split; reflexivity.
             - exists []. rewrite <- S, set_stack_same. split; reflexivity. }
           destruct ST as (ms & -> & EM). rewrite EM in QC |- *.
           unfold walk_dir_unsorted. rewrite L, SF.
           assert (QC' : forallb (call_quiet c) (schedule c (s_stack (set_stack st ms)) p (Dir n ch df)) = true) by (rewrite s_stack_set; exact QC).
           destruct (walk_node_quiet c p (Dir n ch df) (set_stack st ms) NL NP QC') as (st1 & W1 & _ & N1). rewrite W1.
           destruct (IH (set_stack st1 []) (s_stack_set _ _) Q) as (st' & W & S' & N').
           exists st'. split; [exact W|]. split; [exact S'|].
           subst rest. rewrite N', (ns_run_calls c (flat_map (path_sched c t) ps) (set_stack st1 [])), ns_set_stack, N1, s_stack_set.
           rewrite (ns_run_calls c (schedule c ms p (Dir n ch df)) (set_stack st ms)), ns_set_stack, <- !ns_run_calls. reflexivity.
    + cbn [forallb] in QC. apply andb_true_iff in QC as [QC _].
      destruct (Single dummy_node true (or_introl eq_refl) QC) as (st1 & sg & H & SG & S1 & N). rewrite H.
      destruct (IH st1 S1 Q) as (st' & W & S' & N').
      exists st'. split; [destruct sg; [exact W|exact W|contradiction]|]. split; [exact S'|].
      subst rest. rewrite N', (ns_run_calls c (flat_map (path_sched c t) ps) st1), N, <- ns_run_calls. reflexivity.
Qed.

(* the Extract calls of a request, from the schedules of its paths *)
Lemma fs_calls_paths c t ps : c_paths c = ps -> ps <> [] -> no_limits c = true -> no_xpanic c ->
  forallb (path_quiet c t) ps = true ->
  fs_calls c t = calls (flat_map (call_events c) (flat_map (path_sched c t) ps)).
Proof.
  intros P NE NL NP Q. unfold fs_calls, fs_result, run_fs. rewrite P. destruct ps as [|p0 ps0]; [contradiction|].
  destruct (wip_quiet c t NL NP (p0 :: ps0) init_state eq_refl Q) as (st' & W & _ & N). rewrite W. cbn [wres_state].
  rewrite <- (ns_events st'), N, ns_events, run_calls_events. reflexivity.
Qed.

(* ------------------------------------------------------------------ requested paths do not interfere (C01) *)
Lemma should_skip_dir_set_paths c ps qs ms p : c_ignore_subdirs c = false ->
  should_skip_dir (set_paths c ps) ms p = should_skip_dir (set_paths c qs) ms p.
Proof. intros I. unfold should_skip_dir. cbn [set_paths c_skip_list c_ignore_subdirs c_paths c_gitignore c_re c_glob]. rewrite I. reflexivity. Qed.

Lemma dir_decision_set_paths c ps qs ms p ch : c_ignore_subdirs c = false ->
  dir_decision (set_paths c ps) ms p ch = dir_decision (set_paths c qs) ms p ch.
Proof. intros I. unfold dir_decision. rewrite (should_skip_dir_set_paths c ps qs ms p I). reflexivity. Qed.

Lemma sched_children_set_paths c ps qs ms' p nd : forall l,
  Forall (fun c1 => forall ms p1, schedule (set_paths c ps) ms p1 c1 = schedule (set_paths c qs) ms p1 c1) l ->
  forall ra, sched_children (set_paths c ps) ms' p nd l ra = sched_children (set_paths c qs) ms' p nd l ra.
Proof.
  induction l as [|c1 l IH]; intros HF ra; [destruct ra as [[|k]|]; reflexivity|].
  inversion HF as [|? ? H1 HF']; subst.
  destruct ra as [[|k]|]; cbn [sched_children]; [reflexivity| |]; rewrite H1, (IH HF'); reflexivity.
Qed.

Lemma schedule_set_paths c ps qs : c_ignore_subdirs c = false -> forall nd ms p,
  schedule (set_paths c ps) ms p nd = schedule (set_paths c qs) ms p nd.
Proof.
  intros I. induction nd as [n k sz d ff|n ch df IH] using node_ind2; intros ms p; [reflexivity|].
  rewrite !schedule_dir, (dir_decision_set_paths c ps qs ms p ch I).
  destruct (dir_decision (set_paths c qs) ms p ch); try reflexivity.
  destruct (df_open df); [reflexivity|]. f_equal. apply sched_children_set_paths. exact IH.
Qed.

Lemma path_sched_set_paths c ps qs t p : c_ignore_subdirs c = false ->
  path_sched (set_paths c ps) t p = path_sched (set_paths c qs) t p.
Proof.
  intros I. unfold path_sched. destruct (lookup t p) as [nd|]; [|reflexivity].
  destruct (node_stat_fails nd); [reflexivity|]. destruct nd as [n k sz d ff|n ch df]; [reflexivity|].
  change (parent_stack (set_paths c ps) t p) with (parent_stack (set_paths c qs) t p).
  destruct (parent_stack (set_paths c qs) t p); [|reflexivity]. apply schedule_set_paths. exact I.
Qed.

Lemma call_quiet_set_paths c ps qs h : c_ignore_subdirs c = false ->
  call_quiet (set_paths c ps) h = call_quiet (set_paths c qs) h.
Proof.
  intros I. destruct h as [ms p nd b]. cbn [call_quiet]. destruct b; [reflexivity|].
  destruct nd as [n k sz d ff|n ch df]; [reflexivity|]. rewrite (dir_decision_set_paths c ps qs ms p ch I). reflexivity.
Qed.

Lemma path_quiet_set_paths c ps qs t p : c_ignore_subdirs c = false ->
  path_quiet (set_paths c ps) t p = path_quiet (set_paths c qs) t p.
Proof.
  intros I. unfold path_quiet. rewrite (path_sched_set_paths c ps qs t p I).
  change (parent_stack (set_paths c ps) t p) with (parent_stack (set_paths c qs) t p). f_equal.
  apply forallb_ext'. intros h. apply call_quiet_set_paths. exact I.
Qed.

Lemma parse_dirs_ff t : fault_free t = true -> forall ds acc, parse_dirs t ds acc <> None.
Proof.
  intros FF. induction ds as [|d ds IH]; intros acc; cbn [parse_dirs]; [discriminate|].
  destruct (lookup_from t d) as [[n k s dd ff|n ch df]|] eqn:L; try apply IH.
  destruct (lookup_from_wf_ff _ _ _ L) as [_ F]. specialize (F FF). rewrite fault_free_dir in F.
  apply andb_true_iff in F as [_ F]. destruct (parse_dir_gi_ff d ch F) as [m ->]. apply IH.
Qed.

Lemma parent_stack_ff c t p : fault_free t = true -> parent_stack c t p <> None.
Proof.
  intros FF. unfold parent_stack. destruct (c_gitignore c); [|discriminate].
  unfold parse_parent_gitignores. destruct (ln_eqb p [DOT]); [discriminate|].
  destruct t as [n k s d ff|n ch df].
  - pose proof (parse_dirs_ff _ FF (prefixes_from [] p) [None]) as X. destruct (parse_dirs _ _ _); [discriminate|contradiction].
  - assert (F : forallb fault_free ch = true) by (rewrite fault_free_dir in FF; apply andb_true_iff in FF; tauto).
    destruct (parse_dir_gi_ff [DOT] ch F) as [m ->].
    pose proof (parse_dirs_ff _ FF (prefixes_from [] p) [m]) as X. destruct (parse_dirs _ _ _); [discriminate|contradiction].
Qed.

Lemma lookup_ff t p nd : fault_free t = true -> lookup t p = Some nd -> fault_free nd = true.
Proof.
  intros FF. unfold lookup. destruct (ln_eqb p [DOT]); [intros H; inversion H; subst; exact FF|].
  intros L. destruct (lookup_from_wf_ff _ _ _ L) as [_ F]. exact (F FF).
Qed.

Lemma path_quiet_ff c t p : fault_free t = true -> (c_fatal c = false \/ lookup t p <> None) -> path_quiet c t p = true.
Proof.
  intros FF OK. unfold path_quiet. pose proof (parent_stack_ff c t p FF) as PS.
  destruct (parent_stack c t p) as [ms|] eqn:E; [|contradiction]. cbn [andb].
  unfold path_sched. rewrite E. destruct (lookup t p) as [nd|] eqn:L.
  - pose proof (lookup_ff t p nd FF L) as F. rewrite (fault_free_stat nd F).
    destruct nd as [n k sz d ff|n ch df]; [|apply schedule_quiet_ff; exact F].
    cbn [forallb call_quiet]. cbn [fault_free] in F. unfold ff_clean in F. apply andb_true_iff in F as [_ FS].
    apply negb_true_iff in FS. rewrite FS, !andb_false_r. reflexivity.
  - destruct OK as [OK|OK]; [|contradiction]. cbn [forallb call_quiet]. rewrite OK. reflexivity.
Qed.

Lemma ext_events_set_paths c ps p sz ff : forall es checked,
  ext_events (set_paths c ps) p sz ff es checked = ext_events c p sz ff es checked.
Proof.
  induction es as [|e es IH]; intros checked; [reflexivity|]. cbn [ext_events].
  change (req (set_paths c ps) e p sz ff) with (req c e p sz ff). change (c_max_size (set_paths c ps)) with (c_max_size c).
  rewrite !IH. reflexivity.
Qed.

Lemma call_events_set_paths c ps h : call_events (set_paths c ps) h = call_events c h.
Proof.
  destruct h as [ms p nd b]. cbn [call_events]. f_equal. destruct b; [reflexivity|].
  destruct nd as [n k sz d ff|n ch df]; [|reflexivity].
  change (kind_accepted (set_paths c ps) k) with (kind_accepted c k).
  change (c_gitignore (set_paths c ps)) with (c_gitignore c).
  change (gi_match_stack (set_paths c ps) ms p false) with (gi_match_stack c ms p false).
  change (c_exts (set_paths c ps)) with (c_exts c). rewrite ext_events_set_paths. reflexivity.
Qed.

(* The Extract calls of a request for several paths are the concatenation, in request order, of the calls of the
   single-path requests: whatever was requested before (a directory, a file, a missing path) leaves nothing behind. *)
Theorem requested_paths_independent_lemma c t ps :
  c_ignore_subdirs c = false -> fault_free t = true -> no_limits c = true -> no_xpanic c -> ps <> [] ->
  (c_fatal c = false \/ forall p, In p ps -> lookup t p <> None) ->
  fs_calls (set_paths c ps) t = flat_map (fun p => fs_calls (set_paths c [p]) t) ps.
Proof.
  intros I FF NL NP NE OK.
  assert (Q : forall qs p, In p ps -> path_quiet (set_paths c qs) t p = true).
  { intros qs p Hp. apply path_quiet_ff; [exact FF|]. destruct OK as [OK|OK]; [left; exact OK|right; apply OK; exact Hp]. }
  rewrite (fs_calls_paths (set_paths c ps) t ps eq_refl NE NL NP) by (apply forallb_forall; intros p Hp; apply Q; exact Hp).
  rewrite flat_map_flat_map, calls_flat_map. apply flat_map_ext_in. intros p Hp.
  rewrite (fs_calls_paths (set_paths c [p]) t [p] eq_refl) ; [|discriminate|exact NL|exact NP|cbn [forallb]; rewrite (Q [p] p Hp); reflexivity].
  cbn [flat_map]. rewrite app_nil_r, (path_sched_set_paths c ps [p] t p I).
  f_equal. apply flat_map_ext_in. intros h _. rewrite !call_events_set_paths. reflexivity.
Qed.

(* ------------------------------------------------------------------ size limit, root by root (C10) *)
Definition call_within_limit (c : cfg) (t : node) (ep : list N * list N) : Prop :=
  exists n k sz d ff, In (snd ep, File n k sz d ff) (nodes_of [DOT] t) /\ ((0 < c_max_size c)%Z -> (sz <= c_max_size c)%Z).

Lemma size_passes_le c sz : size_passes c sz = true -> (0 < c_max_size c)%Z -> (sz <= c_max_size c)%Z.
Proof.
  intros SP M. unfold size_passes in SP. apply Z.ltb_lt in M. rewrite M in SP. cbn [andb] in SP.
  apply negb_true_iff, Z.ltb_ge in SP. exact SP.
Qed.

(* what a list of calls adds to the trace: only Extract calls on files of the listed nodes, within the limit *)
Lemma exec_delta c : forall l st,
  exists d, s_events (eres_state (exec c l st)) = s_events st ++ d /\
            forall ep, In ep (calls d) -> exists ms nd, In (HC ms (snd ep) nd false) l /\ file_ok c nd.
Proof.
  induction l as [|[ms p nd b] l IH]; intros st.
  - exists []. split; [cbn; rewrite app_nil_r; reflexivity|intros ep []].
  - cbn [exec]. destruct (handle_file_events c p nd b (set_stack st ms)) as (evs & E & S).
    replace (s_events (set_stack st ms)) with (s_events st) in E by (destruct st; reflexivity).
    assert (Good : forall ep, In ep (calls evs) -> snd ep = p /\ b = false /\ file_ok c nd).
    { intros [e q] Hin. destruct S as [[_ ->]|[_ (evs' & -> & F & X)]]; [destruct Hin|]. cbn [calls] in Hin.
      destruct (X e q (in_calls_extract _ _ _ Hin)) as (B & _ & FO). split; [|split; assumption].
      pose proof (about_calls p evs' F) as AC. rewrite Forall_forall in AC. apply (AC (e, q) Hin). }
    destruct (handle_file c p nd b (set_stack st ms)) as [st' [| |a]|st' pc] eqn:HF; cbn [wres_state eres_state] in *.
    1,2: destruct (IH st') as (d & E' & G'); exists (evs ++ d); split; [rewrite E', E, app_assoc; reflexivity|];
         intros ep Hin; rewrite calls_app in Hin; apply in_app_or in Hin as [Hin|Hin];
         [destruct (Good ep Hin) as (<- & -> & FO); exists ms, nd; split; [left; reflexivity|exact FO]
         |destruct (G' ep Hin) as (ms' & nd' & H' & FO); exists ms', nd'; split; [right; exact H'|exact FO]].
    1,2: exists evs; split; [exact E|]; intros ep Hin; destruct (Good ep Hin) as (<- & -> & FO);
         exists ms, nd; split; [left; reflexivity|exact FO].
Qed.

Lemma run_fs_delta c t st : c_paths c = [] ->
  exists d, s_events (wres_state (run_fs c t st)) = s_events st ++ d /\ forall ep, In ep (calls d) -> call_within_limit c t ep.
Proof.
  intros P. rewrite run_fs_root by exact P. destruct (node_stat_fails t).
  - destruct (handle_file_events c [DOT] t true st) as (evs & E & S). exists evs. split; [exact E|].
    intros [e q] Hin. exfalso. destruct S as [[_ ->]|[_ (evs' & -> & F & X)]]; [destruct Hin|]. cbn [calls] in Hin.
    destruct (X e q (in_calls_extract _ _ _ Hin)) as (B & _). discriminate.
  - destruct (walk_node_state c [DOT] t st) as [ms W]. rewrite W.
    destruct (exec_delta c (schedule c (s_stack st) [DOT] t) st) as (d & E & G). exists d. split.
    + rewrite <- E. destruct (eres_state _); reflexivity.
    + intros ep Hin. destruct (G ep Hin) as (ms' & nd & H & (n & k & sz & dd & ff & -> & SP)).
      apply schedule_nodes in H. exists n, k, sz, dd, ff. split; [exact H|apply size_passes_le; exact SP].
Qed.

(* whole-tree Run over several roots: the Extract calls split into one block per root (in order), and every call of a
   block is on a file of THAT root whose size is within the limit *)
Theorem size_bound_per_root_lemma c : c_paths c = [] -> forall roots st inv sts,
  exists css, calls (s_events (rres_state (run_roots c roots st inv sts))) = calls (s_events st) ++ concat css /\
              (length css <= length roots)%nat /\
              forall i cs t, nth_error css i = Some cs -> nth_error roots i = Some t ->
                             forall ep, In ep cs -> call_within_limit c t ep.
Proof.
  intros P. induction roots as [|t roots IH]; intros st inv sts.
  - exists []. cbn. rewrite app_nil_r. split; [reflexivity|]. split; [lia|]. intros i cs t H. destruct i; discriminate.
  - cbn [run_roots]. destruct (run_fs_delta c t st P) as (d & E & G).
    destruct (run_fs c t st) as [st' [| |a]|st' pc] eqn:R; cbn [wres_state rres_state] in *.
    1,2: destruct (IH st' (s_inv st') (statuses c st')) as (css & E' & L & G'); exists (calls d :: css);
         split; [rewrite E', E, calls_app, <- app_assoc; reflexivity|]; split; [cbn; lia|];
         intros i cs t0 Hi Ht ep Hin; destruct i as [|i]; cbn [nth_error] in Hi, Ht;
         [inversion Hi; inversion Ht; subst; apply G; exact Hin|eapply G'; eassumption].
    1,2: exists [calls d]; split; [rewrite E, calls_app; cbn; rewrite app_nil_r; reflexivity|]; split; [cbn; lia|];
         intros i cs t0 Hi Ht ep Hin; destruct i as [|i]; cbn [nth_error] in Hi, Ht;
         [inversion Hi; inversion Ht; subst; apply G; exact Hin|destruct i; discriminate].
Qed.

(* ------------------------------------------------------------------ faults in requested-paths mode (C09) *)
Lemma lookup_from_erase : forall q t, lookup_from (erase_faults t) q = option_map erase_faults (lookup_from t q).
Proof.
  induction q as [|x q IH]; intros t; [reflexivity|]. destruct t as [n k s d ff|n ch df]; [reflexivity|].
  cbn [erase_faults lookup_from]. rewrite find_child_erase. destruct (find_child x ch) as [c0|]; [apply IH|reflexivity].
Qed.

Lemma lookup_erase t p : lookup (erase_faults t) p = option_map erase_faults (lookup t p).
Proof. unfold lookup. destruct (ln_eqb p [DOT]); [reflexivity|apply lookup_from_erase]. Qed.

Lemma lookup_from_quiet c : forall q t nd, lookup_from t q = Some nd ->
  (tree_quiet c t = true -> tree_quiet c nd = true) /\ (gi_readable c t = true -> gi_readable c nd = true).
Proof.
  induction q as [|x q IH]; intros t nd H.
  - inversion H; subst. split; auto.
  - cbn [lookup_from] in H. destruct t as [|n ch df]; [discriminate|].
    destruct (find_child x ch) as [c0|] eqn:FC; [|discriminate].
    assert (Hin : In c0 ch) by (unfold find_child in FC; apply find_some in FC; tauto).
    destruct (IH c0 nd H) as [A B]. split; intros X.
    + apply A. rewrite tree_quiet_dir in X. rewrite forallb_forall in X. apply X. exact Hin.
    + apply B. rewrite gi_readable_dir in X. apply andb_true_iff in X as [_ X]. rewrite forallb_forall in X. apply X. exact Hin.
Qed.

Lemma parse_dir_gi_erase p ch : gi_child_ok ch = true -> parse_dir_gi p (map erase_faults ch) = parse_dir_gi p ch.
Proof.
  intros Q. unfold parse_dir_gi, gi_child_ok in *. rewrite find_child_erase.
  destruct (find_child GI ch) as [[gn gk gs gd gff|gn gl gdf]|]; cbn [option_map erase_faults no_ff no_df ff_open df_open]; try reflexivity.
  - apply negb_true_iff in Q. rewrite Q. reflexivity.
  - apply negb_true_iff in Q. rewrite Q. reflexivity.
Qed.

Lemma parse_dirs_erase c t : c_gitignore c = true -> gi_readable c t = true -> forall ds acc,
  parse_dirs (erase_faults t) ds acc = parse_dirs t ds acc.
Proof.
  intros G GR. induction ds as [|d ds IH]; intros acc; [reflexivity|]. cbn [parse_dirs]. rewrite lookup_from_erase.
  destruct (lookup_from t d) as [[n k s dd ff|n ch df]|] eqn:L; cbn [option_map erase_faults]; try apply IH.
  destruct (lookup_from_quiet c _ _ _ L) as [_ B]. specialize (B GR). rewrite gi_readable_dir, G in B. cbn [negb orb] in B.
  apply andb_true_iff in B as [B _]. rewrite (parse_dir_gi_erase d ch B). destruct (parse_dir_gi d ch); [reflexivity|apply IH].
Qed.

Lemma parent_stack_erase c t p : gi_readable c t = true -> parent_stack c (erase_faults t) p = parent_stack c t p.
Proof.
  intros GR. unfold parent_stack. destruct (c_gitignore c) eqn:G; [|reflexivity].
  unfold parse_parent_gitignores. destruct (ln_eqb p [DOT]); [reflexivity|].
  destruct t as [n k s d ff|n ch df]; cbn [erase_faults].
  - rewrite (parse_dirs_erase c (File n k s d ff) G GR). reflexivity.
  - assert (B : gi_child_ok ch = true).
    { rewrite gi_readable_dir, G in GR. cbn [negb orb] in GR. apply andb_true_iff in GR as [B _]. exact B. }
    rewrite (parse_dir_gi_erase [DOT] ch B). destruct (parse_dir_gi [DOT] ch); [reflexivity|].
    rewrite (parse_dirs_erase c (Dir n ch df) G GR). reflexivity.
Qed.

Lemma canonical_spath p : canonical_path p = true -> mpath (spath p) = p /\ ~ In DOT (spath p).
Proof.
  unfold canonical_path, spath. destruct (ln_eqb p [DOT]) eqn:E.
  - intros _. apply ln_eqb_eq in E. subst. split; [reflexivity|intros []].
  - cbn [orb]. intros H. apply andb_true_iff in H as [NE ND]. destruct p as [|x p]; [discriminate|]. split; [reflexivity|].
    intros X. rewrite forallb_forall in ND. specialize (ND DOT X). rewrite N.eqb_refl in ND. discriminate.
Qed.

Lemma lookup_spath t p : lookup t p = lookup_from t (spath p).
Proof. unfold lookup, spath. destruct (ln_eqb p [DOT]); reflexivity. Qed.

(* the stack a requested node is walked with *)
Definition node_stack (c : cfg) (t : node) (p : list N) (nd : node) : list (option (list N * N)) :=
  match nd with
  | Dir _ _ _ => match parent_stack c t p with Some ms => ms | None => [] end
  | File _ _ _ _ _ => []
  end.

Lemma path_sched_calls c t p nd : lookup t p = Some nd -> node_stat_fails nd = false -> c_fatal c = false ->
  calls (flat_map (call_events c) (path_sched c t p)) = sched_calls c (node_stack c t p nd) p nd.
Proof.
  intros L SF F. unfold path_sched, node_stack, sched_calls. rewrite L, SF. destruct nd as [n k sz d ff|n ch df]; [reflexivity|].
  unfold parent_stack. rewrite F. destruct (c_gitignore c); [|reflexivity]. destruct (parse_parent_gitignores t p); reflexivity.
Qed.

Lemma path_quiet_tq c t p : c_fatal c = false -> tree_quiet c t = true -> path_quiet c t p = true.
Proof.
  intros F Q. unfold path_quiet.
  assert (PS : exists ms, parent_stack c t p = Some ms).
  { unfold parent_stack. rewrite F. destruct (c_gitignore c); [|eexists; reflexivity]. destruct (parse_parent_gitignores t p); eexists; reflexivity. }
  destruct PS as [ms PS]. rewrite PS. cbn [andb]. unfold path_sched. rewrite PS.
  assert (FS : forallb (call_quiet c) [HC [] p dummy_node true] = true) by (cbn [forallb call_quiet]; rewrite F; reflexivity).
  destruct (lookup t p) as [nd|] eqn:L; [|exact FS]. destruct (node_stat_fails nd); [exact FS|].
  rewrite lookup_spath in L. destruct (lookup_from_quiet c _ _ _ L) as [A _]. specialize (A Q).
  destruct nd as [n k sz d ff|n ch df].
  - pose proof (schedule_quiet_or_fserr c _ A [] p) as X. apply (quiet_all c _ F) in X. exact X.
  - apply (quiet_all c _ F). apply schedule_quiet_or_fserr. exact A.
Qed.

(* Requested-paths mode with faults, ErrorOnFSErrors off: a requested path that is missing or cannot be stat'ed
   contributes nothing and does not affect the paths requested after it; every other requested path is extracted as
   in the fault-free request of that path alone, minus what is lost to faults below it. *)
Theorem faults_contained_paths_lemma c t ps :
  let c' := set_paths c ps in
  c_fatal c = false -> c_ignore_subdirs c = false -> no_limits c = true -> no_xpanic c ->
  tree_quiet c' t = true -> gi_readable c' t = true -> wf_tree t = true -> ps <> [] ->
  (forall p, In p ps -> canonical_path p = true) ->
  fs_calls c' t =
  flat_map (fun p => match lookup t p with
                     | None => []
                     | Some nd =>
                         if node_stat_fails nd then []
                         else filter (fun ep => survives c' nd (skipn (length (spath p)) (spath (snd ep))))
                                     (fs_calls (set_paths c [p]) (erase_faults t))
                     end) ps.
Proof.
  intros c' F I NL NP Q GR WF NE CAN.
  rewrite (fs_calls_paths c' t ps eq_refl NE NL NP) by (apply forallb_forall; intros p _; apply path_quiet_tq; assumption).
  rewrite flat_map_flat_map, calls_flat_map. apply flat_map_ext_in. intros p Hp.
  destruct (canonical_spath p (CAN p Hp)) as [MP ND].
  destruct (lookup t p) as [nd|] eqn:L; [|unfold path_sched; rewrite L; reflexivity].
  destruct (node_stat_fails nd) eqn:SF; [unfold path_sched; rewrite L, SF; reflexivity|].
  (* the erased side *)
  assert (FE : fs_calls (set_paths c [p]) (erase_faults t) = sched_calls c' (node_stack c' t p nd) p (erase_faults nd)).
  { rewrite (fs_calls_paths (set_paths c [p]) (erase_faults t) [p] eq_refl); [|discriminate|exact NL|exact NP|].
    - cbn [flat_map]. rewrite app_nil_r, (path_sched_set_paths c [p] ps _ p I).
      assert (EQ : flat_map (call_events (set_paths c [p])) (path_sched (set_paths c ps) (erase_faults t) p) =
                   flat_map (call_events c') (path_sched c' (erase_faults t) p)).
      { apply flat_map_ext_in. intros h _. unfold c'. rewrite !call_events_set_paths. reflexivity. }
      rewrite EQ. rewrite (path_sched_calls c' (erase_faults t) p (erase_faults nd)).
      + f_equal. unfold node_stack. destruct nd; [reflexivity|]. cbn [erase_faults]. rewrite (parent_stack_erase c' t p GR). reflexivity.
      + rewrite lookup_erase, L. reflexivity.
      + apply fault_free_stat. apply erase_fault_free.
      + exact F.
    - cbn [forallb]. rewrite path_quiet_ff; [reflexivity|apply erase_fault_free|left; exact F]. }
  rewrite FE. rewrite (path_sched_calls c' t p nd L SF F).
  rewrite lookup_spath in L. destruct (lookup_from_quiet c' _ _ _ L) as [A B]. destruct (lookup_from_wf_ff _ _ _ L) as [W _].
  pose proof (contained_core c' nd (spath p) (node_stack c' t p nd) (A Q) (B GR) (W WF) ND) as CC.
  rewrite MP in CC. exact CC.
Qed.

(* ------------------------------------------------------------------ requested paths: the engine meets the specification (C01) *)
Lemma parent_stack_rep c t p nd :
  fault_free t = true -> wf_tree t = true -> canonical_path p = true -> lookup t p = Some nd ->
  exists ms, parent_stack c t p = Some ms /\ stack_rep c t ms (spath p).
Proof.
  intros FF WF CAN L. destruct (canonical_spath p CAN) as [MP ND]. unfold parent_stack.
  destruct (c_gitignore c) eqn:G; [|exists []; split; [reflexivity|intros G'; congruence]].
  destruct (spath p) as [|r rest] eqn:SP.
  - (* the root itself *)
    assert (E : p = [DOT]) by (rewrite <- MP; reflexivity). clear MP. subst p.
    unfold parse_parent_gitignores. rewrite ln_eqb_refl. exists []. split; [reflexivity|apply stack_rep_nil].
  - rewrite lookup_spath, SP in L.
    destruct (parse_parent_rep c t (r :: rest) nd FF WF ltac:(discriminate) ND L) as (ms & PP & SR).
    assert (E : p = r :: rest) by (rewrite <- MP; reflexivity). clear MP. subst p. rewrite PP. exists ms. split; [reflexivity|exact SR].
Qed.

(* The Extract calls of a request for any list of paths -- files and directories mixed, missing paths, the
   sub-directory cut-off on or off -- are exactly the specified ones: per requested path, in request order, a
   directory as the whole-tree rules prescribe from that directory down (with the .gitignore files of all its
   ancestors), a file iff required (kind and size permitting).  Subsumes subdir_request_equiv,
   requested_file_direct and requested_paths_independent. *)
Theorem requested_paths_exact_lemma c t :
  c_paths c <> [] -> wf_tree t = true -> fault_free t = true -> no_limits c = true -> no_xpanic c ->
  (forall p, In p (c_paths c) -> canonical_path p = true) ->
  (c_fatal c = false \/ forall p, In p (c_paths c) -> lookup t p <> None) ->
  fs_calls c t = expected_paths c t.
Proof.
  intros NE WF FF NL NP CAN OK.
  rewrite (fs_calls_paths c t (c_paths c) eq_refl NE NL NP).
  2:{ apply forallb_forall. intros p Hp. apply path_quiet_ff; [exact FF|].
      destruct OK as [OK|OK]; [left; exact OK|right; apply OK; exact Hp]. }
  unfold expected_paths. rewrite flat_map_flat_map, calls_flat_map. apply flat_map_ext_in. intros p Hp.
  destruct (canonical_spath p (CAN p Hp)) as [MP ND].
  unfold expected_for_path, path_sched. rewrite <- lookup_spath.
  destruct (lookup t p) as [nd|] eqn:L; [|reflexivity].
  pose proof (lookup_ff t p nd FF L) as Fnd. rewrite (fault_free_stat nd Fnd).
  destruct nd as [n k sz d ff|n ch df].
  - cbn [flat_map]. rewrite app_nil_r. cbn [fault_free] in Fnd. rewrite (file_call_calls c [] p n k sz d ff Fnd).
    cbn [gi_match_stack existsb]. rewrite andb_false_r. cbn [negb]. rewrite andb_true_r. reflexivity.
  - destruct (parent_stack_rep c t p _ FF WF (CAN p Hp) L) as (ms & PS & SR). rewrite PS.
    change (calls (flat_map (call_events c) (schedule c ms p (Dir n ch df)))) with (sched_calls c ms p (Dir n ch df)).
    rewrite lookup_spath in L. destruct (lookup_from_wf_ff _ _ _ L) as [W _].
    pose proof (sched_calls_spec c t (Dir n ch df) (spath p) ms L ND (W WF) Fnd SR) as X. rewrite MP in X. exact X.
Qed.

(* Proofs (C08): the root loop of filesystem.Run. *)
From Coq Require Import List ZArith NArith Bool Arith Lia Permutation.
From Scalibr Require Import Walk.Model Walk.Spec Walk.Sched Walk.Proofs Walk.Trace Walk.SpecProofs Walk.C01Proofs Walk.Invariant Walk.PermProofs
  Walk.Perm Walk.Cases Walk.Witness.
Import ListNotations.

Lemma apply_events_inv c evs : forall st, s_inv (apply_events c evs st) = s_inv st ++ flat_map (inv_of_event c) evs.
Proof.
  induction evs as [|ev evs IH]; intros st; [cbn; rewrite app_nil_r; reflexivity|].
  cbn [apply_events fold_left flat_map]. fold (apply_events c evs (apply_event c st ev)).
  rewrite IH, apply_event_inv, <- app_assoc. reflexivity.
Qed.

Lemma run_calls_inv c l : forall st,
  s_inv (run_calls c l st) = s_inv st ++ flat_map (inv_of_event c) (flat_map (call_events c) l).
Proof.
  induction l as [|h l IH]; intros st; [cbn; rewrite app_nil_r; reflexivity|].
  cbn [run_calls fold_left flat_map]. fold (run_calls c l (apply_call c st h)). rewrite IH.
  unfold apply_call. rewrite apply_events_inv, flat_map_app.
  replace (s_inv (inc_inodes st)) with (s_inv st) by (destruct st; reflexivity).
  rewrite <- app_assoc. reflexivity.
Qed.

(* the packages a fault-free root contributes, from any balanced walk context *)
Definition root_pkgs (c : cfg) (t : node) : list (list N * pkg) :=
  flat_map (inv_of_event c) (flat_map (call_events c) (schedule c [] [DOT] t)).

Lemma run_fs_from c t st :
  fault_free t = true -> no_limits c = true -> no_xpanic c -> c_paths c = [] -> s_stack st = [] ->
  exists st', run_fs c t st = WOk st' Continue /\ s_stack st' = [] /\ s_inv st' = s_inv st ++ root_pkgs c t.
Proof.
  intros FF NL NP P S. rewrite run_fs_whole by assumption.
  pose proof (schedule_quiet_ff c t FF (s_stack st) [DOT]) as Q.
  destruct (walk_node_quiet c [DOT] t st NL NP Q) as (st' & W & S' & N).
  exists st'. split; [exact W|]. split; [congruence|].
  rewrite <- (ns_inv st'), N, ns_inv, run_calls_inv, S. reflexivity.
Qed.

Lemma single_inv_ff c t :
  fault_free t = true -> no_limits c = true -> no_xpanic c -> c_paths c = [] -> c_exts c <> [] ->
  single_inv c t = root_pkgs c t.
Proof.
  intros FF NL NP P NE. unfold single_inv. rewrite run_single.
  destruct (c_exts c) as [|e0 es]; [contradiction|].
  destruct (run_fs_from c t init_state FF NL NP P eq_refl) as (st' & R & _ & I).
  unfold fs_result. rewrite R. exact I.
Qed.

Lemma run_roots_law c : no_limits c = true -> no_xpanic c -> c_paths c = [] ->
  forall roots st inv sts, forallb fault_free roots = true -> s_stack st = [] ->
  exists inv' sts' st',
    run_roots c roots st inv sts = ROk inv' sts' st' /\ s_stack st' = [] /\
    s_inv st' = s_inv st ++ concat (map (root_pkgs c) roots) /\
    match roots with [] => inv' = inv /\ sts' = sts | _ => inv' = s_inv st' /\ sts' = statuses c st' end.
Proof.
  intros NL NP P. induction roots as [|t roots IH]; intros st inv sts FF S.
  - exists inv, sts, st. cbn [run_roots map concat]. rewrite app_nil_r. repeat split; assumption.
  - cbn [forallb] in FF. apply andb_true_iff in FF as [F1 F2].
    destruct (run_fs_from c t st F1 NL NP P S) as (st1 & R & S1 & I).
    cbn [run_roots]. rewrite R.
    destruct (IH st1 (s_inv st1) (statuses c st1) F2 S1) as (inv' & sts' & st' & E & S' & I' & M).
    exists inv', sts', st'. split; [exact E|]. split; [exact S'|]. split.
    + rewrite I', I. cbn [map concat]. rewrite <- app_assoc. reflexivity.
    + destruct roots as [|t2 roots]; [|exact M]. destruct M as [-> ->].
      cbn [run_roots] in E. inversion E; subst. split; reflexivity.
Qed.

(* filesystem.Run over any number of fault-free roots: exactly the union of the single-root runs, no package twice,
   one status per plugin *)
Theorem multiroot_union_lemma c roots :
  forallb fault_free roots = true -> no_limits c = true -> no_xpanic c -> c_paths c = [] ->
  exists sts st, run c roots = ROk (concat (map (single_inv c) roots)) sts st /\
                 (c_exts c <> [] -> roots <> [] -> map fst sts = c_exts c).
Proof.
  intros FF NL NP P. unfold run. destruct (c_exts c) as [|e0 es] eqn:EX.
  - exists [], init_state. split; [|intros H; contradiction]. f_equal. symmetry.
    induction roots as [|t roots IH]; [reflexivity|]. cbn [map concat forallb] in *. apply andb_true_iff in FF as [_ F2].
    rewrite (IH F2). unfold single_inv. rewrite run_single, EX. reflexivity.
  - destruct (run_roots_law c NL NP P roots init_state [] [] FF eq_refl) as (inv' & sts' & st' & E & _ & I & M).
    exists sts', st'. rewrite E. cbn [app s_inv init_state] in I.
    assert (EQ : concat (map (root_pkgs c) roots) = concat (map (single_inv c) roots)).
    { f_equal. apply map_ext_in. intros t Ht. symmetry. apply single_inv_ff; try assumption.
      - rewrite forallb_forall in FF. apply FF. exact Ht.
      - rewrite EX. discriminate. }
    destruct roots as [|t roots].
    + destruct M as [-> ->]. split; [reflexivity|]. intros _ H. contradiction.
    + destruct M as [-> ->]. split; [rewrite I, EQ; reflexivity|]. intros _ _.
      unfold statuses. rewrite map_map. cbn [fst]. rewrite map_id. exact EX.
Qed.

Definition t_one_file : node := Dc DOT [Fc nA Reg 1 0].
Definition t_empty : node := Dc DOT [].

(* ------------------------------------------------------------------ plugin statuses over several roots *)
Definition root_events (c : cfg) (t : node) : list event := flat_map (call_events c) (schedule c [] [DOT] t).

Lemma run_fs_from_events c t st :
  fault_free t = true -> no_limits c = true -> no_xpanic c -> c_paths c = [] -> s_stack st = [] ->
  exists st', run_fs c t st = WOk st' Continue /\ s_stack st' = [] /\ s_events st' = s_events st ++ root_events c t.
Proof.
  intros FF NL NP P S. rewrite run_fs_whole by assumption.
  pose proof (schedule_quiet_ff c t FF (s_stack st) [DOT]) as Q.
  destruct (walk_node_quiet c [DOT] t st NL NP Q) as (st' & W & S' & N).
  exists st'. split; [exact W|]. split; [congruence|].
  rewrite <- (ns_events st'), N, ns_events, run_calls_events, S. reflexivity.
Qed.

Lemma root_events_observable c t : fault_free t = true -> forallb observable (root_events c t) = true.
Proof.
  intros FF. unfold root_events. rewrite forallb_flat_map. apply forallb_forall. intros h Hin.
  eapply schedule_observable_ff; eassumption.
Qed.

Lemma fs_calls_root_events c t :
  fault_free t = true -> no_limits c = true -> no_xpanic c -> c_paths c = [] -> fs_calls c t = calls (root_events c t).
Proof.
  intros FF NL NP P. destruct (whole_tree_run c t FF NL NP P) as (st & R & _ & _ & EV & _).
  unfold fs_calls. rewrite R. cbn [wres_state]. rewrite EV. reflexivity.
Qed.

Lemma run_roots_events c : no_limits c = true -> no_xpanic c -> c_paths c = [] ->
  forall roots st inv sts, forallb fault_free roots = true -> s_stack st = [] ->
  s_events (rres_state (run_roots c roots st inv sts)) = s_events st ++ flat_map (root_events c) roots.
Proof.
  intros NL NP P. induction roots as [|t roots IH]; intros st inv sts FF S.
  - cbn. rewrite app_nil_r. reflexivity.
  - cbn [forallb] in FF. apply andb_true_iff in FF as [F1 F2].
    destruct (run_fs_from_events c t st F1 NL NP P S) as (st1 & R & S1 & E).
    cbn [run_roots flat_map]. rewrite R, (IH st1 _ _ F2 S1), E, <- app_assoc. reflexivity.
Qed.

(* the status of every plugin after a Run over several (fault-free) roots is the one the Extract calls of all roots
   together dictate: every failed file of every root is listed, whatever root it lies in *)
Theorem multiroot_statuses_lemma c roots :
  forallb fault_free roots = true -> no_limits c = true -> no_xpanic c -> c_paths c = [] ->
  roots <> [] -> c_exts c <> [] ->
  run_statuses (run c roots) = map (fun e => (e, expected_status c (flat_map (fs_calls c) roots) e)) (c_exts c).
Proof.
  intros FF NL NP P NR NE. unfold run. destruct (c_exts c) as [|e0 es] eqn:EX; [contradiction|].
  destruct (run_roots_law c NL NP P roots init_state [] [] FF eq_refl) as (inv' & sts' & st' & E & _ & _ & M).
  pose proof (run_roots_events c NL NP P roots init_state [] [] FF eq_refl) as EV. rewrite E in EV.
  cbn [rres_state s_events init_state app] in EV.
  assert (T : tinv c st').
  { pose proof (run_roots_P c (tinv c) (fun st ms H => proj1 (tinv_stack c st ms) H)
                  (fun p nd b st => handle_file_tinv c p nd b st) roots init_state [] [] (tinv_init c)) as T.
    rewrite E in T. exact T. }
  assert (O : forallb observable (s_events st') = true).
  { rewrite EV, forallb_flat_map. apply forallb_forall. intros t Ht. apply root_events_observable.
    rewrite forallb_forall in FF. apply FF. exact Ht. }
  rewrite E. cbn [run_statuses]. destruct roots as [|t roots]; [contradiction|]. destruct M as [_ ->].
  unfold statuses. rewrite EX. apply map_ext. intros e. rewrite (status_of_trace c st' e T O), EV.
  rewrite calls_flat_map.
  assert (EQ : flat_map (fun x => calls (root_events c x)) (t :: roots) = flat_map (fs_calls c) (t :: roots)).
  { apply flat_map_ext_in. intros t0 Ht. symmetry. apply fs_calls_root_events; try assumption.
    rewrite forallb_forall in FF. apply FF. exact Ht. }
  rewrite EQ. reflexivity.
Qed.

(* ... and does not depend on the order of the roots *)
Theorem multiroot_status_order_lemma c roots roots' :
  Permutation roots roots' -> forallb fault_free roots = true -> no_limits c = true -> no_xpanic c -> c_paths c = [] ->
  roots <> [] -> c_exts c <> [] ->
  statuses_equiv (run_statuses (run c roots)) (run_statuses (run c roots')).
Proof.
  intros HP FF NL NP P NR NE.
  assert (FF' : forallb fault_free roots' = true) by (rewrite <- (forallb_perm fault_free _ _ HP); exact FF).
  assert (NR' : roots' <> []) by (intros X; subst; apply Permutation_sym, Permutation_nil in HP; contradiction).
  rewrite (multiroot_statuses_lemma c roots FF NL NP P NR NE), (multiroot_statuses_lemma c roots' FF' NL NP P NR' NE).
  unfold statuses_equiv. clear NE. induction (c_exts c) as [|e l IH]; cbn [map]; constructor; [|exact IH].
  cbn [fst snd]. split; [reflexivity|]. apply expected_status_perm. apply Permutation_flat_map. exact HP.
Qed.

(* Proofs (C08): the root loop of filesystem.Run. *)
From Coq Require Import List ZArith NArith Bool Arith Lia Permutation.
From Scalibr Require Import Walk.Model Walk.Spec Walk.Sched Walk.Proofs Walk.Trace Walk.SpecProofs Walk.C01Proofs
  Walk.Perm Walk.Cases Walk.Witness.
Import ListNotations.

Lemma apply_events_inv c evs : forall st, s_inv (apply_events c evs st) = s_inv st ++ flat_map (inv_of_event c) evs.
Proof.
  induction evs as [|ev evs IH]; intros st; [cbn; rewrite app_nil_r; reflexivity|].
  cbn [apply_events fold_left flat_map]. fold (apply_events c evs (apply_event c st ev)).
  rewrite IH, apply_event_inv, <- app_assoc. reflexivity.
Qed.

Lemma run_calls_inv c l : forall st,
  s_inv (run_calls c l st) = s_inv st ++ flat_map (inv_of_event c) (flat_map (call_events c) l).
Proof.
  induction l as [|h l IH]; intros st; [cbn; rewrite app_nil_r; reflexivity|].
  cbn [run_calls fold_left flat_map]. fold (run_calls c l (apply_call c st h)). rewrite IH.
  unfold apply_call. rewrite apply_events_inv, flat_map_app.
  replace (s_inv (inc_inodes st)) with (s_inv st) by (destruct st; reflexivity).
  rewrite <- app_assoc. reflexivity.
Qed.

(* the packages a fault-free root contributes, from any balanced walk context *)
Definition root_pkgs (c : cfg) (t : node) : list (list N * pkg) :=
  flat_map (inv_of_event c) (flat_map (call_events c) (schedule c [] [DOT] t)).

Lemma run_fs_from c t st :
  fault_free t = true -> no_limits c = true -> no_xpanic c -> c_paths c = [] -> s_stack st = [] ->
  exists st', run_fs c t st = WOk st' Continue /\ s_stack st' = [] /\ s_inv st' = s_inv st ++ root_pkgs c t.
Proof.
  intros FF NL NP P S. rewrite run_fs_whole by assumption.
  pose proof (schedule_quiet_ff c t FF (s_stack st) [DOT]) as Q.
  destruct (walk_node_quiet c [DOT] t st NL NP Q) as (st' & W & S' & N).
  exists st'. split; [exact W|]. split; [congruence|].
  rewrite <- (ns_inv st'), N, ns_inv, run_calls_inv, S. reflexivity.
Qed.

Lemma single_inv_ff c t :
  fault_free t = true -> no_limits c = true -> no_xpanic c -> c_paths c = [] -> c_exts c <> [] ->
  single_inv c t = root_pkgs c t.
Proof.
  intros FF NL NP P NE. unfold single_inv. rewrite run_single.
  destruct (c_exts c) as [|e0 es]; [contradiction|].
  destruct (run_fs_from c t init_state FF NL NP P eq_refl) as (st' & R & _ & I).
  unfold fs_result. rewrite R. exact I.
Qed.

Lemma run_roots_law c : no_limits c = true -> no_xpanic c -> c_paths c = [] ->
  forall roots st inv sts, forallb fault_free roots = true -> s_stack st = [] ->
  exists sts' st',
    run_roots c roots st inv sts = ROk (inv ++ cumul (s_inv st) (map (root_pkgs c) roots)) (sts ++ sts') st' /\
    map fst sts' = flat_map (fun _ => c_exts c) roots.
Proof.
  intros NL NP P. induction roots as [|t roots IH]; intros st inv sts FF S.
  - exists [], st. cbn [run_roots map cumul flat_map]. rewrite !app_nil_r. split; reflexivity.
  - cbn [forallb] in FF. apply andb_true_iff in FF as [F1 F2].
    destruct (run_fs_from c t st F1 NL NP P S) as (st1 & R & S1 & I).
    cbn [run_roots]. rewrite R.
    destruct (IH st1 (inv ++ s_inv st1) (sts ++ statuses c st1) F2 S1) as (sts' & st' & E & N).
    exists (statuses c st1 ++ sts'), st'. split.
    + rewrite E. cbn [map cumul]. rewrite I, <- !app_assoc. reflexivity.
    + rewrite map_app, N. cbn [flat_map]. f_equal. unfold statuses. rewrite map_map. cbn [fst]. apply map_id.
Qed.

Lemma cumul_nils {A} (l : list (list A)) : Forall (fun x => x = []) l -> cumul [] l = [].
Proof. induction 1 as [|x l Hx _ IH]; [reflexivity|]. subst. cbn [cumul app]. exact IH. Qed.

(* what filesystem.Run reports for several fault-free roots: root i's packages n-i+1 times, n statuses per plugin *)
Theorem multiroot_law c roots :
  forallb fault_free roots = true -> no_limits c = true -> no_xpanic c -> c_paths c = [] ->
  exists sts st, run c roots = ROk (cumul [] (map (single_inv c) roots)) sts st /\
                 (c_exts c <> [] -> map fst sts = flat_map (fun _ => c_exts c) roots).
Proof.
  intros FF NL NP P. unfold run. destruct (c_exts c) as [|e0 es] eqn:EX.
  - exists [], init_state. split; [|intros H; contradiction]. f_equal. symmetry. apply cumul_nils.
    apply Forall_forall. intros x Hx. apply in_map_iff in Hx as (t & <- & _).
    unfold single_inv. rewrite run_single, EX. reflexivity.
  - destruct (run_roots_law c NL NP P roots init_state [] [] FF eq_refl) as (sts' & st' & E & N).
    exists sts', st'. rewrite E. cbn [app s_inv init_state]. split.
    + f_equal. f_equal. apply map_ext_in. intros t Ht. symmetry. apply single_inv_ff; try assumption.
      * rewrite forallb_forall in FF. apply FF. exact Ht.
      * rewrite EX. discriminate.
    + intros _. rewrite <- EX. exact N.
Qed.

Lemma cumul_on_D {A} (l : list (list A)) : forallb is_nil (removelast l) = true -> cumul [] l = concat l.
Proof.
  induction l as [|x l IH]; intros D; [reflexivity|]. destruct l as [|y l].
  - cbn. reflexivity.
  - change (removelast (x :: y :: l)) with (x :: removelast (y :: l)) in D. cbn [forallb] in D.
    apply andb_true_iff in D as [Dx D]. destruct x; [|discriminate].
    change (cumul [] ([] :: y :: l)) with (([] ++ []) ++ cumul ([] ++ []) (y :: l)). cbn [app concat].
    apply IH. exact D.
Qed.

Theorem multiroot_union_on_D c roots :
  forallb fault_free roots = true -> no_limits c = true -> no_xpanic c -> c_paths c = [] ->
  dom_multiroot c roots = true ->
  run_inv (run c roots) = concat (map (single_inv c) roots).
Proof.
  intros FF NL NP P D. destruct (multiroot_law c roots FF NL NP P) as (sts & st & E & _).
  rewrite E. cbn [run_inv]. apply cumul_on_D. exact D.
Qed.

(* ------------------------------------------------------------------ the refutation *)
Definition t_one_file : node := Dc DOT [Fc nA Reg 1 0].
Definition t_empty : node := Dc DOT [].

Lemma multiroot_refuted_lemma :
  exists c roots, forallb fault_free roots = true /\ forallb wf_tree roots = true /\ no_limits c = true /\
    c_paths c = [] /\ NoDup (c_exts c) /\
    ~ Permutation (run_inv (run c roots)) (concat (map (single_inv c) roots)) /\
    ~ NoDup (map fst (run_statuses (run c roots))).
Proof.
  exists base_cfg, [t_one_file; t_empty]. repeat split; try reflexivity.
  - constructor; [intros []|constructor].
  - intros H. apply Permutation_length in H. vm_compute in H. discriminate.
  - vm_compute. intros H. inversion H as [|? ? Hn _]; subst. apply Hn. left. reflexivity.
Qed.

(* Proofs about the walk model.  Part 1: walk_node = exec (schedule). *)
From Coq Require Import List ZArith NArith Bool Arith Lia Permutation.
From Scalibr Require Import Lib.SortSearch Walk.Model Walk.Spec Walk.Sched.
Import ListNotations.

(* ------------------------------------------------------------------ induction over the nested tree type *)
Section NodeInd.
  Variable P : node -> Prop.
  Hypothesis Hfile : forall n k s d ff, P (File n k s d ff).
  Hypothesis Hdir : forall n ch df, Forall P ch -> P (Dir n ch df).
  Fixpoint node_ind2 (nd : node) : P nd :=
    match nd with
    | File n k s d ff => Hfile n k s d ff
    | Dir n ch df =>
        Hdir n ch df ((fix go (l : list node) : Forall P l :=
                         match l with
                         | [] => Forall_nil P
                         | c :: l' => Forall_cons c (node_ind2 c) (go l')
                         end) ch)
    end.
End NodeInd.

(* ------------------------------------------------------------------ small facts *)
Lemma ln_eqb_refl a : ln_eqb a a = true.
Proof. induction a; simpl; [reflexivity|]. rewrite N.eqb_refl. exact IHa. Qed.

Lemma ln_eqb_eq a : forall b, ln_eqb a b = true <-> a = b.
Proof.
  induction a as [|x a IH]; intros [|y b]; simpl; split; intros H; try reflexivity; try discriminate.
  - apply andb_true_iff in H as [H1 H2]. apply N.eqb_eq in H1. apply IH in H2. subst. reflexivity.
  - inversion H; subst. rewrite N.eqb_refl. apply ln_eqb_refl.
Qed.

Lemma ln_eqb_neq a b : ln_eqb a b = false <-> a <> b.
Proof.
  split; intros H.
  - intros E. apply ln_eqb_eq in E. congruence.
  - destruct (ln_eqb a b) eqn:E; [|reflexivity]. apply ln_eqb_eq in E. contradiction.
Qed.

Lemma set_stack_same st : set_stack st (s_stack st) = st.
Proof. destruct st; reflexivity. Qed.

Lemma set_stack_twice st a b : set_stack (set_stack st a) b = set_stack st b.
Proof. destruct st; reflexivity. Qed.

Lemma s_stack_set st ms : s_stack (set_stack st ms) = ms.
Proof. destruct st; reflexivity. Qed.

(* unfolding of the nested fixpoints *)
Lemma walk_children_eq c p nd : forall l ra st,
  (fix walk_children (l : list node) (ra : option nat) (st : state) {struct l} : wres :=
     match ra with
     | Some O => second_call c p nd st
     | _ =>
         match l with
         | [] => WOk st Continue
         | ch1 :: l' =>
             match walk_node c (child_path p (node_name ch1)) ch1 st with
             | WPanic st' pc => WPanic st' pc
             | WOk st' (Abort a) => WOk st' (Abort a)
             | WOk st' _ => walk_children l' (option_map pred ra) st'
             end
         end
     end) l ra st = walk_children c p nd l ra st.
Proof.
  induction l as [|ch1 l IH]; intros ra st.
  - destruct ra as [[|k]|]; reflexivity.
  - destruct ra as [[|k]|]; [reflexivity| |];
      cbn [walk_children]; destruct (walk_node c (child_path p (node_name ch1)) ch1 st) as [st' [| |a]|st' pc];
      try reflexivity; apply IH.
Qed.

Lemma walk_node_dir c p n ch df st :
  walk_node c p (Dir n ch df) st =
  post c (Dir n ch df)
    match handle_file c p (Dir n ch df) false st with
    | WPanic st' pc => WPanic st' pc
    | WOk st1 SkipDir => WOk st1 Continue
    | WOk st1 (Abort a) => WOk st1 (Abort a)
    | WOk st1 Continue =>
        if df_open df then second_call c p (Dir n ch df) st1
        else walk_children c p (Dir n ch df) ch (df_read_at df) st1
    end.
Proof.
  cbn [walk_node]. f_equal.
  destruct (handle_file c p (Dir n ch df) false st) as [st1 [| |a]|st' pc]; try reflexivity.
  destruct (df_open df); [reflexivity|]. apply walk_children_eq.
Qed.

Lemma walk_node_file c p n k s d ff st :
  walk_node c p (File n k s d ff) st = handle_file c p (File n k s d ff) false st.
Proof.
  cbn [walk_node]. destruct (handle_file c p (File n k s d ff) false st) as [st1 sg|st' pc]; cbn [post is_dir];
    rewrite ?andb_false_r; reflexivity.
Qed.

Lemma sched_children_eq c ms' p nd : forall l ra,
  (fix go (l : list node) (ra : option nat) {struct l} : list hcall :=
     match ra with
     | Some O => [HC ms' p nd true]
     | _ =>
         match l with
         | [] => []
         | c1 :: l' => schedule c ms' (child_path p (node_name c1)) c1 ++ go l' (option_map pred ra)
         end
     end) l ra = sched_children c ms' p nd l ra.
Proof.
  induction l as [|c1 l IH]; intros ra.
  - destruct ra as [[|k]|]; reflexivity.
  - destruct ra as [[|k]|]; [reflexivity| |]; cbn [sched_children]; f_equal; apply IH.
Qed.

Lemma schedule_dir c ms p n ch df :
  schedule c ms p (Dir n ch df) =
  HC ms p (Dir n ch df) false ::
  match dir_decision c ms p ch with
  | DSkip | DGiErr => []
  | DEnter ms' =>
      if df_open df then [HC ms' p (Dir n ch df) true]
      else sched_children c ms' p (Dir n ch df) ch (df_read_at df)
  end.
Proof.
  cbn [schedule]. f_equal. destruct (dir_decision c ms p ch); try reflexivity.
  destruct (df_open df); [reflexivity|]. apply sched_children_eq.
Qed.

Lemma exec_app c l1 : forall l2 st,
  exec c (l1 ++ l2) st = match exec c l1 st with EDone st' => exec c l2 st' | r => r end.
Proof.
  induction l1 as [|[ms p nd b] l1 IH]; intros l2 st; [reflexivity|].
  cbn [app exec]. destruct (handle_file c p nd b (set_stack st ms)) as [st' [| |a]|st' pc]; try reflexivity; apply IH.
Qed.

(* ------------------------------------------------------------------ handle_file, case by case *)
Lemma is_prefix_refl a : is_prefix a a = true.
Proof. induction a; simpl; [reflexivity|]. rewrite N.eqb_refl. exact IHa. Qed.

(* the directory branch in terms of dir_decision *)
Lemma hf_dir_decision c p ch st2 :
  hf_dir c p ch st2 =
  match dir_decision c (s_stack st2) p ch with
  | DSkip => WOk (if c_gitignore c then set_stack st2 (None :: s_stack st2) else st2) SkipDir
  | DGiErr => WOk st2 (Abort AbFs)
  | DEnter ms' => WOk (set_stack st2 ms') Continue
  end.
Proof.
  unfold hf_dir, dir_decision.
  destruct (c_gitignore c) eqn:G.
  - destruct (should_skip_dir c (s_stack st2) p) eqn:S; [reflexivity|].
    destruct (parse_dir_gi p ch) as [|m] eqn:E; [destruct (c_fatal c); reflexivity|reflexivity].
  - destruct (should_skip_dir c (s_stack st2) p); [reflexivity|]. rewrite set_stack_same. reflexivity.
Qed.

Lemma hf_prelude_stack c p b st :
  match hf_prelude c p b st with
  | PreStop st' _ => s_stack st' = s_stack st
  | PreGo st' => s_stack st' = s_stack st
  end.
Proof.
  unfold hf_prelude.
  destruct ((0 <? c_max_inodes c)%Z && (c_max_inodes c <? s_inodes (inc_inodes st))%Z); [reflexivity|].
  destruct (cancelled c (visit (inc_inodes st) p)); [reflexivity|].
  destruct b; [destruct (c_fatal c); reflexivity|reflexivity].
Qed.

(* a call with fserr only runs the prelude *)
Lemma handle_file_fserr c p nd st :
  handle_file c p nd true st =
  match hf_prelude c p true st with PreStop st' sg => WOk st' sg | PreGo st' => WOk st' Continue end.
Proof.
  unfold handle_file. destruct (hf_prelude c p true st) as [st' sg|st'] eqn:E; [reflexivity|].
  exfalso. unfold hf_prelude in E.
  destruct ((0 <? c_max_inodes c)%Z && (c_max_inodes c <? s_inodes (inc_inodes st))%Z); [discriminate|].
  destruct (cancelled c (visit (inc_inodes st) p)); [discriminate|]. destruct (c_fatal c); discriminate.
Qed.

Lemma hf_prelude_fserr_sig c p st st' sg :
  hf_prelude c p true st = PreStop st' sg -> sg = Continue \/ exists a, sg = Abort a.
Proof.
  unfold hf_prelude.
  destruct ((0 <? c_max_inodes c)%Z && (c_max_inodes c <? s_inodes (inc_inodes st))%Z);
    [intros H; inversion H; right; eexists; reflexivity|].
  destruct (cancelled c (visit (inc_inodes st) p)); [intros H; inversion H; right; eexists; reflexivity|].
  destruct (c_fatal c); intros H; inversion H; [right; eexists; reflexivity|left; reflexivity].
Qed.

Lemma hf_prelude_nofs_sig c p st st' sg :
  hf_prelude c p false st = PreStop st' sg -> exists a, sg = Abort a.
Proof.
  unfold hf_prelude.
  destruct ((0 <? c_max_inodes c)%Z && (c_max_inodes c <? s_inodes (inc_inodes st))%Z);
    [intros H; inversion H; eexists; reflexivity|].
  destruct (cancelled c (visit (inc_inodes st) p)); [intros H; inversion H; eexists; reflexivity|].
  discriminate.
Qed.

(* file calls never touch the stack, never return SkipDir *)
Lemma run_extractor_stack c e p ff st :
  s_stack (wres_state (run_extractor c e p ff st)) = s_stack st.
Proof.
  unfold run_extractor. destruct (ff_open ff); [reflexivity|]. destruct (ff_fstat ff); [reflexivity|].
  destruct (c_extract c e p) as [pk err|]; [|reflexivity].
  destruct err, pk; reflexivity.
Qed.

Lemma run_extractor_sig c e p ff st st' sg : run_extractor c e p ff st = WOk st' sg -> sg = Continue.
Proof.
  unfold run_extractor. destruct (ff_open ff); [intros H; inversion H; reflexivity|].
  destruct (ff_fstat ff); [intros H; inversion H; reflexivity|].
  destruct (c_extract c e p) as [pk err|]; [|discriminate]. intros H; inversion H; reflexivity.
Qed.

Lemma run_exts_stack c p size ff : forall es checked st,
  s_stack (wres_state (run_exts c p size ff es checked st)) = s_stack st /\
  (forall st', run_exts c p size ff es checked st <> WOk st' SkipDir).
Proof.
  induction es as [|e es IH]; intros checked st; cbn [run_exts].
  - split; [reflexivity|discriminate].
  - assert (S0 : s_stack (add_event st (EReq e p)) = s_stack st) by (destruct st; reflexivity).
    destruct (req c e p size ff).
    + destruct ((0 <? c_max_size c)%Z && negb checked).
      * destruct (ff_stat ff); [destruct (c_fatal c); (split; [exact S0|discriminate])|].
        destruct (c_max_size c <? size)%Z; [split; [exact S0|discriminate]|].
        pose proof (run_extractor_stack c e p ff (add_event st (EReq e p))) as R.
        destruct (run_extractor c e p ff (add_event st (EReq e p))) as [st1 sg|st1 pc]; cbn [wres_state] in R.
        -- destruct (IH true st1) as [I1 I2]. split; [congruence|exact I2].
        -- split; [cbn; congruence|discriminate].
      * pose proof (run_extractor_stack c e p ff (add_event st (EReq e p))) as R.
        destruct (run_extractor c e p ff (add_event st (EReq e p))) as [st1 sg|st1 pc]; cbn [wres_state] in R.
        -- destruct (IH checked st1) as [I1 I2]. split; [congruence|exact I2].
        -- split; [cbn; congruence|discriminate].
    + destruct (IH checked (add_event st (EReq e p))) as [I1 I2]. split; [congruence|exact I2].
Qed.

Lemma hf_file_stack c p k size ff st :
  s_stack (wres_state (hf_file c p k size ff st)) = s_stack st /\
  (forall st', hf_file c p k size ff st <> WOk st' SkipDir).
Proof.
  unfold hf_file.
  destruct (negb match k with Reg => true | Sym => c_symlinks c | Special _ => false end);
    [split; [reflexivity|discriminate]|].
  destruct (c_gitignore c && gi_match_stack c (s_stack st) p false); [split; [reflexivity|discriminate]|].
  apply run_exts_stack.
Qed.

(* ------------------------------------------------------------------ agreement between walk and exec *)
Definition agrees (c : cfg) (ms0 : stack) (r : wres) (e : eres) : Prop :=
  match e with
  | EDone st' => r = WOk (set_stack st' ms0) Continue
  | EAbort st' a => exists ms, r = WOk (set_stack st' ms) (Abort a)
  | EPanic st' pc => exists ms, r = WPanic (set_stack st' ms) pc
  end.

(* effect of the deferred postHandleFile on an agreeing inner result *)
Lemma post_dir_abort0 c nd st1 a :
  exists ms1, post c nd (WOk st1 (Abort a)) = WOk (set_stack st1 ms1) (Abort a).
Proof.
  unfold post. destruct (c_gitignore c && is_dir nd).
  - destruct (s_stack st1) as [|m ms] eqn:E.
    + exists []. rewrite <- E, set_stack_same. reflexivity.
    + exists ms. reflexivity.
  - exists (s_stack st1). rewrite set_stack_same. reflexivity.
Qed.

Lemma post_dir_abort c nd st' a ms :
  exists ms1, post c nd (WOk (set_stack st' ms) (Abort a)) = WOk (set_stack st' ms1) (Abort a).
Proof. destruct (post_dir_abort0 c nd (set_stack st' ms) a) as [ms1 H]. rewrite set_stack_twice in H. exists ms1. exact H. Qed.

Lemma second_call_agrees c p nd st ms' :
  s_stack st = ms' ->
  match exec c [HC ms' p nd true] st with
  | EDone st' => second_call c p nd st = WOk (set_stack st' ms') Continue
  | EAbort st' a => second_call c p nd st = WOk (set_stack st' ms') (Abort a)
  | EPanic _ _ => False
  end.
Proof.
  intros <-. cbn [exec]. rewrite set_stack_same. unfold second_call. rewrite handle_file_fserr.
  pose proof (hf_prelude_stack c p true st) as S.
  destruct (hf_prelude c p true st) as [st' sg|st'] eqn:E.
  - apply hf_prelude_fserr_sig in E. destruct E as [->|[a ->]]; rewrite <- S, set_stack_same; reflexivity.
  - rewrite <- S, set_stack_same. reflexivity.
Qed.

Definition agrees_inner (ms' : stack) (r : wres) (e : eres) (c : cfg) : Prop := agrees c ms' r e.

Lemma agrees_exec_stack c ms' r l st x :
  agrees c ms' r (exec c l (set_stack st x)) -> agrees c ms' r (exec c l st).
Proof.
  destruct l as [|[ms2 p2 nd2 b2] l2]; cbn [exec].
  - cbn [agrees]. rewrite set_stack_twice. auto.
  - rewrite set_stack_twice. auto.
Qed.

Lemma walk_children_agrees c p nd ms' : forall l,
  Forall (fun ch1 => forall p1 st, agrees c (s_stack st) (walk_node c p1 ch1 st) (exec c (schedule c (s_stack st) p1 ch1) st)) l ->
  forall ra st, s_stack st = ms' ->
  agrees_inner ms' (walk_children c p nd l ra st) (exec c (sched_children c ms' p nd l ra) st) c.
Proof.
  induction l as [|ch1 l IH]; intros HF ra st Hst.
  - destruct ra as [[|k]|]; cbn [walk_children sched_children].
    + pose proof (second_call_agrees c p nd st ms' Hst) as A.
      destruct (exec c [HC ms' p nd true] st) as [st'|st' a|st' pc]; unfold agrees_inner; cbn [agrees]; [exact A| |contradiction].
      exists ms'. exact A.
    + cbn. rewrite <- Hst, set_stack_same. reflexivity.
    + cbn. rewrite <- Hst, set_stack_same. reflexivity.
  - inversion HF as [|? ? H1 HF']; subst.
    assert (Hcons : forall ra', ra' <> Some O ->
      agrees_inner (s_stack st)
        (match walk_node c (child_path p (node_name ch1)) ch1 st with
         | WPanic st' pc => WPanic st' pc
         | WOk st' (Abort a) => WOk st' (Abort a)
         | WOk st' _ => walk_children c p nd l (option_map pred ra') st'
         end)
        (exec c (schedule c (s_stack st) (child_path p (node_name ch1)) ch1 ++
                 sched_children c (s_stack st) p nd l (option_map pred ra')) st) c).
    { intros ra' _. rewrite exec_app.
      specialize (H1 (child_path p (node_name ch1)) st).
      destruct (exec c (schedule c (s_stack st) (child_path p (node_name ch1)) ch1) st) as [st'|st' a|st' pc];
        cbn [agrees] in H1.
      - rewrite H1.
        pose proof (IH HF' (option_map pred ra') (set_stack st' (s_stack st)) (s_stack_set _ _)) as A.
        unfold agrees_inner in *. eapply agrees_exec_stack. exact A.
      - unfold agrees_inner; cbn [agrees]. destruct H1 as [ms H1]. rewrite H1. exists ms. reflexivity.
      - unfold agrees_inner; cbn [agrees]. destruct H1 as [ms H1]. rewrite H1. exists ms. reflexivity. }
    destruct ra as [[|k]|]; cbn [walk_children sched_children].
    + pose proof (second_call_agrees c p nd st (s_stack st) eq_refl) as A.
      destruct (exec c [HC (s_stack st) p nd true] st) as [st'|st' a|st' pc]; unfold agrees_inner; cbn [agrees]; [exact A| |contradiction].
      exists (s_stack st). exact A.
    + apply (Hcons (Some (S k))). discriminate.
    + apply (Hcons None). discriminate.
Qed.

Theorem walk_node_exec c : forall nd p st,
  agrees c (s_stack st) (walk_node c p nd st) (exec c (schedule c (s_stack st) p nd) st).
Proof.
  induction nd as [n k s d ff|n ch df IH] using node_ind2; intros p st.
  - (* file *)
    rewrite walk_node_file. cbn [schedule exec]. rewrite set_stack_same.
    unfold handle_file.
    pose proof (hf_prelude_stack c p false st) as PS.
    destruct (hf_prelude c p false st) as [st' sg|st2] eqn:E.
    + apply hf_prelude_nofs_sig in E. destruct E as [a ->]. cbn [agrees]. exists (s_stack st).
      rewrite <- PS, set_stack_same. reflexivity.
    + destruct (hf_file_stack c p k s ff st2) as [S1 S2].
      destruct (hf_file c p k s ff st2) as [st3 [| |a]|st3 pc]; cbn [wres_state] in S1; cbn [agrees].
      * rewrite <- PS, <- S1, set_stack_same. reflexivity.
      * exfalso. eapply S2. reflexivity.
      * exists (s_stack st3). rewrite set_stack_same. reflexivity.
      * exists (s_stack st3). rewrite set_stack_same. reflexivity.
  - (* directory *)
    rewrite walk_node_dir, schedule_dir. cbn [exec]. rewrite set_stack_same.
    unfold handle_file.
    pose proof (hf_prelude_stack c p false st) as PS.
    destruct (hf_prelude c p false st) as [st' sg|st2] eqn:E.
    + apply hf_prelude_nofs_sig in E. destruct E as [a ->]. cbn [agrees].
      apply post_dir_abort0.
    + rewrite hf_dir_decision. rewrite PS.
      destruct (dir_decision c (s_stack st) p ch) as [| |ms'] eqn:DD.
      * (* skipped *)
        cbn [exec agrees]. unfold post. cbn [is_dir]. rewrite andb_true_r.
        destruct (c_gitignore c).
        -- rewrite s_stack_set, set_stack_twice. reflexivity.
        -- rewrite <- PS, set_stack_same. reflexivity.
      * cbn [agrees]. apply post_dir_abort0.
      * (* entered *)
        assert (Hpop : forall st', post c (Dir n ch df) (WOk (set_stack st' ms') Continue) = WOk (set_stack st' (s_stack st)) Continue).
        { intros st'. unfold post. cbn [is_dir]. rewrite andb_true_r.
          unfold dir_decision in DD. destruct (should_skip_dir c (s_stack st) p); [discriminate|].
          destruct (c_gitignore c).
          - destruct (parse_dir_gi p ch); [destruct (c_fatal c); [discriminate|]|]; inversion DD; subst;
              rewrite s_stack_set, set_stack_twice; reflexivity.
          - inversion DD; subst. reflexivity. }
        assert (Hinner : forall r e, agrees_inner ms' r e c -> agrees c (s_stack st) (post c (Dir n ch df) r) e).
        { intros r e A. destruct e as [st'|st' a|st' pc]; unfold agrees_inner in *; cbn [agrees] in *.
          - rewrite A. apply Hpop.
          - destruct A as [ms A]. rewrite A. apply post_dir_abort.
          - destruct A as [ms A]. rewrite A. exists ms. reflexivity. }
        destruct (df_open df).
        -- pose proof (second_call_agrees c p (Dir n ch df) (set_stack st2 ms') ms' (s_stack_set _ _)) as A.
           apply Hinner.
           destruct (exec c [HC ms' p (Dir n ch df) true] (set_stack st2 ms')) as [st'|st' a|st' pc]; unfold agrees_inner; cbn [agrees];
             [exact A| |contradiction]. exists ms'. exact A.
        -- apply Hinner.
           exact (walk_children_agrees c p (Dir n ch df) ms' ch IH (df_read_at df) (set_stack st2 ms') (s_stack_set _ _)).
Qed.


(* Proofs (C08): listing order does not matter. *)
From Coq Require Import List ZArith NArith Bool Arith Lia Permutation.
From Scalibr Require Import Walk.Model Walk.Spec Walk.Sched Walk.Proofs Walk.Trace Walk.SpecProofs Walk.C01Proofs Walk.Perm.
Import ListNotations.

Definition gi_res (p : list N) (nd : node) : gires :=
  match nd with
  | File _ _ _ data ff => if ff_open ff then GiErr else GiOk (Some (gi_domain p, data))
  | Dir _ _ df => if df_open df then GiErr else GiOk None
  end.

Lemma parse_dir_gi_res p ch :
  parse_dir_gi p ch = match find_child GI ch with None => GiOk None | Some nd => gi_res p nd end.
Proof. unfold parse_dir_gi. destruct (find_child GI ch) as [[]|]; reflexivity. Qed.

(* calls of a fault-free directory: nothing if skipped, else the children's calls under the pushed stack *)
Lemma sched_calls_dir_ff c ms p n ch df : fault_free (Dir n ch df) = true ->
  sched_calls c ms p (Dir n ch df) =
  match dir_decision c ms p ch with
  | DEnter ms' => flat_map (fun c1 => sched_calls c ms' (child_path p (node_name c1)) c1) ch
  | _ => []
  end.
Proof.
  intros FF. unfold sched_calls. rewrite schedule_dir. cbn [flat_map]. rewrite calls_app, dir_call_calls. cbn [app].
  rewrite fault_free_dir in FF. apply andb_true_iff in FF as [FD _].
  unfold df_clean in FD. apply andb_true_iff in FD as [FD _]. apply andb_true_iff in FD as [FO FR].
  apply negb_true_iff in FO. destruct (df_read_at df); [discriminate FR|].
  destruct (dir_decision c ms p ch); try reflexivity.
  rewrite FO, sched_children_none, flat_map_flat_map, calls_flat_map. reflexivity.
Qed.

Lemma names_ok_perm l l' : Permutation l l' -> names_ok l = true -> names_ok l' = true.
Proof.
  intros HP H.
  assert (ND : NoDup l /\ ~ In DOT l).
  { clear HP. induction l as [|x l IH]; [split; [constructor|intros []]|].
    apply names_ok_cons in H as (H1 & H2 & H3). destruct (IH H3) as [I1 I2]. split; [constructor; assumption|].
    intros [E|E]; [congruence|contradiction]. }
  destruct ND as [ND NDot].
  assert (ND' : NoDup l') by (eapply Permutation_NoDup; eassumption).
  assert (NDot' : ~ In DOT l') by (intros X; apply NDot; eapply Permutation_in; [apply Permutation_sym; exact HP|exact X]).
  clear -ND' NDot'. induction l' as [|x l IH]; [reflexivity|]. inversion ND'; subst. cbn [names_ok].
  rewrite IH; [|assumption|intros X; apply NDot'; right; exact X]. rewrite andb_true_r. apply andb_true_iff. split.
  - apply negb_true_iff. apply N.eqb_neq. intros E. apply NDot'. left. exact E.
  - apply negb_true_iff. apply not_true_is_false. intros E. apply existsb_exists in E as (y & Hy & E).
    apply N.eqb_eq in E. subst. contradiction.
Qed.

Lemma forallb_perm {A} (f : A -> bool) l l' : Permutation l l' -> forallb f l = forallb f l'.
Proof.
  induction 1 as [|x l l' _ IH|x y l|l l' l'' _ IH1 _ IH2]; cbn [forallb]; try congruence.
  rewrite !andb_assoc, (andb_comm (f y)). reflexivity.
Qed.

Lemma find_child_perm nm l l' : Permutation l l' -> names_ok (map node_name l) = true ->
  find_child nm l = find_child nm l'.
Proof.
  intros HP NO. destruct (find_child nm l) as [c1|] eqn:E.
  - unfold find_child in E. apply find_some in E as [Hin Hn]. apply N.eqb_eq in Hn. subst nm.
    symmetry. apply find_child_unique.
    + eapply names_ok_perm; [apply Permutation_map; exact HP|exact NO].
    + eapply Permutation_in; eassumption.
  - destruct (find_child nm l') as [c2|] eqn:E'; [|reflexivity]. exfalso.
    unfold find_child in E'. apply find_some in E' as [Hin Hn].
    unfold find_child in E. eapply find_none in E; [|eapply Permutation_in; [apply Permutation_sym; exact HP|exact Hin]].
    congruence.
Qed.

Lemma existsb_perm {A} (f : A -> bool) l l' : Permutation l l' -> existsb f l = existsb f l'.
Proof.
  induction 1 as [|x l l' _ IH|x y l|l l' l'' _ IH1 _ IH2]; cbn [existsb]; try congruence.
  rewrite !orb_assoc, (orb_comm (f y)). reflexivity.
Qed.

Lemma filter_perm {A} (f : A -> bool) l l' : Permutation l l' -> Permutation (filter f l) (filter f l').
Proof.
  induction 1 as [|x l l' _ IH|x y l|l l' l'' _ IH1 _ IH2]; cbn [filter].
  - constructor.
  - destruct (f x); [constructor|]; exact IH.
  - destruct (f x), (f y); try reflexivity. constructor.
  - etransitivity; eassumption.
Qed.

Lemma flat_map_perm_pointwise {A B} (f g : A -> list B) l :
  (forall x, In x l -> Permutation (f x) (g x)) -> Permutation (flat_map f l) (flat_map g l).
Proof.
  induction l as [|x l IH]; intros H; cbn [flat_map]; [constructor|].
  apply Permutation_app; [apply H; left; reflexivity|apply IH; intros y Hy; apply H; right; exact Hy].
Qed.

Section PermInv.
  Variable c : cfg.

  Definition child_calls (ms : list (option (list N * N))) (p : list N) (c1 : node) :=
    sched_calls c ms (child_path p (node_name c1)) c1.

  Definition Pn (t t' : node) : Prop :=
    wf_tree t = true -> fault_free t = true ->
    node_name t = node_name t' /\ wf_tree t' = true /\ fault_free t' = true /\
    (forall p, gi_res p t = gi_res p t') /\
    forall ms p, Permutation (sched_calls c ms p t) (sched_calls c ms p t').

  Definition Pl (l l' : list node) : Prop :=
    forallb wf_tree l = true -> forallb fault_free l = true ->
    map node_name l = map node_name l' /\ forallb wf_tree l' = true /\ forallb fault_free l' = true /\
    (forall nm, match find_child nm l, find_child nm l' with
                | Some a, Some b => forall p, gi_res p a = gi_res p b
                | None, None => True
                | _, _ => False
                end) /\
    forall ms p, Permutation (flat_map (child_calls ms p) l) (flat_map (child_calls ms p) l').

  Lemma tperm_inv_mut : (forall t t', tperm t t' -> Pn t t') /\ (forall l l', tperm_list l l' -> Pl l l').
  Proof.
    apply tperm_mutind.
    - (* file *) intros n k s d ff WF FF. split; [reflexivity|]. split; [exact WF|]. split; [exact FF|].
      split; [reflexivity|]. intros; reflexivity.
    - (* dir *)
      intros n df ch ch1 ch' _ IHl HP WF FF.
      rewrite wf_tree_dir in WF. apply andb_true_iff in WF as [WN WC].
      assert (FF0 := FF). rewrite fault_free_dir in FF. apply andb_true_iff in FF as [FD FC].
      destruct (IHl WC FC) as (EN & WC1 & FC1 & GI1 & CP).
      assert (WN1 : names_ok (map node_name ch1) = true) by (rewrite <- EN; exact WN).
      assert (WN' : names_ok (map node_name ch') = true) by (eapply names_ok_perm; [apply Permutation_map; exact HP|exact WN1]).
      assert (WF' : wf_tree (Dir n ch' df) = true).
      { rewrite wf_tree_dir, WN', <- (forallb_perm wf_tree _ _ HP), WC1. reflexivity. }
      assert (FF' : fault_free (Dir n ch' df) = true).
      { rewrite fault_free_dir, FD, <- (forallb_perm fault_free _ _ HP), FC1. reflexivity. }
      split; [reflexivity|]. split; [exact WF'|]. split; [exact FF'|]. split; [reflexivity|].
      intros ms p. rewrite !sched_calls_dir_ff by assumption.
      assert (PD : parse_dir_gi p ch = parse_dir_gi p ch').
      { rewrite !parse_dir_gi_res. rewrite <- (find_child_perm GI ch1 ch' HP WN1).
        specialize (GI1 GI). destruct (find_child GI ch), (find_child GI ch1); try contradiction; [apply GI1|reflexivity]. }
      unfold dir_decision. rewrite PD.
      destruct (should_skip_dir c ms p); [constructor|].
      destruct (if c_gitignore c then match parse_dir_gi p ch' with GiErr => if c_fatal c then DGiErr else DEnter (None :: ms) | GiOk m => DEnter (m :: ms) end else DEnter ms);
        try constructor.
      etransitivity; [apply CP|]. apply Permutation_flat_map. exact HP.
    - (* nil *) intros _ _. split; [reflexivity|]. split; [reflexivity|]. split; [reflexivity|].
      split; [intros nm; exact I|]. intros; constructor.
    - (* cons *)
      intros a b l l' _ IHa _ IHl WF FF.
      cbn [forallb] in WF, FF. apply andb_true_iff in WF as [Wa Wl]. apply andb_true_iff in FF as [Fa Fl].
      destruct (IHa Wa Fa) as (Na & Wb & Fb & Ga & Ca). destruct (IHl Wl Fl) as (Nl & Wl' & Fl' & Gl & Cl).
      split; [cbn [map]; congruence|]. split; [cbn [forallb]; rewrite Wb, Wl'; reflexivity|].
      split; [cbn [forallb]; rewrite Fb, Fl'; reflexivity|]. split.
      + intros nm. unfold find_child. cbn [find]. rewrite <- Na.
        destruct (N.eqb (node_name a) nm); [exact Ga|]. apply Gl.
      + intros ms p. cbn [flat_map]. apply Permutation_app; [|apply Cl].
        unfold child_calls. rewrite <- Na. apply Ca.
  Qed.
End PermInv.

(* ------------------------------------------------------------------ statuses under permuted calls *)
Lemma expected_status_perm c l l' e : Permutation l l' ->
  status_perm (expected_status c l e) (expected_status c l' e).
Proof.
  intros HP. unfold expected_status.
  set (mine := filter (fun ep => ln_eqb (fst ep) e) l). set (mine' := filter (fun ep => ln_eqb (fst ep) e) l').
  assert (PM : Permutation mine mine') by (apply filter_perm; exact HP).
  set (f := fun ep : list N * list N => errs_flag (c_extract c (fst ep) (snd ep))).
  assert (PE : Permutation (map (fun ep : list N * list N => (EkExtract, snd ep)) (filter f mine))
                           (map (fun ep : list N * list N => (EkExtract, snd ep)) (filter f mine'))).
  { apply Permutation_map. apply filter_perm. exact PM. }
  rewrite (existsb_perm _ _ _ PM).
  destruct (map _ (filter f mine)) as [|x xs] eqn:E1, (map _ (filter f mine')) as [|y ys] eqn:E2.
  - exact I.
  - apply Permutation_nil in PE. discriminate.
  - apply Permutation_sym, Permutation_nil in PE. discriminate.
  - destruct (existsb _ mine'); exact PE.
Qed.

Theorem perm_invariant c t t' :
  tperm t t' -> wf_tree t = true -> fault_free t = true ->
  no_limits c = true -> no_xpanic c -> c_paths c = [] ->
  Permutation (fs_calls c t) (fs_calls c t') /\
  exists inv sts st inv' sts' st',
    run c [t] = ROk inv sts st /\ run c [t'] = ROk inv' sts' st' /\
    Permutation inv inv' /\ statuses_equiv sts sts'.
Proof.
  intros TP WF FF NL NP P.
  destruct (proj1 (tperm_inv_mut c) t t' TP WF FF) as (_ & WF' & FF' & _ & CP).
  destruct (whole_tree_run c t FF NL NP P) as (st & R & _ & T & EV & O).
  destruct (whole_tree_run c t' FF' NL NP P) as (st' & R' & _ & T' & EV' & O').
  assert (PC : Permutation (calls (s_events st)) (calls (s_events st'))).
  { rewrite EV, EV'. apply (CP [] [DOT]). }
  split.
  { unfold fs_calls. rewrite R, R'. exact PC. }
  rewrite !run_single. rewrite R, R'.
  destruct (c_exts c) as [|e0 es] eqn:EX.
  - exists [], [], init_state, [], [], init_state. repeat split; constructor.
  - exists (s_inv st), (statuses c st), st, (s_inv st'), (statuses c st'), st'.
    split; [reflexivity|]. split; [reflexivity|]. split.
    + destruct T as (I1 & _), T' as (I1' & _). rewrite I1, I1', !inv_of_events_calls.
      unfold inventory_of_calls. apply Permutation_flat_map. exact PC.
    + unfold statuses_equiv, statuses. generalize (c_exts c). intros l.
      induction l as [|e l IH]; cbn [map]; constructor; [|exact IH]. cbn [fst snd]. split; [reflexivity|].
      rewrite (status_of_trace c st e T O), (status_of_trace c st' e T' O'). apply expected_status_perm. exact PC.
Qed.

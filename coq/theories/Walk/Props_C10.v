(* C10 - resource limits and cancellation are hard bounds (filesystem engine part; the image half is
   checked by checks/part_C10_image.py).  Only statements here; proofs are in LimitProofs.v, Invariant.v. *)
From Coq Require Import List ZArith NArith Bool Permutation.
From Scalibr Require Import Walk.Model Walk.Spec Walk.Sched Walk.Invariant Walk.Faults Walk.FaultProofs
  Walk.LimitProofs Walk.PathsProofs Walk.Witness Walk.Cases.
Import ListNotations.

(* never more inodes processed than the limit -- any trees, roots, faults, options *)
Theorem inode_bound : forall c roots,
  (0 < c_max_inodes c)%Z ->
  (Z.of_nat (length (visits (s_events (rres_state (run c roots))))) <= c_max_inodes c)%Z.
Proof. exact inode_bound_lemma. Qed.
Print Assumptions inode_bound.

(* ... and the scan fails (with the limit error) exactly when the tree needs more visits than the limit;
   "visits" counts handleFile invocations, the second call reporting a directory error included *)
Theorem inode_fail_iff : forall c t,
  c_cancel c = NoCancel -> c_fatal c = false -> no_xpanic c -> c_paths c = [] -> tree_quiet c t = true ->
  (0 < c_max_inodes c)%Z ->
  ((exists st, fs_result c t = WOk st Continue) <-> (Z.of_nat (visits_needed c t) <= c_max_inodes c)%Z) /\
  ((c_max_inodes c < Z.of_nat (visits_needed c t))%Z -> exists st, fs_result c t = WOk st (Abort AbInodes)).
Proof. exact inode_fail_iff_lemma. Qed.
Print Assumptions inode_fail_iff.

(* no file larger than the size limit is handed to any extractor *)
Theorem size_bound : forall c t e p,
  c_paths c = [] -> In (e, p) (fs_calls c t) ->
  exists n k sz d ff, In (p, File n k sz d ff) (nodes_of [DOT] t) /\ ((0 < c_max_size c)%Z -> (sz <= c_max_size c)%Z).
Proof. exact size_bound_lemma. Qed.
Print Assumptions size_bound.

(* ... with several roots: the Extract calls of a whole-tree Run split into one block per root, in order, and every
   call of a block is on a file of THAT root whose size is within the limit (the size check looks at the root being
   walked, not at a file of the same relative path elsewhere) *)
Theorem size_bound_per_root : forall c, c_paths c = [] -> forall roots st inv sts,
  exists css, calls (s_events (rres_state (run_roots c roots st inv sts))) = calls (s_events st) ++ concat css /\
              (length css <= length roots)%nat /\
              forall i cs t, nth_error css i = Some cs -> nth_error roots i = Some t ->
                             forall ep, In ep cs -> call_within_limit c t ep.
Proof. exact size_bound_per_root_lemma. Qed.
Print Assumptions size_bound_per_root.

(* context cancelled by the k-th visit hook (k = 0: before the scan): every Extract call happens while fewer
   than k inodes have been visited -- no extraction starts on any file visited from the k-th on *)
Theorem cancel_no_new_file : forall c k roots,
  c_cancel c = CancelAtVisit k ->
  forall pre e q post, s_events (rres_state (run c roots)) = pre ++ EExtract e q :: post ->
  (length (visits pre) < k)%nat.
Proof. exact cancel_visit_lemma. Qed.
Print Assumptions cancel_no_new_file.

(* context cancelled inside the j-th Extract call: later Extract calls are on that same file only
   (the remaining extractors of the current file are not interrupted) *)
Theorem cancel_inside_extract_same_file : forall c j roots,
  c_cancel c = CancelAtExtract j -> (1 <= j)%nat ->
  forall pre e q post, s_events (rres_state (run c roots)) = pre ++ EExtract e q :: post ->
  (j <= length (calls pre))%nat ->
  exists e0, nth_error (calls (s_events (rres_state (run c roots)))) (j - 1) = Some (e0, q).
Proof. exact cancel_extract_lemma. Qed.
Print Assumptions cancel_inside_extract_same_file.

(* cancellation is reported as failure exactly when work remained *)
Theorem cancel_reports_failure : forall c k t,
  c_cancel c = CancelAtVisit k -> (c_max_inodes c <= 0)%Z -> c_fatal c = false -> no_xpanic c -> c_paths c = [] ->
  tree_quiet c t = true ->
  ((exists st, fs_result c t = WOk st Continue) <-> (visits_needed c t < k)%nat) /\
  ((k <= visits_needed c t)%nat -> exists st, fs_result c t = WOk st (Abort AbCtx)).
Proof. exact cancel_reports_failure_lemma. Qed.
Print Assumptions cancel_reports_failure.

(* whatever the trees, faults, limits, cancellation point, requested paths and number of roots, with or without
   UseGitignore, Run never panics (extractors that do not panic themselves) *)
Theorem limits_never_panic : forall c roots,
  no_xpanic c -> forall st pc, run c roots <> RPanic st pc.
Proof. exact run_never_panics. Qed.
Print Assumptions limits_never_panic.

(* non-vacuity *)
Definition c_lim (n : Z) : cfg := with_limits base_cfg n 0 false NoCancel.
Definition t_lim : node := Dc DOT [Dc nA [Fc nZ Reg 1 0]; Fc nB Reg 1 0].

Example limit_example :
  visits_needed (c_lim 4) t_lim = 4%nat /\
  (exists st, fs_result (c_lim 4) t_lim = WOk st Continue) /\
  (exists st, fs_result (c_lim 3) t_lim = WOk st (Abort AbInodes)) /\
  length (visits (s_events (rres_state (run (c_lim 3) [t_lim])))) = 3%nat.
Proof. vm_compute. repeat split; eexists; reflexivity. Qed.

(* the former panic witnesses as regression examples: UseGitignore + limit / cancellation at a directory *)
Example gitignore_abort_examples :
  (exists st, fs_result (with_limits (with_gitignore base_cfg pat_a) 1 0 false NoCancel) (Dc DOT [Dc nA []]) = WOk st (Abort AbInodes)) /\
  (exists st, fs_result (with_limits (with_gitignore base_cfg pat_a) 0 0 false (CancelAtVisit 0)) (Dc DOT [Dc nA []]) = WOk st (Abort AbCtx)).
Proof. vm_compute. split; eexists; reflexivity. Qed.

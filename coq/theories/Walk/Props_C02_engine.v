(* C02, engine part - a failure on one file is confined to that extractor's reported status.
   Only statements here; proofs are in ConfineProofs.v, Invariant.v. *)
From Coq Require Import List ZArith NArith Bool Permutation.
From Scalibr Require Import Walk.Model Walk.Spec Walk.Sched Walk.Perm Walk.Invariant Walk.ConfineProofs Walk.Witness Walk.Cases.
Import ListNotations.

(* Replace what Extract returns -- any packages, any error, anything but a panic -- on any set of
   (extractor, file) pairs: the scan takes exactly the same course (same outcome, same visits, same
   FileRequired and Extract calls in the same order; in particular it completes iff it completed before), and a
   completed single-root Run reports, for every extractor whose results were not replaced, the same packages
   and the same status.  All trees, faults, limits, options. *)
Theorem extract_failure_confined : forall c f t,
  no_xpanic c -> (forall e p, f e p <> XPanic) ->
  sim_run (run c [t]) (run (with_extract c f) [t]) /\
  forall inv sts st inv' sts' st',
    run c [t] = ROk inv sts st -> run (with_extract c f) [t] = ROk inv' sts' st' ->
    s_events st = s_events st' /\
    inv = inventory_of_calls c (calls (s_events st)) /\ inv' = inventory_of_calls (with_extract c f) (calls (s_events st)) /\
    forall e, (forall p, f e p = c_extract c e p) ->
      filter (fun x => ln_eqb (fst x) e) inv = filter (fun x => ln_eqb (fst x) e) inv' /\
      (exists s, In (e, s) sts /\ In (e, s) sts') \/ ~ In e (c_exts c).
Proof. exact extract_failure_confined_lemma. Qed.
Print Assumptions extract_failure_confined.

(* The engine's own contract fails for panics: Extract is called without recover, so a panicking extractor
   takes the whole scan down (this is why the property's first sentence is the one that matters). *)
Theorem engine_propagates_panic : forall c p n k sz d ff e st,
  c_extract c e p = XPanic -> c_exts c = [e] -> req c e p sz ff = true -> kind_accepted c k = true ->
  c_gitignore c = false -> no_limits c = true -> ff_clean ff = true -> (c_max_size c <= 0)%Z ->
  exists st', handle_file c p (File n k sz d ff) false st = WPanic st' PcExtract.
Proof. exact engine_propagates_panic_lemma. Qed.
Print Assumptions engine_propagates_panic.

(* ... and nothing else can make it panic *)
Theorem engine_panics_only_through_extract : forall c roots,
  no_xpanic c -> forall st pc, run c roots <> RPanic st pc.
Proof. exact run_never_panics. Qed.
Print Assumptions engine_panics_only_through_extract.

(* non-vacuity: the same tree scanned with an extractor that fails on one file *)
Definition f_fail : list N -> list N -> xres :=
  fun e p => if ln_eqb p [nA; nZ] then XRes [] true else c_extract base_cfg e p.
Definition t_conf : node := Dc DOT [Dc nA [Fc nZ Reg 1 0]; Fc nB Reg 1 0].

Example confined_example :
  run_inv (run base_cfg [t_conf]) = [(e0, pk1 [nA; nZ]); (e0, pk1 [nB])] /\
  run_inv (run (with_extract base_cfg f_fail) [t_conf]) = [(e0, pk1 [nB])] /\
  run_statuses (run (with_extract base_cfg f_fail) [t_conf]) = [(e0, StPartial [(EkExtract, [nA; nZ])])].
Proof. vm_compute. repeat split; reflexivity. Qed.

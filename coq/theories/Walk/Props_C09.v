(* C09 - filesystem faults are contained, surfaced, and fatal only on request.
   Only statements here; proofs are in FaultProofs.v, ContainProofs.v, Invariant.v. *)
From Coq Require Import List ZArith NArith Bool Permutation.
From Scalibr Require Import Walk.Model Walk.Spec Walk.Sched Walk.Trace Walk.C01Proofs Walk.Invariant Walk.Faults
  Walk.FaultProofs Walk.ContainProofs Walk.PathsProofs Walk.MultiFaultProofs Walk.Witness Walk.Cases Walk.SizeStatProofs.
Import ListNotations.

(* ErrorOnFSErrors = false: whatever fails -- any number of faults at any operation site of any tree: root stat,
   open-dir, k-th directory read, open file, stat of an open file -- the scan completes (no abort, no panic),
   a failing lazy Stat under MaxFileSize (the file is skipped) and an unreadable .gitignore (logged, no patterns)
   included.  tree_quiet only excludes a Stat fault on a file when some FileRequired consults api.Stat(). *)
Theorem nonfatal_never_fails : forall c t,
  c_fatal c = false -> no_limits c = true -> no_xpanic c -> c_paths c = [] -> tree_quiet c t = true ->
  exists st, fs_result c t = WOk st Continue.
Proof. exact nonfatal_never_fails_lemma. Qed.
Print Assumptions nonfatal_never_fails.

(* ... and the files outside the failing directories / files are extracted exactly as in the fault-free scan:
   the Extract calls are those of the scan of the fault-erased tree whose path survives.  (gi_readable: a .gitignore
   that cannot be read contributes no patterns, so what it would have ignored is extracted; the comparison with
   the fault-free scan is claimed for readable .gitignore files.) *)
Theorem faults_contained : forall c t,
  c_fatal c = false -> no_limits c = true -> no_xpanic c -> c_paths c = [] -> tree_quiet c t = true ->
  gi_readable c t = true -> wf_tree t = true ->
  fs_calls c t = filter (fun ep => not_lost c t (snd ep)) (fs_calls c (erase_faults t)).
Proof. exact faults_contained_lemma. Qed.
Print Assumptions faults_contained.

(* the same in requested-paths mode: a requested path that is missing or cannot be stat'ed contributes nothing and
   does not affect the paths requested after it; every other requested path is extracted as in the fault-free
   request of that path alone, minus what is lost to faults below it *)
Theorem faults_contained_paths : forall c t ps,
  let c' := set_paths c ps in
  c_fatal c = false -> c_ignore_subdirs c = false -> no_limits c = true -> no_xpanic c ->
  tree_quiet c' t = true -> gi_readable c' t = true -> wf_tree t = true -> ps <> [] ->
  (forall p, In p ps -> canonical_path p = true) ->
  fs_calls c' t =
  flat_map (fun p => match lookup t p with
                     | None => []
                     | Some nd =>
                         if node_stat_fails nd then []
                         else filter (fun ep => survives c' nd (skipn (length (spath p)) (spath (snd ep))))
                                     (fs_calls (set_paths c [p]) (erase_faults t))
                     end) ps.
Proof. exact faults_contained_paths_lemma. Qed.
Print Assumptions faults_contained_paths.

(* several roots: the Run completes and its Extract calls are, root by root, those of the fault-free scan of that root
   whose path is not lost to a fault of THAT root: a fault in one root never changes what another root yields *)
Theorem multiroot_faults_contained : forall c roots,
  c_fatal c = false -> no_limits c = true -> no_xpanic c -> c_paths c = [] ->
  forallb (fun t => tree_quiet c t && gi_readable c t && wf_tree t) roots = true ->
  exists inv sts st,
    run c roots = ROk inv sts st /\
    (c_exts c <> [] ->
     calls (s_events st) =
     flat_map (fun t => filter (fun ep => not_lost c t (snd ep)) (fs_calls c (erase_faults t))) roots).
Proof. exact multiroot_faults_contained_lemma. Qed.
Print Assumptions multiroot_faults_contained.

(* ... and for ANY roots, faults, limits and options: every open / stat / extract failure in any root is an item of
   the owning plugin's status, a non-succeeded status has such a cause, and Run reports the statuses and inventory
   of the shared walk context (the union over the roots) *)
Theorem multiroot_faults_surface : forall c roots inv sts st e,
  run c roots = ROk inv sts st ->
  (forall ev item, In ev (s_events st) -> In (e, item) (err_of_event c ev) ->
     exists errs, In item errs /\
       (status_of st e = if existsb (ln_eqb e) (s_found st) then StPartial errs else StFailed errs)) /\
  (status_of st e <> StSucceeded -> exists ev item, In ev (s_events st) /\ In (e, item) (err_of_event c ev)) /\
  (c_exts c <> [] -> roots <> [] -> sts = statuses c st /\ inv = s_inv st).
Proof. exact multiroot_faults_surface_lemma. Qed.
Print Assumptions multiroot_faults_surface.

(* every failure to open, stat or parse a file is reflected in the owning extractor's status (failed, or
   partially succeeded iff it produced packages elsewhere), and a non-succeeded status has such a cause *)
Theorem faults_surface : forall c t inv sts st e,
  run c [t] = ROk inv sts st ->
  (forall ev item, In ev (s_events st) -> In (e, item) (err_of_event c ev) ->
     exists errs, In item errs /\
       (status_of st e = if existsb (ln_eqb e) (s_found st) then StPartial errs else StFailed errs)) /\
  (status_of st e <> StSucceeded -> exists ev item, In ev (s_events st) /\ In (e, item) (err_of_event c ev)) /\
  (c_exts c <> [] -> sts = statuses c st).
Proof.
  intros c t inv sts st e R.
  assert (T : tinv c st).
  { rewrite run_single in R. destruct (c_exts c); [inversion R; subst; apply tinv_init|].
    pose proof (run_fs_tinv c t init_state (tinv_init c)) as T. unfold fs_result in R.
    destruct (run_fs c t init_state) as [s [| |a]|s pc]; inversion R; subst; exact T. }
  destruct (faults_surface_lemma c st e T) as [A B]. split; [exact A|]. split; [exact B|].
  intros NE. rewrite run_single in R. destruct (c_exts c); [contradiction|]. unfold fs_result in R.
  destruct (run_fs c t init_state) as [s [| |a]|s pc]; inversion R; subst; reflexivity.
Qed.
Print Assumptions faults_surface.

(* a required, accepted, not ignored file within the size limit always produces its outcome event:
   Extract, or the open / stat error that is then part of the status *)
Theorem required_file_outcome : forall c p size ff es e,
  size_ok c size = true -> (0 <? c_max_size c)%Z && ff_stat ff = false -> In e es -> req c e p size ff = true ->
  In (outcome_event e p ff) (ext_events c p size ff es false).
Proof. intros c p size ff es e S L. apply ext_events_required; [rewrite S; reflexivity|rewrite L; reflexivity]. Qed.
Print Assumptions required_file_outcome.

(* ErrorOnFSErrors = true: the scan succeeds iff no traversal fault is reached -- a directory the walk enters that
   cannot be opened, fails while being listed, or (UseGitignore) holds a .gitignore that cannot be opened, whatever
   the error kind; or a root that cannot be stat'ed *)
Theorem fatal_iff_traversal_fault : forall c t,
  c_fatal c = true -> no_limits c = true -> no_xpanic c -> c_paths c = [] -> tree_quiet c t = true ->
  ((exists st, fs_result c t = WOk st Continue) <-> traversal_fault c t = false).
Proof. exact fatal_iff_traversal_fault_lemma. Qed.
Print Assumptions fatal_iff_traversal_fault.

(* the overall status: failed iff filesystem.Run returned an error *)
Theorem scan_status_derivation : forall c roots r,
  roots <> [] -> (c_paths c = [] \/ (length roots <= 1)%nat) -> scan c [] roots = ScanDone r ->
  (sr_failed r = false <-> exists inv sts st, run c roots = ROk inv sts st).
Proof. exact scan_status_lemma. Qed.
Print Assumptions scan_status_derivation.

(* the lazy fs.Stat of the size check (MaxFileSize > 0): when it fails on a file that some extractor requires, the
   extractor loop of handleFile hands the file to no extractor (only FileRequired events are added) and aborts
   the walk iff filesystem errors are fatal; the model carries no error value, so none can be treated as benign *)
Theorem lazy_stat_fault_fatal_iff_requested : forall c p size ff,
  ff_stat ff = true -> (0 <? c_max_size c)%Z = true ->
  forall es st, existsb (fun e => req c e p size ff) es = true ->
  exists st', run_exts c p size ff es false st = WOk st' (if c_fatal c then Abort AbSize else Continue)
              /\ only_req_events p st st'.
Proof. exact lazy_stat_fault_lemma. Qed.
Print Assumptions lazy_stat_fault_fatal_iff_requested.

Theorem unrequired_file_never_stats : forall c p size ff es st,
  existsb (fun e => req c e p size ff) es = false ->
  exists st', run_exts c p size ff es false st = WOk st' Continue /\ only_req_events p st st'.
Proof. intros c p size ff. exact (lazy_stat_unrequired_lemma c p size ff). Qed.
Print Assumptions unrequired_file_never_stats.

(* non-vacuity: a tree with an unreadable directory and a file that cannot be opened, inside the domain *)
Definition t_faulty : node :=
  Dc DOT [Df nA [Fc nZ Reg 1 0] true None false; Ff nB Reg 1 0 true false false; Fc nC Reg 1 0].

Example faulty_example :
  tree_quiet base_cfg t_faulty = true /\
  fs_calls base_cfg t_faulty = [(e0, [nC])] /\
  fs_calls base_cfg (erase_faults t_faulty) = [(e0, [nA; nZ]); (e0, [nB]); (e0, [nC])] /\
  traversal_fault base_cfg t_faulty = true.
Proof. vm_compute. repeat split; reflexivity. Qed.

(* the former refutation witness: an unreadable .gitignore no longer aborts (nor panics); the scan completes *)
Example unreadable_gitignore_example :
  tree_quiet c_gi_fault t_gi_fault = true /\ gi_readable c_gi_fault t_gi_fault = false /\
  (exists st, fs_result c_gi_fault t_gi_fault = WOk st Continue) /\
  fs_calls c_gi_fault t_gi_fault = [(e0, [nB; nA]); (e0, [nC])].
Proof. vm_compute. repeat split; try reflexivity. eexists; reflexivity. Qed.

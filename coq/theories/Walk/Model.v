(* Executable model of the filesystem walk engine of osv-scalibr:
     extractor/filesystem/filesystem.go   (Run, runOnScanRoot, RunFS, walkIndividualPaths, handleFile,
                                           postHandleFile, shouldSkipDir, runExtractor, errToExtractorStatus)
     extractor/filesystem/internal/walkdir_iterate.go (WalkDirUnsorted, walkDirUnsorted)
     extractor/filesystem/internal/gitignore.go       (GitignoreMatch, ParseDirForGitignore, ParseParentGitignores)
     scalibr.go (Scan's use of filesystem.Run, newScanResult, sortResults, CmpPackages, cmpStatus)
   The code is modelled as it is, including its defects.  No proofs in this file. *)
From Coq Require Import List ZArith NArith Bool Arith.
From Scalibr Require Import Lib.SortSearch.
Import ListNotations.

(* ------------------------------------------------------------------ basic data *)
(* File names are identifiers; two are reserved: "." and ".gitignore".  The engine looks at names only
   through path.Join, strings.Split(path,"/"), map lookup and slices.Contains, which are functions of the
   segment list as long as names are non-empty, contain no '/', and are neither "." nor "..". *)
Notation name := N (only parsing).
Definition DOT : name := 0%N.
Definition GI : name := 1%N.
Notation path := (list N) (only parsing).          (* segments; the walk root is [DOT], like Go's "." *)
Notation bytes := (list N) (only parsing).         (* strings that are compared or sorted as strings *)
Notation ext := (list N) (only parsing).           (* an extractor is identified by its Name() (the key of the engine's maps) *)

Fixpoint ln_eqb (a b : list N) : bool :=
  match a, b with
  | [], [] => true
  | x :: a', y :: b' => N.eqb x y && ln_eqb a' b'
  | _, _ => false
  end.

Fixpoint is_prefix (a b : list N) : bool :=
  match a, b with
  | [], _ => true
  | x :: a', y :: b' => N.eqb x y && is_prefix a' b'
  | _ :: _, [] => false
  end.

Definition mem_path (p : path) (l : list path) : bool := existsb (ln_eqb p) l.

(* d.Type() & fs.ModeType of a non-directory: no type bit (regular), exactly ModeSymlink, or any other combination of
   type bits, kept as a mask: 1 symlink, 2 device, 4 char device, 8 named pipe, 16 socket, 32 irregular *)
Inductive kind := Reg | Sym | Special (bits : N).

(* fault annotations: which operations of the file system fail on this node *)
Record ffault := { ff_open : bool;     (* fs.Open(path) fails (not with ErrNotExist) *)
                   ff_fstat : bool;    (* file.Stat() on the opened file fails *)
                   ff_stat : bool }.   (* fs.Stat(path) fails: lazy size lookup, stat of a requested path *)
Record dfault := { df_open : bool;               (* fs.Open(dir) fails in readDir *)
                   df_read_at : option nat;      (* the k-th ReadDir(1) (0-based) fails *)
                   df_stat : bool }.             (* fs.Stat(dir) fails: walk root / requested path *)
Definition no_ff : ffault := {| ff_open := false; ff_fstat := false; ff_stat := false |}.
Definition no_df : dfault := {| df_open := false; df_read_at := None; df_stat := false |}.

Inductive node :=
| File (n : name) (k : kind) (size : Z) (data : N) (ff : ffault)   (* data: content id (pattern file id for .gitignore) *)
| Dir (n : name) (ch : list node) (df : dfault).                    (* ch in the order ReadDir lists them *)

Definition node_name (nd : node) : name := match nd with File n _ _ _ _ => n | Dir n _ _ => n end.
Definition is_dir (nd : node) : bool := match nd with Dir _ _ _ => true | _ => false end.
Definition node_stat_fails (nd : node) : bool :=
  match nd with File _ _ _ _ ff => ff_stat ff | Dir _ _ df => df_stat df end.
Definition dummy_node : node := File DOT (Special 8) 0%Z 0%N no_ff.

Definition find_child (n : name) (ch : list node) : option node :=
  find (fun c => N.eqb (node_name c) n) ch.

Fixpoint lookup_from (nd : node) (segs : path) : option node :=
  match segs with
  | [] => Some nd
  | s :: rest =>
      match nd with
      | Dir _ ch _ => match find_child s ch with Some c => lookup_from c rest | None => None end
      | File _ _ _ _ _ => None
      end
  end.

(* fs.Stat(fsys, p) for a clean relative path p ("." for the root) *)
Definition lookup (t : node) (p : path) : option node :=
  if ln_eqb p [DOT] then Some t else lookup_from t p.

(* path.Join(dir, name): "." joined with n is n *)
Definition child_path (p : path) (n : name) : path :=
  if ln_eqb p [DOT] then [n] else p ++ [n].

(* ------------------------------------------------------------------ packages, extraction results *)
Record pkg := { p_name : bytes; p_version : bytes; p_locs : list bytes }.
Notation tpkg := (list N * pkg)%type (only parsing).          (* package with r.Extractor set by the engine *)

Inductive xres := XRes (pk : list pkg) (err : bool) | XPanic.

Inductive event :=
| EVisit (p : path)                 (* stats.AfterInodeVisited(p) *)
| EReq (e : ext) (p : path)         (* e.FileRequired called on p *)
| EExtract (e : ext) (p : path)     (* e.Extract called on p *)
| EOpenErr (e : ext) (p : path)     (* runExtractor: Open failed  (not observable by the harness: no hook) *)
| EFstatErr (e : ext) (p : path).   (* runExtractor: Stat of the opened file failed (not observable) *)

Inductive errkind := EkOpen | EkFstat | EkExtract.
Notation erritem := (errkind * list N)%type (only parsing).

Inductive abort := AbInodes | AbCtx | AbFs | AbGi | AbSize.
Inductive signal := Continue | SkipDir | Abort (a : abort).
Inductive pcause := PcExtract.                  (* the only panic left: a panicking extractor *)

(* when the scan context gets cancelled: by the k-th AfterInodeVisited hook (k = 0: before the scan starts),
   or during the j-th Extract call (j >= 1) *)
Inductive cancel := NoCancel | CancelAtVisit (k : nat) | CancelAtExtract (j : nat).

(* ------------------------------------------------------------------ configuration *)
Record cfg := {
  c_exts : list ext;                           (* Config.Extractors, in order *)
  c_required : ext -> path -> bool;            (* caller callback FileRequired: the part that looks at api.Path() *)
  c_statreq : ext -> option Z;                 (* ... and the part that consults api.Stat(): required only if Stat succeeds and
                                                  the size is at least this (None: Stat is not consulted) *)
  c_extract : ext -> path -> xres;             (* caller callback Extract *)
  c_pat : N -> path -> bool -> bool;           (* go-git: pattern file, path relative to its domain, isDir *)
  c_skip_list : list path;                     (* DirsToSkip *)
  c_re : option (path -> bool);                (* SkipDirRegex.MatchString *)
  c_glob : option (path -> bool);              (* SkipDirGlob.Match *)
  c_gitignore : bool;
  c_ignore_subdirs : bool;
  c_paths : list path;                         (* PathsToExtract *)
  c_symlinks : bool;
  c_max_inodes : Z;
  c_max_size : Z;
  c_fatal : bool;                              (* ErrorOnFSErrors *)
  c_abs : option bytes;                        (* StoreAbsolutePath: Some (absolute path of the scan root) *)
  c_cancel : cancel }.

(* ------------------------------------------------------------------ gitignore *)
Notation matcher := (list N * N)%type (only parsing).         (* domain, pattern file *)

(* go-git pattern.Match: the domain must be a proper prefix of the matched path *)
Definition gi_match (c : cfg) (m : matcher) (p : path) (isdir : bool) : bool :=
  let '(dom, pf) := m in
  is_prefix dom p && (length dom <? length p)%nat && c_pat c pf (skipn (length dom) p) isdir.

(* internal.GitignoreMatch; a nil pattern and the empty matcher are both None.
   The model keeps the innermost directory at the head (Go appends at the end); the order is
   irrelevant for the any-match loop, only for which entry a pop removes. *)
Definition gi_match_stack (c : cfg) (ms : list (option matcher)) (p : path) (isdir : bool) : bool :=
  existsb (fun om => match om with Some m => gi_match c m p isdir | None => false end) ms.

Inductive gires := GiErr | GiOk (m : option matcher).

(* internal.ParseDirForGitignore(fs, p) where ch are the entries of directory p.
   pathTokens := strings.Split(dirPath, "/"), i.e. the model path itself -- except for the scan root ".",
   whose pattern domain is empty (patterns apply to every path below the root). *)
Definition gi_domain (p : path) : path := if ln_eqb p [DOT] then [] else p.

Definition parse_dir_gi (p : path) (ch : list node) : gires :=
  match find_child GI ch with
  | None => GiOk None
  | Some (File _ _ _ data ff) => if ff_open ff then GiErr else GiOk (Some (gi_domain p, data))
  | Some (Dir _ _ df) => if df_open df then GiErr else GiOk None   (* reading a directory yields no line *)
  end.

(* ------------------------------------------------------------------ walk state *)
Record state := {
  s_inodes : Z;                           (* wc.inodesVisited *)
  s_nvisit : nat;                         (* number of AfterInodeVisited calls so far *)
  s_nextract : nat;                       (* wc.extractCalls *)
  s_stack : list (option matcher);        (* wc.gitignores, innermost first *)
  s_events : list event;
  s_inv : list tpkg;                      (* wc.inventory.Packages *)
  s_errors : list (ext * erritem);        (* wc.errors: chronological log; map value of e = entries of e *)
  s_found : list ext }.                   (* wc.foundInv: keys set to true *)

Definition init_state : state :=
  {| s_inodes := 0; s_nvisit := 0; s_nextract := 0; s_stack := []; s_events := []; s_inv := [];
     s_errors := []; s_found := [] |}.

Definition set_stack (st : state) (ms : list (option matcher)) : state :=
  {| s_inodes := s_inodes st; s_nvisit := s_nvisit st; s_nextract := s_nextract st; s_stack := ms;
     s_events := s_events st; s_inv := s_inv st; s_errors := s_errors st; s_found := s_found st |}.
Definition add_event (st : state) (e : event) : state :=
  {| s_inodes := s_inodes st; s_nvisit := s_nvisit st; s_nextract := s_nextract st; s_stack := s_stack st;
     s_events := s_events st ++ [e]; s_inv := s_inv st; s_errors := s_errors st; s_found := s_found st |}.
Definition add_error (st : state) (e : ext) (k : errkind) (p : path) : state :=
  {| s_inodes := s_inodes st; s_nvisit := s_nvisit st; s_nextract := s_nextract st; s_stack := s_stack st;
     s_events := s_events st; s_inv := s_inv st; s_errors := s_errors st ++ [(e, (k, p))]; s_found := s_found st |}.
Definition inc_inodes (st : state) : state :=
  {| s_inodes := (s_inodes st + 1)%Z; s_nvisit := s_nvisit st; s_nextract := s_nextract st; s_stack := s_stack st;
     s_events := s_events st; s_inv := s_inv st; s_errors := s_errors st; s_found := s_found st |}.
Definition visit (st : state) (p : path) : state :=
  {| s_inodes := s_inodes st; s_nvisit := S (s_nvisit st); s_nextract := s_nextract st; s_stack := s_stack st;
     s_events := s_events st ++ [EVisit p]; s_inv := s_inv st; s_errors := s_errors st; s_found := s_found st |}.
Definition begin_extract (st : state) (e : ext) (p : path) : state :=
  {| s_inodes := s_inodes st; s_nvisit := s_nvisit st; s_nextract := S (s_nextract st); s_stack := s_stack st;
     s_events := s_events st ++ [EExtract e p]; s_inv := s_inv st; s_errors := s_errors st; s_found := s_found st |}.
Definition add_results (st : state) (e : ext) (pk : list pkg) : state :=
  {| s_inodes := s_inodes st; s_nvisit := s_nvisit st; s_nextract := s_nextract st; s_stack := s_stack st;
     s_events := s_events st; s_inv := s_inv st ++ map (fun x => (e, x)) pk; s_errors := s_errors st;
     s_found := s_found st ++ [e] |}.

(* wc.ctx.Err() != nil *)
Definition cancelled (c : cfg) (st : state) : bool :=
  match c_cancel c with
  | NoCancel => false
  | CancelAtVisit k => (k <=? s_nvisit st)%nat
  | CancelAtExtract j => (1 <=? j)%nat && (j <=? s_nextract st)%nat
  end.

Inductive wres := WOk (st : state) (sg : signal) | WPanic (st : state) (pc : pcause).

Definition wres_state (r : wres) : state :=
  match r with WOk st _ => st | WPanic st _ => st end.

(* ------------------------------------------------------------------ shouldSkipDir *)
Definition should_skip_dir (c : cfg) (ms : list (option matcher)) (p : path) : bool :=
  if mem_path p (c_skip_list c) then true
  else if c_ignore_subdirs c && negb (mem_path p (c_paths c)) then true
  else if c_gitignore c && gi_match_stack c ms p true then true
  else if match c_re c with Some re => re p | None => false end then true
  else match c_glob c with Some g => g p | None => false end.

(* r.Locations = expandAbsolutePath(wc.scanRoot, r.Locations): filepath.Join(root, l) for every location, once *)
Definition join_root (root l : bytes) : bytes := match l with [] => root | _ => root ++ [47%N] ++ l end.
Definition abs_pkg (c : cfg) (x : pkg) : pkg :=
  match c_abs c with
  | None => x
  | Some root => {| p_name := p_name x; p_version := p_version x; p_locs := map (join_root root) (p_locs x) |}
  end.

(* FileRequired(wc.fileAPI): the lazy Stat of the FileAPI is fs.Stat(wc.fs, path) of the file being visited *)
Definition req (c : cfg) (e : ext) (p : path) (size : Z) (ff : ffault) : bool :=
  c_required c e p &&
  match c_statreq c e with
  | None => true
  | Some thr => negb (ff_stat ff) && (thr <=? size)%Z
  end.

(* ------------------------------------------------------------------ runExtractor *)
Definition run_extractor (c : cfg) (e : ext) (p : path) (ff : ffault) (st : state) : wres :=
  if ff_open ff then WOk (add_error (add_event st (EOpenErr e p)) e EkOpen p) Continue
  else if ff_fstat ff then WOk (add_error (add_event st (EFstatErr e p)) e EkFstat p) Continue
  else
    let st1 := begin_extract st e p in
    match c_extract c e p with
    | XPanic => WPanic st1 PcExtract                 (* no recover around Extract *)
    | XRes pk err =>
        let st2 := if err then add_error st1 e EkExtract p else st1 in
        let st3 := match pk with [] => st2 | _ => add_results st2 e (map (abs_pkg c) pk) end in
        WOk st3 Continue
    end.

(* the extractor loop of handleFile; checked = (fSize != -1) *)
Fixpoint run_exts (c : cfg) (p : path) (size : Z) (ff : ffault) (es : list ext) (checked : bool) (st : state) : wres :=
  match es with
  | [] => WOk st Continue
  | e :: es' =>
      let st0 := add_event st (EReq e p) in
      if req c e p size ff then
        if (0 <? c_max_size c)%Z && negb checked then
          if ff_stat ff then                                  (* "failed to get file size" *)
            (if c_fatal c then WOk st0 (Abort AbSize) else WOk st0 Continue)   (* fatal only on request; else the file is skipped *)
          else if (c_max_size c <? size)%Z then WOk st0 Continue     (* file skipped for every extractor *)
          else match run_extractor c e p ff st0 with
               | WOk st1 _ => run_exts c p size ff es' true st1
               | r => r
               end
        else match run_extractor c e p ff st0 with
             | WOk st1 _ => run_exts c p size ff es' checked st1
             | r => r
             end
      else run_exts c p size ff es' checked st0
  end.

(* ------------------------------------------------------------------ handleFile *)
(* first part, common to every inode: counter, limit, stats hook, context, fserr *)
Inductive pre_res := PreStop (st : state) (sg : signal) | PreGo (st : state).

Definition hf_prelude (c : cfg) (p : path) (fserr : bool) (st : state) : pre_res :=
  let st1 := inc_inodes st in
  if (0 <? c_max_inodes c)%Z && (c_max_inodes c <? s_inodes st1)%Z then PreStop st1 (Abort AbInodes)
  else
    let st2 := visit st1 p in
    if cancelled c st2 then PreStop st2 (Abort AbCtx)
    else if fserr then (if c_fatal c then PreStop st2 (Abort AbFs) else PreStop st2 Continue)
    else PreGo st2.

(* d.Type().IsDir() branch *)
Definition hf_dir (c : cfg) (p : path) (ch : list node) (st2 : state) : wres :=
  let skip := should_skip_dir c (s_stack st2) p in           (* decided by the ancestors' rules only *)
  if c_gitignore c then
    let pushed :=
      if skip then Some None                                  (* EmptyGitignore *)
      else match parse_dir_gi p ch with
           | GiErr => if c_fatal c then None                     (* unreadable .gitignore: fatal only on request ... *)
                      else Some None                             (* ... else logged, EmptyGitignore pushed *)
           | GiOk m => Some m
           end in
    match pushed with
    | None => WOk st2 (Abort AbFs)
    | Some m =>
        let st3 := set_stack st2 (m :: s_stack st2) in
        if skip then WOk st3 SkipDir else WOk st3 Continue
    end
  else if skip then WOk st2 SkipDir else WOk st2 Continue.

(* the rest of handleFile for a non-directory *)
Definition hf_file (c : cfg) (p : path) (k : kind) (size : Z) (ff : ffault) (st2 : state) : wres :=
  (* !IsRegular: ignored unless ReadSymlinks and (Type() & ModeType) == ModeSymlink *)
  let accepted := match k with Reg => true | Sym => c_symlinks c | Special _ => false end in
  if negb accepted then WOk st2 Continue
  else if c_gitignore c && gi_match_stack c (s_stack st2) p false then WOk st2 Continue
  else run_exts c p size ff (c_exts c) false st2.

Definition handle_file (c : cfg) (p : path) (nd : node) (fserr : bool) (st : state) : wres :=
  match hf_prelude c p fserr st with
  | PreStop st' sg => WOk st' sg
  | PreGo st2 =>
      match nd with
      | Dir _ ch _ => hf_dir c p ch st2
      | File _ k size _ ff => hf_file c p k size ff st2
      end
  end.

(* postHandleFile, run by `defer`: pops the entry of this directory; nothing to pop when handleFile returned
   before pushing (inode limit, cancelled context, unreadable .gitignore) and the stack is empty *)
Definition post (c : cfg) (nd : node) (r : wres) : wres :=
  match r with
  | WPanic _ _ => r
  | WOk st sg =>
      if c_gitignore c && is_dir nd then
        match s_stack st with
        | [] => r
        | _ :: ms => WOk (set_stack st ms) sg
        end
      else r
  end.

(* the "second call" of walkDirUnsorted reporting a ReadDir/Open error; iteration of the directory ends *)
Definition second_call (c : cfg) (p : path) (nd : node) (st : state) : wres :=
  match handle_file c p nd true st with
  | WOk st' (Abort a) => WOk st' (Abort a)
  | WOk st' _ => WOk st' Continue
  | r => r
  end.

(* ------------------------------------------------------------------ walkDirUnsorted *)
Fixpoint walk_node (c : cfg) (p : path) (nd : node) (st : state) {struct nd} : wres :=
  post c nd
    match handle_file c p nd false st with
    | WPanic st' pc => WPanic st' pc
    | WOk st1 sg =>
        match nd with
        | File _ _ _ _ _ => WOk st1 sg
        | Dir _ ch df =>
            match sg with
            | SkipDir => WOk st1 Continue
            | Abort a => WOk st1 (Abort a)
            | Continue =>
                if df_open df then second_call c p nd st1
                else
                  (fix walk_children (l : list node) (ra : option nat) (st : state) {struct l} : wres :=
                     match ra with
                     | Some O => second_call c p nd st
                     | _ =>
                         match l with
                         | [] => WOk st Continue                       (* io.EOF *)
                         | ch1 :: l' =>
                             match walk_node c (child_path p (node_name ch1)) ch1 st with
                             | WPanic st' pc => WPanic st' pc
                             | WOk st' (Abort a) => WOk st' (Abort a)
                             | WOk st' _ => walk_children l' (option_map pred ra) st'
                             end
                         end
                     end) ch (df_read_at df) st1
            end
        end
    end.

(* internal.WalkDirUnsorted(fs, p, handleFile, postHandleFile) on tree t *)
Definition walk_dir_unsorted (c : cfg) (t : node) (p : path) (st : state) : wres :=
  match lookup t p with
  | None => handle_file c p dummy_node true st
  | Some nd => if node_stat_fails nd then handle_file c p nd true st else walk_node c p nd st
  end.

(* ------------------------------------------------------------------ walkIndividualPaths *)
Fixpoint prefixes_from (acc : path) (rest : path) : list path :=   (* non-empty proper prefixes *)
  match rest with
  | [] => []
  | [_] => []
  | s :: rest' => (acc ++ [s]) :: prefixes_from (acc ++ [s]) rest'
  end.

(* internal.ParseParentGitignores: every directory strictly between the root and p, root excluded *)
Fixpoint parse_dirs (t : node) (ds : list path) (acc : list (option matcher)) : option (list (option matcher)) :=
  match ds with
  | [] => Some acc
  | d :: ds' =>
      match lookup_from t d with
      | Some (Dir _ ch _) =>
          match parse_dir_gi d ch with
          | GiErr => None
          | GiOk m => parse_dirs t ds' (m :: acc)       (* innermost first *)
          end
      | _ => parse_dirs t ds' (None :: acc)
      end
  end.
Definition parse_parent_gitignores (t : node) (p : path) : option (list (option matcher)) :=
  if ln_eqb p [DOT] then Some []
  else
    (* the scan root is a parent of every other directory *)
    match (match t with Dir _ ch _ => parse_dir_gi [DOT] ch | File _ _ _ _ _ => GiOk None end) with
    | GiErr => None
    | GiOk m => parse_dirs t (prefixes_from [] p) [m]
    end.

Fixpoint walk_individual_paths (c : cfg) (t : node) (ps : list path) (st : state) : wres :=
  match ps with
  | [] => WOk st Continue
  | p :: ps' =>
      let stat_failed := match lookup t p with None => true | Some nd => node_stat_fails nd end in
      if stat_failed then
        match handle_file c p dummy_node true st with
        | WOk st' (Abort a) => WOk st' (Abort a)
        | WOk st' _ => walk_individual_paths c t ps' st'
        | r => r
        end
      else
        match lookup t p with
        | Some (Dir n ch df) =>
            let st0 := if c_gitignore c
                       then match parse_parent_gitignores t p with
                            | None => if c_fatal c then None          (* unreadable parent .gitignore: fatal only on request *)
                                      else Some (set_stack st [])     (* else logged; no parent patterns *)
                            | Some ms => Some (set_stack st ms)
                            end
                       else Some st in
            match st0 with
            | None => WOk st (Abort AbFs)
            | Some st0 =>
                match walk_dir_unsorted c t p st0 with
                | WPanic st' pc => WPanic st' pc
                | WOk st' (Abort a) => WOk (set_stack st' []) (Abort a)
                | WOk st' _ => walk_individual_paths c t ps' (set_stack st' [])
                end
            end
        | Some nd =>
            match handle_file c p nd false st with
            | WOk st' (Abort a) => WOk st' (Abort a)
            | WOk st' _ => walk_individual_paths c t ps' st'
            | r => r
            end
        | None => WOk st Continue   (* unreachable: stat_failed *)
        end
  end.

(* ------------------------------------------------------------------ RunFS / Run *)
Definition run_fs (c : cfg) (t : node) (st : state) : wres :=
  match c_paths c with
  | [] => walk_dir_unsorted c t [DOT] st
  | _ => walk_individual_paths c t (c_paths c) st
  end.

Inductive status := StSucceeded | StPartial (errs : list erritem) | StFailed (errs : list erritem).

Definition errs_of (st : state) (e : ext) : list erritem :=
  map snd (filter (fun x => ln_eqb (fst x) e) (s_errors st)).

(* plugin.StatusFromErr(ex, foundInv[name], errors[name]) *)
Definition status_of (st : state) (e : ext) : status :=
  match errs_of st e with
  | [] => StSucceeded
  | errs => if existsb (ln_eqb e) (s_found st) then StPartial errs else StFailed errs
  end.

Definition statuses (c : cfg) (st : state) : list (ext * status) :=
  map (fun e => (e, status_of st e)) (c_exts c).

Inductive rres :=
| RPanic (st : state) (pc : pcause)
| RErr (inv : list tpkg) (a : abort) (st : state)       (* Run returns (inv, nil, err) *)
| ROk (inv : list tpkg) (sts : list (ext * status)) (st : state).

(* the root loop of filesystem.Run: one shared walk context; RunFS returns the context's cumulative
   inventory and statuses built from the cumulative maps; Run returns what the last root returned *)
Fixpoint run_roots (c : cfg) (roots : list node) (st : state) (inv : list tpkg) (sts : list (ext * status)) : rres :=
  match roots with
  | [] => ROk inv sts st
  | r :: rs =>
      match run_fs c r st with
      | WPanic st' pc => RPanic st' pc
      | WOk st' (Abort a) => RErr (s_inv st') a st'         (* RunFS returns the context's inventory also on error *)
      | WOk st' _ => run_roots c rs st' (s_inv st') (statuses c st')
      end
  end.

Definition run (c : cfg) (roots : list node) : rres :=
  match c_exts c with
  | [] => ROk [] [] init_state
  | _ => run_roots c roots init_state [] []
  end.

Definition rres_state (r : rres) : state :=
  match r with RPanic st _ => st | RErr _ _ st => st | ROk _ _ st => st end.

(* ------------------------------------------------------------------ sortResults *)
Fixpoint bcmp (a b : bytes) : comparison :=
  match a, b with
  | [], [] => Eq
  | [], _ :: _ => Lt
  | _ :: _, [] => Gt
  | x :: a', y :: b' => match N.compare x y with Eq => bcmp a' b' | r => r end
  end.

Fixpoint join_sp (l : list bytes) : bytes :=
  match l with
  | [] => []
  | [x] => x
  | x :: l' => x ++ [32%N] ++ join_sp l'
  end.
(* fmt.Sprintf("%v", []string) *)
Definition sprint_locs (l : list bytes) : bytes := [91%N] ++ join_sp l ++ [93%N].

Definition cmp_or (a b : comparison) : comparison := match a with Eq => b | _ => a end.

(* CmpPackages *)
Definition cmp_packages (a b : tpkg) : comparison :=
  cmp_or (bcmp (p_name (snd a)) (p_name (snd b)))
  (cmp_or (bcmp (p_version (snd a)) (p_version (snd b)))
  (cmp_or (bcmp (fst a) (fst b))
          (bcmp (sprint_locs (p_locs (snd a))) (sprint_locs (p_locs (snd b)))))).

Definition cmp_status (a b : ext * status) : comparison := bcmp (fst a) (fst b).

(* Locations[0] (the file the package was extracted from) stays first; sort.Strings(pkg.Locations[1:]) *)
Definition sort_tail (l : list bytes) : list bytes := match l with [] => [] | x :: l' => x :: isort bcmp l' end.
Definition sort_locs (x : tpkg) : tpkg :=
  (fst x, {| p_name := p_name (snd x); p_version := p_version (snd x); p_locs := sort_tail (p_locs (snd x)) |}).

Definition sort_packages (inv : list tpkg) : list tpkg := isort cmp_packages (map sort_locs inv).
Definition sort_statuses (sts : list (ext * status)) : list (ext * status) := isort cmp_status sts.

(* findings: (Adv.ID.Publisher, Adv.ID.Reference, Extra); cmpFindings orders by reference, then Extra *)
Record finding := { f_pub : bytes; f_ref : bytes; f_extra : bytes }.
Definition cmp_findings (a b : finding) : comparison :=
  cmp_or (bcmp (f_ref a) (f_ref b)) (bcmp (f_extra a) (f_extra b)).
Definition sort_findings (l : list finding) : list finding := isort cmp_findings l.

(* ------------------------------------------------------------------ scalibr.Scan (filesystem extraction + detectors) *)
Record scan_result := { sr_failed : bool; sr_inv : list tpkg; sr_status : list (ext * status); sr_findings : list finding }.
(* a detector: its name and the findings its Scan returns (caller callback; never an error here) *)
Notation detector := (list N * list finding)%type (only parsing).
Inductive scan_outcome := ScanPanic (pc : pcause) | ScanDone (r : scan_result).

Definition scan (c : cfg) (dets : list detector) (roots : list node) : scan_outcome :=
  let failed := {| sr_failed := true; sr_inv := []; sr_status := []; sr_findings := [] |} in
  match roots with
  | [] => ScanDone failed                                   (* errNoScanRoot *)
  | _ =>
      if negb (match c_paths c with [] => true | _ => false end) && (1 <? length roots)%nat
      then ScanDone failed                                  (* errFilesWithSeveralRoots *)
      else match run c roots with
           | RPanic _ pc => ScanPanic pc
           | RErr _ _ _ => ScanDone failed                  (* sro.Inventory is not set on error *)
           | ROk inv sts st =>
               (* no standalone extractor; detector.Run checks the context before every detector *)
               match dets with
               | _ :: _ =>
                   if cancelled c st
                   then ScanDone {| sr_failed := true; sr_inv := sort_packages inv; sr_status := sort_statuses sts;
                                    sr_findings := [] |}
                   else ScanDone {| sr_failed := false; sr_inv := sort_packages inv;
                                    sr_status := sort_statuses (sts ++ map (fun d => (fst d, StSucceeded)) dets);
                                    sr_findings := sort_findings (flat_map snd dets) |}
               | [] =>
                   ScanDone {| sr_failed := false; sr_inv := sort_packages inv; sr_status := sort_statuses sts;
                               sr_findings := [] |}
               end
           end
  end.

(* ------------------------------------------------------------------ observations *)
Definition observable (e : event) : bool :=
  match e with EOpenErr _ _ | EFstatErr _ _ => false | _ => true end.
Definition is_visit (e : event) : bool := match e with EVisit _ => true | _ => false end.
Fixpoint visits (l : list event) : list path :=
  match l with [] => [] | EVisit p :: l' => p :: visits l' | _ :: l' => visits l' end.
Fixpoint calls (l : list event) : list (ext * path) :=
  match l with [] => [] | EExtract e p :: l' => (e, p) :: calls l' | _ :: l' => calls l' end.
Fixpoint reqs (l : list event) : list (ext * path) :=
  match l with [] => [] | EReq e p :: l' => (e, p) :: reqs l' | _ :: l' => reqs l' end.

(* the Extract calls of one RunFS over tree t from a fresh walk context *)
Definition fs_result (c : cfg) (t : node) : wres := run_fs c t init_state.
Definition fs_calls (c : cfg) (t : node) : list (ext * path) := calls (s_events (wres_state (fs_result c t))).

(* C09, size-limit clause: the lazy fs.Stat for the MaxFileSize check (the extractor loop of handleFile).
   When it fails on a file some extractor requires, the file is handed to no extractor and the walk aborts iff
   filesystem errors are fatal - the model has no notion of the error value, so no value can be benign. *)
From Coq Require Import List ZArith NArith Bool.
From Scalibr Require Import Walk.Model.
Import ListNotations.

Definition only_req_events (p : path) (st st' : state) : Prop :=
  exists es, st' = fold_left (fun s e => add_event s (EReq e p)) es st.

Lemma only_req_refl p st : only_req_events p st st.
Proof. exists []. reflexivity. Qed.

Lemma only_req_step p e st st' :
  only_req_events p (add_event st (EReq e p)) st' -> only_req_events p st st'.
Proof. intros [es H]. exists (e :: es). exact H. Qed.

Lemma lazy_stat_fault_lemma c p size ff : ff_stat ff = true -> (0 <? c_max_size c)%Z = true ->
  forall es st, existsb (fun e => req c e p size ff) es = true ->
  exists st', run_exts c p size ff es false st = WOk st' (if c_fatal c then Abort AbSize else Continue)
              /\ only_req_events p st st'.
Proof.
  intros HS HM es. induction es as [|e es IH]; intros st HE; [discriminate|].
  cbn [existsb] in HE. cbn [run_exts].
  destruct (req c e p size ff) eqn:R.
  - rewrite HM, HS. cbn [negb andb].
    exists (add_event st (EReq e p)). split; [destruct (c_fatal c); reflexivity|].
    apply (only_req_step p e), only_req_refl.
  - cbn [orb] in HE. destruct (IH (add_event st (EReq e p)) HE) as [st' [H1 H2]].
    exists st'. split; [exact H1|apply (only_req_step p e); exact H2].
Qed.

Lemma lazy_stat_unrequired_lemma c p size ff :
  forall es st, existsb (fun e => req c e p size ff) es = false ->
  exists st', run_exts c p size ff es false st = WOk st' Continue /\ only_req_events p st st'.
Proof.
  induction es as [|e es IH]; intros st HE.
  - exists st. split; [reflexivity|apply only_req_refl].
  - cbn [existsb] in HE. apply orb_false_iff in HE as [R HE]. cbn [run_exts]. rewrite R.
    destruct (IH (add_event st (EReq e p)) HE) as [st' [H1 H2]].
    exists st'. split; [exact H1|apply (only_req_step p e); exact H2].
Qed.

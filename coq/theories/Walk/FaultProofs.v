(* Proofs (C09): filesystem faults are contained, surfaced, fatal only on request. *)
From Coq Require Import List ZArith NArith Bool Arith Lia Permutation.
From Scalibr Require Import Walk.Model Walk.Spec Walk.Sched Walk.Proofs Walk.Trace Walk.SpecProofs Walk.C01Proofs
  Walk.Invariant Walk.Faults Walk.Cases Walk.Witness.
Import ListNotations.

Lemma tree_quiet_dir c n ch df : tree_quiet c (Dir n ch df) = forallb (tree_quiet c) ch.
Proof. reflexivity. Qed.

Lemma gi_readable_dir c n ch df :
  gi_readable c (Dir n ch df) = (negb (c_gitignore c) || gi_child_ok ch) && forallb (gi_readable c) ch.
Proof. reflexivity. Qed.

Definition quiet_or_fserr (c : cfg) (h : hcall) : bool := abort_site c h || call_quiet c h.

Lemma parse_dir_gi_ok p ch : gi_child_ok ch = true -> parse_dir_gi p ch <> GiErr.
Proof.
  unfold parse_dir_gi, gi_child_ok.
  destruct (find_child GI ch) as [[gn gk gs gd gff|gn gl gdf]|]; try discriminate; intros H;
    apply negb_true_iff in H; rewrite H; discriminate.
Qed.

Lemma dir_decision_nonfatal c ms p ch : c_fatal c = false -> dir_decision c ms p ch <> DGiErr.
Proof.
  intros F. unfold dir_decision. destruct (should_skip_dir c ms p); [discriminate|].
  destruct (c_gitignore c); [|discriminate]. destruct (parse_dir_gi p ch); [rewrite F|]; discriminate.
Qed.

Lemma sched_children_quiet c ms' p nd : forall l,
  Forall (fun c1 => tree_quiet c c1 = true -> forall ms p, forallb (quiet_or_fserr c) (schedule c ms p c1) = true) l ->
  forallb (tree_quiet c) l = true -> forall ra,
  forallb (quiet_or_fserr c) (sched_children c ms' p nd l ra) = true.
Proof.
  induction l as [|c1 l IH]; intros HF Q ra.
  - destruct ra as [[|k]|]; reflexivity.
  - inversion HF as [|? ? H1 HF']; subst. cbn [forallb] in Q. apply andb_true_iff in Q as [Q1 Q2].
    destruct ra as [[|k]|]; cbn [sched_children]; [reflexivity| |]; rewrite forallb_app, (H1 Q1), (IH HF' Q2); reflexivity.
Qed.

Lemma schedule_quiet_or_fserr c : forall nd, tree_quiet c nd = true -> forall ms p,
  forallb (quiet_or_fserr c) (schedule c ms p nd) = true.
Proof.
  induction nd as [n k sz d ff|n ch df IH] using node_ind2; intros Q ms p.
  - cbn [schedule forallb quiet_or_fserr abort_site is_fserr gi_err_call call_quiet orb]. cbn [tree_quiet] in Q.
    destruct (ff_stat ff); [|rewrite !andb_false_r; reflexivity]. cbn [andb] in Q. apply negb_true_iff, orb_false_iff in Q as [_ Q].
    rewrite Q. reflexivity.
  - rewrite schedule_dir. cbn [forallb]. rewrite tree_quiet_dir in Q.
    unfold quiet_or_fserr at 1, abort_site. cbn [is_fserr gi_err_call call_quiet orb].
    destruct (dir_decision c ms p ch) as [| |ms']; [reflexivity|reflexivity|]. cbn [andb].
    destruct (df_open df); [reflexivity|]. apply sched_children_quiet; assumption.
Qed.

Lemma quiet_all c l : c_fatal c = false -> forallb (quiet_or_fserr c) l = true -> forallb (call_quiet c) l = true.
Proof.
  intros F H. rewrite forallb_forall in *. intros [ms p nd b] Hin. specialize (H _ Hin).
  unfold quiet_or_fserr, abort_site in H. cbn [is_fserr] in H. destruct b.
  - cbn [call_quiet]. rewrite F. reflexivity.
  - cbn [orb] in H. destruct nd as [n k sz d ff|n ch df]; [exact H|]. cbn [gi_err_call call_quiet] in *.
    pose proof (dir_decision_nonfatal c ms p ch F) as D. destruct (dir_decision c ms p ch); [reflexivity|contradiction|reflexivity].
Qed.

Lemma quiet_no_fserr c l : existsb (abort_site c) l = false -> forallb (quiet_or_fserr c) l = true -> forallb (call_quiet c) l = true.
Proof.
  intros E H. rewrite forallb_forall in *. intros h Hin. specialize (H _ Hin).
  unfold quiet_or_fserr in H. destruct (abort_site c h) eqn:B; [|exact H].
  exfalso. assert (existsb (abort_site c) l = true) by (apply existsb_exists; exists h; split; assumption). congruence.
Qed.

Lemma run_fs_root c t st : c_paths c = [] ->
  run_fs c t st = if node_stat_fails t then handle_file c [DOT] t true st else walk_node c [DOT] t st.
Proof. intros P. unfold run_fs. rewrite P. unfold walk_dir_unsorted, lookup. cbn [ln_eqb]. rewrite N.eqb_refl. reflexivity. Qed.

Lemma handle_file_fserr_result c p nd st : no_limits c = true ->
  handle_file c p nd true st = WOk (visit (inc_inodes st) p) (if c_fatal c then Abort AbFs else Continue).
Proof.
  intros NL. unfold no_limits in NL. apply andb_true_iff in NL as [NI NC].
  rewrite handle_file_fserr. unfold hf_prelude.
  assert (L : ((0 <? c_max_inodes c)%Z && (c_max_inodes c <? s_inodes (inc_inodes st))%Z) = false).
  { apply Z.leb_le in NI. destruct (0 <? c_max_inodes c)%Z eqn:E; [apply Z.ltb_lt in E; lia|reflexivity]. }
  rewrite L.
  assert (CC : cancelled c (visit (inc_inodes st) p) = false).
  { unfold cancelled. destruct (c_cancel c); [reflexivity|discriminate|discriminate]. }
  rewrite CC. destruct (c_fatal c); reflexivity.
Qed.

(* fatal = false: no single fault, and no combination of faults, makes the scan fail or panic -- provided the
   two sites singled out by tree_quiet are fault-free *)
Theorem nonfatal_never_fails_lemma c t :
  c_fatal c = false -> no_limits c = true -> no_xpanic c -> c_paths c = [] -> tree_quiet c t = true ->
  exists st, fs_result c t = WOk st Continue.
Proof.
  intros F NL NP P Q. unfold fs_result. rewrite run_fs_root by exact P.
  destruct (node_stat_fails t).
  - rewrite handle_file_fserr_result by exact NL. rewrite F. eexists; reflexivity.
  - pose proof (quiet_all c _ F (schedule_quiet_or_fserr c t Q (s_stack init_state) [DOT])) as QA.
    destruct (walk_node_quiet c [DOT] t init_state NL NP QA) as (st & W & _). exists st. exact W.
Qed.

(* fatal = true *)
Lemma handle_file_gi_err c ms p n ch df st : no_limits c = true ->
  dir_decision c ms p ch = DGiErr ->
  exists st', handle_file c p (Dir n ch df) false (set_stack st ms) = WOk st' (Abort AbFs).
Proof.
  intros NL DD. unfold no_limits in NL. apply andb_true_iff in NL as [NI NC].
  unfold handle_file, hf_prelude.
  assert (L : ((0 <? c_max_inodes c)%Z && (c_max_inodes c <? s_inodes (inc_inodes (set_stack st ms)))%Z) = false).
  { apply Z.leb_le in NI. destruct (0 <? c_max_inodes c)%Z eqn:E; [apply Z.ltb_lt in E; lia|reflexivity]. }
  rewrite L.
  assert (CC : cancelled c (visit (inc_inodes (set_stack st ms)) p) = false).
  { unfold cancelled. destruct (c_cancel c); [reflexivity|discriminate|discriminate]. }
  rewrite CC, hf_dir_decision.
  replace (s_stack (visit (inc_inodes (set_stack st ms)) p)) with ms by (destruct st; reflexivity).
  rewrite DD. eexists. reflexivity.
Qed.

Lemma exec_first_fserr c : c_fatal c = true -> no_limits c = true -> no_xpanic c -> forall l st,
  forallb (quiet_or_fserr c) l = true -> existsb (abort_site c) l = true -> exists st', exec c l st = EAbort st' AbFs.
Proof.
  intros F NL NP. induction l as [|[ms p nd b] l IH]; intros st Q E; [discriminate|].
  cbn [forallb existsb] in *. apply andb_true_iff in Q as [Q1 Q2]. cbn [exec].
  destruct (abort_site c (HC ms p nd b)) eqn:AS.
  - unfold abort_site in AS. cbn [is_fserr] in AS. destruct b.
    + rewrite handle_file_fserr_result by exact NL. rewrite F. eexists; reflexivity.
    + cbn [orb] in AS. destruct nd as [n k sz d ff|n ch df]; [discriminate|]. cbn [gi_err_call] in AS.
      destruct (dir_decision c ms p ch) eqn:DD; try discriminate.
      destruct (handle_file_gi_err c ms p n ch df st NL DD) as [st' H]. rewrite H. eexists; reflexivity.
  - cbn [orb] in E. unfold quiet_or_fserr in Q1. rewrite AS in Q1. cbn [orb] in Q1.
    destruct (handle_file_quiet c ms p nd b st NL NP Q1) as (st1 & sg & H & SG & _). rewrite H.
    destruct (IH st1 Q2 E) as [st' E']. exists st'. destruct sg; [exact E'|exact E'|contradiction].
Qed.

Theorem fatal_iff_traversal_fault_lemma c t :
  c_fatal c = true -> no_limits c = true -> no_xpanic c -> c_paths c = [] -> tree_quiet c t = true ->
  ((exists st, fs_result c t = WOk st Continue) <-> traversal_fault c t = false).
Proof.
  intros F NL NP P Q. unfold fs_result, traversal_fault. rewrite run_fs_root by exact P.
  pose proof (schedule_quiet_or_fserr c t Q [] [DOT]) as QS.
  destruct (node_stat_fails t); cbn [orb].
  - rewrite handle_file_fserr_result by exact NL. rewrite F. split; [intros [st H]; discriminate|discriminate].
  - destruct (existsb (abort_site c) (schedule c [] [DOT] t)) eqn:E.
    + split; [|discriminate]. intros [st H]. exfalso.
      destruct (exec_first_fserr c F NL NP _ init_state QS E) as [st' X].
      pose proof (walk_node_exec c t [DOT] init_state) as A. cbn [s_stack init_state] in A. rewrite X, H in A.
      cbn [agrees] in A. destruct A as [ms A]; discriminate.
    + split; [reflexivity|]. intros _.
      pose proof (quiet_no_fserr c _ E QS) as QA.
      destruct (walk_node_quiet c [DOT] t init_state NL NP QA) as (st & W & _). exists st. exact W.
Qed.

(* ------------------------------------------------------------------ failures surface in the owning plugin's status *)
Theorem faults_surface_lemma c st e :
  tinv c st ->
  (forall ev item, In ev (s_events st) -> In (e, item) (err_of_event c ev) ->
     exists errs, In item errs /\
       (status_of st e = if existsb (ln_eqb e) (s_found st) then StPartial errs else StFailed errs)) /\
  (status_of st e <> StSucceeded -> exists ev item, In ev (s_events st) /\ In (e, item) (err_of_event c ev)).
Proof.
  intros (_ & I2 & _). unfold status_of, errs_of. rewrite I2. split.
  - intros ev item Hev Hit.
    assert (Hin : In item (map snd (filter (fun x => ln_eqb (fst x) e) (flat_map (err_of_event c) (s_events st))))).
    { apply in_map_iff. exists (e, item). split; [reflexivity|]. apply filter_In. split.
      - apply in_flat_map. exists ev. split; assumption.
      - cbn [fst]. apply ln_eqb_refl. }
    destruct (map snd _) as [|x xs] eqn:E; [destruct Hin|]. exists (x :: xs). split; [exact Hin|reflexivity].
  - intros H. destruct (map snd _) as [|x xs] eqn:E; [contradiction|].
    assert (Hin : In x (map snd (filter (fun y => ln_eqb (fst y) e) (flat_map (err_of_event c) (s_events st))))) by (rewrite E; left; reflexivity).
    apply in_map_iff in Hin as ([e' item] & <- & Hf). apply filter_In in Hf as [Hf He]. cbn [fst] in He.
    apply ln_eqb_eq in He. subst e'. apply in_flat_map in Hf as (ev & Hev & Hit). exists ev, item. split; assumption.
Qed.

(* the event a required file produces *)
Definition outcome_event (e p : list N) (ff : ffault) : event :=
  if ff_open ff then EOpenErr e p else if ff_fstat ff then EFstatErr e p else EExtract e p.

Lemma ext_events_required c p size ff : forall es checked e,
  checked || size_ok c size = true -> checked || negb ((0 <? c_max_size c)%Z && ff_stat ff) = true ->
  In e es -> req c e p size ff = true ->
  In (outcome_event e p ff) (ext_events c p size ff es checked).
Proof.
  rewrite size_ok_alt.
  induction es as [|e0 es IH]; intros checked e OK OK2 Hin R; [destruct Hin|].
  cbn [ext_events]. right.
  assert (NS : (0 <? c_max_size c)%Z && negb checked && (ff_stat ff || (c_max_size c <? size)%Z) = false).
  { destruct checked; cbn [orb negb andb] in *; [rewrite andb_false_r; reflexivity|].
    apply negb_true_iff in OK, OK2. destruct (0 <? c_max_size c)%Z; cbn [andb] in *; [rewrite OK, OK2; reflexivity|reflexivity]. }
  assert (OK' : forall b, ((0 <? c_max_size c)%Z || b) || negb ((0 <? c_max_size c)%Z && (c_max_size c <? size)%Z) = true).
  { intros b. destruct (0 <? c_max_size c)%Z; cbn [orb andb negb]; [reflexivity|apply orb_true_r]. }
  assert (OK2' : forall b, ((0 <? c_max_size c)%Z || b) || negb ((0 <? c_max_size c)%Z && ff_stat ff) = true).
  { intros b. destruct (0 <? c_max_size c)%Z; cbn [orb andb negb]; [reflexivity|apply orb_true_r]. }
  destruct Hin as [->|Hin].
  - rewrite R, NS. apply in_or_app. left. unfold outcome_event.
    destruct (ff_open ff); [left; reflexivity|]. destruct (ff_fstat ff); left; reflexivity.
  - destruct (req c e0 p size ff).
    + rewrite NS. apply in_or_app. right. apply IH; [apply OK'|apply OK2'|exact Hin|exact R].
    + apply IH; assumption.
Qed.

(* the former refutation witness (an unreadable .gitignore), kept as a regression example *)
Definition c_gi_fault : cfg := with_gitignore base_cfg pat_a.
Definition t_gi_fault : node := Dc DOT [Dc nB [Ff GI Reg 3 1 true false false; Fc nA Reg 1 0]; Fc nC Reg 1 0].

(* ------------------------------------------------------------------ Scan's overall status *)
Lemma scan_status_lemma c roots r :
  roots <> [] -> (c_paths c = [] \/ (length roots <= 1)%nat) -> scan c [] roots = ScanDone r ->
  (sr_failed r = false <-> exists inv sts st, run c roots = ROk inv sts st).
Proof.
  intros NE PR. unfold scan. destruct roots as [|t0 roots]; [contradiction|].
  assert (G : negb match c_paths c with [] => true | _ => false end && (1 <? length (t0 :: roots))%nat = false).
  { destruct PR as [E|L]; [rewrite E; reflexivity|]. destruct (c_paths c); [reflexivity|]. cbn [negb andb].
    apply Nat.ltb_ge. exact L. }
  rewrite G. destruct (run c (t0 :: roots)) as [st pc|inv a st|inv sts st]; intros H; inversion H; subst; cbn [sr_failed].
  - split; [discriminate|]. intros (i & s & x & E). discriminate.
  - split; [|reflexivity]. intros _. eexists _, _, _. reflexivity.
Qed.

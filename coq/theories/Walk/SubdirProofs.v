(* Proofs (C01): explicitly requested paths. *)
From Coq Require Import List ZArith NArith Bool Arith Lia Permutation.
From Scalibr Require Import Walk.Model Walk.Spec Walk.Sched Walk.Proofs Walk.Trace Walk.SpecProofs Walk.C01Proofs
  Walk.ConfineProofs Walk.ContainProofs.
Import ListNotations.

(* ------------------------------------------------------------------ subtrees inherit well-formedness *)
Lemma lookup_from_wf_ff : forall q t nd, lookup_from t q = Some nd ->
  (wf_tree t = true -> wf_tree nd = true) /\ (fault_free t = true -> fault_free nd = true).
Proof.
  induction q as [|x q IH]; intros t nd H.
  - inversion H; subst. split; auto.
  - cbn [lookup_from] in H. destruct t as [|n ch df]; [discriminate|].
    destruct (find_child x ch) as [c0|] eqn:FC; [|discriminate].
    assert (Hin : In c0 ch) by (unfold find_child in FC; apply find_some in FC; tauto).
    destruct (IH c0 nd H) as [A B]. split; intros X.
    + apply A. rewrite wf_tree_dir in X. apply andb_true_iff in X as [_ X]. rewrite forallb_forall in X. apply X. exact Hin.
    + apply B. rewrite fault_free_dir in X. apply andb_true_iff in X as [_ X]. rewrite forallb_forall in X. apply X. exact Hin.
Qed.

Lemma lookup_from_app : forall a t b, lookup_from t (a ++ b) =
  match lookup_from t a with Some nd => lookup_from nd b | None => None end.
Proof.
  induction a as [|x a IH]; intros t b; [reflexivity|]. cbn [app lookup_from].
  destruct t as [|n ch df]; [reflexivity|]. destruct (find_child x ch); [apply IH|reflexivity].
Qed.

(* ------------------------------------------------------------------ a requested file *)
Theorem requested_file_lemma c t p n k sz d ff :
  c_paths c = [p] -> lookup t p = Some (File n k sz d ff) -> ff_clean ff = true ->
  no_limits c = true -> no_xpanic c ->
  fs_calls c t = if kind_accepted c k && size_ok c sz
                 then map (fun e => (e, p)) (filter (fun e => req c e p sz no_ff) (c_exts c)) else [].
Proof.
  intros P L FC NL NP. unfold fs_calls, fs_result, run_fs. rewrite P. cbn [walk_individual_paths]. rewrite L.
  assert (FS : ff_stat ff = false).
  { unfold ff_clean in FC. apply andb_true_iff in FC as [_ FS]. apply negb_true_iff in FS. exact FS. }
  cbn [node_stat_fails]. rewrite FS.
  assert (Q : call_quiet c (HC [] p (File n k sz d ff) false) = true) by (cbn [call_quiet]; rewrite FS, andb_false_r; reflexivity).
  destruct (handle_file_quiet c [] p (File n k sz d ff) false init_state NL NP Q) as (st1 & sg & H & SG & N).
  change (set_stack init_state []) with init_state in H. rewrite H.
  assert (EV : s_events st1 = call_events c (HC [] p (File n k sz d ff) false)).
  { rewrite <- (ns_events st1), N, ns_events. unfold apply_call. rewrite apply_events_events. reflexivity. }
  assert (R : calls (s_events st1) = if kind_accepted c k && size_ok c sz
                 then map (fun e => (e, p)) (filter (fun e => req c e p sz no_ff) (c_exts c)) else []).
  { rewrite EV, file_call_calls by exact FC. cbn [gi_match_stack existsb]. rewrite andb_false_r. cbn [negb]. rewrite andb_true_r. reflexivity. }
  destruct sg; [exact R|exact R|contradiction].
Qed.

(* ------------------------------------------------------------------ the files below a directory *)
Lemma is_prefix_app_cons a (x y : N) s1 s2 : x <> y -> is_prefix (a ++ x :: s1) (a ++ y :: s2) = false.
Proof.
  intros NE. induction a as [|z a IH]; cbn [app is_prefix].
  - apply N.eqb_neq in NE. rewrite NE. reflexivity.
  - rewrite N.eqb_refl. exact IH.
Qed.

Lemma files_below : forall d t b nd, lookup_from t d = Some nd -> wf_tree t = true ->
  filter (fun f => is_prefix (b ++ d) (fpath f)) (files_of b t) = files_of (b ++ d) nd.
Proof.
  induction d as [|x d IH]; intros t b nd L WF.
  - inversion L; subst. rewrite app_nil_r. apply filter_all. intros f Hf.
    destruct (files_of_paths _ _ _ Hf) as (s & E & _). unfold fpath. rewrite E. apply is_prefix_app.
  - cbn [lookup_from] in L. destruct t as [|n ch df]; [discriminate|].
    destruct (find_child x ch) as [c0|] eqn:FC; [|discriminate].
    rewrite wf_tree_dir in WF. apply andb_true_iff in WF as [WN WC].
    assert (Hin : In c0 ch) by (unfold find_child in FC; apply find_some in FC; tauto).
    assert (Hx : node_name c0 = x) by (unfold find_child in FC; apply find_some in FC as [_ E]; apply N.eqb_eq; exact E).
    rewrite files_of_dir, filter_flat_map.
    apply in_split in Hin as (pre & post & ->).
    rewrite map_app in WN. cbn [map] in WN.
    assert (Other : forall c1, In c1 pre \/ In c1 post -> node_name c1 <> x).
    { intros c1 H E. rewrite <- Hx in E.
      destruct H as [H|H].
      - apply (names_ok_app_disjoint _ _ WN (node_name c0)); [left; reflexivity|]. rewrite <- E. apply in_map. exact H.
      - clear -WN H E. induction (map node_name pre) as [|z l IHl]; cbn [app] in WN.
        + apply names_ok_cons in WN as (_ & W & _). apply W. rewrite <- E. apply in_map. exact H.
        + apply names_ok_cons in WN as (_ & _ & W). exact (IHl W). }
    assert (Zero : forall l, (forall c1, In c1 l -> node_name c1 <> x) ->
              flat_map (fun c1 => filter (fun f => is_prefix (b ++ x :: d) (fpath f)) (files_of (b ++ [node_name c1]) c1)) l = []).
    { intros l Hl. apply flat_map_nil_in. intros c1 Hc. rewrite (filter_const _ false); [reflexivity|].
      intros f Hf. destruct (files_of_paths _ _ _ Hf) as (s & E & _). unfold fpath. rewrite E, <- app_assoc. cbn [app].
      apply is_prefix_app_cons. intros X. apply (Hl c1 Hc). symmetry. exact X. }
    rewrite flat_map_app. cbn [flat_map]. rewrite (Zero pre), (Zero post), app_nil_r by (intros c1 H; apply Other; tauto).
    cbn [app]. rewrite Hx.
    replace (b ++ x :: d) with ((b ++ [x]) ++ d) by (rewrite <- app_assoc; reflexivity).
    apply IH; [exact L|]. rewrite forallb_forall in WC. apply WC. apply in_or_app. right. left. reflexivity.
Qed.

(* ------------------------------------------------------------------ reached splits at a directory on the way *)
Lemma proper_prefixes_app_split d s :
  proper_prefixes (d ++ s) = proper_prefixes d ++ map (app d) (proper_prefixes s).
Proof.
  induction d as [|x d IH]; cbn [app proper_prefixes map].
  - rewrite map_id. reflexivity.
  - destruct s as [|y s].
    + rewrite app_nil_r. cbn [proper_prefixes map]. rewrite app_nil_r. reflexivity.
    + rewrite IH, map_app, map_map. reflexivity.
Qed.

Lemma prefixes_between_app d s : prefixes_between d (d ++ s) = map (app d) (proper_prefixes s).
Proof.
  unfold prefixes_between. rewrite proper_prefixes_app_split, filter_app.
  rewrite (filter_const _ false), (filter_const _ true); [reflexivity| |].
  - intros a Ha. apply in_map_iff in Ha as (b & <- & _). apply Nat.leb_le. rewrite app_length. lia.
  - intros a Ha. apply proper_prefixes_length in Ha. apply Nat.leb_gt. exact Ha.
Qed.

Lemma reached_split c t d s : reached c t (d ++ s) = reached c t d && reached_from c t d (d ++ s).
Proof.
  unfold reached, reached_from. rewrite prefixes_between_app, proper_prefixes_app_split, forallb_app. reflexivity.
Qed.

Lemma is_prefix_split : forall d q', is_prefix d q' = true -> exists s, q' = d ++ s.
Proof.
  induction d as [|z d IHd]; intros q' PF; [exists q'; reflexivity|].
  destruct q' as [|y q']; [discriminate|]. cbn [is_prefix] in PF. apply andb_true_iff in PF as [E PF].
  apply N.eqb_eq in E. subst. destruct (IHd q' PF) as [s ->]. exists s. reflexivity.
Qed.

Lemma filter_expected c t d : d <> [] -> ~ In DOT d -> reached c t d = true ->
  forall l : list (list N * kind * Z),
  flat_map (fun f => filter (fun ep => is_prefix d (snd ep))
              (map (fun e => (e, mpath (fst (fst f)))) (filter (fun e => wanted c t e f) (c_exts c)))) l =
  flat_map (fun f => map (fun e => (e, mpath (fst (fst f)))) (filter (fun e => wanted_from c t d e f) (c_exts c)))
           (filter (fun f => is_prefix d (fpath f)) l).
Proof.
  intros NE ND R. induction l as [|f l IH]; [reflexivity|]. cbn [flat_map filter]. rewrite IH.
  assert (PE : is_prefix d (mpath (fst (fst f))) = is_prefix d (fpath f)).
  { unfold fpath. destruct (fst (fst f)) as [|y q'] eqn:E; [|reflexivity]. cbn [mpath].
    destruct d as [|z d']; [contradiction|]. cbn [is_prefix]. destruct (N.eqb z DOT) eqn:EZ; [|reflexivity].
    apply N.eqb_eq in EZ. subst z. exfalso. apply ND. left. reflexivity. }
  rewrite (filter_const _ (is_prefix d (fpath f))).
  - destruct (is_prefix d (fpath f)) eqn:PF; [|reflexivity]. cbn [flat_map]. f_equal. f_equal.
    apply filter_ext. intros e. destruct f as [[q' k] sz]. unfold fpath in PF. cbn [fst] in PF.
    destruct (is_prefix_split d q' PF) as [s ->].
    unfold wanted, wanted_from. rewrite reached_split, R. reflexivity.
  - intros ep Hep. apply in_map_iff in Hep as (e & <- & _). cbn [snd]. exact PE.
Qed.

(* the whole-tree specification restricted to a reached directory is the specification of that directory *)
Lemma expected_calls_below c t d nd :
  lookup_from t d = Some nd -> wf_tree t = true -> d <> [] -> ~ In DOT d -> reached c t d = true ->
  filter (fun ep => is_prefix d (snd ep)) (expected_calls c t) = expected_from c t d nd.
Proof.
  intros L WF NE ND R. unfold expected_calls, expected_from.
  pose proof (files_below d t [] nd L WF) as FB. cbn [app] in FB. rewrite <- FB.
  rewrite filter_flat_map. apply filter_expected; assumption.
Qed.

(* ------------------------------------------------------------------ ParseParentGitignores rebuilds the stack *)
Lemma parse_dirs_rep c t :
  fault_free t = true -> wf_tree t = true ->
  forall rest acc ms0 (r : N),
  ~ In DOT (acc ++ r :: rest) ->
  (exists nd, lookup_from t (acc ++ r :: rest) = Some nd) ->
  stack_rep c t ms0 (acc ++ [r]) ->
  exists ms, parse_dirs t (prefixes_from acc (r :: rest)) ms0 = Some ms /\ stack_rep c t ms (acc ++ r :: rest).
Proof.
  intros FF WF. induction rest as [|r2 rest IH]; intros acc ms0 r ND [nd L] SR.
  - exists ms0. split; [reflexivity|exact SR].
  - change (prefixes_from acc (r :: r2 :: rest)) with ((acc ++ [r]) :: prefixes_from (acc ++ [r]) (r2 :: rest)).
    cbn [parse_dirs].
    replace (acc ++ r :: r2 :: rest) with ((acc ++ [r]) ++ r2 :: rest) in * by (rewrite <- app_assoc; reflexivity).
    rewrite lookup_from_app in L.
    destruct (lookup_from t (acc ++ [r])) as [[n0 k0 s0 d0 f0|n0 ch0 df0]|] eqn:L1; try discriminate.
    destruct (lookup_from_wf_ff _ _ _ L1) as [_ FFd]. specialize (FFd FF).
    assert (FFc : forallb fault_free ch0 = true) by (rewrite fault_free_dir in FFd; apply andb_true_iff in FFd; tauto).
    destruct (parse_dir_gi_ff (acc ++ [r]) ch0 FFc) as [m PG]. rewrite PG.
    apply IH.
    + exact ND.
    + exists nd. rewrite lookup_from_app, L1. exact L.
    + assert (NE : acc ++ [r] <> []) by (destruct acc; discriminate).
      eapply stack_rep_child; try eassumption.
      * intros X. apply ND. apply in_or_app. left. exact X.
      * intros X. apply ND. apply in_or_app. right. left. exact X.
      * rewrite (mpath_nonempty _ NE). exact PG.
Qed.

Lemma parse_parent_rep c t d nd :
  fault_free t = true -> wf_tree t = true ->
  d <> [] -> ~ In DOT d -> lookup_from t d = Some nd ->
  exists ms, parse_parent_gitignores t d = Some ms /\ stack_rep c t ms d.
Proof.
  intros FF WF NE ND L. destruct d as [|r rest]; [contradiction|].
  unfold parse_parent_gitignores.
  assert (E : ln_eqb (r :: rest) [DOT] = false).
  { apply ln_eqb_neq. intros X. inversion X; subst. apply ND. left. reflexivity. }
  rewrite E.
  (* the root is a directory, since something lies below it *)
  destruct t as [tn tk ts td tff|tn tch tdf]; [cbn [lookup_from] in L; discriminate|].
  assert (FFc : forallb fault_free tch = true) by (rewrite fault_free_dir in FF; apply andb_true_iff in FF; tauto).
  destruct (parse_dir_gi_ff [DOT] tch FFc) as [m PG]. rewrite PG.
  apply (parse_dirs_rep c (Dir tn tch tdf) FF WF rest [] [m] r); [exact ND|exists nd; exact L|].
  apply (stack_rep_child c (Dir tn tch tdf) [] [] tn tch tdf m r); try assumption.
  - reflexivity.
  - intros [].
  - intros X. apply ND. left. exact X.
  - apply stack_rep_nil.
Qed.

Lemma forallb_ext' {A} (f g : A -> bool) l : (forall x, f x = g x) -> forallb f l = forallb g l.
Proof. intros H. induction l as [|x l IH]; [reflexivity|]. cbn [forallb]. rewrite H, IH. reflexivity. Qed.

(* ------------------------------------------------------------------ skip rules do not look at the requested paths
   when the sub-directory cut-off is off *)
Lemma expected_from_whole c t q nd : c_ignore_subdirs c = false ->
  expected_from c t q nd = expected_from (whole_tree c) t q nd.
Proof.
  intros ISD. unfold expected_from. apply flat_map_ext_in. intros f _. f_equal. apply filter_ext. intros e.
  destruct f as [[q' k] sz]. unfold wanted_from. f_equal. f_equal. f_equal. f_equal.
  unfold reached_from. apply forallb_ext'. intros a. unfold skipped_dir. cbn [whole_tree c_ignore_subdirs c_skip_list c_re c_glob].
  rewrite ISD. reflexivity.
Qed.

(* Explicitly requesting a sub-directory that the whole-tree scan reaches yields the extractions of the
   whole-tree scan restricted to that sub-directory. *)
Theorem subdir_request_lemma c t d n ch df :
  c_paths c = [d] -> c_ignore_subdirs c = false ->
  wf_tree t = true -> fault_free t = true -> no_limits c = true -> no_xpanic c ->
  d <> [] -> ~ In DOT d -> lookup_from t d = Some (Dir n ch df) -> reached (whole_tree c) t d = true ->
  fs_calls c t = filter (fun ep => is_prefix d (snd ep)) (fs_calls (whole_tree c) t).
Proof.
  intros P ISD WF FF NL NP NE ND L R.
  rewrite (whole_tree_calls (whole_tree c) t WF FF NL NP eq_refl).
  rewrite (expected_calls_below (whole_tree c) t d _ L WF NE ND R).
  rewrite <- expected_from_whole by exact ISD.
  destruct (lookup_from_wf_ff _ _ _ L) as [WFd FFd]. specialize (WFd WF). specialize (FFd FF).
  (* the engine's side *)
  unfold fs_calls, fs_result, run_fs. rewrite P. cbn [walk_individual_paths].
  assert (LK : lookup t d = Some (Dir n ch df)).
  { unfold lookup. destruct (ln_eqb d [DOT]) eqn:E; [|exact L]. apply ln_eqb_eq in E. subst d. exfalso. apply ND. left. reflexivity. }
  rewrite LK. rewrite (fault_free_stat _ FFd).
  destruct (parse_parent_rep c t d _ FF WF NE ND L) as (ms & PP & SR).
  assert (ST : exists st0, (if c_gitignore c then match parse_parent_gitignores t d with Some ms => Some (set_stack init_state ms) | None => if c_fatal c then None else Some (set_stack init_state []) end
                             else Some init_state) = Some st0 /\ stack_rep c t (s_stack st0) d /\ s_events st0 = []).
  { destruct (c_gitignore c) eqn:G.
    - rewrite PP. exists (set_stack init_state ms). split; [reflexivity|]. split; [exact SR|reflexivity].
    - exists init_state. split; [reflexivity|]. split; [|reflexivity]. intros G'. congruence. }
  destruct ST as (st0 & -> & SR0 & EV0).
  unfold walk_dir_unsorted. rewrite LK, (fault_free_stat _ FFd).
  pose proof (schedule_quiet_ff c _ FFd (s_stack st0) d) as Q.
  destruct (walk_node_quiet c d (Dir n ch df) st0 NL NP Q) as (st1 & W & _ & N). rewrite W. cbn [wres_state s_events set_stack].
  replace (s_events (set_stack st1 [])) with (s_events st1) by (destruct st1; reflexivity).
  rewrite <- (ns_events st1), N, ns_events, run_calls_events, EV0. cbn [app].
  change (calls (flat_map (call_events c) (schedule c (s_stack st0) d (Dir n ch df)))) with (sched_calls c (s_stack st0) d (Dir n ch df)).
  pose proof (sched_calls_spec c t (Dir n ch df) d (s_stack st0) L ND WFd FFd SR0) as X.
  rewrite (mpath_nonempty d NE) in X. exact X.
Qed.

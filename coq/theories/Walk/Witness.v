(* Concrete configurations and trees used as witnesses of the _refuted theorems and as non-vacuity
   examples.  Definitions only. *)
From Coq Require Import List ZArith NArith Bool Arith.
From Scalibr Require Import Walk.Model Walk.Spec Walk.Cases.
Import ListNotations.

Definition e0 : ext := [101; 48]%N.
Definition e1 : ext := [101; 49]%N.
Definition nA : name := 2%N.
Definition nB : name := 3%N.
Definition nC : name := 4%N.
Definition nZ : name := 14%N.

Definition pk1 (loc : bytes) : pkg := Pk [112]%N [49]%N [loc].

(* one extractor that requires every file and returns one package per file *)
Definition base_cfg : cfg := {|
  c_exts := [e0];
  c_required := fun _ _ => true;
  c_statreq := fun _ => None;
  c_extract := fun _ p => XRes [pk1 p] false;
  c_pat := fun _ _ _ => false;
  c_skip_list := []; c_re := None; c_glob := None; c_gitignore := false; c_ignore_subdirs := false;
  c_paths := []; c_symlinks := false; c_max_inodes := 0; c_max_size := 0; c_fatal := false;
  c_abs := None; c_cancel := NoCancel |}.

Definition with_re_glob (c : cfg) (re gl : option (path -> bool)) : cfg := {|
  c_exts := c_exts c; c_required := c_required c; c_statreq := c_statreq c; c_extract := c_extract c; c_pat := c_pat c;
  c_skip_list := c_skip_list c; c_re := re; c_glob := gl; c_gitignore := c_gitignore c;
  c_ignore_subdirs := c_ignore_subdirs c; c_paths := c_paths c; c_symlinks := c_symlinks c;
  c_max_inodes := c_max_inodes c; c_max_size := c_max_size c; c_fatal := c_fatal c; c_abs := c_abs c; c_cancel := c_cancel c |}.

Definition with_gitignore (c : cfg) (pat : N -> path -> bool -> bool) : cfg := {|
  c_exts := c_exts c; c_required := c_required c; c_statreq := c_statreq c; c_extract := c_extract c; c_pat := pat;
  c_skip_list := c_skip_list c; c_re := c_re c; c_glob := c_glob c; c_gitignore := true;
  c_ignore_subdirs := c_ignore_subdirs c; c_paths := c_paths c; c_symlinks := c_symlinks c;
  c_max_inodes := c_max_inodes c; c_max_size := c_max_size c; c_fatal := c_fatal c; c_abs := c_abs c; c_cancel := c_cancel c |}.

Definition with_paths (c : cfg) (ps : list path) (isd : bool) : cfg := {|
  c_exts := c_exts c; c_required := c_required c; c_statreq := c_statreq c; c_extract := c_extract c; c_pat := c_pat c;
  c_skip_list := c_skip_list c; c_re := c_re c; c_glob := c_glob c; c_gitignore := c_gitignore c;
  c_ignore_subdirs := isd; c_paths := ps; c_symlinks := c_symlinks c;
  c_max_inodes := c_max_inodes c; c_max_size := c_max_size c; c_fatal := c_fatal c; c_abs := c_abs c; c_cancel := c_cancel c |}.

Definition with_limits (c : cfg) (maxi maxs : Z) (fatal : bool) (cn : cancel) : cfg := {|
  c_exts := c_exts c; c_required := c_required c; c_statreq := c_statreq c; c_extract := c_extract c; c_pat := c_pat c;
  c_skip_list := c_skip_list c; c_re := c_re c; c_glob := c_glob c; c_gitignore := c_gitignore c;
  c_ignore_subdirs := c_ignore_subdirs c; c_paths := c_paths c; c_symlinks := c_symlinks c;
  c_max_inodes := maxi; c_max_size := maxs; c_fatal := fatal; c_abs := c_abs c; c_cancel := cn |}.

(* ./a/z, ./b/z ; regex matches "a", glob matches "b" *)
Definition t_two_dirs : node := Dc DOT [Dc nA [Fc nZ Reg 1 0]; Dc nB [Fc nZ Reg 1 0]].
Definition c_re_glob : cfg :=
  with_re_glob base_cfg (Some (fun p => ln_eqb p [nA])) (Some (fun p => ln_eqb p [nB])).

(* ./.gitignore (pattern file 1 = "a"), ./a, ./b/a *)
Definition pat_a : N -> path -> bool -> bool :=
  fun pf rel _ => N.eqb pf 1 && match rev rel with n :: _ => N.eqb n nA | [] => false end.
Definition t_root_gi : node := Dc DOT [Fc GI Reg 3 1; Fc nA Reg 1 0; Dc nB [Fc nA Reg 1 0]].
Definition c_gi : cfg := with_gitignore base_cfg pat_a.

(* ./b/.gitignore ("a"), ./b/a, ./b/c/a, ./b/c/z, ./b/z : a non-trivial tree inside the C01 domain *)
Definition t_sub_gi : node :=
  Dc DOT [Dc nB [Fc GI Reg 3 1; Fc nA Reg 1 0; Dc nC [Fc nA Reg 1 0; Fc nZ Reg 1 0]; Fc nZ Reg 1 0]].

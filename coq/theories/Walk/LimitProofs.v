(* Proofs (C10): the inode limit, the size limit and cancellation are hard bounds. *)
From Coq Require Import List ZArith NArith Bool Arith Lia Permutation.
From Scalibr Require Import Walk.Model Walk.Spec Walk.Sched Walk.Proofs Walk.Trace Walk.SpecProofs Walk.C01Proofs
  Walk.Invariant Walk.Faults Walk.FaultProofs Walk.Cases Walk.Witness.
Import ListNotations.

(* ------------------------------------------------------------------ what one handleFile call adds to the trace *)
(* events of the extractor loop speak about the current path only *)
Definition about (p : list N) (ev : event) : bool :=
  match ev with
  | EVisit _ => false
  | EReq _ q | EExtract _ q | EOpenErr _ q | EFstatErr _ q => ln_eqb q p
  end.

Definition size_passes (c : cfg) (size : Z) : bool := negb ((0 <? c_max_size c)%Z && (c_max_size c <? size)%Z).

Lemma apply_events_cons c ev l st : apply_events c (ev :: l) st = apply_events c l (apply_event c st ev).
Proof. reflexivity. Qed.

Lemma run_extractor_apply c e p ff st :
  exists ev, wres_state (run_extractor c e p ff st) = apply_events c [ev] st /\ about p ev = true.
Proof.
  rewrite run_extractor_state. destruct (ff_open ff); [|destruct (ff_fstat ff)]; eexists; (split; [reflexivity|]);
    cbn [about]; apply ln_eqb_refl.
Qed.

Lemma run_exts_apply c p size ff : forall es checked st,
  exists evs, wres_state (run_exts c p size ff es checked st) = apply_events c evs st /\
              Forall (fun ev => about p ev = true) evs /\
              ((exists e q, In (EExtract e q) evs) -> checked = true \/ size_passes c size = true).
Proof.
  induction es as [|e es IH]; intros checked st; cbn [run_exts].
  - exists []. split; [reflexivity|]. split; [constructor|]. intros (e & q & []).
  - assert (AR : about p (EReq e p) = true) by (cbn; apply ln_eqb_refl).
    change (add_event st (EReq e p)) with (apply_event c st (EReq e p)).
    destruct (req c e p size ff).
    + destruct (run_extractor_apply c e p ff (apply_event c st (EReq e p))) as (ev & EX & AE).
      destruct ((0 <? c_max_size c)%Z && negb checked) eqn:CK.
      * apply andb_true_iff in CK as [M NC]. apply negb_true_iff in NC. subst checked.
        destruct (ff_stat ff).
        { exists [EReq e p]. split; [destruct (c_fatal c); reflexivity|]. split; [constructor; [exact AR|constructor]|].
          intros (e' & q & [H|[]]). discriminate. }
        destruct (c_max_size c <? size)%Z eqn:SZ.
        { exists [EReq e p]. split; [reflexivity|]. split; [constructor; [exact AR|constructor]|].
          intros (e' & q & [H|[]]). discriminate. }
        assert (SP : size_passes c size = true) by (unfold size_passes; rewrite M, SZ; reflexivity).
        destruct (run_extractor c e p ff (apply_event c st (EReq e p))) as [st1 sg|st1 pc]; cbn [wres_state] in EX.
        -- destruct (IH true st1) as (evs & E & F & _). exists (EReq e p :: ev :: evs).
           split; [rewrite E, EX; reflexivity|]. split; [constructor; [exact AR|constructor; [exact AE|exact F]]|].
           intros _. right. exact SP.
        -- exists [EReq e p; ev]. split; [rewrite EX; reflexivity|].
           split; [constructor; [exact AR|constructor; [exact AE|constructor]]|]. intros _. right. exact SP.
      * assert (OK : checked = true \/ size_passes c size = true).
        { apply andb_false_iff in CK as [M|NC]; [right; unfold size_passes; rewrite M; reflexivity|].
          left. apply negb_false_iff in NC. exact NC. }
        destruct (run_extractor c e p ff (apply_event c st (EReq e p))) as [st1 sg|st1 pc]; cbn [wres_state] in EX.
        -- destruct (IH checked st1) as (evs & E & F & _). exists (EReq e p :: ev :: evs).
           split; [rewrite E, EX; reflexivity|]. split; [constructor; [exact AR|constructor; [exact AE|exact F]]|].
           intros _. exact OK.
        -- exists [EReq e p; ev]. split; [rewrite EX; reflexivity|].
           split; [constructor; [exact AR|constructor; [exact AE|constructor]]|]. intros _. exact OK.
    + destruct (IH checked (apply_event c st (EReq e p))) as (evs & E & F & X). exists (EReq e p :: evs).
      split; [rewrite E; reflexivity|]. split; [constructor; [exact AR|exact F]|].
      intros (e' & q & [H|H]); [discriminate|]. apply X. exists e', q. exact H.
Qed.

Definition limit_exceeded (c : cfg) (st : state) : bool :=
  (0 <? c_max_inodes c)%Z && (c_max_inodes c <? s_inodes st + 1)%Z.

(* the complete effect of any handleFile call, stack aside *)
Definition hf_shape (c : cfg) (p : list N) (nd : node) (b : bool) (st : state) (evs : list event) : Prop :=
  (limit_exceeded c st = true /\ evs = []) \/
  (limit_exceeded c st = false /\ exists evs', evs = EVisit p :: evs' /\
     Forall (fun ev => about p ev = true) evs' /\
     (forall e q, In (EExtract e q) evs' ->
        b = false /\ cancelled c (visit (inc_inodes st) p) = false /\
        exists n k sz d ff, nd = File n k sz d ff /\ size_passes c sz = true)).

Lemma hf_shape_visit_only c p nd b st : limit_exceeded c st = false -> hf_shape c p nd b st [EVisit p].
Proof.
  intros L. right. split; [exact L|]. exists []. split; [reflexivity|]. split; [constructor|]. intros e q [].
Qed.

Lemma handle_file_apply c p nd b st :
  exists evs, ns (wres_state (handle_file c p nd b st)) = ns (apply_events c evs (inc_inodes st)) /\
              hf_shape c p nd b st evs.
Proof.
  unfold handle_file, hf_prelude.
  change ((0 <? c_max_inodes c)%Z && (c_max_inodes c <? s_inodes (inc_inodes st))%Z) with (limit_exceeded c st).
  destruct (limit_exceeded c st) eqn:L.
  - exists []. split; [reflexivity|]. left. split; [exact L|reflexivity].
  - pose proof (hf_shape_visit_only c p nd b st L) as VO.
    assert (V1 : ns (visit (inc_inodes st) p) = ns (apply_events c [EVisit p] (inc_inodes st))) by reflexivity.
    destruct (cancelled c (visit (inc_inodes st) p)) eqn:CC.
    { exists [EVisit p]. split; [exact V1|exact VO]. }
    destruct b.
    { exists [EVisit p]. split; [destruct (c_fatal c); exact V1|exact VO]. }
    destruct nd as [n k sz d ff|n ch df].
    + unfold hf_file.
      destruct (negb _). { exists [EVisit p]. split; [exact V1|exact VO]. }
      destruct (c_gitignore c && _). { exists [EVisit p]. split; [exact V1|exact VO]. }
      destruct (run_exts_apply c p sz ff (c_exts c) false (visit (inc_inodes st) p)) as (evs' & E & F & X).
      exists (EVisit p :: evs'). split; [rewrite E; reflexivity|]. right. split; [exact L|].
      exists evs'. split; [reflexivity|]. split; [exact F|]. intros e q Hin.
      split; [reflexivity|]. split; [exact CC|]. exists n, k, sz, d, ff. split; [reflexivity|].
      destruct X as [X|X]; [exists e, q; exact Hin|discriminate|exact X].
    + rewrite hf_dir_decision. exists [EVisit p]. split; [|exact VO].
      destruct (dir_decision c _ p ch); cbn [wres_state]; rewrite ?ns_set_stack; try exact V1.
      destruct (c_gitignore c); rewrite ?ns_set_stack; exact V1.
Qed.

(* ------------------------------------------------------------------ projections of apply_events *)
Lemma apply_event_inodes c st ev : s_inodes (apply_event c st ev) = s_inodes st.
Proof.
  destruct ev as [p|e p|e p|e p|e p]; cbn [apply_event]; try (destruct st; reflexivity).
  destruct (c_extract c e p) as [pk err|]; [|destruct st; reflexivity]. destruct err, pk; destruct st; reflexivity.
Qed.

Lemma apply_events_inodes c evs : forall st, s_inodes (apply_events c evs st) = s_inodes st.
Proof.
  induction evs as [|ev evs IH]; intros st; [reflexivity|]. rewrite apply_events_cons, IH. apply apply_event_inodes.
Qed.

Lemma ns_inodes st : s_inodes (ns st) = s_inodes st.
Proof. destruct st; reflexivity. Qed.

Lemma about_visits p evs : Forall (fun ev => about p ev = true) evs -> visits evs = [].
Proof. induction 1 as [|ev evs H _ IH]; [reflexivity|]. destruct ev; cbn in *; try exact IH. discriminate. Qed.

Lemma about_calls p evs : Forall (fun ev => about p ev = true) evs -> Forall (fun ep => snd ep = p) (calls evs).
Proof.
  induction 1 as [|ev evs H _ IH]; [constructor|]. destruct ev as [q|e q|e q|e q|e q]; cbn [calls]; try exact IH.
  constructor; [|exact IH]. cbn in *. apply ln_eqb_eq. exact H.
Qed.

(* ------------------------------------------------------------------ inode limit *)
Definition inode_inv (c : cfg) (st : state) : Prop :=
  (Z.of_nat (length (visits (s_events st))) <= s_inodes st)%Z /\
  ((0 < c_max_inodes c)%Z -> (Z.of_nat (length (visits (s_events st))) <= c_max_inodes c)%Z).

Lemma inode_inv_hf c p nd b st : inode_inv c st -> inode_inv c (wres_state (handle_file c p nd b st)).
Proof.
  intros [I1 I2]. destruct (handle_file_apply c p nd b st) as (evs & E & S).
  unfold inode_inv. rewrite <- (ns_events (wres_state _)), <- (ns_inodes (wres_state _)), E, ns_events, ns_inodes.
  rewrite apply_events_events, apply_events_inodes.
  replace (s_events (inc_inodes st)) with (s_events st) by (destruct st; reflexivity).
  replace (s_inodes (inc_inodes st)) with (s_inodes st + 1)%Z by (destruct st; reflexivity).
  destruct S as [[L ->]|[L (evs' & -> & F & _)]].
  - rewrite app_nil_r. split; [lia|exact I2].
  - rewrite visits_app. cbn [visits]. rewrite (about_visits p evs' F), app_length. cbn [length].
    split; [lia|]. intros M. unfold limit_exceeded in L. apply Z.ltb_lt in M. rewrite M in L. cbn [andb] in L.
    apply Z.ltb_ge in L. lia.
Qed.

Theorem inode_bound_lemma c roots :
  (0 < c_max_inodes c)%Z ->
  (Z.of_nat (length (visits (s_events (rres_state (run c roots))))) <= c_max_inodes c)%Z.
Proof.
  intros M.
  assert (H : inode_inv c (rres_state (run c roots))).
  { apply run_P.
    - intros st ms X. destruct st; exact X.
    - apply inode_inv_hf.
    - split; [cbn; lia|intros _; cbn; lia]. }
  apply H. exact M.
Qed.

(* ------------------------------------------------------------------ size limit *)
Lemma in_calls_extract evs e p : In (e, p) (calls evs) -> In (EExtract e p) evs.
Proof.
  induction evs as [|[q|e' q|e' q|e' q|e' q] evs IH]; cbn [calls]; intros H; try (right; apply IH; exact H); [destruct H|].
  destruct H as [H|H]; [inversion H; left; reflexivity|right; apply IH; exact H].
Qed.

Definition file_ok (c : cfg) (nd : node) : Prop :=
  exists n k sz d ff, nd = File n k sz d ff /\ size_passes c sz = true.

Lemma exec_calls_from c : forall l st ep,
  In ep (calls (s_events (eres_state (exec c l st)))) ->
  In ep (calls (s_events st)) \/ exists ms nd, In (HC ms (snd ep) nd false) l /\ file_ok c nd.
Proof.
  induction l as [|[ms p nd b] l IH]; intros st ep Hin; [left; exact Hin|]. cbn [exec] in Hin.
  assert (Step : forall ep, In ep (calls (s_events (wres_state (handle_file c p nd b (set_stack st ms))))) ->
                 In ep (calls (s_events st)) \/ (snd ep = p /\ b = false /\ file_ok c nd)).
  { intros ep0 H0. destruct (handle_file_apply c p nd b (set_stack st ms)) as (evs & E & S).
    rewrite <- ns_events, E, ns_events, apply_events_events in H0.
    replace (s_events (inc_inodes (set_stack st ms))) with (s_events st) in H0 by (destruct st; reflexivity).
    rewrite calls_app in H0. apply in_app_or in H0 as [H0|H0]; [left; exact H0|].
    destruct S as [[_ ->]|[_ (evs' & -> & F & X)]]; [destruct H0|]. cbn [calls] in H0.
    destruct ep0 as [e q]. pose proof (in_calls_extract _ _ _ H0) as HX. destruct (X e q HX) as (B & _ & FO).
    right. split; [|split; assumption].
    pose proof (about_calls p evs' F) as AC. rewrite Forall_forall in AC. apply (AC (e, q) H0). }
  destruct (handle_file c p nd b (set_stack st ms)) as [st' [| |a]|st' pc] eqn:HF; cbn [wres_state eres_state] in *.
  1,2: destruct (IH st' ep Hin) as [H|(ms' & nd' & H & FO)];
       [destruct (Step ep H) as [H'|(E1 & E2 & FO)];
          [left; exact H'|right; exists ms, nd; subst; split; [left; reflexivity|exact FO]]
       |right; exists ms', nd'; split; [right; exact H|exact FO]].
  1,2: destruct (Step ep Hin) as [H'|(E1 & E2 & FO)];
       [left; exact H'|right; exists ms, nd; subst; split; [left; reflexivity|exact FO]].
Qed.

Lemma sched_children_nodes c ms' p n ch df : forall l ra,
  (forall x, In x l -> In x ch) ->
  Forall (fun c1 => forall ms p1 h, In h (schedule c ms p1 c1) ->
            let '(HC _ q nd _) := h in In (q, nd) (nodes_of p1 c1)) l ->
  forall h, In h (sched_children c ms' p (Dir n ch df) l ra) ->
  let '(HC _ q nd _) := h in In (q, nd) (nodes_of p (Dir n ch df)).
Proof.
  induction l as [|c1 l IH]; intros ra Sub HF h Hin.
  - destruct ra as [[|k]|]; cbn [sched_children] in Hin; try destruct Hin as [<-|[]]; try destruct Hin. left. reflexivity.
  - inversion HF as [|? ? H1 HF']; subst.
    assert (Hc : forall h, In h (schedule c ms' (child_path p (node_name c1)) c1) ->
                 let '(HC _ q nd _) := h in In (q, nd) (nodes_of p (Dir n ch df))).
    { intros [ms0 q nd0 b0] H0. specialize (H1 _ _ _ H0). cbn beta iota in H1. cbn [nodes_of]. right.
      assert (Hin1 : In c1 ch) by (apply Sub; left; reflexivity). clear -H1 Hin1.
      induction ch as [|x ch IHc]; [destruct Hin1|]. apply in_or_app. destruct Hin1 as [->|Hin1]; [left; exact H1|right; apply IHc; exact Hin1]. }
    destruct ra as [[|k]|]; cbn [sched_children] in Hin.
    + destruct Hin as [<-|[]]. left. reflexivity.
    + apply in_app_or in Hin as [Hin|Hin]; [apply Hc; exact Hin|].
      apply (IH (option_map pred (Some (S k)))); [intros x Hx; apply Sub; right; exact Hx|exact HF'|exact Hin].
    + apply in_app_or in Hin as [Hin|Hin]; [apply Hc; exact Hin|].
      apply (IH (option_map pred None)); [intros x Hx; apply Sub; right; exact Hx|exact HF'|exact Hin].
Qed.

(* every scheduled call is about an inode of the tree, at its engine path *)
Lemma schedule_nodes c : forall nd ms p h, In h (schedule c ms p nd) ->
  let '(HC _ q nd' _) := h in In (q, nd') (nodes_of p nd).
Proof.
  induction nd as [n k sz d ff|n ch df IH] using node_ind2; intros ms p h Hin.
  - cbn [schedule] in Hin. destruct Hin as [<-|[]]. left. reflexivity.
  - rewrite schedule_dir in Hin. destruct Hin as [<-|Hin]; [left; reflexivity|].
    destruct (dir_decision c ms p ch) as [| |ms']; try destruct Hin.
    destruct (df_open df); [destruct Hin as [<-|[]]; left; reflexivity|].
    eapply sched_children_nodes; [intros x Hx; exact Hx|exact IH|exact Hin].
Qed.

Theorem size_bound_lemma c t e p :
  c_paths c = [] -> In (e, p) (fs_calls c t) ->
  exists n k sz d ff, In (p, File n k sz d ff) (nodes_of [DOT] t) /\ ((0 < c_max_size c)%Z -> (sz <= c_max_size c)%Z).
Proof.
  intros P Hin. unfold fs_calls, fs_result in Hin. rewrite run_fs_root in Hin by exact P.
  assert (Fin : forall sz, size_passes c sz = true -> (0 < c_max_size c)%Z -> (sz <= c_max_size c)%Z).
  { intros sz SP M. unfold size_passes in SP. apply Z.ltb_lt in M. rewrite M in SP. cbn [andb] in SP.
    apply negb_true_iff, Z.ltb_ge in SP. exact SP. }
  destruct (node_stat_fails t).
  - exfalso. destruct (handle_file_apply c [DOT] t true init_state) as (evs & E & S).
    rewrite <- ns_events, E, ns_events, apply_events_events in Hin. cbn [s_events inc_inodes init_state app] in Hin.
    destruct S as [[_ ->]|[_ (evs' & -> & F & X)]]; [destruct Hin|]. cbn [calls] in Hin.
    destruct (X e p (in_calls_extract _ _ _ Hin)) as (B & _). discriminate.
  - destruct (walk_node_state c [DOT] t init_state) as [ms W]. rewrite W in Hin.
    replace (s_events (set_stack (eres_state (exec c (schedule c (s_stack init_state) [DOT] t) init_state)) ms))
      with (s_events (eres_state (exec c (schedule c (s_stack init_state) [DOT] t) init_state))) in Hin
      by (destruct (eres_state _); reflexivity).
    apply exec_calls_from in Hin as [[]|(ms' & nd & H & (n & k & sz & d & ff & -> & SP))].
    apply schedule_nodes in H. cbn [snd] in H. exists n, k, sz, d, ff. split; [exact H|]. apply (Fin sz SP).
Qed.

(* ------------------------------------------------------------------ cancellation: no extraction on a further file *)
Lemma split_app {A} (x : A) : forall a b pre post,
  a ++ b = pre ++ x :: post ->
  (exists post', a = pre ++ x :: post' /\ post = post' ++ b) \/
  (exists pre', b = pre' ++ x :: post /\ pre = a ++ pre').
Proof.
  induction a as [|y a IH]; intros b pre post E.
  - right. exists pre. split; [exact E|reflexivity].
  - destruct pre as [|z pre]; cbn [app] in E; inversion E; subst.
    + left. exists a. split; reflexivity.
    + destruct (IH b pre post H1) as [(post' & -> & ->)|(pre' & -> & ->)].
      * left. exists post'. split; reflexivity.
      * right. exists pre'. split; reflexivity.
Qed.

Lemma handle_file_events c p nd b st :
  exists evs, s_events (wres_state (handle_file c p nd b st)) = s_events st ++ evs /\ hf_shape c p nd b st evs.
Proof.
  destruct (handle_file_apply c p nd b st) as (evs & E & S). exists evs. split; [|exact S].
  rewrite <- ns_events, E, ns_events, apply_events_events. destruct st; reflexivity.
Qed.

(* context cancelled by the k-th AfterInodeVisited hook (k = 0: before the scan): every Extract call happens
   while fewer than k inodes have been visited *)
Definition cancel_visit_inv (c : cfg) (k : nat) (st : state) : Prop :=
  tinv c st /\
  forall pre e q post, s_events st = pre ++ EExtract e q :: post -> (length (visits pre) < k)%nat.

Lemma cancel_visit_inv_hf c k p nd b st :
  c_cancel c = CancelAtVisit k -> cancel_visit_inv c k st -> cancel_visit_inv c k (wres_state (handle_file c p nd b st)).
Proof.
  intros CK [T I]. split; [apply handle_file_tinv; exact T|].
  destruct (handle_file_events c p nd b st) as (evs & E & S). rewrite E. intros pre e q post H.
  apply split_app in H as [(post' & H & _)|(pre' & H & ->)]; [eapply I; exact H|].
  destruct S as [[_ ->]|[_ (evs' & -> & F & X)]]; [destruct pre'; discriminate|].
  destruct pre' as [|v pre'']; cbn [app] in H; inversion H; subst.
  assert (Hin : In (EExtract e q) (pre'' ++ EExtract e q :: post)) by (apply in_or_app; right; left; reflexivity).
  destruct (X e q Hin) as (_ & CC & _).
  unfold cancelled in CC. rewrite CK in CC. cbn [s_nvisit visit inc_inodes] in CC.
  replace (s_nvisit (inc_inodes st)) with (s_nvisit st) in CC by (destruct st; reflexivity).
  apply Nat.leb_gt in CC. destruct T as (_ & _ & _ & TV & _).
  rewrite visits_app. cbn [visits]. apply Forall_app in F as [F _]. rewrite (about_visits p pre'' F).
  rewrite app_length. cbn [length]. lia.
Qed.

Theorem cancel_visit_lemma c k roots :
  c_cancel c = CancelAtVisit k ->
  forall pre e q post, s_events (rres_state (run c roots)) = pre ++ EExtract e q :: post ->
  (length (visits pre) < k)%nat.
Proof.
  intros CK.
  assert (H : cancel_visit_inv c k (rres_state (run c roots))).
  { apply run_P.
    - intros st ms [T I]. split; [apply tinv_stack; exact T|]. destruct st; exact I.
    - intros p nd b st. apply cancel_visit_inv_hf. exact CK.
    - split; [apply tinv_init|]. intros pre e q post H. destruct pre; discriminate. }
  apply H.
Qed.

(* context cancelled during the j-th Extract call: every later Extract call is on the same file *)
Definition cancel_extract_inv (c : cfg) (j : nat) (st : state) : Prop :=
  tinv c st /\
  forall pre e q post, s_events st = pre ++ EExtract e q :: post -> (j <= length (calls pre))%nat ->
  exists e0, nth_error (calls (s_events st)) (j - 1) = Some (e0, q).

Lemma cancel_extract_inv_hf c j p nd b st :
  c_cancel c = CancelAtExtract j -> (1 <= j)%nat ->
  cancel_extract_inv c j st -> cancel_extract_inv c j (wres_state (handle_file c p nd b st)).
Proof.
  intros CK J1 [T I]. split; [apply handle_file_tinv; exact T|].
  destruct (handle_file_events c p nd b st) as (evs & E & S). rewrite E. intros pre e q post H HJ.
  apply split_app in H as [(post' & H & _)|(pre' & H & ->)].
  - destruct (I pre e q post' H HJ) as [e0 N0]. exists e0. rewrite calls_app. rewrite nth_error_app1; [exact N0|].
    apply nth_error_Some. congruence.
  - destruct S as [[_ ->]|[_ (evs' & -> & F & X)]]; [destruct pre'; discriminate|].
    destruct pre' as [|v pre'']; cbn [app] in H; inversion H; subst. clear H.
    assert (Hin : In (EExtract e q) (pre'' ++ EExtract e q :: post)) by (apply in_or_app; right; left; reflexivity).
    destruct (X e q Hin) as (_ & CC & _).
    unfold cancelled in CC. rewrite CK in CC.
    replace (s_nextract (visit (inc_inodes st) p)) with (s_nextract st) in CC by (destruct st; reflexivity).
    assert (J1' : (1 <=? j)%nat = true) by (apply Nat.leb_le; exact J1). rewrite J1' in CC. cbn [andb] in CC.
    apply Nat.leb_gt in CC. destruct T as (_ & _ & _ & _ & TX).
    pose proof (about_calls p _ F) as AC.
    rewrite !calls_app in *. cbn [calls] in *. rewrite calls_app in *. cbn [calls] in *.
    rewrite app_length in HJ.
    set (m := (j - 1 - length (calls (s_events st)))%nat).
    assert (ML : (m < length (calls pre'' ++ (e, q) :: calls post))%nat) by (rewrite app_length; cbn [length]; lia).
    rewrite nth_error_app2 by lia. fold m.
    destruct (nth_error (calls pre'' ++ (e, q) :: calls post) m) as [[e0 q0]|] eqn:NE; [|apply nth_error_None in NE; lia].
    assert (Q0 : q0 = p).
    { rewrite Forall_forall in AC. apply (AC (e0, q0)). eapply nth_error_In. exact NE. }
    assert (Q : q = p).
    { rewrite Forall_forall in AC. apply (AC (e, q)). apply in_or_app. right. left. reflexivity. }
    exists e0. congruence.
Qed.

Theorem cancel_extract_lemma c j roots :
  c_cancel c = CancelAtExtract j -> (1 <= j)%nat ->
  forall pre e q post, s_events (rres_state (run c roots)) = pre ++ EExtract e q :: post ->
  (j <= length (calls pre))%nat ->
  exists e0, nth_error (calls (s_events (rres_state (run c roots)))) (j - 1) = Some (e0, q).
Proof.
  intros CK J1.
  assert (H : cancel_extract_inv c j (rres_state (run c roots))).
  { apply run_P.
    - intros st ms [T I]. split; [apply tinv_stack; exact T|]. destruct st; exact I.
    - intros p nd b st. apply cancel_extract_inv_hf; assumption.
    - split; [apply tinv_init|]. intros pre e q post H. destruct pre; discriminate. }
  apply H.
Qed.

(* ------------------------------------------------------------------ the scan fails exactly when work remained *)
Lemma apply_call_inodes c st h : s_inodes (apply_call c st h) = (s_inodes st + 1)%Z.
Proof. unfold apply_call. rewrite apply_events_inodes. destruct st; reflexivity. Qed.

Lemma ext_events_visits c p sz ff : forall es checked, visits (ext_events c p sz ff es checked) = [].
Proof.
  induction es as [|e es IH]; intros checked; [reflexivity|]. cbn [ext_events visits].
  destruct (req c e p sz ff); [|apply IH].
  destruct ((0 <? c_max_size c)%Z && negb checked && (ff_stat ff || (c_max_size c <? sz)%Z)); [reflexivity|].
  rewrite visits_app, IH, app_nil_r. destruct (ff_open ff); [reflexivity|]. destruct (ff_fstat ff); reflexivity.
Qed.

Lemma call_events_visits c h : length (visits (call_events c h)) = 1%nat.
Proof.
  destruct h as [ms p nd b]. cbn [call_events visits length]. f_equal.
  destruct b; [reflexivity|]. destruct nd as [n k sz d ff|n ch df]; [|reflexivity].
  destruct (kind_accepted c k && _); [|reflexivity]. rewrite ext_events_visits. reflexivity.
Qed.

Lemma apply_events_nvisit c evs : forall st, s_nvisit (apply_events c evs st) = (s_nvisit st + length (visits evs))%nat.
Proof.
  induction evs as [|ev evs IH]; intros st; [cbn; lia|]. rewrite apply_events_cons, IH, apply_event_nvisit.
  change (ev :: evs) with ([ev] ++ evs). rewrite visits_app, app_length. lia.
Qed.

Lemma apply_call_nvisit c st h : s_nvisit (apply_call c st h) = S (s_nvisit st).
Proof.
  unfold apply_call. rewrite apply_events_nvisit, call_events_visits.
  replace (s_nvisit (inc_inodes st)) with (s_nvisit st) by (destruct st; reflexivity). lia.
Qed.

Lemma ns_nvisit st : s_nvisit (ns st) = s_nvisit st.
Proof. destruct st; reflexivity. Qed.

(* inode limit, no cancellation: a quiet schedule completes iff the budget suffices, else the limit error *)
Lemma exec_budget_inodes c : c_cancel c = NoCancel -> no_xpanic c -> (0 < c_max_inodes c)%Z -> forall l st,
  forallb (call_quiet c) l = true -> (s_inodes st <= c_max_inodes c)%Z ->
  if (s_inodes st + Z.of_nat (length l) <=? c_max_inodes c)%Z
  then exists st', exec c l st = EDone st' /\ ns st' = ns (run_calls c l st)
  else exists st', exec c l st = EAbort st' AbInodes.
Proof.
  intros NC NP M. induction l as [|[ms p nd b] l IH]; intros st Q B.
  - cbn [length exec]. replace (s_inodes st + Z.of_nat 0)%Z with (s_inodes st) by lia.
    apply Z.leb_le in B. rewrite B. exists st. split; reflexivity.
  - cbn [forallb] in Q. apply andb_true_iff in Q as [Q1 Q2]. cbn [exec].
    assert (SI : s_inodes (inc_inodes (set_stack st ms)) = (s_inodes st + 1)%Z) by (destruct st; reflexivity).
    destruct (s_inodes st + 1 <=? c_max_inodes c)%Z eqn:E1.
    + apply Z.leb_le in E1.
      assert (L : ((0 <? c_max_inodes c)%Z && (c_max_inodes c <? s_inodes (inc_inodes (set_stack st ms)))%Z) = false).
      { rewrite SI. apply andb_false_iff. right. apply Z.ltb_ge. lia. }
      assert (CC : cancelled c (visit (inc_inodes (set_stack st ms)) p) = false) by (unfold cancelled; rewrite NC; reflexivity).
      destruct (handle_file_quiet_gen c ms p nd b st L CC NP Q1) as (st1 & sg & H & SG & N). rewrite H.
      assert (I1 : s_inodes st1 = (s_inodes st + 1)%Z).
      { rewrite <- ns_inodes, N, ns_inodes. apply apply_call_inodes. }
      specialize (IH st1 Q2). rewrite I1 in IH. specialize (IH E1).
      replace (s_inodes st + Z.of_nat (length (HC ms p nd b :: l)))%Z with (s_inodes st + 1 + Z.of_nat (length l))%Z
        by (cbn [length]; lia).
      destruct (s_inodes st + 1 + Z.of_nat (length l) <=? c_max_inodes c)%Z.
      * destruct IH as (st' & X & N'). exists st'. split; [destruct sg; [exact X|exact X|contradiction]|].
        rewrite N'. cbn [run_calls fold_left]. fold (run_calls c l (apply_call c st (HC ms p nd b))).
        rewrite !ns_run_calls, N. reflexivity.
      * destruct IH as (st' & X). exists st'. destruct sg; [exact X|exact X|contradiction].
    + apply Z.leb_gt in E1.
      assert (E2 : (s_inodes st + Z.of_nat (length (HC ms p nd b :: l)) <=? c_max_inodes c)%Z = false).
      { apply Z.leb_gt. cbn [length]. lia. }
      rewrite E2. unfold handle_file, hf_prelude. rewrite SI.
      apply Z.ltb_lt in M. rewrite M. cbn [andb]. assert (X : (c_max_inodes c <? s_inodes st + 1)%Z = true) by (apply Z.ltb_lt; lia).
      rewrite X. eexists. reflexivity.
Qed.

Theorem inode_fail_iff_lemma c t :
  c_cancel c = NoCancel -> c_fatal c = false -> no_xpanic c -> c_paths c = [] -> tree_quiet c t = true ->
  (0 < c_max_inodes c)%Z ->
  ((exists st, fs_result c t = WOk st Continue) <-> (Z.of_nat (visits_needed c t) <= c_max_inodes c)%Z) /\
  ((c_max_inodes c < Z.of_nat (visits_needed c t))%Z -> exists st, fs_result c t = WOk st (Abort AbInodes)).
Proof.
  intros NC F NP P Q M. unfold fs_result, visits_needed. rewrite run_fs_root by exact P.
  destruct (node_stat_fails t).
  - (* the root cannot be stat'ed: one visit *)
    assert (H : exists st, handle_file c [DOT] t true init_state = WOk st Continue).
    { rewrite handle_file_fserr. unfold hf_prelude. cbn [s_inodes inc_inodes init_state].
      assert (L : ((0 <? c_max_inodes c)%Z && (c_max_inodes c <? 0 + 1)%Z) = false) by (apply andb_false_iff; right; apply Z.ltb_ge; lia).
      rewrite L. unfold cancelled. rewrite NC, F. eexists; reflexivity. }
    split; [split; [intros _; cbn; lia|intros _; exact H]|]. intros X. cbn in X. lia.
  - pose proof (quiet_all c _ F (schedule_quiet_or_fserr c t Q [] [DOT])) as QA.
    pose proof (exec_budget_inodes c NC NP M _ init_state QA) as B. cbn [s_inodes init_state] in B.
    specialize (B ltac:(lia)). cbn [Z.add] in B.
    pose proof (walk_node_exec c t [DOT] init_state) as A. cbn [s_stack init_state] in A.
    destruct (Z.of_nat (length (schedule c [] [DOT] t)) <=? c_max_inodes c)%Z eqn:E.
    + apply Z.leb_le in E. destruct B as (st' & X & _). rewrite X in A. cbn [agrees] in A.
      split; [split; [intros _; exact E|intros _; eexists; exact A]|]. intros Y. lia.
    + apply Z.leb_gt in E. destruct B as (st' & X). rewrite X in A. cbn [agrees] in A. split.
      * split; [|intros Y; lia]. intros [st H]. rewrite H in A. destruct A as [ms A]; discriminate.
      * intros _. destruct A as [ms A]. eexists; exact A.
Qed.

(* cancellation by the k-th visit hook, no inode limit *)
Lemma exec_budget_cancel c k : c_cancel c = CancelAtVisit k -> (c_max_inodes c <= 0)%Z -> no_xpanic c -> forall l st,
  forallb (call_quiet c) l = true ->
  if (match l with [] => true | _ => false end) || (s_nvisit st + length l <? k)%nat
  then exists st', exec c l st = EDone st' /\ ns st' = ns (run_calls c l st)
  else exists st', exec c l st = EAbort st' AbCtx.
Proof.
  intros CK NI NP. induction l as [|[ms p nd b] l IH]; intros st Q.
  - cbn [orb]. exists st. split; reflexivity.
  - cbn [forallb] in Q. apply andb_true_iff in Q as [Q1 Q2]. cbn [exec orb].
    assert (L : ((0 <? c_max_inodes c)%Z && (c_max_inodes c <? s_inodes (inc_inodes (set_stack st ms)))%Z) = false).
    { apply andb_false_iff. left. apply Z.ltb_ge. exact NI. }
    assert (NV : s_nvisit (visit (inc_inodes (set_stack st ms)) p) = S (s_nvisit st)) by (destruct st; reflexivity).
    destruct (S (s_nvisit st) <? k)%nat eqn:E1.
    + assert (CC : cancelled c (visit (inc_inodes (set_stack st ms)) p) = false).
      { unfold cancelled. rewrite CK, NV. apply Nat.leb_gt. apply Nat.ltb_lt in E1. exact E1. }
      destruct (handle_file_quiet_gen c ms p nd b st L CC NP Q1) as (st1 & sg & H & SG & N). rewrite H.
      assert (V1 : s_nvisit st1 = S (s_nvisit st)).
      { rewrite <- ns_nvisit, N, ns_nvisit. apply apply_call_nvisit. }
      specialize (IH st1 Q2). rewrite V1 in IH.
      replace (s_nvisit st + length (HC ms p nd b :: l))%nat with (S (s_nvisit st) + length l)%nat by (cbn [length]; lia).
      destruct l as [|h l'].
      * cbn [orb length] in *. replace (S (s_nvisit st) + 0)%nat with (S (s_nvisit st)) by lia. rewrite E1.
        destruct IH as (st' & X & N'). exists st'. split; [destruct sg; [exact X|exact X|contradiction]|].
        rewrite N'. cbn [run_calls fold_left]. rewrite N. reflexivity.
      * cbn [orb] in IH. destruct (S (s_nvisit st) + length (h :: l') <? k)%nat.
        -- destruct IH as (st' & X & N'). exists st'. split; [destruct sg; [exact X|exact X|contradiction]|].
           rewrite N'. change (run_calls c (HC ms p nd b :: h :: l') st) with (run_calls c (h :: l') (apply_call c st (HC ms p nd b))).
           rewrite !ns_run_calls, N. reflexivity.
        -- destruct IH as (st' & X). exists st'. destruct sg; [exact X|exact X|contradiction].
    + assert (E2 : (s_nvisit st + length (HC ms p nd b :: l) <? k)%nat = false).
      { apply Nat.ltb_ge. apply Nat.ltb_ge in E1. cbn [length]. lia. }
      rewrite E2. unfold handle_file, hf_prelude. rewrite L.
      assert (CC : cancelled c (visit (inc_inodes (set_stack st ms)) p) = true).
      { unfold cancelled. rewrite CK, NV. apply Nat.leb_le. apply Nat.ltb_ge in E1. exact E1. }
      rewrite CC. eexists. reflexivity.
Qed.

Lemma schedule_nonempty c ms p nd : schedule c ms p nd <> [].
Proof. destruct nd; [cbn; discriminate|rewrite schedule_dir; discriminate]. Qed.

Theorem cancel_reports_failure_lemma c k t :
  c_cancel c = CancelAtVisit k -> (c_max_inodes c <= 0)%Z -> c_fatal c = false -> no_xpanic c -> c_paths c = [] ->
  tree_quiet c t = true ->
  ((exists st, fs_result c t = WOk st Continue) <-> (visits_needed c t < k)%nat) /\
  ((k <= visits_needed c t)%nat -> exists st, fs_result c t = WOk st (Abort AbCtx)).
Proof.
  intros CK NI F NP P Q. unfold fs_result, visits_needed. rewrite run_fs_root by exact P.
  destruct (node_stat_fails t).
  - rewrite handle_file_fserr. unfold hf_prelude.
    assert (L : ((0 <? c_max_inodes c)%Z && (c_max_inodes c <? s_inodes (inc_inodes init_state))%Z) = false).
    { apply andb_false_iff. left. apply Z.ltb_ge. exact NI. }
    rewrite L. unfold cancelled. rewrite CK, F. cbn [s_nvisit visit inc_inodes init_state].
    destruct (k <=? 1)%nat eqn:E.
    + apply Nat.leb_le in E. split; [split; [intros [st H]; discriminate|intros X; lia]|]. intros _. eexists; reflexivity.
    + apply Nat.leb_gt in E. split; [split; [intros _; exact E|intros _; eexists; reflexivity]|]. intros X. lia.
  - pose proof (quiet_all c _ F (schedule_quiet_or_fserr c t Q [] [DOT])) as QA.
    pose proof (exec_budget_cancel c k CK NI NP _ init_state QA) as B. cbn [s_nvisit init_state Nat.add] in B.
    pose proof (walk_node_exec c t [DOT] init_state) as A. cbn [s_stack init_state] in A.
    pose proof (schedule_nonempty c [] [DOT] t) as NE.
    destruct (schedule c [] [DOT] t) as [|h l] eqn:ES; [contradiction|]. cbn [orb] in B.
    destruct (length (h :: l) <? k)%nat eqn:E.
    + apply Nat.ltb_lt in E. destruct B as (st' & X & _). rewrite X in A. cbn [agrees] in A.
      split; [split; [intros _; exact E|intros _; eexists; exact A]|]. intros Y. lia.
    + apply Nat.ltb_ge in E. destruct B as (st' & X). rewrite X in A. cbn [agrees] in A. split.
      * split; [|intros Y; lia]. intros [st H]. rewrite H in A. destruct A as [ms A]; discriminate.
      * intros _. destruct A as [ms A]. eexists; exact A.
Qed.

